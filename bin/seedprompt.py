#!/usr/bin/env python3
"""prints the prompt for a seeded-breakage sub-agent: only the property text and its scratch copy"""
import json, sys
pid = sys.argv[1]
n = sys.argv[2] if len(sys.argv) > 2 else "two"
p = [json.loads(l) for l in open('/verif/properties.jsonl') if json.loads(l)['id'] == pid][0]
d = "/tmp/seed_" + pid
print(f"""You are given your own private, fully built copy of the Upipe source tree (a C dataflow framework for broadcast multimedia) at {d}. It is a git repository; the library is built in place with autotools: `make -j8` in {d} rebuilds after an edit, `make -C tests -j8 check` runs the existing test suite (82 tests pass; tests/upipe_m3u_reader_test.sh always fails, ignore it). Work ONLY inside {d} (never read or write /repo or /verif or other /tmp/seed_* directories).

Here is a semantic property of the library that is supposed to hold:

  Title: {p['title']}
  Statement: {p['statement']}
  It must hold for: {p['quantifier']['text']}
  Code it is anchored in: {', '.join(p['anchors']['files'])}

Your task: produce {n} DIFFERENT realistic change(s) to the library sources (not to the tests, not to build files) each of which BREAKS this property while (1) the tree still compiles without new warnings-as-errors, and (2) the WHOLE existing test suite still passes (82 passes, same as before). Each change must need something specific in order to manifest — a particular interleaving, a crash or fault at a particular point, a multi-step sequence of operations, an unusual input / size / configuration, or two cooperating sites that each look fine alone — NOT something that ordinary use would expose at once. Think of regressions a maintainer could plausibly introduce: a refactoring slip, an off-by-one on a boundary, a lost update of a cached field, a missing check on an error path, a wrong condition that only matters in a rare state, a reordering of two statements. Keep each change small (a few lines). The changes should break different parts / mechanisms of the property if possible.

For each change k (1, 2, ...), deliver under {d}/OUT/k/:
  - patch.diff   (`git diff` of the change against the pristine tree; it must apply with `git apply` to the pristine tree)
  - demo/        a small demonstration: a C program (or test) plus `run.sh` such that `sh OUT/k/demo/run.sh {d}` builds the demo against the tree as it currently is (headers in {d}/include, libraries in {d}/lib/*/.libs — look at how tests/Makefile links the tests, or compile the needed .c files directly) and exits 0 when the property holds and non-zero when it is violated. It must exit 0 on the pristine tree and non-zero with your change applied (after `make -j8`).
  - meta.txt     which part of the property the change breaks, what exactly is needed for it to manifest (the sequence / input / schedule), and what you ran to verify (test-suite result with the change, demo result with and without).
Verify all of it yourself: with the change applied run `make -j8 && make -C tests -j8 check` and confirm 82 PASS; run the demo with and without the change. When you are done, leave the working tree PRISTINE (`git checkout -- .` and `make -j8`), with only the untracked OUT/ directory added.

Your final message: for each change, one paragraph (file/function changed, what breaks, what is needed to manifest, verification results).""")

#!/usr/bin/env python3
"""bin/mkmutant.py <scratch> <name> <path> <old> <new>: make mutants/<name>.patch by one textual replacement in a scratch worktree (then reverted)."""
import subprocess, sys
scr, name, path, old, new = sys.argv[1:6]
s = open(scr + '/' + path).read()
if s.count(old) < 1:
    sys.exit("pattern not found for " + name)
open(scr + '/' + path, 'w').write(s.replace(old, new, 1))
d = subprocess.run(['git', '-C', scr, 'diff'], stdout=subprocess.PIPE).stdout.decode()
open('/verif/mutants/%s.patch' % name, 'w').write(d)
subprocess.run(['git', '-C', scr, 'checkout', '--', '.'])
print(name, len(d))

/* Pipe-level executor for the pipes of lib/upipe-modules that HOLD input (upipe_helper_input.h or own lists)
 * and/or depend on asynchronous things (timers, clock, late answers to requests).  Companion of pipes_core.c:
 * compiled once per property with -DPIPES_PROP=1|4|5|20, same generator, four oracle sets.
 *
 * What is new compared with pipes_core.c:
 *  - buffers are input through real SOURCE PUMPS of the harness-owned loop (fd-read pumps the harness fires by
 *    hand), so a holding pipe takes upump_blockers on them;
 *  - the sinks are "gates": pipes of this file that behave like real sinks built on upipe_helper_input (they take
 *    every buffer, keep it and block the pump it came from while closed, re-open for k buffers or for good) and
 *    forward to a pfx recording sink, which also answers or keeps (PFX_REQ_HOLD) the requests;
 *  - the fake clock is advanced and the loop stepped one callback at a time by tape operations;
 *  - every uref handed to the pipe is tracked by POINTER: the uref manager's free entry is wrapped, so at any
 *    moment each buffer is exactly one of delivered / still held / freed.
 */
#include "vp.h"
#include "tape.h"
#include "pipefix.h"
#include "upipe/uclock.h"
#include "upipe/uref_clock.h"
#include "upipe/uref_block_flow.h"
#include "upipe/uref_sound.h"
#include "upipe/uref_sound_flow.h"
#include "upipe/ubuf_mem.h"
#include "upipe/ubuf_sound.h"
#include "upipe/udict.h"
#include "upipe/upump_blocker.h"
#include "upipe-modules/upipe_time_limit.h"
#include "upipe-modules/upipe_rate_limit.h"
#include "upipe-modules/upipe_buffer.h"
#include "upipe-modules/upipe_discard_blocking.h"
#include "upipe-modules/upipe_burst.h"
#include "upipe-modules/upipe_convert_to_block.h"
#include "upipe-modules/upipe_genaux.h"
#include "upipe-modules/upipe_trickplay.h"
#include "upipe-modules/upipe_even.h"
#include "upipe-modules/upipe_audio_copy.h"
#include <stdlib.h>
#include <stdio.h>
#include <limits.h>

#ifndef PIPES_PROP
#define PIPES_PROP 5
#endif
#if PIPES_PROP == 1
#define PID "C01"
#elif PIPES_PROP == 4
#define PID "C04"
#elif PIPES_PROP == 5
#define PID "C05"
#elif PIPES_PROP == 13
/* C13 (upipe_helper_input.h is among its anchors): only what the property says about blockers -- releasing the last blocker resumes
 * the pump: a source pump is not left suspended by a pipe that holds nothing any more (drained, flushed) or is dead */
#define PID "C13"
#else
#define PID "C20"
#endif
#define ORACLE_BLOCK (PIPES_PROP == 1 || PIPES_PROP == 13)
#define ORACLE_LIFE  (PIPES_PROP == 1)
#define ORACLE_PROTO (PIPES_PROP == 4)
#define ORACLE_DATA  (PIPES_PROP == 5)
#define ORACLE_OPTS  (PIPES_PROP == 20)

#define MAXPORT 3
#define MAXGATE 4
#define MAXSRC 2
#define MAXTRK 80
#define MAXOPS 48
#define MAXLODGED 16

enum { T_TIME_LIMIT, T_BUFFER, T_TBLK, T_RATE_LIMIT, T_DISBLO, T_GENAUX, T_TRICKP, T_EVEN, T_BURST, T_AUDIO_COPY, T_NTYPES };

struct htype {
    const char *name;
    struct upipe_mgr *(*mgr)(void);
    bool super;         /* the inputs are sub-pipes */
    bool inband;        /* set_flow_def is queued behind the held buffers (documented in the pipe: "forwards a new input flow format inband") */
    bool selfref;       /* keeps a reference on itself while it holds input ("avoid disappearing before all packets have been sent") */
    bool regroup;       /* outputs other urefs than it received */
    bool strict;        /* documented to refuse a flow definition of another kind */
};
static const struct htype zoo[T_NTYPES] = {
    [T_TIME_LIMIT] = { "time_limit", upipe_time_limit_mgr_alloc, false, false, true,  false, false },
    [T_BUFFER]     = { "buffer",     upipe_buffer_mgr_alloc,     false, false, false, false, true  },
    [T_TBLK]       = { "convert_to_block", upipe_tblk_mgr_alloc, false, true,  true,  false, true  },
    [T_RATE_LIMIT] = { "rate_limit", upipe_rate_limit_mgr_alloc, false, false, false, false, false },
    [T_DISBLO]     = { "discard_blocking", upipe_disblo_mgr_alloc, false, false, false, false, false },
    [T_GENAUX]     = { "genaux",     upipe_genaux_mgr_alloc,     false, true,  true,  false, false },
    [T_TRICKP]     = { "trickplay",  upipe_trickp_mgr_alloc,     true,  false, false, false, false },
    [T_EVEN]       = { "even",       upipe_even_mgr_alloc,       true,  false, true,  false, false },
    [T_BURST]      = { "burst",      upipe_burst_mgr_alloc,      false, false, false, false, true  },
    [T_AUDIO_COPY] = { "audio_copy", upipe_audio_copy_mgr_alloc, false, true,  true,  true,  true  },
};

enum { CL_BLOCKED_SRC, CL_PARTIAL_DRAIN, CL_REQ_LATE_HELD, CL_FLOWDEF_WHILE_HELD, CL_RELEASED_HOLDING, CL_FLUSHED_HOLDING,
       CL_SETOUT_HOLDING, CL_SRC_FREED_BLOCKED, CL_SRC_FREED_AFTER_PIPE, CL_SUBCHURN, CL_LAST_SUB_LEAVES, CL_REJECT, CL_TIMER_FIRED,
       CL_HELD2, CL_DELIVERED4, CL_OPT_REJECTED, CL_OPT_GET_AFTER_SET, CL_POOL, CL_ZOMBIE_DRAINED, CL_GATE_HELD, CL_DROPPED_LEGIT,
       CL_INPUT_VIA_PUMP, CL_REQ_PENDING, CL_TYPE0 };
static const char *const class_names[] = {
    "blocked_source_pump", "partial_drain_with_ge2_held", "request_answered_late_with_buffers_held", "flow_def_changed_while_buffers_held",
    "released_while_holding", "flushed_while_holding", "set_output_while_holding", "source_pump_freed_while_blocked",
    "source_pump_freed_after_blocking_pipe_died", "subpipe_churn", "subpipe_leaves_while_others_wait", "sink_rejected_flow_def", "timer_fired",
    "held_ge_2", "delivered_ge_4", "option_set_rejected", "option_get_after_set_then_data", "pool_depth_gt0", "self_referencing_pipe_drained_after_release",
    "sink_held_buffers", "buffer_dropped_as_documented", "input_through_source_pump", "request_left_pending",
    "type:time_limit", "type:buffer", "type:convert_to_block", "type:rate_limit", "type:discard_blocking", "type:genaux", "type:trickplay",
    "type:even", "type:burst", "type:audio_copy", NULL };

/* one uref handed to the pipe under test */
struct trk {
    struct uref *ptr;
    uint64_t seq;
    int port, gen;
    int fdv;                /* variant of the flow definition that was current when it was input */
    bool delivered, freed;
    bool dated;             /* carries the date its pipe type looks at */
    uint64_t date;          /* that date */
    uint64_t sig, phash;    /* signature / payload hash at input */
    int opno;               /* operation that input it */
    uint32_t s0, ns;        /* audio_copy: first global sample index, number of samples */
};

struct gate {
    struct upipe upipe;
    struct urefcount urefcount;
    int id;
    bool live;
    struct upipe *rec;      /* pfx recording sink behind the gate (records, answers or keeps requests, accepts or rejects definitions) */
    int recid;
    int budget;             /* how many more buffers it takes before closing (-1: open) */
    struct uchain held;
    int nheld;
    struct uchain blockers;
    int port;               /* the port currently connected to it (-1: none) */
    int last_answer;        /* since it was connected: 0 no definition yet, 1 accepted, 2 rejected */
    int fdv;                /* x.fdv of the definition it last accepted */
    unsigned inputs;
    bool req_hold;          /* requests are kept unanswered (answered later by a tape operation) instead of answered at once */
    int nlodged;
    struct urequest *lodged[MAXLODGED];     /* pointers only: a request's uchain belongs to the upstream pipe */
};

struct port {
    struct upipe *upipe;
    int probe;
    bool exists;            /* allocated (current incarnation) */
    bool held;              /* the application still holds its reference */
    bool died;              /* model: DEAD seen */
    int gen;
    bool has_def;
    int defv;
    int kind;               /* sub-pipes: kind of flow (0 pic, 1 sound, 2 subpic, 3 other) */
    int gate;               /* gate it outputs to, -1 none */
    uint64_t last_date;
    uint64_t last_seq;
    bool any_delivered;
    int ndelivered, deliv_mark;
    uint64_t opt[3];        /* option model: last accepted values */
    bool resized_holding;   /* buffer: max_size was changed while input was held (the pipe looks at held input again only on the next input) */
    uint32_t ac_next;       /* audio_copy: next expected global sample index, epoch of the last frame */
    int ac_epoch;
    bool ac_any;
};

struct ctx {
    struct tape t;
    struct vp_report *rep;
    bool render, no_exclude;
    struct pfx pfx;
    int type;
    struct upipe *super;    /* super-pipe (trickplay, even) */
    int super_probe;
    bool super_held;
    struct urational rate;  /* trickplay: model of the rate */
    int nport;              /* 1 for plain types, MAXPORT slots for super types */
    struct port port[MAXPORT];
    struct gate gate[MAXGATE];
    struct upump *src[MAXSRC];
    struct uref *slot_uref; /* what the source pump's callback will input */
    struct upipe *slot_pipe;
    struct ubuf_mgr *sound_mgr;
    struct trk trk[MAXTRK];
    int ntrk;
    uint64_t next_seq;
    uint32_t next_sample;
    int ac_samples;         /* audio_copy: configured output size */
    int opno;
    int teardown_port;      /* port being released / flushed by the current operation (-1 none, -2 all) */
    int ret;
    uint64_t hash;
    uint64_t classes;
    int ev_mark, rec_mark;
    bool any_data, got_after_set, skip_getters;
    int force_pool;
    uint64_t trace;
    int delivered;
    bool pipe_died_before_src_free, pipe_blocked_once;
    int dispatched;         /* callbacks of the loop dispatched by the current operation */
};

static struct ctx ctx;
static void (*real_uref_free)(struct uref *);

#define R(...) do { if (c->render) vp_render(c->rep, __VA_ARGS__); } while (0)
#define FAILP(on, key, ...) do { if ((on) && !c->ret) c->ret = vp_fail(c->rep, PID "/" key, __VA_ARGS__); } while (0)

/* ---------------------------------------------------------------- pooled structures are poisoned while in a pool (C01), as in pipes_core.c */
#if PIPES_PROP == 1
#include "upipe/uverif.h"
#include <sanitizer/asan_interface.h>
#include <sanitizer/allocator_interface.h>
static void *pool_pending;
static void pool_track_reset(void) { pool_pending = NULL; }
void upipe_verif_pool(int op, void *pool, void *obj)
{
    switch (op) {
    case UVERIF_POOL_FREE: pool_pending = obj; break;
    case UVERIF_LIFO_PUSHED:
        if (obj == pool_pending && __sanitizer_get_ownership(obj))
            __asan_poison_memory_region(obj, __sanitizer_get_allocated_size(obj));
        pool_pending = NULL;
        break;
    case UVERIF_LIFO_POPPED:
        if (obj != NULL && __sanitizer_get_ownership(obj))
            __asan_unpoison_memory_region(obj, __sanitizer_get_allocated_size(obj));
        break;
    }
}
#endif

/* ---------------------------------------------------------------- small helpers */

static const char *pname(struct ctx *c, int p)
{
    static char b[4][40]; static int k;
    char *s = b[k++ & 3];
    if (zoo[c->type].super) snprintf(s, 40, "%s.sub%d", zoo[c->type].name, p);
    else snprintf(s, 40, "%s", zoo[c->type].name);
    return s;
}

static bool probe_dead(struct ctx *c, int probe)
{
    /* each probe instance of this harness serves one pipe: it is dead once any incarnation seen by the probe threw DEAD */
    struct pfx_probe *pr = pfx_probe(&c->pfx, probe);
    for (int k = 0; pr && k < pr->ntracks; k++) if (pr->tracks[k].dead) return true;
    return false;
}

static struct trk *trk_find(struct ctx *c, struct uref *ptr)
{
    for (int i = c->ntrk - 1; i >= 0; i--)
        if (c->trk[i].ptr == ptr && !c->trk[i].freed) return &c->trk[i];
    return NULL;
}

static int npending(struct ctx *c, int p)
{
    int n = 0;
    for (int i = 0; i < c->ntrk; i++)
        if (c->trk[i].port == p && c->trk[i].gen == c->port[p].gen && !c->trk[i].delivered && !c->trk[i].freed) n++;
    return n;
}
static int npending_old(struct ctx *c, int p)     /* pending buffers that were input by an earlier operation */
{
    int n = 0;
    for (int i = 0; i < c->ntrk; i++)
        if (c->trk[i].port == p && c->trk[i].gen == c->port[p].gen && !c->trk[i].delivered && !c->trk[i].freed && c->trk[i].opno < c->opno) n++;
    return n;
}
static int npending_all(struct ctx *c)
{
    int n = 0;
    for (int p = 0; p < c->nport; p++) if (c->port[p].exists) n += npending(c, p);
    return n;
}

static int uref_fdv(struct uref *flow_def)
{
    uint64_t v = 99;
    if (flow_def == NULL || !ubase_check(uref_attr_get_unsigned(flow_def, &v, UDICT_TYPE_UNSIGNED, "x.fdv"))) return -1;
    return (int)v;
}

/* ---------------------------------------------------------------- the wrapped uref_free: exact fate of every tracked buffer */

/* Is the pipe allowed to free (drop) this buffer now instead of delivering it?
 * C05: "forwarded, kept for later or freed"; for the pipes that are documented to keep everything (time_limit,
 * rate_limit, buffer, burst, convert_to_block) a free is legitimate only when the pipe is flushed / destroyed, or when
 * it has nowhere to send it (no output: upipe_helper_output frees; the sink refused the flow definition: "invalid
 * output, dropping uref").  The other types document drops: discard_blocking ("discarding input uref when the output
 * pipe is blocking"), even ("evening the start and end": early, late and non-dated buffers), trickplay (non-dated
 * buffers while starting), genaux (buffers without the date it converts), audio_copy (consumes its input). */
static bool drop_allowed(struct ctx *c, struct trk *t)
{
    struct port *P = &c->port[t->port];
    if (t->gen != P->gen) return true;
    if (c->teardown_port == t->port || c->teardown_port == -2) return true;
    if (probe_dead(c, P->probe)) return true;           /* destruction: "whatever is still held is freed ... when the pipe is finally destroyed" */
    if (P->gate < 0) return true;
    if (c->gate[P->gate].last_answer == 2) return true;
    switch (c->type) {
    case T_DISBLO: case T_EVEN: case T_AUDIO_COPY: return true;
    case T_TRICKP: case T_GENAUX: return !t->dated;
    default: return false;
    }
}

static void hook_uref_free(struct uref *uref)
{
    struct ctx *c = &ctx;
    struct trk *t = trk_find(c, uref);
    if (t != NULL) {
        t->freed = true;
        if (!t->delivered) {
            if (!drop_allowed(c, t))
                FAILP(ORACLE_DATA, "delivery/lost", "op %d: %s freed buffer seq=%llu (input by op %d) instead of delivering it: it is not being flushed or destroyed, it has an output whose last answer was an acceptance, and nothing documents a drop",
                      c->opno, pname(c, t->port), (unsigned long long)t->seq, t->opno);
            else c->classes |= 1ull << CL_DROPPED_LEGIT;
        }
    }
    real_uref_free(uref);
}

/* ---------------------------------------------------------------- gates (blocking sinks) */

static void gate_blocker_cb(struct upump_blocker *blocker)
{
    /* the blocked pump is being freed by its owner */
    ulist_delete(upump_blocker_to_uchain(blocker));
    upump_blocker_free(blocker);
}

static void judge_audio_frame(struct ctx *c, struct gate *g, struct port *P, struct uref *uref);

/* every oracle about a delivery is evaluated here, at the moment the upstream pipe hands the buffer to its output */
static void judge_delivery(struct ctx *c, struct gate *g, struct uref *uref)
{
    c->delivered++;
    struct trk *t = trk_find(c, uref);
    uint64_t useq = pfx_uref_seq(uref);
    c->trace = vp_hash_mix(vp_hash_mix(c->trace, 0x1000 + g->id * 64 + c->opno), t ? t->seq : useq);
    R("      gate%d <- buffer seq=%lld%s%s\n", g->id, (long long)useq, t ? "" : " (not one of the input urefs)", (g->nheld || g->budget == 0) ? "  [kept by the closed sink]" : "");
    if (g->port < 0) {
        FAILP(ORACLE_LIFE || ORACLE_PROTO, "output/stale", "op %d: a sink that is no longer the output of any pipe received buffer seq=%lld", c->opno, (long long)useq);
        return;
    }
    struct port *P = &c->port[g->port];
    if (probe_dead(c, P->probe))
        FAILP(ORACLE_PROTO, "dead/touches-output", "op %d: %s sent buffer seq=%lld to its output after throwing DEAD", c->opno, pname(c, g->port), (long long)useq);
    /* C04: a definition the sink accepted precedes the buffer since the sink was connected; nothing while its last answer is a rejection */
    if (g->last_answer == 2) FAILP(ORACLE_PROTO, "flowdef/rejected", "op %d: the sink of %s received buffer seq=%lld although it rejected the last flow definition", c->opno, pname(c, g->port), (long long)useq);
    else if (g->last_answer == 0) FAILP(ORACLE_PROTO, "flowdef/missing", "op %d: the sink of %s received buffer seq=%lld before any flow definition since it was connected", c->opno, pname(c, g->port), (long long)useq);
    if (t == NULL) {
        if (zoo[c->type].regroup) { judge_audio_frame(c, g, P, uref); P->ndelivered++; return; }
        for (int i = 0; i < c->ntrk; i++)
            if (c->trk[i].seq == useq && c->trk[i].delivered) {
                FAILP(ORACLE_DATA, "delivery/duplicate", "op %d: buffer seq=%lld was delivered a second time (as another uref)", c->opno, (long long)useq);
                return;
            }
        FAILP(ORACLE_DATA, "delivery/unknown", "op %d: %s delivered a uref (seq=%lld) that is none of the urefs it was given", c->opno, pname(c, g->port), (long long)useq);
        return;
    }
    if (t->delivered) { FAILP(ORACLE_DATA, "delivery/duplicate", "op %d: buffer seq=%llu was delivered twice", c->opno, (unsigned long long)t->seq); return; }
    t->delivered = true;
    if (t->port != g->port || t->gen != P->gen) {
        FAILP(ORACLE_DATA, "delivery/wrong-output", "op %d: buffer seq=%llu input to %s came out at the sink of %s", c->opno, (unsigned long long)t->seq, pname(c, t->port), pname(c, g->port));
        return;
    }
    /* C04: the definition the sink holds is the one that was current when the buffer was input */
    if (g->last_answer == 1 && g->fdv != t->fdv)
        FAILP(ORACLE_PROTO, "flowdef/stale", "op %d: buffer seq=%llu was input to %s under flow definition v%d but is delivered while the sink's accepted definition is v%d", c->opno, (unsigned long long)t->seq, pname(c, g->port), t->fdv, g->fdv);
    /* C05: held buffers come out first and in arrival order (all these pipes are FIFO per input) */
    for (int i = 0; i < c->ntrk; i++) {
        struct trk *u = &c->trk[i];
        if (u != t && u->port == t->port && u->gen == t->gen && !u->delivered && !u->freed && u->seq < t->seq) {
            FAILP(ORACLE_DATA, "order/overtaken", "op %d: %s delivered buffer seq=%llu while it still holds the earlier buffer seq=%llu", c->opno, pname(c, g->port), (unsigned long long)t->seq, (unsigned long long)u->seq);
            break;
        }
    }
    if (P->any_delivered && t->seq < P->last_seq)
        FAILP(ORACLE_DATA, "order/reordered", "op %d: %s delivered buffer seq=%llu after seq=%llu", c->opno, pname(c, g->port), (unsigned long long)t->seq, (unsigned long long)P->last_seq);
    P->any_delivered = true; P->last_seq = t->seq; P->ndelivered++;
    /* C05: content.  time_limit, rate_limit, buffer, burst, discard_blocking, even, convert_to_block (block input) document no change;
     * trickplay restamps (rate attribute, system date): payload only; genaux: payload = network-endian date. */
    if (c->type == T_GENAUX) {
        uint8_t b[8]; size_t sz = 0;
        if (!ubase_check(uref_block_size(uref, &sz)) || sz != 8 || !ubase_check(uref_block_extract(uref, 0, 8, b)))
            FAILP(ORACLE_DATA, "content/payload", "op %d: genaux output for seq=%llu is not an 8-octet block", c->opno, (unsigned long long)t->seq);
        else if (upipe_genaux_ntoh64(b) != t->date + (P->opt[0] == 1 ? 7 : 0))   /* the getattr in force when the buffer is converted */
            FAILP(ORACLE_DATA, "content/payload", "op %d: genaux output for seq=%llu carries %llu, the date of the buffer is %llu", c->opno, (unsigned long long)t->seq, (unsigned long long)upipe_genaux_ntoh64(b), (unsigned long long)(t->date + (P->opt[0] == 1 ? 7 : 0)));
    } else if (c->type == T_TBLK && t->ns) {
        /* documented: "converting sound and pic ubuf to block": the block holds the octets of the (single) plane */
        static uint8_t b[16 * 4]; size_t sz = 0;
        if (!ubase_check(uref_block_size(uref, &sz)) || sz != 4 * (size_t)t->ns || !ubase_check(uref_block_extract(uref, 0, sz, b)))
            FAILP(ORACLE_DATA, "content/payload", "op %d: convert_to_block output for the %u-sample sound buffer seq=%llu is not a block of %u octets", c->opno, t->ns, (unsigned long long)t->seq, 4 * t->ns);
        else for (uint32_t i = 0; i < t->ns; i++) {
            uint32_t v = b[4 * i] | b[4 * i + 1] << 8 | b[4 * i + 2] << 16 | (uint32_t)b[4 * i + 3] << 24;
            if (v != t->s0 + i) { FAILP(ORACLE_DATA, "content/payload", "op %d: convert_to_block output for seq=%llu: sample %u reads %u, input was %u", c->opno, (unsigned long long)t->seq, i, v, t->s0 + i); break; }
        }
    } else if (c->type == T_TRICKP) {
        size_t sz; if (pfx_payload_hash(uref, &sz) != t->phash) FAILP(ORACLE_DATA, "content/payload", "op %d: payload of seq=%llu changed", c->opno, (unsigned long long)t->seq);
    } else if (!zoo[c->type].regroup) {
        if (pfx_uref_sig(uref) != t->sig) FAILP(ORACLE_DATA, "content/changed", "op %d: %s changed buffer seq=%llu (payload, dates, flags or attributes differ from what was input)", c->opno, pname(c, g->port), (unsigned long long)t->seq);
    } else {
        judge_audio_frame(c, g, P, uref);
    }
}

static void gate_input(struct upipe *upipe, struct uref *uref, struct upump **upump_p)
{
    struct ctx *c = &ctx;
    struct gate *g = container_of(upipe, struct gate, upipe);
    g->inputs++;
    judge_delivery(c, g, uref);
    uref->priv = 0x5eed;        /* the sink owns it */
    if (g->nheld == 0 && g->budget != 0) {
        if (g->budget > 0) g->budget--;
        upipe_input(g->rec, uref, upump_p);
        return;
    }
    /* closed: like a sink built on upipe_helper_input with max_urefs 0, keep the buffer and block the pump it came from */
    ulist_add(&g->held, uref_to_uchain(uref));
    g->nheld++;
    c->classes |= 1ull << CL_GATE_HELD;
    if (upump_p != NULL && *upump_p != NULL && upump_blocker_find(&g->blockers, *upump_p) == NULL) {
        struct upump_blocker *b = upump_blocker_alloc(*upump_p, gate_blocker_cb, g);
        if (b) ulist_add(&g->blockers, upump_blocker_to_uchain(b));
    }
}

static void gate_open(struct ctx *c, struct gate *g, int k)
{
    g->budget = k;
    struct uchain *uchain;
    while (g->nheld && g->budget != 0 && (uchain = ulist_pop(&g->held)) != NULL) {
        g->nheld--;
        if (g->budget > 0) g->budget--;
        upipe_input(g->rec, uref_from_uchain(uchain), NULL);
    }
    if (g->nheld == 0) {
        struct uchain *tmp;
        ulist_delete_foreach (&g->blockers, uchain, tmp) {
            ulist_delete(uchain);
            upump_blocker_free(upump_blocker_from_uchain(uchain));
        }
    }
}

static int gate_control(struct upipe *upipe, int command, va_list args)
{
    struct ctx *c = &ctx;
    struct gate *g = container_of(upipe, struct gate, upipe);
    switch (command) {
    case UPIPE_SET_FLOW_DEF: {
        struct uref *flow_def = va_arg(args, struct uref *);
        int err = upipe_set_flow_def(g->rec, flow_def);
        g->last_answer = ubase_check(err) ? 1 : 2;
        if (ubase_check(err)) g->fdv = uref_fdv(flow_def);
        else c->classes |= 1ull << CL_REJECT;
        c->trace = vp_hash_mix(vp_hash_mix(c->trace, 0x2000 + g->id * 64 + c->opno), pfx_uref_sig(flow_def) * 2 + ubase_check(err));
        R("      gate%d <- set_flow_def(v%d) -> %s\n", g->id, uref_fdv(flow_def), ubase_check(err) ? "accepted" : "REJECTED");
        if (g->port >= 0 && probe_dead(c, c->port[g->port].probe))
            FAILP(ORACLE_PROTO, "dead/touches-output", "op %d: %s sent a flow definition to its output after throwing DEAD", c->opno, pname(c, g->port));
        if (ubase_check(err) && g->fdv < 0 && !c->ret) c->ret = vp_internal(c->rep, "flow definition without x.fdv reached a sink");
        return err;
    }
    case UPIPE_REGISTER_REQUEST: {
        struct urequest *request = va_arg(args, struct urequest *);
        R("      gate%d <- register_request(type %d)%s\n", g->id, request->type, g->req_hold ? "  [kept unanswered]" : "");
        if (g->req_hold) {
            if (g->nlodged < MAXLODGED) g->lodged[g->nlodged++] = request;
            else if (!c->ret) c->ret = vp_internal(c->rep, "too many lodged requests");
            return UBASE_ERR_NONE;
        }
        return upipe_throw_provide_request(upipe, request);     /* answered by the service probes, as every real sink does */
    }
    case UPIPE_UNREGISTER_REQUEST: {
        struct urequest *request = va_arg(args, struct urequest *);
        for (int i = 0; i < g->nlodged; i++)
            if (g->lodged[i] == request) { for (; i + 1 < g->nlodged; i++) g->lodged[i] = g->lodged[i + 1]; g->nlodged--; break; }
        return UBASE_ERR_NONE;
    }
    default:
        return UBASE_ERR_UNHANDLED;
    }
}

static void gate_free(struct urefcount *urefcount)
{
    struct gate *g = container_of(urefcount, struct gate, urefcount);
    upipe_throw_dead(&g->upipe);
    struct uchain *uchain, *tmp;
    while ((uchain = ulist_pop(&g->held)) != NULL) uref_free(uref_from_uchain(uchain));
    ulist_delete_foreach (&g->blockers, uchain, tmp) { ulist_delete(uchain); upump_blocker_free(upump_blocker_from_uchain(uchain)); }
    upipe_release(g->rec);
    g->live = false;
    upipe_clean(&g->upipe);
    urefcount_clean(urefcount);
}

static struct upipe_mgr gate_mgr = {
    .refcount = NULL, .signature = UBASE_FOURCC('g','a','t','e'),
    .upipe_input = gate_input, .upipe_control = gate_control,
};

static void gate_init(struct ctx *c, int i)
{
    struct gate *g = &c->gate[i];
    memset(g, 0, sizeof(*g));
    g->id = i; g->live = true; g->budget = -1; g->port = -1;
    ulist_init(&g->held); ulist_init(&g->blockers);
    g->rec = pfx_sink_alloc(&c->pfx, &g->recid);
    int pid;
    upipe_init(&g->upipe, &gate_mgr, pfx_probe_alloc(&c->pfx, &pid));
    urefcount_init(&g->urefcount, gate_free);
    g->upipe.refcount = &g->urefcount;
    upipe_throw_ready(&g->upipe);
}

static int gate_blocks(struct gate *g, struct upump *upump) { return g->live && upump_blocker_find(&g->blockers, upump) != NULL; }

/* ---------------------------------------------------------------- audio_copy: regrouping oracle
 * documented: "output fixed size sound buffers".  Every input sample carries its global index; an output frame must
 * have the configured size and be a run of consecutive input samples that continues where the previous frame ended;
 * a gap is legitimate only where the flow definition changed (the pipe drops what it retained: "delete retained buffer"). */
static struct trk *trk_of_sample(struct ctx *c, uint32_t idx)
{
    for (int i = 0; i < c->ntrk; i++) if (idx >= c->trk[i].s0 && idx < c->trk[i].s0 + c->trk[i].ns) return &c->trk[i];
    return NULL;
}
static void judge_audio_frame(struct ctx *c, struct gate *g, struct port *P, struct uref *uref)
{
    size_t n = 0; uint8_t ss = 0; const uint8_t *r;
    if (!ubase_check(uref_sound_size(uref, &n, &ss)) || ss != 4) { FAILP(ORACLE_DATA, "content/frame", "op %d: audio_copy output is not a sound buffer of 4-octet samples", c->opno); return; }
    if ((int)n != c->ac_samples) { FAILP(ORACLE_DATA, "content/frame-size", "op %d: audio_copy output has %zu samples, configured size is %d", c->opno, n, c->ac_samples); return; }
    if (!ubase_check(uref_sound_plane_read_uint8_t(uref, "lr", 0, -1, &r))) { FAILP(ORACLE_DATA, "content/frame", "op %d: audio_copy output cannot be read", c->opno); return; }
    uint32_t first = 0, prev = 0; bool bad = false;
    for (size_t i = 0; i < n; i++) {
        uint32_t v = r[4 * i] | r[4 * i + 1] << 8 | r[4 * i + 2] << 16 | (uint32_t)r[4 * i + 3] << 24;
        if (i == 0) first = v; else if (v != prev + 1) bad = true;
        prev = v;
    }
    uref_sound_plane_unmap(uref, "lr", 0, -1);
    struct trk *a = trk_of_sample(c, first), *b = trk_of_sample(c, prev);
    if (bad || !a || !b || a->fdv != b->fdv || a->gen != P->gen) {
        FAILP(ORACLE_DATA, "content/frame", "op %d: audio_copy output frame [%u..%u] is not a run of consecutive samples of one flow", c->opno, first, prev);
        return;
    }
    if (P->ac_any) {
        if (first < P->ac_next) FAILP(ORACLE_DATA, "order/samples", "op %d: audio_copy output frame starts at sample %u, samples up to %u were already output", c->opno, first, P->ac_next - 1);
        else if (first != P->ac_next && trk_of_sample(c, P->ac_next - 1) && trk_of_sample(c, P->ac_next - 1)->fdv == a->fdv && a->opno == trk_of_sample(c, P->ac_next - 1)->opno)
            FAILP(ORACLE_DATA, "delivery/lost-samples", "op %d: audio_copy skipped samples %u..%u inside one input buffer", c->opno, P->ac_next, first - 1);
    }
    P->ac_any = true; P->ac_next = prev + 1;
    if (g->last_answer == 1 && g->fdv != a->fdv)
        FAILP(ORACLE_PROTO, "flowdef/stale", "op %d: audio_copy output frame made of samples input under flow definition v%d is delivered while the sink's accepted definition is v%d", c->opno, a->fdv, g->fdv);
}

/* ---------------------------------------------------------------- construction of inputs */

static struct uref *mk_sound_def(struct ctx *c, int v)
{
    static const uint64_t rates[3] = { 48000, 44100, 32000 };
    struct uref *u = uref_sound_flow_alloc_def(c->pfx.fm.uref_mgr, "s16.", 2, 4);
    if (!u) return NULL;
    uref_sound_flow_add_plane(u, "lr");
    uref_sound_flow_set_rate(u, rates[v % 3]);
    uref_attr_set_unsigned(u, v, UDICT_TYPE_UNSIGNED, "x.fdv");
    return u;
}

static const char *kind_def(int kind) { static const char *n[4] = { "pic.", "sound.", "pic.sub.", "foo." }; return n[kind & 3]; }

/* v 0..2: valid variants (distinct dictionaries); v 3: a definition the strict types are documented to refuse */
static struct uref *mk_flow_def(struct ctx *c, int p, int v)
{
    if (v == 3) {
        struct uref *u = uref_alloc(c->pfx.fm.uref_mgr);
        if (u) { uref_flow_set_def(u, "void.x."); uref_attr_set_unsigned(u, 3, UDICT_TYPE_UNSIGNED, "x.fdv"); }
        return u;
    }
    if (c->type == T_AUDIO_COPY) return mk_sound_def(c, v);
    if (c->type == T_TBLK && v == 2) return mk_sound_def(c, v);      /* convert_to_block: block (v0, v1) and sound (v2) inputs */
    struct uref *u;
    if (zoo[c->type].super) u = pfx_flow_def_block(&c->pfx, kind_def(c->port[p].kind));   /* "block.pic." is a picture flow for even/trickplay (strstr ".pic.") */
    else u = pfx_flow_def_block(&c->pfx, v == 1 ? "bar." : "foo.");
    if (!u) return NULL;
    uref_attr_set_unsigned(u, v, UDICT_TYPE_UNSIGNED, "x.fdv");
    if (v == 2) uref_attr_set_unsigned(u, 42, UDICT_TYPE_UNSIGNED, "x.extra");
    return u;
}

static struct uref *mk_sound(struct ctx *c, uint64_t seq, int samples, uint32_t s0)
{
    struct uref *u = uref_sound_alloc(c->pfx.fm.uref_mgr, c->sound_mgr, samples);
    if (!u) return NULL;
    uint8_t *w;
    if (!ubase_check(uref_sound_plane_write_uint8_t(u, "lr", 0, -1, &w))) { uref_free(u); return NULL; }
    for (int i = 0; i < samples; i++) { uint32_t v = s0 + i; w[4 * i] = v; w[4 * i + 1] = v >> 8; w[4 * i + 2] = v >> 16; w[4 * i + 3] = v >> 24; }
    uref_sound_plane_unmap(u, "lr", 0, -1);
    uref_attr_set_unsigned(u, seq, UDICT_TYPE_UNSIGNED, "x.seq");
    return u;
}

/* ---------------------------------------------------------------- checks after every operation */

static void check_events(struct ctx *c, const char *after)
{
    struct pfx *pfx = &c->pfx;
    for (int i = 0; i < pfx->nprobes && !c->ret; i++) {
        struct pfx_probe *p = pfx->probes[i];
        for (int k = 0; k < p->ntracks; k++) {
            struct pfx_track *t = &p->tracks[k];
            if (t->saw_nonlog && !t->first_nonlog_is_ready)
                FAILP(ORACLE_PROTO, "ready/first", "after %s: the first event of pipe (probe %d) other than a log is not READY", after, i);
            if (t->dead_count > 1)
                FAILP(ORACLE_PROTO || ORACLE_LIFE, "dead/once", "after %s: pipe (probe %d) threw DEAD %d times", after, i, t->dead_count);
            if (t->events_after_dead > 0) {
                const char *txt = ""; int ev = -1;
                for (int e = 0; e < pfx->nevents; e++) if (pfx->events[e].probe == i && pfx->events[e].track == k && pfx->events[e].after_dead) { txt = pfx->events[e].text; ev = pfx->events[e].event; break; }
                FAILP(ORACLE_PROTO, "dead/last", "after %s: pipe (probe %d) threw %s%s%s after DEAD", after, i, pfx_event_name(ev), txt[0] ? ": " : "", txt);
            }
        }
    }
}

/* liveness model.  A pipe dies exactly when its last reference goes: the application's handle, and for the types that
 * document it ("Increment upipe refcount to avoid disappearing before all packets have been sent": time_limit,
 * convert_to_block, genaux, even inputs, audio_copy) the reference the pipe keeps on itself while it holds input.
 * audio_copy also keeps buffers it has merely consumed partly, without self-reference: one-sided there. */
static void check_liveness(struct ctx *c, const char *after)
{
    bool any_sub_alive = false;
    for (int p = 0; p < c->nport && !c->ret; p++) {
        struct port *P = &c->port[p];
        if (!P->exists) continue;
        bool dead = probe_dead(c, P->probe);
        if (dead && !P->died) {
            P->died = true; c->pipe_died_before_src_free = true;
            if (P->gate >= 0) { c->gate[P->gate].port = -1; P->gate = -1; }      /* it released its output: the sink is free for another input */
        }
        if (!dead) any_sub_alive = true;
        if (P->held) {
            if (dead) FAILP(ORACLE_LIFE, "dead/premature", "after %s: %s threw DEAD while the application still holds a reference", after, pname(c, p));
            continue;
        }
        int np = npending(c, p);
        if (c->type == T_AUDIO_COPY) {
            if (!dead && np == 0) FAILP(ORACLE_LIFE, "release/not-dead", "after %s: the last reference on %s is gone and it holds nothing, but it did not die", after, pname(c, p));
        } else if (zoo[c->type].selfref && np > 0) {
            if (dead) FAILP(ORACLE_LIFE || ORACLE_DATA, "dead/premature", "after %s: %s died while holding %d buffer(s) it is documented to send first", after, pname(c, p), np);
        } else if (!dead)
            FAILP(ORACLE_LIFE, "release/not-dead", "after %s: the last reference on %s is gone but the pipe did not die", after, pname(c, p));
        if (dead && np > 0)
            FAILP(ORACLE_DATA || ORACLE_LIFE, "held/not-freed", "after %s: %s is dead but %d buffer(s) it held were neither delivered nor freed", after, pname(c, p), np);
    }
    if (zoo[c->type].super && c->super && !c->ret) {
        bool dead = probe_dead(c, c->super_probe);
        if (c->super_held || any_sub_alive) { if (dead) FAILP(ORACLE_LIFE, "dead/premature", "after %s: %s threw DEAD while still referenced (application or sub-pipes)", after, zoo[c->type].name); }
        else if (!dead) FAILP(ORACLE_LIFE, "release/not-dead", "after %s: the application and every sub-pipe released %s but it did not die", after, zoo[c->type].name);
    }
}

/* C01: a blocker taken on a source pump must be given back: blockers on a pump that are not the sinks' belong to
 * the pipe under test, and helper_input documents them as "block source pumps ... hold urefs that can't be immediately
 * output" / "unblocks all pumps" when drained, flushed or cleaned: none may remain once the pipe holds nothing or is dead. */
static void check_blockers(struct ctx *c, const char *after)
{
    bool holder = false, anyalive = false;
    for (int p = 0; p < c->nport; p++) if (c->port[p].exists && !probe_dead(c, c->port[p].probe)) { anyalive = true; if (npending(c, p) > 0) holder = true; }
    for (int s = 0; s < MAXSRC && !c->ret; s++) {
        if (!c->src[s]) continue;
        int total = fake_upump_pump_blockers(c->src[s]), gates = 0;
        for (int g = 0; g < MAXGATE; g++) gates += gate_blocks(&c->gate[g], c->src[s]);
        if (total > 0) c->classes |= 1ull << CL_BLOCKED_SRC;
        if (total - gates > 0) c->pipe_blocked_once = true;
        /* a live pipe gives its blockers back when it drains, and some drain only from their timer / idler callback
         * (rate_limit and buffer do not unblock on the input path): judged once no timer is pending and the loop either
         * has nothing to run or ran something during this operation; a dead pipe must have given everything back */
        bool settled = !anyalive || (fake_upump_timers(c->pfx.loop, NULL) == 0 && (fake_upump_runnable(c->pfx.loop) == 0 || c->dispatched > 0));
        /* trickplay in pause keeps the sources of its inputs blocked on purpose until the rate changes */
        if (c->type == T_TRICKP && anyalive && (c->rate.num == 0 || c->rate.den == 0)) settled = false;
        if (total - gates > 0 && !holder && settled)
            FAILP(ORACLE_BLOCK, "blocker/stale", "after %s: source pump %d is still blocked by %d blocker(s) of the pipe under test although it holds no buffer any more (or is dead): the pump can never fire again", after, s, total - gates);
        if (total == 0 && !fake_upump_pump_active(c->src[s]))
            FAILP(ORACLE_BLOCK, "blocker/not-restarted", "after %s: source pump %d has no blocker left but was not restarted", after, s);
    }
}

static void begin_op(struct ctx *c)
{
    c->opno++;
    c->teardown_port = -1;
    c->dispatched = 0;
    for (int p = 0; p < c->nport; p++) c->port[p].deliv_mark = c->port[p].ndelivered;
}

static void end_op(struct ctx *c, const char *what)
{
    c->teardown_port = -1;
    if (c->render) pfx_render_since(&c->pfx, c->rep, c->ev_mark, c->rec_mark);
    check_events(c, what);
    check_liveness(c, what);
    check_blockers(c, what);
    for (int p = 0; p < c->nport; p++) {
        struct port *P = &c->port[p];
        if (!P->exists) continue;
        int np = npending(c, p);
        if (np == 0) P->resized_holding = false;
        if (np >= 2) c->classes |= 1ull << CL_HELD2;
        if (P->ndelivered - P->deliv_mark >= 1 && npending_old(c, p) >= 1 && npending_old(c, p) + (P->ndelivered - P->deliv_mark) >= 2)
            c->classes |= 1ull << CL_PARTIAL_DRAIN;
    }
    for (int g = 0; g < MAXGATE; g++) if (c->gate[g].live && c->gate[g].nlodged > 0) c->classes |= 1ull << CL_REQ_PENDING;
#if PIPES_PROP == 20
    /* what the pipes throw (everything but log messages) is part of what the application observes: a getter must not change it */
    for (int i = c->ev_mark; i < c->pfx.nevents; i++) {
        struct pfx_event *e = &c->pfx.events[i];
        if (e->event == UPROBE_LOG) continue;
        c->trace = vp_hash_mix(vp_hash_mix(c->trace, 0x3000 + e->probe * 64 + c->opno), (uint64_t)e->event);
    }
#endif
    c->ev_mark = c->pfx.nevents;
    c->rec_mark = c->pfx.nrecs;
}

/* ---------------------------------------------------------------- operations */

static int getattr_pts_prog(struct uref *uref, uint64_t *p) { return uref_clock_get_pts_prog(uref, p); }
static int getattr_cr_sys(struct uref *uref, uint64_t *p) { return uref_clock_get_cr_sys(uref, p); }

static void src_cb(struct upump *upump)
{
    struct ctx *c = &ctx;
    int s = (int)(intptr_t)upump_get_opaque(upump, void *);
    if (c->slot_uref == NULL) return;
    struct uref *uref = c->slot_uref;
    c->slot_uref = NULL;
    upipe_input(c->slot_pipe, uref, &c->src[s]);
}

static void src_alloc(struct ctx *c, int s)
{
    /* an fd-read pump on a real descriptor: the fake loop never finds it ready by itself, the harness plays the descriptor */
    c->src[s] = upump_alloc_fd_read(c->pfx.loop, src_cb, (void *)(intptr_t)s, NULL, 0);
    if (c->src[s]) upump_start(c->src[s]);
}

static int pick_port(struct ctx *c)
{
    int p = tp_pick(&c->t, c->nport);
    for (int k = 0; k < c->nport; k++) { int q = (p + k) % c->nport; if (c->port[q].exists && c->port[q].held) return q; }
    return -1;
}

static bool do_set_flow_def(struct ctx *c, int p, int v, const char *note)
{
    struct port *P = &c->port[p];
    struct uref *fd = mk_flow_def(c, p, v);
    if (!fd) { c->ret = vp_internal(c->rep, "mk_flow_def"); return false; }
    int before = npending(c, p);
    int err = upipe_set_flow_def(P->upipe, fd);
    uref_free(fd);
    R("  op%d set_flow_def(%s, v%d) -> %d%s\n", c->opno, pname(c, p), v, err, note);
    if (v != 3 && !ubase_check(err)) FAILP(ORACLE_PROTO, "flowdef/refused-valid", "op %d: %s refused a valid flow definition (%d)", c->opno, pname(c, p), err);
    if (v == 3 && zoo[c->type].strict && ubase_check(err)) FAILP(ORACLE_PROTO, "flowdef/accepted-invalid", "op %d: %s accepted a flow definition of a kind it is documented to refuse", c->opno, pname(c, p));
    if (ubase_check(err)) {
        if (P->has_def && P->defv != v && before > 0) c->classes |= 1ull << CL_FLOWDEF_WHILE_HELD;
        P->has_def = true; P->defv = v;
    }
    return ubase_check(err);
}

static void op_input(struct ctx *c)
{
    int p = pick_port(c);
    uint8_t sz = tp_u8(&c->t), f = tp_u8(&c->t);
    if (p < 0) return;
    struct port *P = &c->port[p];
    c->hash = vp_hash_mix(c->hash, 0x100 + p * 65536 + sz * 256 + f);
    if (!P->has_def) {      /* legal histories: the sender gives a definition the pipe accepts before the first buffer (doc/rules) */
        if (!do_set_flow_def(c, p, 0, "   [implied before the first buffer]")) return;
        end_op(c, "set_flow_def"); begin_op(c);
        if (c->ret) return;
    }
    if (c->ntrk >= MAXTRK) return;
    /* source: 0 direct call (an upstream that passes no pump), 1-2 pump 0, 3 pump 1; a blocked or freed pump cannot fire: the other one, else direct */
    int s = (f & 3) == 0 ? -1 : (f & 3) == 3 ? 1 : 0;
    if (s >= 0 && (!c->src[s] || !fake_upump_pump_active(c->src[s]))) s ^= 1;
    if (s >= 0 && (!c->src[s] || !fake_upump_pump_active(c->src[s]))) s = -1;
    struct trk *t = &c->trk[c->ntrk];
    memset(t, 0, sizeof(*t));
    t->seq = c->next_seq++; t->port = p; t->gen = P->gen; t->fdv = P->defv; t->opno = c->opno;
    bool dated = ((f >> 2) & 7) != 7;
    static const uint64_t incs[8] = { 0, 1, 10, 100, 1000, 27000, 300000, 5 };
    uint64_t inc = incs[(f >> 5) & 7];
    struct uref *uref;
    bool sound = c->type == T_AUDIO_COPY || (c->type == T_TBLK && P->defv == 2);
    if (sound) {
        static const int ns[8] = { 4, 1, 2, 3, 8, 5, 16, 7 };
        t->ns = ns[sz % 8]; t->s0 = c->next_sample; c->next_sample += t->ns;
        uref = mk_sound(c, t->seq, t->ns, t->s0);
    } else {
        static const int sizes[8] = { 16, 1, 0, 3, 188, 255, 64, 100 };
        uref = pfx_uref_block(&c->pfx, t->seq, sizes[sz % 8], 1 + (sz >> 3) % 3);
    }
    if (!uref) { c->ret = vp_internal(c->rep, "input uref"); return; }
    uint64_t now = fake_upump_now(c->pfx.loop);
    if (dated) {
        /* dates never go back on one input (what every demux / decoder feeds these pipes) */
        uint64_t d;
        switch (c->type) {
        case T_EVEN:
            d = (P->last_date ? P->last_date : 1000 + 500 * (uint64_t)P->kind) + inc; P->last_date = d;
            uref_clock_set_pts_sys(uref, d); if (f & 0x10) uref_clock_set_duration(uref, 10);
            break;
        case T_TRICKP:
            d = (P->last_date ? P->last_date : 5000) + inc; P->last_date = d;
            uref_clock_set_pts_prog(uref, d);
            break;
        default:
            d = (P->last_date > now ? P->last_date : now) + inc; P->last_date = d;
            uref_clock_set_cr_sys(uref, d); uref_clock_set_dts_prog(uref, d);
            if (c->type == T_GENAUX) uref_clock_set_pts_prog(uref, d + 7);   /* the date the other getattr reads */
            break;
        }
        t->date = d;
    }
    t->dated = dated;
    if (sz & 0x40) uref_attr_set_string(uref, "hello", UDICT_TYPE_STRING, "x.str");
    if (sz & 0x80) uref_flow_set_discontinuity(uref);
    t->ptr = uref; t->sig = pfx_uref_sig(uref); t->phash = pfx_payload_hash(uref, NULL);
    c->ntrk++;
    c->any_data = true;
    R("  op%d input(%s, seq=%llu%s date=%lld, %s)\n", c->opno, pname(c, p), (unsigned long long)t->seq, sound ? " samples" : "", dated ? (long long)t->date : -1LL,
      s < 0 ? "direct, no pump" : s == 0 ? "source pump 0" : "source pump 1");
    if (s < 0) upipe_input(P->upipe, uref, NULL);
    else { c->slot_uref = uref; c->slot_pipe = P->upipe; c->classes |= 1ull << CL_INPUT_VIA_PUMP; fake_upump_fire(c->src[s]); }
    /* "allocating the first blocker suspends it": a pipe that keeps the buffer a pump has just delivered because it cannot take it
     * now suspends THAT pump (upipe_helper_input.h: hold_input + block_input), whichever other pump it has suspended before --
     * for the types that hold every buffer they cannot handle at once (time_limit, convert_to_block, genaux) */
    if (s >= 0 && c->src[s] && !c->ret && (c->type == T_TIME_LIMIT || c->type == T_TBLK || c->type == T_GENAUX)) {
        struct trk *t2 = &c->trk[c->ntrk - 1];
        if (!t2->delivered && !t2->freed && !probe_dead(c, P->probe)) {
            int total = fake_upump_pump_blockers(c->src[s]), gates = 0;
            for (int g = 0; g < MAXGATE; g++) gates += gate_blocks(&c->gate[g], c->src[s]);
            if (total - gates <= 0)
                FAILP(ORACLE_BLOCK, "blocker/missing", "op %d: %s keeps the buffer source pump %d has just delivered (it cannot take it now) but holds no blocker on that pump: the pump goes on firing into a pipe that is stalled", c->opno, pname(c, p), s);
        }
    }
    end_op(c, "input");
}

static void op_set_flow_def(struct ctx *c)
{
    int p = pick_port(c);
    int v = tp_u8(&c->t) % 4;
    if (p < 0) return;
    struct port *P = &c->port[p];
    if (v == 3 && !zoo[c->type].strict) v = 1;
    /* OPEN FINDING flowdef-change-out-of-band (named exclusion): the pipes that store a new input definition at once
     * (time_limit, rate_limit, buffer, discard_blocking, burst, even and trickplay inputs) send their held buffers
     * under the NEW definition.  The generator does not change the definition of such a pipe while it holds buffers. */
    if (!zoo[c->type].inband && P->has_def && v != P->defv && v != 3 && npending(c, p) > 0 && !c->no_exclude) {
        c->rep->excluded++;
        v = P->defv;
    }
    c->hash = vp_hash_mix(c->hash, 0x200 + p * 8 + v);
    do_set_flow_def(c, p, v, "");
    end_op(c, "set_flow_def");
}

static void op_gate(struct ctx *c)
{
    uint8_t b = tp_u8(&c->t);
    struct gate *g = &c->gate[(b >> 2) % MAXGATE];
    if (g->port < 0) g = &c->gate[0];
    int mode = b & 3;
    static const int k[4] = { 0, 1, 2, -1 };
    c->hash = vp_hash_mix(c->hash, 0x300 + g->id * 4 + mode);
    R("  op%d sink%d: %s (holds %d)\n", c->opno, g->id, mode == 0 ? "closes" : mode == 3 ? "opens" : mode == 1 ? "opens for 1 buffer" : "opens for 2 buffers", g->nheld);
    gate_open(c, g, k[mode]);
    end_op(c, "sink open/close");
}

static void op_loop(struct ctx *c)
{
    uint8_t b = tp_u8(&c->t);
    int n = (b & 1) ? 6 : 1, done = 0;
    c->hash = vp_hash_mix(c->hash, 0x400 + b);
    int timers_before = fake_upump_timers(c->pfx.loop, NULL);
    for (int i = 0; i < n && !c->ret; i++) { if (!fake_upump_step(c->pfx.loop, b >> 1)) break; done++; c->dispatched++; }
    (void)timers_before;
    R("  op%d loop: %d callback(s) dispatched\n", c->opno, done);
    end_op(c, "loop step");
}

static void op_clock(struct ctx *c)
{
    uint8_t b = tp_u8(&c->t);
    c->hash = vp_hash_mix(c->hash, 0x500 + b);
    uint64_t earliest; int nt = fake_upump_timers(c->pfx.loop, &earliest);
    switch (nt && (b & 4) ? 0 : b & 3) {
    case 0:     /* to the earliest timer, and let it fire */
        if (nt) {
            fake_upump_advance(c->pfx.loop);
            R("  op%d clock: advanced to the earliest timer (now %llu), one callback\n", c->opno, (unsigned long long)fake_upump_now(c->pfx.loop));
            if (fake_upump_step(c->pfx.loop, 0)) { c->classes |= 1ull << CL_TIMER_FIRED; c->dispatched++; }
        } else { fake_upump_sleep(c->pfx.loop, 100); R("  op%d clock: +100\n", c->opno); }
        break;
    case 1: fake_upump_sleep(c->pfx.loop, 50); R("  op%d clock: +50\n", c->opno); break;
    case 2: fake_upump_sleep(c->pfx.loop, 27000); R("  op%d clock: +27000, one callback\n", c->opno); if (nt && fake_upump_step(c->pfx.loop, 0)) { c->classes |= 1ull << CL_TIMER_FIRED; c->dispatched++; } break;
    default: fake_upump_sleep(c->pfx.loop, UCLOCK_FREQ); R("  op%d clock: +1 s, one callback\n", c->opno); if (nt && fake_upump_step(c->pfx.loop, 0)) { c->classes |= 1ull << CL_TIMER_FIRED; c->dispatched++; } break;
    }
    end_op(c, "clock");
}

static int free_gate(struct ctx *c, int prefer)
{
    if (c->gate[prefer].port < 0) return prefer;
    for (int g = 0; g < MAXGATE; g++) if (c->gate[g].port < 0) return g;
    return -1;
}

static void connect(struct ctx *c, int p, int g)     /* g < 0: NULL */
{
    struct port *P = &c->port[p];
    int old = P->gate;
    /* the new sink's answers count from now on (also for requests re-registered inside set_output) */
    if (g >= 0) { c->gate[g].port = p; c->gate[g].last_answer = 0; c->gate[g].fdv = -1; }
    if (old >= 0 && old != g) c->gate[old].port = -1;
    P->gate = g;
    int err = upipe_set_output(P->upipe, g >= 0 ? &c->gate[g].upipe : NULL);
    if (!ubase_check(err)) FAILP(ORACLE_PROTO, "output/set", "op %d: set_output on %s fails (%d)", c->opno, pname(c, p), err);
    if (ORACLE_OPTS) {
        struct upipe *got = (struct upipe *)1;
        if (ubase_check(upipe_get_output(P->upipe, &got)) && got != (g >= 0 ? &c->gate[g].upipe : NULL) && !c->skip_getters)
            FAILP(true, "get/output", "op %d: get_output of %s does not return the output that was set", c->opno, pname(c, p));
    }
}

static void op_set_output(struct ctx *c)
{
    int p = pick_port(c);
    uint8_t b = tp_u8(&c->t) % 3;
    if (p < 0) return;
    struct port *P = &c->port[p];
    int g = -1;
    if (b == 1) g = free_gate(c, p);
    else if (b == 2) g = free_gate(c, zoo[c->type].super ? 3 : 1);
    if (b && g < 0) g = P->gate;
    if (b == 1 && P->gate >= 0 && c->gate[p].port == p) g = p;    /* same output again */
    c->hash = vp_hash_mix(c->hash, 0x600 + p * 8 + b);
    if (npending(c, p) > 0) c->classes |= 1ull << CL_SETOUT_HOLDING;
    if (g < 0) R("  op%d set_output(%s, NULL)\n", c->opno, pname(c, p));
    else R("  op%d set_output(%s, sink%d)\n", c->opno, pname(c, p), g);
    connect(c, p, g);
    end_op(c, "set_output");
}

static void op_flush(struct ctx *c)
{
    int p = pick_port(c);
    if (p < 0) return;
    c->hash = vp_hash_mix(c->hash, 0x700 + p);
    int before = npending(c, p);
    bool supported = c->type == T_TIME_LIMIT;        /* the only one of these types that implements UPIPE_FLUSH */
    if (supported) { c->teardown_port = p; if (before) c->classes |= 1ull << CL_FLUSHED_HOLDING; }
    int err = upipe_flush(c->port[p].upipe);
    R("  op%d flush(%s) -> %d (held %d before, %d after)\n", c->opno, pname(c, p), err, before, npending(c, p));
    if (supported) {
        if (!ubase_check(err)) FAILP(ORACLE_PROTO, "flush/fails", "op %d: flush of %s fails (%d)", c->opno, pname(c, p), err);
        /* C05: "whatever is still held is freed on flush" */
        if (npending(c, p) > 0) FAILP(ORACLE_DATA || ORACLE_LIFE, "flush/still-held", "op %d: %s still holds %d buffer(s) after flush", c->opno, pname(c, p), npending(c, p));
    }
    end_op(c, "flush");
}

static void release_port(struct ctx *c, int p)
{
    struct port *P = &c->port[p];
    if (npending(c, p) > 0) c->classes |= 1ull << CL_RELEASED_HOLDING;
    if (zoo[c->type].super) for (int q = 0; q < c->nport; q++) if (q != p && c->port[q].exists && !probe_dead(c, c->port[q].probe) && npending(c, q) > 0) c->classes |= 1ull << CL_LAST_SUB_LEAVES;
    P->held = false;
    if (!(zoo[c->type].selfref && npending(c, p) > 0)) c->teardown_port = p;
    upipe_release(P->upipe);
}

static void op_release(struct ctx *c)
{
    uint8_t b = tp_u8(&c->t);
    c->hash = vp_hash_mix(c->hash, 0x800 + b);
    if (zoo[c->type].super && (b & 3) == 3) {
        if (!c->super_held) return;
        R("  op%d release(%s)\n", c->opno, zoo[c->type].name);
        c->super_held = false;
        upipe_release(c->super);
        end_op(c, "release");
        return;
    }
    int p = -1;
    for (int k = 0; k < c->nport; k++) { int q = (b + k) % c->nport; if (c->port[q].exists && c->port[q].held) { p = q; break; } }
    if (p < 0) return;
    /* legality: a pipe that waits for its output's answer to a request and keeps itself alive until then must not be
     * abandoned without an output (nothing could ever answer): the application gives it an output or keeps it */
    if (zoo[c->type].inband && npending(c, p) > 0 && c->port[p].gate < 0) { R("  op%d release(%s) skipped: it waits for a request and has no output\n", c->opno, pname(c, p)); return; }
    R("  op%d release(%s) holding %d\n", c->opno, pname(c, p), npending(c, p));
    release_port(c, p);
    end_op(c, "release");
}

static bool provide(struct ctx *c, struct gate *g, int i)
{
    if (i >= g->nlodged) return false;
    struct urequest *rq = g->lodged[i];
    int err, type = rq->type;        /* the request lives in the pipe, which may die while it is answered */
    switch (rq->type) {
    case UREQUEST_UCLOCK: err = urequest_provide_uclock(rq, uclock_use(c->pfx.uclock)); break;
    case UREQUEST_UREF_MGR: err = urequest_provide_uref_mgr(rq, uref_mgr_use(c->pfx.fm.uref_mgr)); break;
    case UREQUEST_SINK_LATENCY: err = urequest_provide_sink_latency(rq, 1000); break;
    case UREQUEST_FLOW_FORMAT: err = urequest_provide_flow_format(rq, uref_dup(rq->uref)); break;
    case UREQUEST_UBUF_MGR: {
        const char *def = "";
        uref_flow_get_def(rq->uref, &def);
        struct ubuf_mgr *m = !ubase_ncmp(def, "sound.") && c->sound_mgr ? c->sound_mgr : c->pfx.fm.block_mgr;
        err = urequest_provide_ubuf_mgr(rq, ubuf_mgr_use(m), uref_dup(rq->uref));
        break; }
    default: return false;
    }
    R("      answered the pending request (type %d) -> %d\n", type, err);
    return true;
}

static void op_requests(struct ctx *c)
{
    uint8_t b = tp_u8(&c->t);
    struct gate *g = &c->gate[(b >> 3) % MAXGATE];
    if (g->port < 0) g = &c->gate[0];
    c->hash = vp_hash_mix(c->hash, 0x900 + b);
    if ((b & 7) == 7) {
        g->req_hold = !g->req_hold;
        R("  op%d sink%d now %s\n", c->opno, g->id, g->req_hold ? "keeps requests unanswered" : "answers requests at once");
    } else {
        int held = g->port >= 0 ? npending(c, g->port) : 0;
        R("  op%d sink%d answers pending request %d of %d\n", c->opno, g->id, (b & 7) % (g->nlodged ? g->nlodged : 1), g->nlodged);
        if (g->nlodged && provide(c, g, (b & 7) % g->nlodged) && held > 0) c->classes |= 1ull << CL_REQ_LATE_HELD;
    }
    end_op(c, "requests");
}

static void op_pump(struct ctx *c)
{
    int s = tp_u8(&c->t) & 1;
    c->hash = vp_hash_mix(c->hash, 0xa00 + s);
    if (c->src[s]) {
        if (fake_upump_pump_blockers(c->src[s]) > 0) c->classes |= 1ull << CL_SRC_FREED_BLOCKED;
        if (c->pipe_died_before_src_free && c->pipe_blocked_once) c->classes |= 1ull << CL_SRC_FREED_AFTER_PIPE;
        R("  op%d source pump %d freed (%d blocker(s) on it)\n", c->opno, s, fake_upump_pump_blockers(c->src[s]));
        upump_free(c->src[s]);
        c->src[s] = NULL;
    } else {
        src_alloc(c, s);
        R("  op%d source pump %d allocated and started\n", c->opno, s);
    }
    end_op(c, "source pump");
}

static void op_sink_policy(struct ctx *c)
{
    uint8_t b = tp_u8(&c->t);
    struct gate *g = &c->gate[(b >> 2) % MAXGATE];
    if (g->port < 0) g = &c->gate[0];
    struct pfx_sink *s = pfx_sink(&c->pfx, g->recid);
    int v = b & 3;
    s->reject_first = v == 1 ? 1 : v == 2 ? 2 : 0;
    s->reject_all = v == 3;
    c->hash = vp_hash_mix(c->hash, 0xb00 + g->id * 4 + v);
    R("  op%d sink%d flow-definition policy: %s\n", c->opno, g->id, v == 0 ? "accept" : v == 3 ? "reject all" : v == 1 ? "reject next 1" : "reject next 2");
}

static void sub_alloc(struct ctx *c, int k, int kind)
{
    struct port *P = &c->port[k];
    int gen = P->gen + 1;
    memset(P, 0, sizeof(*P));
    P->gen = gen; P->gate = -1; P->kind = kind;
    struct uprobe *probe = pfx_probe_alloc(&c->pfx, &P->probe);
    P->upipe = upipe_void_alloc_sub(c->super, probe);
    if (!P->upipe) { c->ret = vp_internal(c->rep, "alloc_sub"); return; }
    P->exists = true; P->held = true;
    P->opt[0] = c->type == T_EVEN ? UINT_MAX : (c->rate.den ? UINT_MAX : 0);     /* max_length as the allocator documents it */
    int g = free_gate(c, k);
    if (g >= 0) connect(c, k, g);
}

static void op_sub(struct ctx *c)
{
    uint8_t b = tp_u8(&c->t);
    if (!zoo[c->type].super || (b & 0xc0) == 0xc0) { op_sink_policy(c); return; }
    int k = b % MAXPORT;
    struct port *P = &c->port[k];
    c->hash = vp_hash_mix(c->hash, 0xc00 + b);
    if (P->exists && P->held) {
        R("  op%d release(%s) holding %d\n", c->opno, pname(c, k), npending(c, k));
        c->classes |= 1ull << CL_SUBCHURN;
        release_port(c, k);
    } else if ((!P->exists || probe_dead(c, P->probe)) && c->super_held) {
        if (P->exists && P->gate >= 0) { c->gate[P->gate].port = -1; P->gate = -1; }
        sub_alloc(c, k, (b >> 2) & 3);
        R("  op%d %s = alloc_sub (flow kind %s)\n", c->opno, pname(c, k), kind_def(P->kind));
    } else return;
    end_op(c, "sub-pipe");
}

/* ---- options (C20): model = last accepted value; every getter is called twice (idempotence) ---- */
static const uint64_t optvals[12] = { 0, 1, 2, 100, 300, 600, 1000, 27000, 270000, 27000000, UINT64_MAX, 5000 };

#define GET64(call, name, want) do { uint64_t g1 = 12345, g2 = 54321; int e1 = call(P->upipe, &g1), e2 = call(P->upipe, &g2); \
        snprintf(what, sizeof what, name " -> %llu", (unsigned long long)g1); err = e1; \
        if (!ubase_check(e1) || !ubase_check(e2) || g1 != (want) || g2 != (want)) \
            FAILP(ORACLE_OPTS, "get/" name, "op %d: " name " returned %llu then %llu (err %d/%d), the last accepted value is %llu", c->opno, (unsigned long long)g1, (unsigned long long)g2, e1, e2, (unsigned long long)(want)); \
        c->got_after_set = true; } while (0)

static void set_rate(struct ctx *c, struct urational r, char *what, size_t n, int *err_p)
{
    *err_p = upipe_trickp_set_rate(c->super, r);
    snprintf(what, n, "trickplay.set_rate(%lld/%llu)", (long long)r.num, (unsigned long long)r.den);
    if (ubase_check(*err_p)) {
        c->rate = r;
        /* documented in the pipe: setting the rate also sets every input's queue length (unlimited while playing or stepping, 0 when den is 0) */
        for (int q = 0; q < c->nport; q++) if (c->port[q].exists) c->port[q].opt[0] = r.den ? UINT_MAX : 0;
    } else c->classes |= 1ull << CL_OPT_REJECTED;
}

static void op_option(struct ctx *c)
{
    int p = pick_port(c);
    uint8_t sel = tp_u8(&c->t);
    bool set = sel & 1;
    int which = (sel >> 1) & 3;
    uint64_t v = optvals[(sel >> 3) % 12];
    char what[128] = ""; int err = 0;
    c->hash = vp_hash_mix(c->hash, 0xd00 + (p + 1) * 256 + sel);
    if (zoo[c->type].super && which >= 2) {
        /* operations on the super-pipe */
        if (!c->super_held) return;
        if (c->type == T_TRICKP && which == 2) {
            if (set) {
                static const struct urational rates[6] = { {1, 1}, {0, 1}, {1, 0}, {2, 1}, {1, 2}, {0, 0} };
                set_rate(c, rates[(sel >> 3) % 6], what, sizeof what, &err);
            } else if (!c->skip_getters) {
                struct urational g1 = { 77, 77 }, g2 = { 88, 88 };
                int e1 = upipe_trickp_get_rate(c->super, &g1), e2 = upipe_trickp_get_rate(c->super, &g2);
                snprintf(what, sizeof what, "trickplay.get_rate -> %lld/%llu", (long long)g1.num, (unsigned long long)g1.den); err = e1;
                if (!ubase_check(e1) || !ubase_check(e2) || g1.num != c->rate.num || g1.den != c->rate.den || g2.num != g1.num || g2.den != g1.den)
                    FAILP(ORACLE_OPTS, "get/trickplay-rate", "op %d: get_rate returned %lld/%llu then %lld/%llu, the last accepted rate is %lld/%llu", c->opno, (long long)g1.num, (unsigned long long)g1.den, (long long)g2.num, (unsigned long long)g2.den, (long long)c->rate.num, (unsigned long long)c->rate.den);
                c->got_after_set = true;
            }
        } else {
            err = upipe_end_preroll(c->super);
            snprintf(what, sizeof what, "%s.end_preroll", zoo[c->type].name);
        }
        if (what[0]) R("  op%d %s -> %d\n", c->opno, what, err);
        end_op(c, "option");
        return;
    }
    if (p < 0) return;
    struct port *P = &c->port[p];
    switch (c->type) {
    case T_TIME_LIMIT:
        if (set) { err = upipe_time_limit_set_limit(P->upipe, v); snprintf(what, sizeof what, "time_limit.set_limit(%llu)", (unsigned long long)v); if (ubase_check(err)) P->opt[0] = v; else c->classes |= 1ull << CL_OPT_REJECTED; }
        else if (!c->skip_getters) GET64(upipe_time_limit_get_limit, "time_limit-limit", P->opt[0]);
        break;
    case T_RATE_LIMIT:
        if (which & 1) {
            if (v == 0) v = 27000;      /* a window of 0 ticks is outside the domain ("window duration"; the pipe divides by it) */
            if (set) { err = upipe_rate_limit_set_duration(P->upipe, v); snprintf(what, sizeof what, "rate_limit.set_duration(%llu)", (unsigned long long)v); if (ubase_check(err)) P->opt[1] = v; else c->classes |= 1ull << CL_OPT_REJECTED; }
            else if (!c->skip_getters) GET64(upipe_rate_limit_get_duration, "rate_limit-duration", P->opt[1]);
        } else {
            if (set) { err = upipe_rate_limit_set_limit(P->upipe, v); snprintf(what, sizeof what, "rate_limit.set_limit(%llu)", (unsigned long long)v); if (ubase_check(err)) P->opt[0] = v; else c->classes |= 1ull << CL_OPT_REJECTED; }
            else if (!c->skip_getters) GET64(upipe_rate_limit_get_limit, "rate_limit-limit", P->opt[0]);
        }
        break;
    case T_BUFFER: {
        int w = which % 3;
        if (set) {
            err = w == 0 ? upipe_buffer_set_max_size(P->upipe, v) : w == 1 ? upipe_buffer_set_low_limit(P->upipe, v) : upipe_buffer_set_high_limit(P->upipe, v);
            snprintf(what, sizeof what, "buffer.set_%s(%llu)", w == 0 ? "max_size" : w == 1 ? "low" : "high", (unsigned long long)v);
            if (ubase_check(err)) P->opt[w] = v; else c->classes |= 1ull << CL_OPT_REJECTED;
            if (w == 0 && npending(c, p) > 0) P->resized_holding = true;
        } else if (!c->skip_getters) {
            if (w == 0) GET64(upipe_buffer_get_max_size, "buffer-max_size", P->opt[0]);
            else if (w == 1) GET64(upipe_buffer_get_low_limit, "buffer-low", P->opt[1]);
            else GET64(upipe_buffer_get_high_limit, "buffer-high", P->opt[2]);
        }
        break; }
    case T_DISBLO: case T_EVEN: case T_TRICKP: {
        static const unsigned lens[4] = { 0, 1, 2, UINT_MAX };
        unsigned len = lens[(sel >> 3) & 3];
        if (set) { err = upipe_set_max_length(P->upipe, len); snprintf(what, sizeof what, "%s.set_max_length(%u)", pname(c, p), len); if (ubase_check(err)) P->opt[0] = len; else c->classes |= 1ull << CL_OPT_REJECTED; }
        else if (!c->skip_getters) {
            unsigned g1 = 12345, g2 = 54321; int e1 = upipe_get_max_length(P->upipe, &g1), e2 = upipe_get_max_length(P->upipe, &g2);
            snprintf(what, sizeof what, "%s.get_max_length -> %u", pname(c, p), g1); err = e1;
            if (!ubase_check(e1) || !ubase_check(e2) || g1 != P->opt[0] || g2 != P->opt[0])
                FAILP(ORACLE_OPTS, "get/max_length", "op %d: get_max_length of %s returned %u then %u (err %d/%d), the last accepted value is %llu", c->opno, pname(c, p), g1, g2, e1, e2, (unsigned long long)P->opt[0]);
            c->got_after_set = true;
        }
        break; }
    case T_GENAUX:
        if (set) {
            int k = (sel >> 3) % 3;     /* 0 cr_sys, 1 pts_prog, 2 NULL (documented: invalid) */
            err = upipe_genaux_set_getattr(P->upipe, k == 0 ? getattr_cr_sys : k == 1 ? getattr_pts_prog : NULL);
            snprintf(what, sizeof what, "genaux.set_getattr(%s)", k == 0 ? "cr_sys" : k == 1 ? "pts_prog" : "NULL");
            if (k == 2 && ubase_check(err)) FAILP(ORACLE_OPTS, "set/genaux-null", "op %d: genaux accepted a NULL getattr", c->opno);
            if (ubase_check(err)) P->opt[0] = k; else c->classes |= 1ull << CL_OPT_REJECTED;
        } else if (!c->skip_getters) {
            int (*g1)(struct uref *, uint64_t *) = NULL, (*g2)(struct uref *, uint64_t *) = NULL;
            int e1 = upipe_genaux_get_getattr(P->upipe, &g1), e2 = upipe_genaux_get_getattr(P->upipe, &g2);
            snprintf(what, sizeof what, "genaux.get_getattr"); err = e1;
            /* before any set the getter returns the pipe's default (uref_clock_get_cr_sys, an inline: its address is not comparable) */
            bool ok = ubase_check(e1) && ubase_check(e2) && g1 == g2 && (P->opt[1] == 0 || g1 == (P->opt[0] == 0 ? getattr_cr_sys : getattr_pts_prog));
            if (!ok) FAILP(ORACLE_OPTS, "get/genaux-getattr", "op %d: get_getattr does not return the function that was set", c->opno);
            c->got_after_set = true;
        }
        if (set && ubase_check(err)) P->opt[1] = 1;
        break;
    default: break;
    }
    if (!what[0] && !c->skip_getters) {
        /* generic getters of every output-helper pipe */
        struct uref *f1 = (struct uref *)1, *f2 = (struct uref *)2;
        int e1 = upipe_get_flow_def(P->upipe, &f1), e2 = upipe_get_flow_def(P->upipe, &f2);
        snprintf(what, sizeof what, "%s.get_flow_def", pname(c, p)); err = e1;
        c->got_after_set = true;
        if (!ubase_check(e1) || !ubase_check(e2) || f1 != f2) FAILP(ORACLE_OPTS, "get/flow-def", "op %d: get_flow_def of %s is not stable (%d/%d)", c->opno, pname(c, p), e1, e2);
        else if (!zoo[c->type].inband && P->has_def && (f1 == NULL || uref_fdv(f1) != P->defv))
            FAILP(ORACLE_OPTS, "get/flow-def", "op %d: get_flow_def of %s does not return the definition that was set (v%d)", c->opno, pname(c, p), P->defv);
    }
    if (!set && c->skip_getters) {
        /* second pass of C20: the getter is replaced by another, neutral, handled control command (get_output) rather than
         * by nothing: time_limit, rate_limit, discard_blocking and burst re-check their upump manager / uclock request after
         * EVERY handled command, whatever it is, which is not an effect of the getter (false alarm corrected) */
        struct upipe *dummy;
        upipe_get_output(P->upipe, &dummy);
    }
    if (what[0]) R("  op%d %s -> %d\n", c->opno, what, err);
    end_op(c, "option");
}

/* ---------------------------------------------------------------- main */

static void settle(struct ctx *c)
{
    /* every sink answers what it kept, opens for good; the clock runs until no timer is left */
    for (int g = 0; g < MAXGATE; g++) {
        struct pfx_sink *s = pfx_sink(&c->pfx, c->gate[g].recid);
        s->reject_all = false; s->reject_first = 0;
        c->gate[g].req_hold = false;
        int n = c->gate[g].nlodged;
        for (int i = 0; i < n && i < c->gate[g].nlodged; i++) provide(c, &c->gate[g], i);
        gate_open(c, &c->gate[g], -1);
    }
    for (int i = 0; i < 400 && !c->ret; i++) {
        if (fake_upump_step(c->pfx.loop, 0)) { c->dispatched++; continue; }
        if (!fake_upump_timers(c->pfx.loop, NULL)) break;
        fake_upump_advance(c->pfx.loop);
    }
}

static int run_once(const uint8_t *tp_, size_t len, struct vp_report *rep, unsigned flags, bool skip_getters, int force_pool)
{
    struct ctx *c = &ctx;
    memset(c, 0, sizeof(*c));
    tp_init(&c->t, tp_, len);
    c->rep = rep; c->render = flags & VP_RENDER; c->no_exclude = flags & VP_NO_EXCLUDE; c->hash = VP_HASH_INIT;
    c->skip_getters = skip_getters; c->force_pool = force_pool; c->trace = VP_HASH_INIT; c->teardown_port = -1;

    uint8_t cfgb = tp_u8(&c->t);
    struct pfx_cfg cfg = { .pool_depth = force_pool >= 0 ? force_pool : (int[]){ 0, 1, 4 }[cfgb % 3], .prepend = (cfgb / 3) % 2 ? 8 : 0, .append = 0, .align = (cfgb / 6) % 2 ? 16 : 0,
                           .with_uref_mgr = true, .with_ubuf_mem = true, .with_upump_mgr = true, .with_uclock = true };
    if (pfx_init(&c->pfx, &cfg) != 0) return vp_internal(rep, "pfx_init");
    if (cfg.pool_depth) c->classes |= 1ull << CL_POOL;
    real_uref_free = c->pfx.fm.uref_mgr->uref_free;
    c->pfx.fm.uref_mgr->uref_free = hook_uref_free;
    c->type = tp_u8(&c->t) % T_NTYPES;
    uint8_t setup = tp_u8(&c->t);
    c->classes |= 1ull << (CL_TYPE0 + c->type);
    c->hash = vp_hash_mix(vp_hash_mix(c->hash, cfgb), c->type * 256 + setup);
    R(PID " hold: %s, pool_depth=%d prepend=%d align=%d setup=%02x\n", zoo[c->type].name, cfg.pool_depth, cfg.prepend, cfg.align, setup);

    for (int g = 0; g < MAXGATE; g++) gate_init(c, g);
    for (int s = 0; s < MAXSRC; s++) src_alloc(c, s);
    c->rate.num = c->rate.den = 1;
    for (int p = 0; p < MAXPORT; p++) c->port[p].gate = -1;
    /* sink behaviour at the start: open / closed / open for one; requests answered at once or kept */
    static const int budgets[4] = { -1, 0, 1, -1 };
    for (int g = 0; g < MAXGATE; g++) {
        c->gate[g].budget = budgets[setup & 3];
        c->gate[g].req_hold = (setup & 4) != 0;
    }
    R("  sinks: %s, requests %s\n", (setup & 3) == 1 ? "closed" : (setup & 3) == 2 ? "open for 1 buffer" : "open", (setup & 4) ? "kept unanswered" : "answered at once");
    int preset = (setup >> 3) & 3;
    if (zoo[c->type].super) {
        c->nport = MAXPORT;
        c->super = upipe_void_alloc(zoo[c->type].mgr(), pfx_probe_alloc(&c->pfx, &c->super_probe));
        if (!c->super) { c->ret = vp_internal(rep, "alloc"); goto out; }
        c->super_held = true;
        if (c->type == T_TRICKP && preset) {
            static const struct urational rates[4] = { {1, 1}, {0, 1}, {1, 0}, {2, 1} };
            char w[64]; int e; set_rate(c, rates[preset], w, sizeof w, &e); R("  %s -> %d\n", w, e);
        }
        int nsub = 1 + (setup >> 5) % 3;
        for (int k = 0; k < nsub && !c->ret; k++) { sub_alloc(c, k, k == 0 ? (setup >> 7) : k); R("  %s = alloc_sub (flow kind %s)\n", pname(c, k), kind_def(c->port[k].kind)); }
    } else {
        c->nport = 1;
        struct port *P = &c->port[0];
        struct uprobe *probe = pfx_probe_alloc(&c->pfx, &P->probe);
        if (c->type == T_AUDIO_COPY || c->type == T_TBLK) {
            struct uref *sd = mk_sound_def(c, 0);
            c->sound_mgr = ubuf_mem_mgr_alloc_from_flow_def(cfg.pool_depth, cfg.pool_depth, c->pfx.fm.umem_mgr, sd);
            uref_free(sd);
            if (!c->sound_mgr) { c->ret = vp_internal(rep, "sound manager"); goto out; }
        }
        if (c->type == T_AUDIO_COPY) {
            c->ac_samples = (int[]){ 4, 2, 8, 3 }[preset];
            /* as examples/grid.c does: a control packet "sound." carrying only the wanted frame size */
            struct uref *fd = uref_alloc_control(c->pfx.fm.uref_mgr);
            uref_flow_set_def(fd, UREF_SOUND_FLOW_DEF);
            if (preset & 1) {
                /* first an allocation the pipe must refuse (neither a frame size nor a picture rate): whatever the refused
                 * incarnation throws goes to a recording probe of its own and is judged like any other pipe's announcements */
                struct upipe *refused = upipe_flow_alloc(zoo[c->type].mgr(), pfx_probe_alloc(&c->pfx, NULL), fd);
                R("  flow_alloc(audio_copy, \"sound.\" without frame size) -> %s\n", refused ? "a pipe" : "NULL");
                if (refused != NULL) { FAILP(ORACLE_PROTO, "alloc/accepted", "audio_copy accepted an allocation flow definition with neither sound.samples nor pic.fps"); upipe_release(refused); }
            }
            uref_sound_flow_set_samples(fd, c->ac_samples);
            P->upipe = upipe_flow_alloc(zoo[c->type].mgr(), probe, fd);
            uref_free(fd);
            if (!c->sound_mgr) { c->ret = vp_internal(rep, "sound manager"); goto out; }
        } else P->upipe = upipe_void_alloc(zoo[c->type].mgr(), probe);
        if (!P->upipe) { c->ret = vp_internal(rep, "alloc"); goto out; }
        P->exists = true; P->held = true; P->gen = 1;
        P->opt[0] = c->type == T_TIME_LIMIT || c->type == T_RATE_LIMIT ? UINT64_MAX : c->type == T_DISBLO ? 1 : 0;
        P->opt[1] = c->type == T_RATE_LIMIT ? UCLOCK_FREQ : 0;
        connect(c, 0, 0);
        /* configuration the application gives at the start (through the ordinary setters) */
        if (preset) switch (c->type) {
        case T_TIME_LIMIT: P->opt[0] = (uint64_t[]){ 0, 0, 100, 1000 }[preset]; upipe_time_limit_set_limit(P->upipe, P->opt[0]); R("  time_limit.set_limit(%llu)\n", (unsigned long long)P->opt[0]); break;
        case T_RATE_LIMIT:
            P->opt[0] = preset == 3 ? 0 : 1000; P->opt[1] = preset == 2 ? UCLOCK_FREQ : 27000;
            upipe_rate_limit_set_limit(P->upipe, P->opt[0]); upipe_rate_limit_set_duration(P->upipe, P->opt[1]);
            R("  rate_limit.set_limit(%llu) set_duration(%llu)\n", (unsigned long long)P->opt[0], (unsigned long long)P->opt[1]); break;
        case T_BUFFER: P->opt[0] = (uint64_t[]){ 0, 300, 600, 1000000 }[preset]; upipe_buffer_set_max_size(P->upipe, P->opt[0]); R("  buffer.set_max_size(%llu)\n", (unsigned long long)P->opt[0]); break;
        case T_DISBLO: P->opt[0] = (uint64_t[]){ 1, 2, 3, 0 }[preset]; upipe_set_max_length(P->upipe, P->opt[0]); R("  discard_blocking.set_max_length(%llu)\n", (unsigned long long)P->opt[0]); break;
        default: break;
        }
    }
    end_op(c, "setup");

    int nops = 0;
    while (!tp_done(&c->t) && nops < MAXOPS && !c->ret && pfx_log_room(&c->pfx)) {     /* the tail of the case must always fit in the fixture logs */
        nops++;
        begin_op(c);
        uint8_t op = tp_u8(&c->t) % 24;
        bool has_requests = zoo[c->type].inband || c->type == T_TIME_LIMIT || c->type == T_RATE_LIMIT;
        switch (op) {
        case 0: case 1: case 2: case 3: case 4: case 5: case 6: case 7: op_input(c); break;
        case 8: op_set_flow_def(c); break;
        case 9: if (zoo[c->type].inband) op_set_flow_def(c); else op_gate(c); break;
        case 10: case 11: op_gate(c); break;
        case 12: op_loop(c); break;
        case 13: case 14: op_clock(c); break;
        case 15: op_set_output(c); break;
        case 16: if (c->type == T_TIME_LIMIT) op_flush(c); else if (c->type == T_RATE_LIMIT) op_clock(c); else op_loop(c); break;
        case 17: op_release(c); break;
        case 18: if (has_requests) op_requests(c); else op_loop(c); break;     /* buffer, discard_blocking, burst output from a pump of their own */
        case 19: if (has_requests) op_requests(c); else if (zoo[c->type].super) op_flush(c); else op_loop(c); break;
        case 20: op_pump(c); break;
        case 21: op_sub(c); break;
        default: op_option(c); break;
        }
    }

    /* ---- tail: everything the application holds is released, in one of two orders relative to the source pumps ---- */
    begin_op(c);
    uint8_t tailb = tp_u8(&c->t);
    bool pumps_first = tailb & 1;
    if (tailb & 2) {
        /* the stream ends while the application still holds everything: sinks open and answer, time passes until no timer is left.
         * C05 "deliver the held buffers first and in arrival order once unblocked": a pipe that only delays (time_limit, rate_limit,
         * buffer with room for a buffer, burst) or waits for an answer (convert_to_block, genaux) and has an output must now be empty. */
        R("  -- end of stream: sinks open and answer, the clock runs\n");
        settle(c);
        end_op(c, "end of stream");
        begin_op(c);
        bool drains = c->type == T_TIME_LIMIT || c->type == T_RATE_LIMIT || c->type == T_BURST || c->type == T_TBLK || c->type == T_GENAUX ||
                      (c->type == T_BUFFER && c->port[0].opt[0] >= 255 && !c->port[0].resized_holding);
        if (drains && c->port[0].exists && c->port[0].held && c->port[0].gate >= 0 && npending(c, 0) > 0)
            FAILP(ORACLE_DATA, "held/stuck", "%s still holds %d buffer(s) although its sink is open, every request is answered and no timer is pending: nothing will ever deliver them", pname(c, 0), npending(c, 0));
    }
    R("  -- tail: %s\n", pumps_first ? "source pumps freed, then release all" : "release all, then source pumps freed");
    if (pumps_first) for (int s = 0; s < MAXSRC; s++) if (c->src[s]) { if (fake_upump_pump_blockers(c->src[s])) c->classes |= 1ull << CL_SRC_FREED_BLOCKED; upump_free(c->src[s]); c->src[s] = NULL; }
    for (int p = 0; p < c->nport && !c->ret; p++) {
        struct port *P = &c->port[p];
        if (!P->exists || !P->held) continue;
        if (zoo[c->type].inband && npending(c, p) > 0 && P->gate < 0) { int g = free_gate(c, 0); if (g >= 0) { R("  set_output(%s, sink%d)   [it waits for a request: the application gives it an output before leaving]\n", pname(c, p), g); connect(c, p, g); } }
        R("  release(%s) holding %d\n", pname(c, p), npending(c, p));
        release_port(c, p);
        end_op(c, "final release"); c->opno++;
    }
    if (c->super_held) { c->super_held = false; upipe_release(c->super); }
    end_op(c, "final release");
    bool zombies = false;
    for (int p = 0; p < c->nport; p++) if (c->port[p].exists && !probe_dead(c, c->port[p].probe)) zombies = true;
    begin_op(c);
    settle(c);
    end_op(c, "final drain");
    for (int p = 0; p < c->nport && !c->ret; p++)
        if (c->port[p].exists && !probe_dead(c, c->port[p].probe))
            FAILP(ORACLE_LIFE, "tail/not-dead", "%s was released by the application, its sinks answered every request and opened, every timer fired, but it is still alive holding %d buffer(s)", pname(c, p), npending(c, p));
    if (zombies && !c->ret) c->classes |= 1ull << CL_ZOMBIE_DRAINED;
    for (int s = 0; s < MAXSRC; s++) if (c->src[s]) { if (c->pipe_died_before_src_free && c->pipe_blocked_once) c->classes |= 1ull << CL_SRC_FREED_AFTER_PIPE; upump_free(c->src[s]); c->src[s] = NULL; }
    c->teardown_port = -2;
    for (int g = 0; g < MAXGATE; g++) upipe_release(&c->gate[g].upipe);
    for (int g = 0; g < MAXGATE && !c->ret; g++) if (c->gate[g].live) FAILP(ORACLE_LIFE, "audit", "sink %d is still referenced after everything was released", g);
    if (c->sound_mgr) { ubuf_mgr_release(c->sound_mgr); c->sound_mgr = NULL; }
    end_op(c, "end");
    for (int i = 0; i < c->ntrk && !c->ret; i++)
        if (!c->trk[i].delivered && !c->trk[i].freed)
            FAILP(ORACLE_LIFE, "held/leaked", "buffer seq=%llu given to %s was neither delivered nor freed by the end of the history", (unsigned long long)c->trk[i].seq, pname(c, c->trk[i].port));
    for (int i = 0; i < c->pfx.nprobes && !c->ret; i++) {
        struct pfx_probe *p = c->pfx.probes[i];
        for (int k = 0; k < p->ntracks; k++)
            if (p->tracks[k].ready && p->tracks[k].dead_count != 1)
                FAILP(ORACLE_LIFE || ORACLE_PROTO, "dead/count", "pipe (probe %d) threw READY but DEAD %d times by the end of the history", i, p->tracks[k].dead_count);
    }
out:
    c->pfx.fm.uref_mgr->uref_free = real_uref_free;
    if (c->ret == 2) {      /* internal error in mid-construction: do not audit */ }
    const char *audit = pfx_clean(&c->pfx);
    if (audit && c->ret != 2) {
        if (!strncmp(audit, "INTERNAL", 8)) { if (!c->ret) c->ret = vp_internal(rep, "%s", audit); }
        else FAILP(ORACLE_LIFE, "audit", "%s", audit);
    }
    if (c->delivered >= 4) c->classes |= 1ull << CL_DELIVERED4;
    if (c->got_after_set && c->any_data) c->classes |= 1ull << CL_OPT_GET_AFTER_SET;
    rep->case_hash = c->hash;
    rep->classes |= c->classes;
    uint64_t holdcl = (1ull << CL_BLOCKED_SRC) | (1ull << CL_PARTIAL_DRAIN) | (1ull << CL_REQ_LATE_HELD) | (1ull << CL_RELEASED_HOLDING) | (1ull << CL_FLUSHED_HOLDING) | (1ull << CL_SETOUT_HOLDING) | (1ull << CL_HELD2);
#if PIPES_PROP == 1
    rep->nontrivial = (c->classes & ((1ull << CL_BLOCKED_SRC) | (1ull << CL_RELEASED_HOLDING) | (1ull << CL_FLUSHED_HOLDING) | (1ull << CL_SETOUT_HOLDING) | (1ull << CL_SUBCHURN) | (1ull << CL_SRC_FREED_BLOCKED))) != 0;
#elif PIPES_PROP == 4
    rep->nontrivial = (c->classes & ((1ull << CL_FLOWDEF_WHILE_HELD) | (1ull << CL_REQ_LATE_HELD) | (1ull << CL_REJECT) | (1ull << CL_SETOUT_HOLDING) | (1ull << CL_RELEASED_HOLDING))) != 0;
#elif PIPES_PROP == 5
    rep->nontrivial = (c->classes & (1ull << CL_DELIVERED4)) && (c->classes & holdcl);
#elif PIPES_PROP == 13
    rep->nontrivial = (c->classes & (1ull << CL_BLOCKED_SRC)) && (c->classes & ((1ull << CL_PARTIAL_DRAIN) | (1ull << CL_FLUSHED_HOLDING) | (1ull << CL_RELEASED_HOLDING) | (1ull << CL_SRC_FREED_BLOCKED)));
#else
    rep->nontrivial = (c->classes & (1ull << CL_OPT_GET_AFTER_SET)) != 0;
#endif
    (void)holdcl;
    return c->ret;
}

static int run(const uint8_t *tape, size_t len, struct vp_report *rep, unsigned flags)
{
#if PIPES_PROP == 1
    pool_track_reset();
    int r = run_once(tape, len, rep, flags, false, 0);
    if (r) return r;
    if (flags & VP_RENDER) vp_render(rep, "---- second pass: pool depth 4\n");
    pool_track_reset();
    r = run_once(tape, len, rep, flags, false, 4);
    rep->classes |= 1ull << CL_POOL;
    return r;
#elif PIPES_PROP == 20
    int r = run_once(tape, len, rep, flags, false, -1);
    if (r) return r;
    uint64_t with_getters = ctx.trace;
    int nt = rep->nontrivial; uint64_t h = rep->case_hash; uint64_t cl = rep->classes; uint32_t ex = rep->excluded;
    if (!ctx.got_after_set) return 0;
    struct vp_report r2; memset(&r2, 0, sizeof r2);
    r = run_once(tape, len, &r2, getenv("VP_HOLD_DEBUG") ? flags : flags & ~VP_RENDER, true, -1);
    if (getenv("VP_HOLD_DEBUG") && r2.render) fprintf(stderr, "---- pass without getters\n%s", r2.render);
    free(r2.render);
    rep->nontrivial = nt; rep->case_hash = h; rep->classes = cl; rep->excluded = ex;
    if (r == 2) return vp_internal(rep, "second pass: %s", r2.msg);
    if (r == 1) return vp_fail(rep, r2.key, "without getter calls: %s", r2.msg);
    if (ctx.trace != with_getters)
        return vp_fail(rep, "C20/noninterference/trace", "the sinks saw different flow definitions / buffers, or saw them at other operations, when the getter calls of this history are left out: a getter changed what the pipe does");
    return 0;
#else
    return run_once(tape, len, rep, flags, false, -1);
#endif
}

const struct vp_executor vp_executor = { PID, "hold", 160, class_names, run, NULL };

/* C17 (convert) — converting a frame between NAL encapsulations keeps every NAL unit's
 * payload and order, and converting back reproduces the original octets when these used
 * 4-octet start codes or length prefixes.
 *
 * The frame (1-8 NAL units) is serialised by the harness in encapsulation A with the
 * attributes the framers set on their output (include/upipe-framers/uref_h26x.h:
 * "h26x.n[i]" = offset of NAL unit i+1 including its start code / prefix; the Annex B
 * framer additionally leaves one last offset equal to the frame size; "b.header" = offset
 * of the first VCL NAL unit), converted by upipe_h26xf_convert_frame to B and back to A,
 * and compared octet for octet with the harness' own serialisation in B / A.
 *
 * Domain D (include/upipe-framers/upipe_h26x_common.h, uref_h26x_flow.h and the callers
 * upipe_h264f/h265f_output_au, upipe_x264, upipe_x265): encapsulations NALU, ANNEXB,
 * LENGTH1, LENGTH2, LENGTH4 (LENGTH_UNKNOWN is never passed by a caller); the frame is
 * well-formed in A and carries correct offsets; annexb_header is the block of
 * upipe_h26xf_alloc_annexb (may be NULL when B is not ANNEXB, as x264/x265 do).
 * A NAL unit larger than the target length prefix can hold must be refused; the encoder
 * callers forward the frame after a refusal, so it must then still be the frame they
 * passed in. */
#include "vp.h"
#include "tape.h"
#include "fix_mem.h"

#include "upipe/uref_block.h"
#include "upipe-framers/uref_h26x.h"
#include "upipe-framers/uref_h26x_flow.h"
#include "upipe-framers/upipe_h26x_common.h"

#include <stdlib.h>
#include <stdio.h>

#define MAXN 8
#define MAXNAL 70000
#define MAXFRAME (MAXN * (MAXNAL + 4) + 16)

enum { CL_3NAL_MIXED, CL_REFUSED, CL_OVER1, CL_OVER2, CL_SEGMENTED, CL_HDRSIZE, CL_TRAILOFF, CL_ROUNDTRIP_EQ,
       CL_FROM_ANNEXB, CL_TO_ANNEXB, CL_FROM_LEN, CL_TO_LEN, CL_NALU, CL_BIG, CL_SHARED, CL_SAME };
static const char *const class_names[] = {
    "ge3_nals_mixed_startcodes", "prefix_overflow_refused", "nal_over_255", "nal_over_65535", "segmented_input",
    "header_size_set", "trailing_offset_attr", "roundtrip_bytes_identical", "from_annexb", "to_annexb",
    "from_length", "to_length", "nalu_involved", "nal_ge_65536", "block_shared_with_dup", "same_encaps", NULL };

static const char *encname(int e)
{
    switch (e) {
    case UREF_H26X_ENCAPS_NALU: return "NALU";
    case UREF_H26X_ENCAPS_ANNEXB: return "ANNEXB";
    case UREF_H26X_ENCAPS_LENGTH1: return "LENGTH1";
    case UREF_H26X_ENCAPS_LENGTH2: return "LENGTH2";
    case UREF_H26X_ENCAPS_LENGTH4: return "LENGTH4";
    default: return "?";
    }
}
static const int encs[5] = { UREF_H26X_ENCAPS_ANNEXB, UREF_H26X_ENCAPS_LENGTH4, UREF_H26X_ENCAPS_NALU,
                             UREF_H26X_ENCAPS_LENGTH2, UREF_H26X_ENCAPS_LENGTH1 };

struct frame {
    int n;
    uint32_t size[MAXN];        /* payload sizes */
    uint8_t sc[MAXN];           /* start code length (3/4) when serialised as Annex B input */
    uint8_t seed[MAXN];
};
struct ser {
    size_t len;
    uint64_t off[MAXN + 1];     /* start of each NAL unit incl. prefix; off[n] = len */
};

static uint8_t paybyte(const struct frame *f, int i, uint32_t k)
{   /* identifies (NAL, index); plenty of zeros and ones so that payload looks like start codes too */
    uint32_t x = (k + 1) * 2654435761u + f->seed[i] * 40503u + i * 97u;
    uint8_t b = x >> 24;
    return (b & 0x60) ? b : (b & 1);
}

/* reference serialisation; sc4: force 4-octet start codes */
static void serialise(const struct frame *f, int enc, bool sc4, uint8_t *out, struct ser *s)
{
    size_t p = 0;
    for (int i = 0; i < f->n; i++) {
        s->off[i] = p;
        uint32_t sz = f->size[i];
        switch (enc) {
        case UREF_H26X_ENCAPS_ANNEXB:
            if (sc4 || f->sc[i] == 4) out[p++] = 0;
            out[p++] = 0; out[p++] = 0; out[p++] = 1; break;
        case UREF_H26X_ENCAPS_LENGTH1: out[p++] = sz; break;
        case UREF_H26X_ENCAPS_LENGTH2: out[p++] = sz >> 8; out[p++] = sz; break;
        case UREF_H26X_ENCAPS_LENGTH4: out[p++] = sz >> 24; out[p++] = sz >> 16; out[p++] = sz >> 8; out[p++] = sz; break;
        default: break;
        }
        for (uint32_t k = 0; k < sz; k++) out[p++] = paybyte(f, i, k);
    }
    s->off[f->n] = p;
    s->len = p;
}

static uint32_t maxnal(int enc)
{
    return enc == UREF_H26X_ENCAPS_LENGTH1 ? 255u : enc == UREF_H26X_ENCAPS_LENGTH2 ? 65535u : 0xffffffffu;
}

static uint8_t *bufA, *bufB, *bufX, *bufG;

/* compares the uref with a reference serialisation + attributes */
static int check_frame(struct vp_report *rep, const char *what, const char *keypfx, struct uref *uref, const struct frame *f,
                       const uint8_t *want, const struct ser *s, bool trailoff, int hdr_k, bool hdr_max)
{
    size_t sz = 0;
    char kb[64], ko[64], kh[64];
    snprintf(kb, sizeof(kb), "%s/bytes", keypfx);
    snprintf(ko, sizeof(ko), "%s/nal-offsets", keypfx);
    snprintf(kh, sizeof(kh), "%s/header-size", keypfx);
    const char *key = kb;
    if (!ubase_check(uref_block_size(uref, &sz)))
        return vp_fail(rep, key, "%s: uref_block_size fails", what);
    if (sz != s->len) {
        return vp_fail(rep, key, "%s: frame is %zu octets, reference serialisation is %zu", what, sz, s->len);
    }
    if (sz && !ubase_check(uref_block_extract(uref, 0, -1, bufG)))
        return vp_fail(rep, key, "%s: size %zu but the octets cannot be extracted", what, sz);
    for (size_t i = 0; i < sz; i++)
        if (bufG[i] != want[i]) {
            int nal = 0; while (nal + 1 < f->n && s->off[nal + 1] <= i) nal++;
            return vp_fail(rep, key, "%s: octet %zu (NAL unit %d, which starts at %llu) is %02x, reference says %02x", what, i, nal,
                           (unsigned long long)s->off[nal], bufG[i], want[i]);
        }
    /* offsets */
    key = ko;
    int expect = f->n - 1 + (trailoff ? 1 : 0);
    for (int i = 0; i <= MAXN + 1; i++) {
        uint64_t o = 0;
        bool has = ubase_check(uref_h26x_get_nal_offset(uref, &o, i));
        if (i < expect) {
            if (!has) return vp_fail(rep, key, "%s: NAL offset attribute %d is missing (%d NAL units)", what, i, f->n);
            if (o != s->off[i + 1])
                return vp_fail(rep, key, "%s: NAL offset attribute %d is %llu, NAL unit %d starts at %llu", what, i, (unsigned long long)o, i + 1, (unsigned long long)s->off[i + 1]);
        } else if (has)
            return vp_fail(rep, key, "%s: unexpected NAL offset attribute %d = %llu (%d NAL units)", what, i, (unsigned long long)o, f->n);
    }
    key = kh;
    uint64_t hs = 0;
    bool has = ubase_check(uref_block_get_header_size(uref, &hs));
    if (hdr_k < 0 && !hdr_max) {
        if (has) return vp_fail(rep, key, "%s: header size attribute %llu appeared", what, (unsigned long long)hs);
    } else {
        uint64_t w = hdr_max ? UINT64_MAX : s->off[hdr_k];
        if (!has) return vp_fail(rep, key, "%s: header size attribute disappeared", what);
        if (hs != w)
            return vp_fail(rep, key, "%s: header size attribute is %llu, the first VCL NAL unit (%d) starts at %llu", what, (unsigned long long)hs, hdr_k, (unsigned long long)w);
    }
    return 0;
}

static int run(const uint8_t *tp_, size_t len, struct vp_report *rep, unsigned flags)
{
    struct tape t;
    tp_init(&t, tp_, len);
    bool render = flags & VP_RENDER;
    int ret = 0;
    if (!bufA) {
        bufA = malloc(MAXFRAME); bufB = malloc(MAXFRAME); bufX = malloc(MAXFRAME); bufG = malloc(MAXFRAME);
        if (!bufA || !bufB || !bufX || !bufG) return vp_internal(rep, "malloc");
    }

    struct frame f;
    memset(&f, 0, sizeof(f));
    uint8_t esel = tp_u8(&t);
    int A = encs[esel % 5], B = encs[(esel % 5 + 1 + esel / 5 % 4) % 5];
    if (esel >= 250) B = A;     /* rare: identical encapsulations (documented no-op) */
    f.n = 1 + tp_u8(&t) % MAXN;
    bool mixed3 = false, mixed4 = false, over1 = false, over2 = false, big = false;
    for (int i = 0; i < f.n; i++) {
        uint8_t s = tp_u8(&t);
        uint32_t sz;
        static const uint32_t edge[] = { 1, 255, 256, 65535, 65536, 254, 257, 2, 65534, 65537, 3, 70000 };
        switch (s % 8) {
        case 0: case 1: case 2: sz = 1 + s / 8 % 24; break;
        case 3: sz = edge[s / 8 % 12]; break;
        case 4: sz = 1 + tp_u8(&t); break;
        case 5: sz = edge[s / 8 % 6]; break;
        case 6: sz = 1 + tp_u16(&t) % 2000; break;
        default: sz = 1 + tp_u32(&t) % MAXNAL; break;
        }
        uint32_t lim = maxnal(A);       /* the input must be well-formed in A */
        if (sz > lim) sz = lim - (s / 8 % 3);
        f.size[i] = sz;
        uint8_t c = tp_u8(&t);
        f.sc[i] = (c & 1) ? 3 : 4;
        f.seed[i] = c >> 1;
        if (f.sc[i] == 3) mixed3 = true; else mixed4 = true;
        if (sz > 255) over1 = true;
        if (sz > 65535) { over2 = true; big = true; }
    }
    uint8_t asel = tp_u8(&t);
    bool trailoff = (asel & 3) == 1;                 /* what the Annex B framer leaves behind */
    int hdr_k = -1; bool hdr_max = false;
    switch (asel / 4 % 8) {
    case 0: case 1: break;                            /* no header size */
    case 2: hdr_k = 0; break;
    case 7: if (asel & 0x80) { hdr_max = true; break; } /* work_nalu/work_length without a VCL NAL unit: (uint64_t)-1 */
            /* fallthrough */
    default: hdr_k = tp_u8(&t) % f.n; break;
    }
    uint8_t ssel = tp_u8(&t);
    int segmode = ssel % 4;                           /* 0: one segment; 1: one per NAL part; 2,3: tape cuts */
    bool shared = (ssel & 0x10) != 0;
    bool nullhdr = (ssel & 0x20) != 0 && B != UREF_H26X_ENCAPS_ANNEXB;

    struct ser sA, sB, sX;
    serialise(&f, A, false, bufA, &sA);
    serialise(&f, B, true, bufB, &sB);
    serialise(&f, A, true, bufX, &sX);                /* after A->B->A every start code has 4 octets */
    bool refuse = false;
    for (int i = 0; i < f.n; i++) if (f.size[i] > maxnal(B)) refuse = true;
    if (A == B) { refuse = false; memcpy(bufB, bufA, sA.len); sB = sA; memcpy(bufX, bufA, sA.len); sX = sA; }

    uint64_t h = vp_hash_mix(VP_HASH_INIT, (A << 8) | B);
    for (int i = 0; i < f.n; i++) h = vp_hash_mix(h, ((uint64_t)f.size[i] << 16) | (f.sc[i] << 8) | f.seed[i]);
    h = vp_hash_mix(h, (asel << 8) | (ssel & 0x3f));
    h = vp_hash_mix(h, hdr_k + 2);

    if (render) {
        vp_render(rep, "C17/convert %s -> %s -> %s, %d NAL units:", encname(A), encname(B), encname(A), f.n);
        for (int i = 0; i < f.n; i++) vp_render(rep, " %u%s", f.size[i], A == UREF_H26X_ENCAPS_ANNEXB ? (f.sc[i] == 3 ? "/sc3" : "/sc4") : "");
        vp_render(rep, "\n  frame %zu octets, offsets:", sA.len);
        for (int i = 1; i < f.n + (trailoff ? 1 : 0); i++) vp_render(rep, " n[%d]=%llu", i - 1, (unsigned long long)sA.off[i]);
        if (hdr_max) vp_render(rep, " header_size=UINT64_MAX");
        else if (hdr_k >= 0) vp_render(rep, " header_size=%llu (NAL %d)", (unsigned long long)sA.off[hdr_k], hdr_k);
        vp_render(rep, "%s%s%s\n", shared ? " shared-with-dup" : "", nullhdr ? " annexb_header=NULL" : "", refuse ? "  [a NAL unit exceeds the target prefix]" : "");
    }

    struct fix_mem fm;
    if (fix_mem_init(&fm, 0, 0, 0) != 0) return vp_internal(rep, "fix_mem_init");
    struct uref *uref = uref_alloc(fm.uref_mgr);
    struct ubuf *annexb = upipe_h26xf_alloc_annexb(fm.block_mgr);
    struct ubuf *keep = NULL;
    if (!uref || !annexb) { ret = vp_internal(rep, "alloc"); goto out; }

    /* build the block */
    {
        struct ubuf *ubuf = NULL;
        size_t pos = 0; int nseg = 0;
        if (render) vp_render(rep, "  segments:");
        while (pos < sA.len || !ubuf) {
            size_t rest = sA.len - pos, seg;
            if (segmode == 0) seg = rest;
            else if (segmode == 1) {     /* cut at every prefix/payload boundary */
                int nal = 0; while (nal + 1 < f.n && sA.off[nal + 1] <= pos) nal++;
                size_t pfx = sA.off[nal + 1] - sA.off[nal] - f.size[nal];
                seg = pos < sA.off[nal] + pfx ? sA.off[nal] + pfx - pos : sA.off[nal + 1] - pos;
            } else {
                uint8_t s = tp_u8(&t);
                if (s == 0) seg = rest;
                else if (s % 4 == 0) {  /* near the next NAL boundary */
                    int nal = 0; while (nal + 1 < f.n && sA.off[nal + 1] <= pos) nal++;
                    size_t b = sA.off[nal + 1] + s / 4 % 5;
                    seg = b > pos + 2 ? b - pos - 2 : 1;
                } else seg = 1 + s % 9;
            }
            if (seg > rest) seg = rest;
            if (seg == 0 && ubuf) break;
            if (nseg >= 40) seg = rest;
            struct ubuf *piece = ubuf_block_alloc_from_opaque(fm.block_mgr, bufA + pos, seg);
            if (!piece) { ret = vp_internal(rep, "ubuf alloc"); if (ubuf) ubuf_free(ubuf); goto out; }
            if (!ubuf) ubuf = piece;
            else if (!ubase_check(ubuf_block_append(ubuf, piece))) { ubuf_free(piece); ubuf_free(ubuf); ret = vp_internal(rep, "append"); goto out; }
            pos += seg; nseg++;
            if (render && nseg <= 41) vp_render(rep, " %zu", seg);
            h = vp_hash_mix(h, seg);
        }
        if (render) vp_render(rep, "\n");
        uref_attach_ubuf(uref, ubuf);
        if (nseg > 1) rep->classes |= 1u << CL_SEGMENTED;
    }
    for (int i = 1; i < f.n + (trailoff ? 1 : 0); i++)
        if (!ubase_check(uref_h26x_set_nal_offset(uref, sA.off[i], i - 1))) { ret = vp_internal(rep, "set_nal_offset"); goto out; }
    if (hdr_max) uref_block_set_header_size(uref, UINT64_MAX);
    else if (hdr_k >= 0) uref_block_set_header_size(uref, sA.off[hdr_k]);
    if (shared) keep = ubuf_dup(uref->ubuf);

    /* sanity of the harness: what we built is what we think */
    if ((ret = check_frame(rep, "input as built by the harness", "INTERNAL/x", uref, &f, bufA, &sA, trailoff, hdr_k, hdr_max)) != 0) {
        char m[512]; snprintf(m, sizeof(m), "%s", rep->msg);
        ret = vp_internal(rep, "harness built a wrong frame: %s", m); goto out; }

    /* ---- A -> B ---- */
    int e = upipe_h26xf_convert_frame(uref, A, B, fm.block_mgr, nullhdr ? NULL : annexb);
    if (render) vp_render(rep, "  convert_frame(%s -> %s) = %d\n", encname(A), encname(B), e);
    if (refuse) {
        if (ubase_check(e))
            ret = vp_fail(rep, "C17/convert/not-refused", "%s -> %s succeeded although a NAL unit is larger than the %s prefix can hold (length truncated)", encname(A), encname(B), encname(B));
        else
            ret = check_frame(rep, "after the refused conversion", "C17/refusal", uref, &f, bufA, &sA, trailoff, hdr_k, hdr_max);
        rep->classes |= 1u << CL_REFUSED;
    } else {
        if (!ubase_check(e))
            ret = vp_fail(rep, "C17/convert/error", "%s -> %s returned error %d on a well-formed frame whose NAL units all fit", encname(A), encname(B), e);
        else {
            char what[64]; snprintf(what, sizeof(what), "after %s -> %s", encname(A), encname(B));
            ret = check_frame(rep, what, "C17/forward", uref, &f, bufB, &sB, trailoff, hdr_k, hdr_max);
        }
        /* ---- B -> A ---- */
        if (ret == 0) {
            bool nullhdr2 = nullhdr && A != UREF_H26X_ENCAPS_ANNEXB;
            e = upipe_h26xf_convert_frame(uref, B, A, fm.block_mgr, nullhdr2 ? NULL : annexb);
            if (render) vp_render(rep, "  convert_frame(%s -> %s) = %d\n", encname(B), encname(A), e);
            if (!ubase_check(e))
                ret = vp_fail(rep, "C17/convert/error", "converting back %s -> %s returned error %d", encname(B), encname(A), e);
            else {
                char what[64]; snprintf(what, sizeof(what), "after %s -> %s -> %s", encname(A), encname(B), encname(A));
                ret = check_frame(rep, what, "C17/back", uref, &f, bufX, &sX, trailoff, hdr_k, hdr_max);
                if (ret == 0 && sX.len == sA.len && !memcmp(bufX, bufA, sA.len)) rep->classes |= 1u << CL_ROUNDTRIP_EQ;
            }
        }
    }
    /* a dup taken before the conversion is an independent block: it still reads as the original */
    if (ret == 0 && keep) {
        size_t sz = 0;
        if (!ubase_check(ubuf_block_size(keep, &sz)) || sz != sA.len || (sz && !ubase_check(ubuf_block_extract(keep, 0, -1, bufG))) || memcmp(bufG, bufA, sA.len))
            ret = vp_fail(rep, "C17/convert/dup-changed", "a ubuf_dup of the frame taken before the conversion no longer reads as the original octets");
        rep->classes |= 1u << CL_SHARED;
    }

out:
    if (keep) ubuf_free(keep);
    if (uref) uref_free(uref);
    if (annexb) ubuf_free(annexb);
    {
        const char *leak = fix_mem_clean(&fm);
        if (leak && ret == 0) ret = vp_fail(rep, "C17/convert/leak", "after the conversion and release of the frame: %s", leak);
    }
    rep->case_hash = h;
    if (f.n >= 3 && mixed3 && mixed4 && A == UREF_H26X_ENCAPS_ANNEXB) rep->classes |= 1u << CL_3NAL_MIXED;
    if (over1) rep->classes |= 1u << CL_OVER1;
    if (over2) rep->classes |= 1u << CL_OVER2;
    if (big) rep->classes |= 1u << CL_BIG;
    if (hdr_k > 0) rep->classes |= 1u << CL_HDRSIZE;
    if (trailoff) rep->classes |= 1u << CL_TRAILOFF;
    if (A == UREF_H26X_ENCAPS_ANNEXB) rep->classes |= 1u << CL_FROM_ANNEXB;
    if (B == UREF_H26X_ENCAPS_ANNEXB) rep->classes |= 1u << CL_TO_ANNEXB;
    if (A >= UREF_H26X_ENCAPS_LENGTH1) rep->classes |= 1u << CL_FROM_LEN;
    if (B >= UREF_H26X_ENCAPS_LENGTH1) rep->classes |= 1u << CL_TO_LEN;
    if (A == UREF_H26X_ENCAPS_NALU || B == UREF_H26X_ENCAPS_NALU) rep->classes |= 1u << CL_NALU;
    if (A == B) rep->classes |= 1u << CL_SAME;
    rep->nontrivial = (rep->classes & ((1u << CL_3NAL_MIXED) | (1u << CL_REFUSED))) != 0 && A != B;
    return ret;
}

const struct vp_executor vp_executor = { "C17", "convert", 96, class_names, run, NULL };

/* C09 — the memory area shared between buffers is returned to its allocator exactly once, by
 * whichever holder lets go last (executor "ubufshare").
 *
 * One ubuf_block_mem buffer is allocated over the counting umem (engine/umem_count.c, wrapped so that
 * the harness sees the instant the area is freed) and dup'ed into the handles the tape hands to 2-3
 * logical threads. Each thread runs a program of dup (of a handle it holds) / free / read and finally
 * frees every handle it still holds. The ubuf and shared-structure pools have depth 0 or > 0 (tape).
 * Threads are coroutines over the real code (ubuf_block_mem.c, ubuf_mem_common.h, upool.h, ulifo.h,
 * uring.h, urefcount.h) with a scheduling point before every uatomic operation and ring-element access.
 *
 * Oracle: the area is freed exactly once; at that instant no handle is outstanding (a handle is
 * outstanding from the return of the dup that created it until the step in which its ubuf_free
 * performs its first shared access); the bytes read through a held handle are the ones written; the
 * counting umem sees no unknown/double free and nothing live at the end. ASan is on (fiber
 * annotations in engine/sched.c): a touch of the area after its free is a heap-use-after-free.
 *
 * Extra mode: --extra enum --template NAME|all --bound K.
 */
#undef NDEBUG
#include "vp.h"
#include "tape.h"
#include "vsched.h"
#include "umem_count.h"

#include "upipe/ubase.h"
#include "upipe/uatomic.h"
#include "upipe/urefcount.h"
#include "upipe/umem.h"
#include "upipe/ubuf.h"
#include "upipe/ubuf_block.h"
#include "upipe/ubuf_block_mem.h"
#include "upipe/ubuf_pic.h"
#include "upipe/ubuf_pic_mem.h"

#include <stdio.h>
#include <stdlib.h>
#include <string.h>

void __lsan_disable(void);
void __lsan_enable(void);

#define MAXT 3
#define MAXOPS 4
#define MAXH 8
#define AREA 24
enum { OP_FREE = 0, OP_DUP = 1, OP_READ = 2 };
static const char *const op_name[] = { "free", "dup", "read" };

enum { CL_FREE_OVERLAP, CL_DUP_FREE_OVERLAP, CL_LAST_TWO_DIFFERENT, CL_3THREADS, CL_SWITCH_IN_OP, CL_POOL0, CL_POOLN,
       CL_POL_TAPE, CL_POL_PCT, CL_POL_PREFIX, CL_DUP_DONE, CL_READ_DONE, CL_PREEMPT, CL_CAS_RETRY, CL_FAILED_ALLOC, CL_FAILED_STRUCT, CL_CROSS_MGR, CL_VACUUM, CL_MGR_RELEASED_EARLY };
static const char *const class_names[] = {
    "two_frees_in_flight_together", "dup_in_flight_with_free", "last_two_decrements_by_different_threads", "three_threads",
    "context_switch_inside_operation", "pool_depth_0", "pool_depth_positive", "policy_tape", "policy_pct", "policy_prefix",
    "dup_executed", "read_executed", "preempted", "pool_cas_retry", "allocation_failures_before_the_area", "structure_allocation_refused_before_the_area", "block_from_picture_plane_outlives_the_picture_manager",
    "pools_flushed_with_idle_structures_before_the_area", "creator_releases_the_manager_while_buffers_are_freed", NULL };

struct prog {
    int nthreads;
    int ubuf_pool, shared_pool;
    int init[MAXT];
    int nops[MAXT];
    uint8_t ops[MAXT][MAXOPS];
    int failed_allocs;          /* allocations that fail (umem exhausted) before the shared area is made: 0-2 (last: the templates use positional initialisers) */
    int cross_mgr;              /* before the race: a block made from the plane of a picture outlives the picture and the creator's reference
                                 * on the picture manager -- the manager must live until that block is freed */
    int vacuum;                 /* before the race: buffers allocated and freed (their structures idle in the pools), then the pools are flushed:
                                 * flushing takes nothing from the manager's count */
    int early_release;          /* the creator's reference on the buffer manager is given back by the last thread, as its first operation: the
                                 * buffers keep the manager alive, its destructor runs with the last of them */
    int failed_struct;          /* a refused allocation of a buffer STRUCTURE before the shared area is made (engine/faultmalloc.h):
                                 * 1 = in ubuf_block_alloc, 2 = for the second segment while a two-segment block is duplicated */
};

struct wrap_mgr { struct urefcount rc; struct umem_mgr mgr; struct umem_mgr *inner; };

static struct {
    struct prog p;
    struct wrap_mgr w;
    struct ubuf_mgr *mgr;
    struct ubuf *h[MAXT][MAXH];
    int nh[MAXT];
    int outstanding;
    int area_allocs, area_frees; int w_dead;
    bool prelude; int prelude_allocs, prelude_frees;     /* areas of the buffers made and freed before the shared area exists */
    int in_free[MAXT], in_dup[MAXT];
    bool free_overlap, dup_free_overlap, cas_retry;
    int dec_thread[2];
    int dups, reads;
    char fkey[96], fmsg[256];
} cx;

static void fail_inside(const char *key, const char *msg, int a)
{
    if (cx.fkey[0]) return;
    snprintf(cx.fkey, sizeof(cx.fkey), "%s", key);
    snprintf(cx.fmsg, sizeof(cx.fmsg), msg, a);
}

/* ---- umem wrapper: sees the area come and go */
static void wrap_rc_cb(struct urefcount *rc);

static bool wrap_alloc(struct umem_mgr *mgr, struct umem *umem, size_t size)
{
    struct wrap_mgr *w = container_of(mgr, struct wrap_mgr, mgr);
    if (!w->inner->umem_alloc(w->inner, umem, size)) return false;
    umem->mgr = mgr;
    if (cx.prelude) { cx.prelude_allocs++; return true; }
    cx.area_allocs++;
    return true;
}

static bool wrap_realloc(struct umem *umem, size_t size)
{
    struct wrap_mgr *w = container_of(umem->mgr, struct wrap_mgr, mgr);
    umem->mgr = w->inner;
    bool ok = w->inner->umem_realloc(umem, size);
    umem->mgr = &w->mgr;
    return ok;
}

static void wrap_free(struct umem *umem)
{
    struct wrap_mgr *w = container_of(umem->mgr, struct wrap_mgr, mgr);
    if (cx.prelude) { cx.prelude_frees++; umem->mgr = w->inner; w->inner->umem_free(umem); return; }
    cx.area_frees++;
    if (cx.area_frees > 1)
        fail_inside("C09/area/freed-twice", "the shared area was returned to its allocator %d times", cx.area_frees);
    else if (cx.outstanding != 0)
        fail_inside("C09/area/freed-early", "the shared area was returned to its allocator while %d handle(s) were still outstanding", cx.outstanding);
    umem->mgr = w->inner;
    w->inner->umem_free(umem);
}

/* the destructor of the memory manager (it runs only when the application has let go of its own handle: early_release) */
static void wrap_rc_cb(struct urefcount *rc)
{
    (void)rc;
    cx.w_dead++;
    if (cx.area_frees < cx.area_allocs)
        fail_inside("C09/manager/destroyed-early", "the destructor of the memory manager ran while %d of its areas had not been returned to it", cx.area_allocs - cx.area_frees);
}

static void op_started(int i)
{
    const struct vs_op *o = &vs_hist[i];
    if (o->kind == OP_FREE) {
        cx.outstanding--;
        cx.dec_thread[0] = cx.dec_thread[1];
        cx.dec_thread[1] = o->thread;
    }
}

static int on_step(void *opaque)
{
    (void)opaque;
    int nf = 0, nd = 0;
    for (int t = 0; t < cx.p.nthreads; t++) { nf += cx.in_free[t]; nd += cx.in_dup[t]; }
    if (nf >= 2) cx.free_overlap = true;
    if (nf >= 1 && nd >= 1) cx.dup_free_overlap = true;
    return cx.fkey[0] != 0;
}

static uint8_t pattern(int i) { return (uint8_t)(0x41 + 7 * i); }

static void do_free(int t)
{
    struct ubuf *u = cx.h[t][--cx.nh[t]];
    cx.in_free[t] = 1;
    int h = vs_op_begin(OP_FREE, 0, 0);
    ubuf_free(u);
    vs_op_end(cx.area_frees);
    if (h >= 0 && vs_hist[h].n_cas > 4) cx.cas_retry = true;
    cx.in_free[t] = 0;
}

static void do_dup(int t)
{
    cx.in_dup[t] = 1;
    int h = vs_op_begin(OP_DUP, 0, 0);
    struct ubuf *n = ubuf_dup(cx.h[t][cx.nh[t] - 1]);
    vs_op_end(n != NULL);
    if (h >= 0 && vs_hist[h].n_cas > 2) cx.cas_retry = true;
    cx.in_dup[t] = 0;
    cx.dups++;
    if (n == NULL) { fail_inside("C09/dup/failed", "ubuf_dup failed in thread %d", t); return; }
    cx.h[t][cx.nh[t]++] = n;
    cx.outstanding++;
}

static void do_read(int t)
{
    struct ubuf *u = cx.h[t][cx.nh[t] - 1];
    const uint8_t *buf;
    int size = -1;
    vs_op_begin(OP_READ, 0, 0);
    int err = ubuf_block_read(u, 0, &size, &buf);
    bool ok = ubase_check(err) && size == AREA;
    if (ok) {
        for (int i = 0; i < AREA; i++)
            if (buf[i] != pattern(i)) { ok = false; break; }
        ubuf_block_unmap(u, 0);
    }
    vs_op_end(ok);
    cx.reads++;
    if (!ok)
        fail_inside("C09/area/content", "thread %d holds a handle but does not read back the bytes written into the shared area", t);
}

static void worker(void *arg)
{
    int t = (int)(intptr_t)arg;
    const struct prog *p = &cx.p;
    if (p->early_release && t == p->nthreads - 1) {
        vs_op_begin(OP_READ, 0, 0);
        ubuf_mgr_release(cx.mgr);
        umem_mgr_release(&cx.w.mgr);        /* the buffers keep the buffer manager alive, and it the memory manager */
        vs_op_end(1);
    }
    for (int j = 0; j < p->nops[t] && !cx.fkey[0]; j++) {
        if (cx.nh[t] <= 0) break;
        switch (p->ops[t][j]) {
        case OP_DUP: if (cx.nh[t] < MAXH) do_dup(t); break;
        case OP_READ: do_read(t); break;
        default: do_free(t); break;
        }
    }
    while (cx.nh[t] > 0 && !cx.fkey[0])
        do_free(t);
    if (cx.fkey[0]) vs_abort();
}

static void render_case(struct vp_report *rep, const struct vs_config *cfg)
{
    const struct prog *p = &cx.p;
    char pb[32];
    vp_render(rep, "C09 ubuf_block_mem shared area: threads=%d ubuf_pool_depth=%d shared_pool_depth=%d\n", p->nthreads, p->ubuf_pool, p->shared_pool);
    for (int t = 0; t < p->nthreads; t++) {
        vp_render(rep, "  T%d: starts with %d handle(s);", t, p->init[t]);
        for (int j = 0; j < p->nops[t]; j++) vp_render(rep, " %s", op_name[p->ops[t][j]]);
        vp_render(rep, "; then frees what it holds\n");
    }
    vp_render(rep, "  schedule policy=%s steps=%u preemptions=%u:", vs_policy_name(cfg, pb, sizeof(pb)), vs_stats.steps, vs_stats.preemptions);
    vs_render_schedule(rep, 0, vs_stats.steps);
    for (int i = 0; i < vs_nhist; i++) {
        const struct vs_op *o = &vs_hist[i];
        vp_render(rep, "  #%-2d T%u %-5s steps %u..%u%s\n", i, o->thread, op_name[o->kind], o->inv_step, o->res_step,
                  o->kind == OP_FREE && o->done && o->ret ? "  (area had been freed by its return)" : "");
    }
    vp_render(rep, "  area allocated %d time(s), freed %d time(s)\n", cx.area_allocs, cx.area_frees);
}

static int run_case(const struct prog *prog, struct vs_config *cfg, struct vp_report *rep, unsigned flags)
{
    memset(&cx, 0, sizeof(cx));
    cx.p = *prog;
    const struct prog *p = &cx.p;
    cx.dec_thread[0] = cx.dec_thread[1] = -1;
    int ret = 0;

    __lsan_disable();   /* leaks are decided by the harness' own accounting, also for aborted runs */
    vs_reset();
    vs_on_op_start(op_started);
    struct umem_mgr *inner = umem_count_mgr_alloc();
    urefcount_init(&cx.w.rc, wrap_rc_cb);
    cx.w.mgr.refcount = &cx.w.rc;
    cx.w.mgr.umem_alloc = wrap_alloc;
    cx.w.mgr.umem_realloc = wrap_realloc;
    cx.w.mgr.umem_free = wrap_free;
    cx.w.mgr.umem_mgr_vacuum = NULL;
    cx.w.inner = inner;
    cx.mgr = ubuf_block_mem_mgr_alloc(p->ubuf_pool, p->shared_pool, &cx.w.mgr, 0, 0, 0, 0);
    /* a manager that has seen allocations fail (the memory allocator refused the area) must hand out structures that are as
     * good as new: what such a failure leaves in the pools must not upset the count of the next area */
    for (int k = 0; inner && cx.mgr && k < p->failed_allocs; k++) {
        umem_count_fail_nth(inner, 1);
        struct ubuf *f = ubuf_block_alloc(cx.mgr, AREA);
        umem_count_fail_nth(inner, 0);
        if (f != NULL) { ubuf_free(f); }    /* (the failure was not reached: nothing to say) */
        rep->classes |= 1u << CL_FAILED_ALLOC;
    }
    if (inner && cx.mgr && p->cross_mgr) {
        cx.prelude = true;
        struct ubuf_mgr *pm = ubuf_pic_mem_mgr_alloc(p->ubuf_pool, p->shared_pool, &cx.w.mgr, 1, 0, 0, 0, 0, 0, 0);
        if (pm != NULL && ubase_check(ubuf_pic_mem_mgr_add_plane(pm, "y8", 1, 1, 1))) {
            struct ubuf *pic = ubuf_pic_alloc(pm, 16, 4);
            struct ubuf *none = pic ? ubuf_block_mem_alloc_from_pic(cx.mgr, pic, "a8") : NULL;     /* no such plane: refused, and nothing kept */
            if (none) ubuf_free(none);
            struct ubuf *blk = pic ? ubuf_block_mem_alloc_from_pic(cx.mgr, pic, "y8") : NULL;
            if (pic) ubuf_free(pic);
            ubuf_mgr_release(pm); pm = NULL;        /* the creator lets go: the block's area descriptor keeps the manager alive */
            if (blk) { uint8_t tmp; ubuf_block_extract(blk, 0, 1, &tmp); ubuf_free(blk); }
            rep->classes |= 1u << CL_CROSS_MGR;
        }
        if (pm) ubuf_mgr_release(pm);
        cx.prelude = false;
        struct umem_count_stats *ps = umem_count_stats(inner);
        if (cx.prelude_frees != cx.prelude_allocs || ps->bad_free || ps->live) {
            __lsan_enable(); vs_end();
            return vp_fail(rep, "C09/area/cross-manager", "a block made from the plane of a picture was freed after the picture and after the creator's reference on the picture manager: %d area(s) allocated, %d returned (%lu unknown frees, %ld still allocated)",
                           cx.prelude_allocs, cx.prelude_frees, ps->bad_free, ps->live);
        }
        cx.prelude_allocs = cx.prelude_frees = 0;
    }
    if (inner && cx.mgr && p->vacuum) {
        cx.prelude = true;
        struct ubuf *a = ubuf_block_alloc(cx.mgr, AREA), *b = ubuf_block_alloc(cx.mgr, AREA);
        if (a) ubuf_free(a);
        if (b) ubuf_free(b);
        ubuf_mgr_vacuum(cx.mgr);
        if (p->vacuum == 2) ubuf_mgr_vacuum(cx.mgr);
        cx.prelude = false;
        cx.prelude_allocs = cx.prelude_frees = 0;
        rep->classes |= 1u << CL_VACUUM;
        if (urefcount_single(&cx.w.rc)) {       /* (the buffer manager holds a reference on its memory manager until it is destroyed) */
            __lsan_enable(); vs_end();
            return vp_fail(rep, "C09/manager/destroyed-early", "buffers were allocated and freed and the pools flushed while the creator still holds the buffer manager: its destructor has run");
        }
    }
#ifdef VP_FAULTMALLOC_H
    cx.prelude = true;
    /* the same for a refused allocation of a structure: whatever the failed call had taken (a reference on the manager, on a
     * memory area) is given back exactly once -- judged by the counts below and by the destructor of the manager at the end */
    if (inner && cx.mgr && p->failed_struct == 1) {
        vp_fault_arm(1);
        struct ubuf *f = ubuf_block_alloc(cx.mgr, AREA);
        vp_fault_disarm();
        if (f != NULL) ubuf_free(f);
        rep->classes |= 1u << CL_FAILED_STRUCT;
    } else if (inner && cx.mgr && p->failed_struct >= 2) {
        struct ubuf *a = ubuf_block_alloc(cx.mgr, AREA), *b = ubuf_block_alloc(cx.mgr, AREA);
        if (a && b && ubase_check(ubuf_block_append(a, b))) {
            b = NULL;
            vp_fault_arm(2);            /* the structure of the head is allocated, the one of the second segment is not */
            struct ubuf *d = p->failed_struct == 2 ? ubuf_dup(a) :
                             p->failed_struct == 3 ? ubuf_block_splice(a, 0, -1) : ubuf_block_splice(a, AREA / 2, AREA);   /* a window over both segments */
            vp_fault_disarm();
            if (d != NULL) ubuf_free(d);
            rep->classes |= 1u << CL_FAILED_STRUCT;
        }
        if (a) ubuf_free(a);
        if (b) ubuf_free(b);
    }
    cx.prelude = false;
    if (p->failed_struct && inner) {
        struct umem_count_stats *ps = umem_count_stats(inner);
        if (cx.prelude_frees != cx.prelude_allocs || ps->bad_free || ps->live) {
            __lsan_enable(); vs_end();
            return vp_fail(rep, "C09/area/count-after-failed-allocation", "a call failed because the allocation of a buffer structure was refused; afterwards, with every buffer freed, "
                           "%d area(s) were allocated and %d returned (%lu unknown frees, %ld still allocated): the failed call gave back a reference it had not taken, or kept one",
                           cx.prelude_allocs, cx.prelude_frees, ps->bad_free, ps->live);
        }
    }
#endif
    struct ubuf *first = inner && cx.mgr ? ubuf_block_alloc(cx.mgr, AREA) : NULL;
    if (first == NULL) { __lsan_enable(); vs_end(); return vp_internal(rep, "fixture allocation failed"); }
    {
        uint8_t *w; int size = -1;
        if (!ubase_check(ubuf_block_write(first, 0, &size, &w)) || size != AREA) {
            __lsan_enable(); vs_end();
            if (p->failed_allocs || p->failed_struct)   /* the only holder of a brand-new area is refused a writable mapping: the count of the area is off */
                return vp_fail(rep, "C09/area/count-after-failed-allocation", "after %d allocation(s) failed for lack of memory, the next buffer allocated -- sole holder of its area -- is refused a writable mapping: the holder count of the recycled structure is wrong", p->failed_allocs);
            return vp_internal(rep, "ubuf_block_write");
        }
        for (int i = 0; i < AREA; i++) w[i] = pattern(i);
        ubuf_block_unmap(first, 0);
    }
    int total = 0;
    for (int t = 0; t < p->nthreads; t++)
        for (int k = 0; k < p->init[t]; k++) {
            struct ubuf *u = total == 0 ? first : ubuf_dup(first);
            if (u == NULL) { __lsan_enable(); vs_end(); return vp_internal(rep, "ubuf_dup (setup)"); }
            cx.h[t][cx.nh[t]++] = u;
            total++;
        }
    cx.outstanding = total;
    for (int t = 0; t < p->nthreads; t++)
        vs_spawn(worker, (void *)(intptr_t)t);
    cfg->step_bound = 6000;
    cfg->pct_est = 200;
    cfg->on_step = on_step;
    int r = vs_run(cfg);
    struct vs_stats st = vs_stats;
    vs_end();

    uint64_t h = VP_HASH_INIT;
    h = vp_hash_mix(h, (uint64_t)p->nthreads | (uint64_t)p->ubuf_pool << 8 | (uint64_t)p->shared_pool << 16 | (uint64_t)p->vacuum << 24 | (uint64_t)p->early_release << 28);
    for (int t = 0; t < p->nthreads; t++) {
        h = vp_hash_mix(h, (uint64_t)p->init[t] << 8 | (uint64_t)p->nops[t]);
        for (int j = 0; j < p->nops[t]; j++) h = vp_hash_mix(h, p->ops[t][j]);
    }
    rep->case_hash = vs_trace_hash(h);
    if (cx.free_overlap) rep->classes |= 1u << CL_FREE_OVERLAP;
    if (cx.dup_free_overlap) rep->classes |= 1u << CL_DUP_FREE_OVERLAP;
    if (cx.dec_thread[0] >= 0 && cx.dec_thread[0] != cx.dec_thread[1]) rep->classes |= 1u << CL_LAST_TWO_DIFFERENT;
    if (p->nthreads >= 3) rep->classes |= 1u << CL_3THREADS;
    if (st.switch_in_op) rep->classes |= 1u << CL_SWITCH_IN_OP;
    rep->classes |= 1u << ((p->ubuf_pool || p->shared_pool) ? CL_POOLN : CL_POOL0);
    rep->classes |= 1u << (cfg->policy == VS_TAPE ? CL_POL_TAPE : cfg->policy == VS_PCT ? CL_POL_PCT : CL_POL_PREFIX);
    if (cx.dups) rep->classes |= 1u << CL_DUP_DONE;
    if (cx.reads) rep->classes |= 1u << CL_READ_DONE;
    if (st.preemptions) rep->classes |= 1u << CL_PREEMPT;
    if (cx.cas_retry) rep->classes |= 1u << CL_CAS_RETRY;
    rep->nontrivial = cx.free_overlap && st.switch_in_op > 0;

    if (cx.fkey[0])
        ret = vp_fail(rep, cx.fkey, "%s", cx.fmsg);
    else if (r == VS_INTERNAL || vs_errmsg[0])
        ret = vp_internal(rep, "scheduler: %s", vs_errmsg);
    else if (r == VS_LIVELOCK)
        ret = vp_fail(rep, "C09/livelock/ubuf", "the program did not finish within 6000 steps");
    else if (r != VS_DONE)
        ret = vp_internal(rep, "unexpected scheduler result %d", r);
    else if (cx.area_frees == 0)
        ret = vp_fail(rep, "C09/area/never-freed", "all %d handles (+%d dups) were freed but the shared area was never returned to its allocator", total, cx.dups);
    if (flags & VP_RENDER)
        render_case(rep, cfg);
    /* teardown (sequential); skipped after a failure: the structures may be inconsistent and the
     * verdict is already decided (LeakSanitizer is told to ignore this case's allocations) */
    if (r == VS_DONE && ret == 0) {
        if (!p->early_release) ubuf_mgr_release(cx.mgr);
        else rep->classes |= 1u << CL_MGR_RELEASED_EARLY;
        struct umem_count_stats *s = umem_count_stats(inner);
        if (cx.fkey[0])
            ret = vp_fail(rep, cx.fkey, "%s", cx.fmsg);
        else if (s->bad_free)
            ret = vp_fail(rep, "C09/area/unknown-free", "%lu free(s) of an area the allocator does not know (double free)", s->bad_free);
        else if (s->live != 0)
            ret = vp_fail(rep, "C09/area/never-freed", "%ld area(s) still allocated after every handle was freed", s->live);
        else if (p->early_release ? cx.w_dead != 1 : !urefcount_single(&cx.w.rc))
            ret = vp_fail(rep, "C09/manager/never-destroyed", "every buffer was freed and the buffer manager released by its creator, yet it still holds its memory manager: the manager's destructor never ran (a reference on the manager was taken and not given back)");
        umem_mgr_release(inner);
    }
    __lsan_enable();
    return ret;
}

/* ---------------------------------------------------------------- tape <-> program */

static const uint8_t pool_cfg[5][2] = { { 0, 0 }, { 2, 2 }, { 1, 1 }, { 0, 2 }, { 2, 0 } };

static void decode_prog(struct tape *t, struct prog *p)
{
    memset(p, 0, sizeof(*p));
    uint8_t b0 = tp_u8(t);
    p->nthreads = 2 + b0 % 2;
    p->failed_allocs = (b0 >> 1) % 4 == 3 ? 1 + ((b0 >> 3) & 1) : 0;
    p->cross_mgr = ((b0 >> 1) % 4 == 1 && (b0 & 0x10)) ? 1 : 0;
    p->failed_struct = ((b0 >> 1) % 4 == 2 && (b0 & 0x10)) ? 1 + ((b0 >> 3) & 1) + 2 * ((b0 >> 5) & 1) : 0;      /* 1..4 */
    p->vacuum = ((b0 >> 1) % 4 == 0 && (b0 & 0x10)) ? 1 + ((b0 >> 3) & 1) : 0;
    p->early_release = (b0 & 0x40) ? 1 : 0;
    uint8_t pc = tp_u8(t) % 5;
    p->ubuf_pool = pool_cfg[pc][0];
    p->shared_pool = pool_cfg[pc][1];
    for (int i = 0; i < p->nthreads; i++) {
        uint8_t b = tp_u8(t);
        p->init[i] = i == 0 ? 1 + b % 2 : (b % 4 == 3 ? 0 : 1 + b % 4 / 2);
        p->nops[i] = tp_u8(t) % (MAXOPS + 1);
        for (int j = 0; j < p->nops[i]; j++) p->ops[i][j] = tp_u8(t) % 3;
    }
}

static size_t encode_prog(const struct prog *p, uint8_t *out)
{
    size_t n = 0;
    out[n++] = (uint8_t)(p->nthreads - 2);
    uint8_t pc = 0;
    for (uint8_t k = 0; k < 5; k++) if (pool_cfg[k][0] == p->ubuf_pool && pool_cfg[k][1] == p->shared_pool) pc = k;
    out[n++] = pc;
    for (int i = 0; i < p->nthreads; i++) {
        out[n++] = (uint8_t)(i == 0 ? p->init[i] - 1 : p->init[i] == 0 ? 3 : p->init[i] == 2 ? 2 : 0);
        out[n++] = (uint8_t)p->nops[i];
        for (int j = 0; j < p->nops[i]; j++) out[n++] = p->ops[i][j];
    }
    return n;
}

static int run(const uint8_t *tp_, size_t len, struct vp_report *rep, unsigned flags)
{
    struct tape t;
    tp_init(&t, tp_, len);
    struct prog p;
    decode_prog(&t, &p);
    struct vs_config cfg;
    memset(&cfg, 0, sizeof(cfg));
    vs_config_from_tape(&cfg, &t);
    return run_case(&p, &cfg, rep, flags);
}

/* ---------------------------------------------------------------- templates */

struct tmpl { const char *name; const char *what; struct prog p; };
#define F OP_FREE
#define D OP_DUP
static const struct tmpl templates[] = {
    { "free-free-nopool", "pool depths 0: T0 free || T1 free", { 2, 0, 0, { 1, 1 }, { 1, 1 }, { { F }, { F } } } },
    { "free-free-pool", "pool depths 2: T0 free || T1 free", { 2, 2, 2, { 1, 1 }, { 1, 1 }, { { F }, { F } } } },
    { "dup-free-pool", "pool depths 1: T0 dup,free,(free) || T1 free", { 2, 1, 1, { 1, 1 }, { 2, 1 }, { { D, F }, { F } } } },
    { "dup-free-nopool", "pool depths 0: T0 dup,free,(free) || T1 free", { 2, 0, 0, { 1, 1 }, { 2, 1 }, { { D, F }, { F } } } },
    { "free3-pool", "pool depths 1: three threads, one handle each, free", { 3, 1, 1, { 1, 1, 1 }, { 1, 1, 1 }, { { F }, { F }, { F } } } },
};
#define NTEMPL (sizeof(templates) / sizeof(templates[0]))

static int enum_case(void *opaque, const uint8_t *prefix, size_t plen, struct vp_report *rep)
{
    const struct tmpl *tm = opaque;
    static const uint8_t none[1] = { 0 };
    struct vs_config cfg;
    memset(&cfg, 0, sizeof(cfg));
    cfg.policy = VS_ENUM;
    cfg.prefix = plen ? prefix : none;
    cfg.prefix_len = plen;
    return run_case(&tm->p, &cfg, rep, 0);
}

static int extra(int argc, char **argv)
{
    const char *tname = "all", *out = ".";
    int bound = 2, jobs = 0;
    for (int i = 1; i < argc; i++) {
        if (!strcmp(argv[i], "--template") && i + 1 < argc) tname = argv[++i];
        else if (!strcmp(argv[i], "--bound") && i + 1 < argc) bound = atoi(argv[++i]);
        else if (!strcmp(argv[i], "--jobs") && i + 1 < argc) jobs = atoi(argv[++i]);
        else if (!strcmp(argv[i], "--out") && i + 1 < argc) out = argv[++i];
        else if (!strcmp(argv[i], "--seed") && i + 1 < argc) i++;
        else if (!strcmp(argv[i], "list")) {
            for (size_t k = 0; k < NTEMPL; k++) printf("%s\t%s\n", templates[k].name, templates[k].what);
            return 0;
        }
    }
    if (jobs <= 0) jobs = vs_default_jobs();
    static struct vs_enum_result total, r;
    memset(&total, 0, sizeof(total));
    total.complete = 1;
    char space[2048];
    size_t sl = (size_t)snprintf(space, sizeof(space), "C09 ubuf_block_mem shared area: all schedules with <= %d preemptions (scheduling points: every uatomic operation and plain ring-element access of the pools; sequentially consistent) of", bound);
    char failtape[512] = "";
    int matched = 0;
    for (size_t k = 0; k < NTEMPL && !total.failed; k++) {
        const struct tmpl *tm = &templates[k];
        if (strcmp(tname, "all") && strcmp(tname, tm->name)) continue;
        matched++;
        vs_enumerate(enum_case, (void *)tm, bound, jobs, &r);
        if (sl < sizeof(space) - 200)
            sl += (size_t)snprintf(space + sl, sizeof(space) - sl, " [%s: %s (%llu schedules)]", tm->name, tm->what, (unsigned long long)r.evaluations);
        if (r.failed) {
            uint8_t tape[64 + VS_MAX_STEPS];
            size_t n = encode_prog(&tm->p, tape);
            tape[n++] = 1;
            memcpy(tape + n, r.fail_prefix, r.fail_len);
            n += r.fail_len;
            while (n > 0 && tape[n - 1] == 0) n--;
            snprintf(failtape, sizeof(failtape), "%s/enum-%s-K%d.tape", out, tm->name, bound);
            FILE *f = fopen(failtape, "wb");
            if (f) { fwrite(tape, 1, n, f); fclose(f); }
        }
        vs_enum_merge(&total, &r);
    }
    if (!matched) { fprintf(stderr, "unknown template %s\n", tname); return 2; }
    vs_enum_print_json(&total, bound, space, class_names, failtape);
    return total.failed == 2 ? 2 : total.failed ? 1 : 0;
}

const struct vp_executor vp_executor = { "C09", "ubufshare", 160, class_names, run, extra };

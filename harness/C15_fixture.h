/* C15 pipeline fixture (private to the C15 executors):
 *  - recording probe: one instance per pipe, carries a pipe id; logs the events the TS pipes
 *    throw (ready/dead/new flow def/clock_ref/clock_ts/sync/fatal/encaps status/...) with the
 *    harness-set "tag" (index of the packet / access unit being fed) and answers
 *    provide_request (ubuf manager, uref manager, flow format) from the memory fixture;
 *  - recording pipe: a minimal struct upipe with its own control/input that records the flow
 *    definition and every uref (octets, block/flow flags, dates, tag) and then either frees
 *    the uref (sink) or forwards it to a next pipe (tee between ts_decaps and ts_pes_decaps);
 *  - helpers to build urefs whose octets sit in an exact-size memory area.
 * No clock, no global state besides the one `struct fx` the executor resets per case. */
#ifndef C15_FIXTURE_H_
#define C15_FIXTURE_H_

#include "vp.h"
#include "tape.h"
#include "fix_mem.h"

#include "upipe/ubase.h"
#include "upipe/ulog.h"
#include "upipe/uprobe.h"
#include "upipe/uclock.h"
#include "upipe/urequest.h"
#include "upipe/uref.h"
#include "upipe/uref_attr.h"
#include "upipe/uref_flow.h"
#include "upipe/uref_block.h"
#include "upipe/uref_block_flow.h"
#include "upipe/uref_clock.h"
#include "upipe/upipe.h"
#include "upipe-ts/uref_ts_flow.h"
#include "upipe-ts/upipe_ts_mux.h"
#include "upipe-ts/upipe_ts_encaps.h"
#include "upipe-ts/upipe_ts_decaps.h"
#include "upipe-ts/upipe_ts_pes_encaps.h"
#include "upipe-ts/upipe_ts_pes_decaps.h"
#include "upipe-ts/upipe_ts_split.h"
#include "upipe-ts/upipe_ts_pid_filter.h"

#include <stdlib.h>
#include <stdio.h>
#include <string.h>
#include <stdarg.h>
#include <limits.h>

#define FX_MAXEV   16384
#define FX_MAXPIPE 12

enum fx_evkind {
    FXE_READY, FXE_DEAD, FXE_FLOWDEF, FXE_CLOCK_REF, FXE_CLOCK_TS, FXE_SYNC_ACQ, FXE_SYNC_LOST,
    FXE_FATAL, FXE_ERROR, FXE_STATUS, FXE_LAST_CC, FXE_ADD_PID, FXE_DEL_PID, FXE_NEED_OUTPUT,
    FXE_PROVIDE, FXE_OTHER
};

struct fx_event {
    uint8_t pipe, kind;
    int32_t tag;
    uint64_t a, b;
    int c;
};

struct fx;
struct fx_probe {
    struct uprobe uprobe;
    struct fx *fx;
    int id;
};

/* flags of a recorded chunk */
#define FXC_START 1u
#define FXC_END   2u
#define FXC_DISC  4u
#define FXC_RAND  8u
#define FXC_ERROR 16u
#define FXC_REF   32u   /* uref_clock ref (carried a PCR) */
#define FXC_DTS   64u   /* has dts_orig */
#define FXC_PTS   128u  /* pts_orig derivable */

struct fx_chunk {
    size_t off, len;
    uint32_t flags;
    int32_t tag;
    uint64_t dts_orig, pts_orig;
};

struct fx_rec {
    struct upipe upipe;
    struct upipe_mgr mgr;
    struct fx *fx;
    int id;
    struct upipe *next;          /* NULL: sink */
    uint8_t *bytes;
    size_t nbytes, capbytes;
    struct fx_chunk *chunks;
    size_t nchunks, capchunks;
    char flowdef[160];
    int nflowdef;
    int flowdef_err;             /* first error returned by next on set_flow_def */
    bool inited;
};

struct fx {
    struct fix_mem fm;
    bool fm_up;
    struct fx_event ev[FX_MAXEV];
    size_t nev;
    bool ev_overflow;
    int32_t tag;
    struct fx_probe probes[FX_MAXPIPE];
    unsigned nwarn[FX_MAXPIPE], nerrlog[FX_MAXPIPE];
    /* latest ts_encaps status per pipe id */
    uint64_t st_cr_sys, st_dts_sys, st_pcr_sys;
    bool st_ready;
    unsigned nstatus;
    unsigned last_cc_event;
    bool got_last_cc;
    bool harness_oom;
    /* ubuf manager requests of the pipes whose id bit is set in defer_mask are not answered at once but
     * kept until fx_provide_deferred (a downstream that provides its buffer manager later) */
    unsigned defer_mask;
    struct urequest *deferred[4];
    int ndeferred;
};

UBASE_FROM_TO(fx_probe, uprobe, uprobe, uprobe)
UBASE_FROM_TO(fx_rec, upipe, upipe, upipe)

static inline void fx_log(struct fx *fx, int pipe, int kind, uint64_t a, uint64_t b, int c)
{
    if (fx->nev >= FX_MAXEV) { fx->ev_overflow = true; return; }
    struct fx_event *e = &fx->ev[fx->nev++];
    e->pipe = pipe; e->kind = kind; e->tag = fx->tag; e->a = a; e->b = b; e->c = c;
}

static int fx_probe_throw(struct uprobe *uprobe, struct upipe *upipe, int event, va_list args)
{
    struct fx_probe *p = fx_probe_from_uprobe(uprobe);
    struct fx *fx = p->fx;
    switch (event) {
    case UPROBE_LOG: {
        struct ulog *ulog = va_arg(args, struct ulog *);
        if (ulog->level == UPROBE_LOG_WARNING) fx->nwarn[p->id]++;
        else if (ulog->level == UPROBE_LOG_ERROR) fx->nerrlog[p->id]++;
        return UBASE_ERR_NONE;
    }
    case UPROBE_READY: fx_log(fx, p->id, FXE_READY, 0, 0, 0); return UBASE_ERR_NONE;
    case UPROBE_DEAD: fx_log(fx, p->id, FXE_DEAD, 0, 0, 0); return UBASE_ERR_NONE;
    case UPROBE_NEW_FLOW_DEF: fx_log(fx, p->id, FXE_FLOWDEF, 0, 0, 0); return UBASE_ERR_NONE;
    case UPROBE_NEED_OUTPUT: fx_log(fx, p->id, FXE_NEED_OUTPUT, 0, 0, 0); return UBASE_ERR_UNHANDLED;
    case UPROBE_SYNC_ACQUIRED: fx_log(fx, p->id, FXE_SYNC_ACQ, 0, 0, 0); return UBASE_ERR_NONE;
    case UPROBE_SYNC_LOST: fx_log(fx, p->id, FXE_SYNC_LOST, 0, 0, 0); return UBASE_ERR_NONE;
    case UPROBE_FATAL: fx_log(fx, p->id, FXE_FATAL, va_arg(args, int), 0, 0); return UBASE_ERR_NONE;
    case UPROBE_ERROR: fx_log(fx, p->id, FXE_ERROR, va_arg(args, int), 0, 0); return UBASE_ERR_NONE;
    case UPROBE_CLOCK_REF: {
        struct uref *uref = va_arg(args, struct uref *);
        uint64_t pcr = va_arg(args, uint64_t);
        int disc = va_arg(args, int);
        (void)uref;
        fx_log(fx, p->id, FXE_CLOCK_REF, pcr, 0, disc);
        return UBASE_ERR_NONE;
    }
    case UPROBE_CLOCK_TS: {
        struct uref *uref = va_arg(args, struct uref *);
        uint64_t dts = UINT64_MAX, pts = UINT64_MAX;
        uref_clock_get_dts_orig(uref, &dts);
        uref_clock_get_pts_orig(uref, &pts);
        fx_log(fx, p->id, FXE_CLOCK_TS, dts, pts, 0);
        return UBASE_ERR_NONE;
    }
    case UPROBE_PROVIDE_REQUEST: {
        struct urequest *req = va_arg(args, struct urequest *);
        fx_log(fx, p->id, FXE_PROVIDE, req->type, 0, 0);
        switch (req->type) {
        case UREQUEST_UBUF_MGR:
            if ((fx->defer_mask >> p->id) & 1) {
                for (int i = 0; i < fx->ndeferred; i++) if (fx->deferred[i] == req) return UBASE_ERR_NONE;
                if (fx->ndeferred < 4) { fx->deferred[fx->ndeferred++] = req; return UBASE_ERR_NONE; }
                fx->harness_oom = true;
            }
            /* fallthrough */
        {
            struct uref *ff = req->uref ? uref_dup(req->uref) : NULL;
            return urequest_provide_ubuf_mgr(req, ubuf_mgr_use(fx->fm.block_mgr), ff);
        }
        case UREQUEST_UREF_MGR:
            return urequest_provide_uref_mgr(req, uref_mgr_use(fx->fm.uref_mgr));
        case UREQUEST_FLOW_FORMAT:
            return urequest_provide_flow_format(req, req->uref ? uref_dup(req->uref) : NULL);
        case UREQUEST_SINK_LATENCY:
            return urequest_provide_sink_latency(req, 0);
        default:
            return UBASE_ERR_UNHANDLED;
        }
    }
    default:
        break;
    }
    if (event >= UPROBE_LOCAL) {
        /* local events: the first argument is the signature of the pipe type */
        unsigned int sig = va_arg(args, unsigned int);
        if (sig == UPIPE_TS_ENCAPS_SIGNATURE && event == UPROBE_TS_ENCAPS_STATUS) {
            fx->st_cr_sys = va_arg(args, uint64_t);
            fx->st_dts_sys = va_arg(args, uint64_t);
            fx->st_pcr_sys = va_arg(args, uint64_t);
            fx->st_ready = !!va_arg(args, int);
            fx->nstatus++;
            return UBASE_ERR_NONE;
        }
        if (sig == UPIPE_TS_MUX_SIGNATURE && event == UPROBE_TS_MUX_LAST_CC) {
            fx->last_cc_event = va_arg(args, unsigned int);
            fx->got_last_cc = true;
            fx_log(fx, p->id, FXE_LAST_CC, fx->last_cc_event, 0, 0);
            return UBASE_ERR_NONE;
        }
        if (sig == UPIPE_TS_SPLIT_SIGNATURE &&
            (event == UPROBE_TS_SPLIT_ADD_PID || event == UPROBE_TS_SPLIT_DEL_PID)) {
            unsigned pid = va_arg(args, unsigned int);
            fx_log(fx, p->id, event == UPROBE_TS_SPLIT_ADD_PID ? FXE_ADD_PID : FXE_DEL_PID, pid, 0, 0);
            return UBASE_ERR_NONE;
        }
    }
    fx_log(fx, p->id, FXE_OTHER, (uint64_t)event, 0, 0);
    return UBASE_ERR_UNHANDLED;
}

/* Resets the fixture and brings the memory managers up. */
static inline int fx_init(struct fx *fx)
{
    fx->nev = 0; fx->ev_overflow = false; fx->tag = -1;
    memset(fx->nwarn, 0, sizeof fx->nwarn);
    memset(fx->nerrlog, 0, sizeof fx->nerrlog);
    fx->st_cr_sys = fx->st_dts_sys = fx->st_pcr_sys = UINT64_MAX;
    fx->st_ready = false; fx->nstatus = 0; fx->got_last_cc = false; fx->last_cc_event = 0;
    fx->harness_oom = false;
    fx->defer_mask = 0; fx->ndeferred = 0;
    /* align 1: one octet of slack before the data, none after (see fx_uref_exact) */
    if (fix_mem_init_full(&fx->fm, 0, 0, 0, 1, 0) != 0) return -1;
    fx->fm_up = true;
    for (int i = 0; i < FX_MAXPIPE; i++) {
        uprobe_init(&fx->probes[i].uprobe, fx_probe_throw, NULL);
        fx->probes[i].fx = fx;
        fx->probes[i].id = i;
    }
    return 0;
}

/* answers the deferred ubuf manager requests (the requesting pipes must still be alive) */
static inline void fx_provide_deferred(struct fx *fx)
{
    fx->defer_mask = 0;
    int n = fx->ndeferred;
    fx->ndeferred = 0;
    for (int i = 0; i < n; i++) {
        struct urequest *req = fx->deferred[i];
        struct uref *ff = req->uref ? uref_dup(req->uref) : NULL;
        urequest_provide_ubuf_mgr(req, ubuf_mgr_use(fx->fm.block_mgr), ff);
    }
}

static inline struct uprobe *fx_probe(struct fx *fx, int id)
{
    return uprobe_use(&fx->probes[id].uprobe);
}

static inline const char *fx_clean(struct fx *fx)
{
    if (!fx->fm_up) return NULL;
    fx->fm_up = false;
    return fix_mem_clean(&fx->fm);
}

static inline size_t fx_count(const struct fx *fx, int pipe, int kind)
{
    size_t n = 0;
    for (size_t i = 0; i < fx->nev; i++)
        if (fx->ev[i].pipe == pipe && fx->ev[i].kind == kind) n++;
    return n;
}

/* ---------------------------------------------------------------- recording pipe */

static void fx_rec_input(struct upipe *upipe, struct uref *uref, struct upump **upump_p)
{
    struct fx_rec *r = fx_rec_from_upipe(upipe);
    size_t size = 0;
    bool isblock = uref->ubuf != NULL && ubase_check(uref_block_size(uref, &size));
    if (r->nchunks == r->capchunks) {
        size_t nc = r->capchunks ? r->capchunks * 2 : 64;
        struct fx_chunk *c = realloc(r->chunks, nc * sizeof(*c));
        if (!c) { r->fx->harness_oom = true; uref_free(uref); return; }
        r->chunks = c; r->capchunks = nc;
    }
    if (r->nbytes + size > r->capbytes) {
        size_t nc = r->capbytes ? r->capbytes : 4096;
        while (nc < r->nbytes + size) nc *= 2;
        uint8_t *b = realloc(r->bytes, nc);
        if (!b) { r->fx->harness_oom = true; uref_free(uref); return; }
        r->bytes = b; r->capbytes = nc;
    }
    struct fx_chunk *c = &r->chunks[r->nchunks++];
    memset(c, 0, sizeof *c);
    c->off = r->nbytes; c->len = size; c->tag = r->fx->tag;
    c->dts_orig = c->pts_orig = UINT64_MAX;
    if (isblock && size) {
        if (!ubase_check(uref_block_extract(uref, 0, size, r->bytes + r->nbytes))) {
            r->fx->harness_oom = true;   /* reported as an internal error by the executor */
            memset(r->bytes + r->nbytes, 0, size);
        }
        r->nbytes += size;
    }
    if (ubase_check(uref_block_get_start(uref))) c->flags |= FXC_START;
    if (ubase_check(uref_block_get_end(uref))) c->flags |= FXC_END;
    if (ubase_check(uref_flow_get_discontinuity(uref))) c->flags |= FXC_DISC;
    if (ubase_check(uref_flow_get_random(uref))) c->flags |= FXC_RAND;
    if (ubase_check(uref_flow_get_error(uref))) c->flags |= FXC_ERROR;
    if (ubase_check(uref_clock_get_ref(uref))) c->flags |= FXC_REF;
    if (ubase_check(uref_clock_get_dts_orig(uref, &c->dts_orig))) c->flags |= FXC_DTS;
    if (ubase_check(uref_clock_get_pts_orig(uref, &c->pts_orig))) c->flags |= FXC_PTS;
    if (r->next) upipe_input(r->next, uref, upump_p);
    else uref_free(uref);
}

static int fx_rec_control(struct upipe *upipe, int command, va_list args)
{
    struct fx_rec *r = fx_rec_from_upipe(upipe);
    switch (command) {
    case UPIPE_SET_FLOW_DEF: {
        struct uref *flow_def = va_arg(args, struct uref *);
        const char *def = NULL;
        if (flow_def == NULL || !ubase_check(uref_flow_get_def(flow_def, &def))) return UBASE_ERR_INVALID;
        snprintf(r->flowdef, sizeof r->flowdef, "%s", def);
        r->nflowdef++;
        if (r->next) {
            int err = upipe_set_flow_def(r->next, flow_def);
            if (!ubase_check(err) && !r->flowdef_err) r->flowdef_err = err;
            return err;
        }
        return UBASE_ERR_NONE;
    }
    case UPIPE_REGISTER_REQUEST: {
        /* answered here, through the recorder's probe (a request that is forwarded must be proxied: urequest.registered) */
        struct urequest *req = va_arg(args, struct urequest *);
        return upipe_throw_provide_request(upipe, req);
    }
    case UPIPE_UNREGISTER_REQUEST: {
        struct urequest *req = va_arg(args, struct urequest *);
        for (int i = 0; i < r->fx->ndeferred; i++)
            if (r->fx->deferred[i] == req) { r->fx->deferred[i] = r->fx->deferred[--r->fx->ndeferred]; break; }
        return UBASE_ERR_NONE;
    }
    default:
        return UBASE_ERR_UNHANDLED;
    }
}

/* Initialises a recording pipe with probe id `id`; `next` (may be NULL) is not referenced:
 * the executor keeps it alive until fx_rec_clean. */
static inline void fx_rec_init(struct fx *fx, struct fx_rec *r, int id, struct upipe *next)
{
    memset(r, 0, sizeof *r);
    r->fx = fx; r->id = id; r->next = next;
    r->mgr.refcount = NULL;
    r->mgr.signature = UBASE_FOURCC('c', '1', '5', 'r');
    r->mgr.upipe_input = fx_rec_input;
    r->mgr.upipe_control = fx_rec_control;
    upipe_init(&r->upipe, &r->mgr, fx_probe(fx, id));
    r->inited = true;
}

static inline void fx_rec_clean(struct fx_rec *r)
{
    if (!r->inited) return;
    upipe_clean(&r->upipe);
    free(r->bytes); free(r->chunks);
    r->bytes = NULL; r->chunks = NULL; r->inited = false;
}

/* ---------------------------------------------------------------- urefs */

/* uref whose n >= 1 octets occupy one memory area of exactly n octets (no slack before or
 * after: the manager is built with prepend 0, append 0, align 1, which leaves one octet
 * before the data; allocating n-1 and prepending 1 takes it). *exact_p tells whether the
 * layout was verified (umem_count_lookup). */
static inline struct uref *fx_uref_exact(struct fx *fx, const uint8_t *data, size_t n, bool *exact_p)
{
    if (exact_p) *exact_p = false;
    if (n == 0) return NULL;
    struct uref *uref = uref_block_alloc(fx->fm.uref_mgr, fx->fm.block_mgr, n > 1 ? n - 1 : 1);
    if (!uref) return NULL;
    if (n > 1 && !ubase_check(ubuf_block_prepend(uref->ubuf, 1))) {
        /* cannot take the slack octet: fall back to a plain allocation */
        uref_free(uref);
        uref = uref_block_alloc(fx->fm.uref_mgr, fx->fm.block_mgr, n);
        if (!uref) return NULL;
    }
    int size = -1;
    uint8_t *w;
    if (!ubase_check(uref_block_write(uref, 0, &size, &w)) || (size_t)size != n) { uref_free(uref); return NULL; }
    memcpy(w, data, n);
    if (exact_p) {
        uint8_t *base; size_t span;
        if (umem_count_lookup(fx->fm.umem_mgr, w, &base, &span) && base == w && span == n) *exact_p = true;
    }
    uref_block_unmap(uref, 0);
    return uref;
}

/* plain block uref, possibly cut into several segments at the given sizes (seg[i] > 0) */
static inline struct uref *fx_uref_segs(struct fx *fx, const uint8_t *data, size_t n,
                                        const size_t *seg, int nseg)
{
    struct uref *uref = NULL;
    size_t pos = 0;
    for (int i = 0; i <= nseg && pos < n; i++) {
        size_t len = (i < nseg && seg[i] > 0 && seg[i] < n - pos) ? seg[i] : n - pos;
        if (i == nseg) len = n - pos;
        struct ubuf *ubuf = ubuf_block_alloc(fx->fm.block_mgr, len);
        if (!ubuf) { uref_free(uref); return NULL; }
        int size = -1; uint8_t *w;
        if (!ubase_check(ubuf_block_write(ubuf, 0, &size, &w)) || (size_t)size != len) { ubuf_free(ubuf); uref_free(uref); return NULL; }
        memcpy(w, data + pos, len);
        ubuf_block_unmap(ubuf, 0);
        if (!uref) {
            uref = uref_alloc(fx->fm.uref_mgr);
            if (!uref) { ubuf_free(ubuf); return NULL; }
            uref_attach_ubuf(uref, ubuf);
        } else if (!ubase_check(uref_block_append(uref, ubuf))) { ubuf_free(ubuf); uref_free(uref); return NULL; }
        pos += len;
    }
    return uref;
}

/* ---------------------------------------------------------------- a request of the harness's own */

/* Registers a uref manager request (and, when with_ubuf, a ubuf manager request for flow format ff) on `upipe`, as an upstream
 * pipe would, and tells whether each was answered; both are unregistered again. The answers come from the fixture's probes
 * wherever the pipe (or the chain behind it) throws provide_request. */
static int fx_rq_uref_answers, fx_rq_ubuf_answers;
static int fx_rq_uref_cb(struct urequest *r, va_list args)
{ struct uref_mgr *m = va_arg(args, struct uref_mgr *); (void)r; fx_rq_uref_answers++; uref_mgr_release(m); return UBASE_ERR_NONE; }
static int fx_rq_ubuf_cb(struct urequest *r, va_list args)
{ struct ubuf_mgr *m = va_arg(args, struct ubuf_mgr *); struct uref *ff = va_arg(args, struct uref *); (void)r; fx_rq_ubuf_answers++; ubuf_mgr_release(m); uref_free(ff); return UBASE_ERR_NONE; }
static inline const char *fx_request_roundtrip(struct upipe *upipe, struct uref *ff, bool with_ubuf)
{
    struct urequest rq, rq2;
    const char *bad = NULL;
    fx_rq_uref_answers = fx_rq_ubuf_answers = 0;
    urequest_init_uref_mgr(&rq, fx_rq_uref_cb, NULL);
    if (!ubase_check(upipe_register_request(upipe, &rq))) bad = "registering a uref manager request failed";
    else if (fx_rq_uref_answers != 1) bad = "a uref manager request registered on the pipe was not answered exactly once";
    if (!ubase_check(upipe_unregister_request(upipe, &rq)) && !bad) bad = "unregistering the uref manager request failed";
    urequest_clean(&rq);
    if (with_ubuf && !bad) {
        struct uref *dup = uref_dup(ff);
        if (!dup) return "uref_dup";
        urequest_init_ubuf_mgr(&rq2, dup, fx_rq_ubuf_cb, NULL);
        if (!ubase_check(upipe_register_request(upipe, &rq2))) bad = "registering a ubuf manager request failed";
        else if (fx_rq_ubuf_answers != 1) bad = "a ubuf manager request registered on the pipe was not answered exactly once";
        if (!ubase_check(upipe_unregister_request(upipe, &rq2)) && !bad) bad = "unregistering the ubuf manager request failed";
        urequest_clean(&rq2);
    }
    return bad;
}

#ifdef C15_NEED_MUX_STUBS
/* upipe_ts_encaps.c refers to these two string helpers of upipe_ts_mux.c (4900 lines pulling
 * in the whole mux); they only name commands/events for logging. */
const char *upipe_ts_mux_command_str(int cmd) { (void)cmd; return NULL; }
const char *upipe_ts_mux_event_str(int event) { (void)event; return NULL; }
#endif

#endif

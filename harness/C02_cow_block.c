/* C02 / cow_block — copy-on-write isolation over a family of block handles sharing memory areas.
 * See C02_model.h for the model and the oracle. */
#include "C02_model.h"

#define MAXOPS 40
#define MAXOPS_THOROUGH 64

static const char *const class_names[] = { C2_COMMON_CLASS_NAMES, C2_FAULT_CLASS_NAMES, NULL };

/* weights: alloc 3, dup 3, splice 3, write 5, free 2, free_sharers 3, split 2, insert 2, append 2,
 * delete 2, truncate 2, resize 1, prepend 1, copy 1 */
static const uint8_t optab[32] = { 0,0,0, 1,1,1, 2,2,2, 3,3,3,3,15, 4,4, 14,14,14, 5,5, 6,6, 7,7, 8,8, 9,9, 10, 11, 12 };   /* 15: merge */

static int run(const uint8_t *tp_, size_t len, struct vp_report *rep, unsigned flags)
{
    static struct c2_ctx ctx;
    struct c2_ctx *c = &ctx;
    memset(c, 0, sizeof(*c));
    tp_init(&c->t, tp_, len);
    c->rep = rep; c->render = flags & VP_RENDER; c->flags = flags; c->pat = 2463534242u; c->hash = VP_HASH_INIT;
    c->max_alloc = (flags & VP_THOROUGH) ? 128 : 64;
    int maxops = (flags & VP_THOROUGH) ? MAXOPS_THOROUGH : MAXOPS;

    static const int depths[] = { 0, 1, 4 }, preps[] = { 0, 8, 32, 3 }, apps[] = { 0, 15, 1 }, aligns[] = { 0, 16, 64 };
    uint8_t cfg = tp_u8(&c->t);
    int depth = depths[cfg % 3], prep = preps[(cfg / 3) % 4], app = apps[(cfg / 12) % 3], align = aligns[(cfg / 36) % 3];
    int align_off = align ? (int)(tp_u8(&c->t) % 5) - 2 : 0;
    if (c2_fix_init(c, depth, prep, app, align, align_off) != 0) return vp_internal(rep, "fixture init");
    R("C02/cow_block config: pool_depth=%d prepend=%d append=%d align=%d align_offset=%d\n", depth, prep, app, align, align_off);
    c->faultmode = cfg >= 216;          /* (216..255 alias configurations 0..39) */
    if (c->faultmode) R("  [allocation faults]\n");
    c->hash = vp_hash_mix(c->hash, cfg * 8 + align_off + 2);
    if (depth) CL(CL_POOL);
    if (align) CL(CL_ALIGN);

    int nops = 0;
    while (!tp_done(&c->t) && nops < maxops && !c->ret) {
        nops++;
        uint8_t opbyte = tp_u8(&c->t);
        unsigned code = optab[opbyte % 32];
        if (c2_nlive(c) == 0) code = 0;
        c->hash = vp_hash_mix(c->hash, code);
        char what[160] = "";
        c2_fault_begin(c, opbyte);
        int hi = c2_block_op(c, code, what, sizeof what);
        hi = c2_fault_end(c, hi);
        if (hi >= 0 && !c->ret) c2_check_all(c, what);
    }
    for (int i = 0; i < C2_MAXH; i++) c2_release(c, i);
    const char *leak = c2_fix_clean(c);
    if (leak && !c->ret) c->ret = vp_fail(rep, "C02/owners/leak", "%s", leak);

    rep->case_hash = c->hash;
    rep->classes = c->cl;
    C2_FAULT_CLASSES(rep, c, 14);
    rep->nontrivial = (c->cl & (1u << CL_REFUSED_SHARED)) && (c->cl & (1u << CL_GRANTED_AFTER_FREE)) && (c->cl & (1u << CL_MULTISEG_SHARING));
    return c->ret;
}

const struct vp_executor vp_executor = { "C02", "cow_block", 220, class_names, run, NULL };

/* Pipe-level executor shared by C01 (lifecycle), C04 (protocol), C05 (data flow) and C20 (options).
 * Compiled once per property with -DPIPES_PROP=1|4|5|20: the generator (histories over a chain of
 * zoo pipes ending in recording sinks) is the same, the oracle set differs. */
#include "vp.h"
#include "tape.h"
#include "pipefix.h"
#include "upipe/uref_clock.h"
#include "upipe/uref_block_flow.h"
#include "upipe/udict.h"
#include "upipe/uref_dump.h"
#include "upipe-modules/upipe_idem.h"
#include "upipe-modules/upipe_null.h"
#include "upipe-modules/upipe_skip.h"
#include "upipe-modules/upipe_htons.h"
#include "upipe-modules/upipe_delay.h"
#include "upipe-modules/upipe_setattr.h"
#include "upipe-modules/upipe_setflowdef.h"
#include "upipe-modules/upipe_probe_uref.h"
#include "upipe-modules/upipe_match_attr.h"
#include "upipe-modules/upipe_setrap.h"
#include "upipe-modules/upipe_dup.h"
#include "upipe-modules/upipe_aggregate.h"
#include "upipe-modules/upipe_chunk_stream.h"
#include "upipe-modules/upipe_genaux.h"
#include <stdlib.h>
#include <stdio.h>

#ifndef PIPES_PROP
#define PIPES_PROP 5
#endif
#if PIPES_PROP == 1
#define PID "C01"
#elif PIPES_PROP == 4
#define PID "C04"
#elif PIPES_PROP == 5
#define PID "C05"
#else
#define PID "C20"
#endif
#define ORACLE_LIFE  (PIPES_PROP == 1)
#define ORACLE_PROTO (PIPES_PROP == 4)
#define ORACLE_DATA  (PIPES_PROP == 5)
#define ORACLE_OPTS  (PIPES_PROP == 20)

#define MAXP 3
#define MAXSUB 3
#define MAXOPS 40
#define MAXPAY 300

enum { T_IDEM, T_SKIP, T_HTONS, T_DELAY, T_SETATTR, T_SETFLOWDEF, T_PROBE_UREF, T_MATCH_ATTR, T_SETRAP,
       T_DUP, T_NULL, T_AGG, T_CHUNK, T_GENAUX, T_NTYPES };
enum { CLS_1TO1, CLS_FILTER, CLS_SPLIT, CLS_SINK, CLS_REGROUP };

struct ztype {
    const char *name;
    struct upipe_mgr *(*mgr)(void);
    int cls;
    bool has_output;
    bool strict_block;      /* rejects flow definitions that are not "block." */
    int nopts;
};
static const struct ztype zoo[T_NTYPES] = {
    [T_IDEM]       = { "idem", upipe_idem_mgr_alloc, CLS_1TO1, true, false, 0 },
    [T_SKIP]       = { "skip", upipe_skip_mgr_alloc, CLS_1TO1, true, true, 1 },
    [T_HTONS]      = { "htons", upipe_htons_mgr_alloc, CLS_1TO1, true, true, 0 },
    [T_DELAY]      = { "delay", upipe_delay_mgr_alloc, CLS_1TO1, true, false, 1 },
    [T_SETATTR]    = { "setattr", upipe_setattr_mgr_alloc, CLS_1TO1, true, false, 1 },
    [T_SETFLOWDEF] = { "setflowdef", upipe_setflowdef_mgr_alloc, CLS_1TO1, true, false, 1 },
    [T_PROBE_UREF] = { "probe_uref", upipe_probe_uref_mgr_alloc, CLS_1TO1, true, false, 0 },
    [T_MATCH_ATTR] = { "match_attr", upipe_match_attr_mgr_alloc, CLS_FILTER, true, false, 0 },
    [T_SETRAP]     = { "setrap", upipe_setrap_mgr_alloc, CLS_1TO1, true, false, 1 },
    [T_DUP]        = { "dup", upipe_dup_mgr_alloc, CLS_SPLIT, true, false, 0 },
    [T_NULL]       = { "null", upipe_null_mgr_alloc, CLS_SINK, false, false, 0 },
    [T_AGG]        = { "agg", upipe_agg_mgr_alloc, CLS_REGROUP, true, true, 1 },
    [T_CHUNK]      = { "chunk_stream", upipe_chunk_stream_mgr_alloc, CLS_REGROUP, true, true, 1 },
    [T_GENAUX]     = { "genaux", upipe_genaux_mgr_alloc, CLS_REGROUP, true, false, 0 },
};

enum { CL_SWAP_AFTER_DATA, CL_RELEASE_MID, CL_SUBCHURN, CL_REJECT, CL_FLOWDEF_CHANGE, CL_DELIVERED8, CL_SEGMENTED, CL_OPT_REJECTED, CL_OPT_GET_AFTER_SET, CL_CHAIN2, CL_POOL, CL_REPLUG, CL_PROBE_DROP };
static const char *const class_names[] = {
    "output_replaced_after_data", "release_in_mid_history", "subpipe_churn", "sink_rejected_flow_def", "flow_def_changed_after_data",
    "delivered_ge_8", "segmented_payload", "option_set_rejected", "option_get_after_set_then_data", "chain_of_2plus", "pool_depth_gt0", "output_plugged_from_need_output", "buffer_dropped_on_request_of_the_probe_uref_handler", NULL };

enum out_kind { OUT_NONE = 0, OUT_NEXT, OUT_SINKA, OUT_SINKB };
enum hstate { H_NONE = 0, H_VALID, H_INVALID };

struct zsub { struct upipe *upipe; int probe; int sink; bool alive; enum hstate hs; bool has_out; };

struct zpipe {
    int type;
    struct upipe *upipe;
    int probe;
    bool held;              /* the application still holds its reference */
    bool has_def;           /* accepted an input flow definition */
    int defv;               /* variant of the input flow definition */
    enum out_kind out;
    enum hstate hs;         /* model of the output helper state */
    /* options (model = last accepted value) */
    uint64_t opt[2];
    int dictv;              /* setattr/setflowdef: dictionary variant, -1 none */
    /* match_attr config */
    int match_mode;
    uint64_t mmin, mmax;
    struct zsub sub[MAXSUB];
    bool data_flowed;
    int sent_def;           /* variant of the definition last sent to the next pipe (-1: must be sent again) */
    bool def_unknown;       /* downstream of a regrouping pipe: may or may not have received a definition yet */
};

struct ctx {
    struct tape t;
    struct vp_report *rep;
    bool render;
    struct pfx pfx;
    int np;
    struct zpipe p[MAXP];
    struct upipe *sink[2];
    int sinkid[2];
    uint32_t connect_seq[2];
    uint64_t next_seq;
    int ret;
    uint64_t hash;
    uint32_t classes;
    int delivered;
    int ev_mark, rec_mark;
    bool any_data;
    bool got_after_set;
    bool skip_getters;      /* C20 second pass: same history without the getter calls */
    int force_pool;         /* C01 second pass: pool depth override (-1: from the tape) */
    int replugs;            /* C01: outputs plugged from need_output so far */
    bool lazy;              /* C05: need_output is answered by plugging a free sink */
    bool probe_drop, drop_now;   /* C05: the application answers probe_uref with "drop" for some buffers */
    int lazy_plugged;       /* C05: number of outputs plugged that way during the current input */
    uint64_t trace;         /* hash of everything the sinks saw */
};

#define R(...) do { if (c->render) vp_render(c->rep, __VA_ARGS__); } while (0)
#define FAILP(on, key, ...) do { if ((on) && !c->ret) c->ret = vp_fail(c->rep, PID "/" key, __VA_ARGS__); } while (0)

/* ---------------------------------------------------------------- pooled structures are poisoned while in a pool (C01) */
#if PIPES_PROP == 1
#include "upipe/uverif.h"
#include <sanitizer/asan_interface.h>
#include <sanitizer/allocator_interface.h>
static void *pool_pending;           /* object handed to upool_free, not yet known to be pooled */
static unsigned long pool_poisoned;
static void pool_track_reset(void) { pool_pending = NULL; }
void upipe_verif_pool(int op, void *pool, void *obj)
{
    switch (op) {
    case UVERIF_POOL_FREE: pool_pending = obj; break;
    case UVERIF_LIFO_PUSHED:
        if (obj == pool_pending && __sanitizer_get_ownership(obj)) {
            size_t sz = __sanitizer_get_allocated_size(obj);
            __asan_poison_memory_region(obj, sz);
            pool_poisoned++;
        }
        pool_pending = NULL;
        break;
    case UVERIF_LIFO_POPPED:
        if (obj != NULL && __sanitizer_get_ownership(obj))
            __asan_unpoison_memory_region(obj, __sanitizer_get_allocated_size(obj));
        break;
    }
}
#endif

/* ---------------------------------------------------------------- input construction */

struct inspec { uint64_t seq; int size; int nseg; uint8_t dates; uint8_t attrs; uint64_t base; };

static struct uref *mk_input(struct ctx *c, const struct inspec *s)
{
    struct uref *uref = pfx_uref_block(&c->pfx, s->seq, s->size, s->nseg);
    if (!uref) return NULL;
    /* dates: bit0 sys pts, bit1 prog dts, bit2 orig cr, bit3 delays */
    if (s->dates & 1) uref_clock_set_pts_sys(uref, s->base + 1000 + s->seq);
    if (s->dates & 2) uref_clock_set_dts_prog(uref, s->base + 500 + s->seq);
    if (s->dates & 4) uref_clock_set_cr_orig(uref, s->base + s->seq);
    if (s->dates & 8) { uref_clock_set_dts_pts_delay(uref, 40); uref_clock_set_cr_dts_delay(uref, 7); }
    if (s->attrs & 1) uref_attr_set_small_unsigned(uref, s->seq & 0xff, UDICT_TYPE_SMALL_UNSIGNED, "x.small");
    if (s->attrs & 2) uref_attr_set_string(uref, "hello", UDICT_TYPE_STRING, "x.str");
    if (s->attrs & 4) uref_flow_set_discontinuity(uref);
    if (s->attrs & 8) uref_attr_set_unsigned(uref, s->seq * 3, UDICT_TYPE_UNSIGNED, "x.big");
    return uref;
}

static int extract_all(struct uref *uref, uint8_t *buf, size_t cap, size_t *size_p)
{
    size_t size = 0;
    if (uref->ubuf == NULL) { *size_p = 0; return 0; }
    if (!ubase_check(uref_block_size(uref, &size)) || size > cap) return -1;
    if (size && !ubase_check(uref_block_extract(uref, 0, size, buf))) return -1;
    *size_p = size;
    return 0;
}

/* dictionaries for setattr / setflowdef */
static struct uref *mk_dict(struct ctx *c, int v)
{
    struct uref *d = uref_alloc(c->pfx.fm.uref_mgr);
    if (!d) return NULL;
    if (v >= 1) uref_attr_set_unsigned(d, 77 + v, UDICT_TYPE_UNSIGNED, "x.big");
    if (v >= 2) uref_attr_set_string(d, "set", UDICT_TYPE_STRING, "y.str");
    if (v >= 3) uref_attr_set_small_unsigned(d, 9, UDICT_TYPE_SMALL_UNSIGNED, "x.small");
    return d;
}

static const char *defname(int v) { static const char *n[] = { "block.foo.", "block.bar.", "block.foo." }; return n[(v & 15) % 3]; }
/* variant of the definition a pipe outputs, given its input variant */
static int outv(struct zpipe *z);
static struct uref *mk_flow_def(struct ctx *c, int v)
{
    if (v == 3) {   /* not a block flow */
        struct uref *u = uref_alloc(c->pfx.fm.uref_mgr);
        if (u) { uref_flow_set_def(u, "pic."); uref_block_flow_set_size(u, 300); }   /* (attributes a block pipe would read from a definition it accepts) */
        return u;
    }
    struct uref *u = pfx_flow_def_block(&c->pfx, defname(v) + 6 /* alloc_def adds "block." */);
    if (u && v == 2) uref_attr_set_unsigned(u, 42, UDICT_TYPE_UNSIGNED, "x.extra");
    return u;
}

static int outv(struct zpipe *z) { return z->type == T_SETFLOWDEF ? (z->defv | ((z->dictv > 0 ? z->dictv : 0) << 4)) : z->defv; }

/* ---------------------------------------------------------------- expected transformation */

static bool match_pred(struct zpipe *z, struct uref *ref)
{
    if (z->match_mode == 0) return true;
    uint64_t v;
    if (z->match_mode == 1) {
        uint8_t s;
        if (!ubase_check(uref_attr_get_small_unsigned(ref, &s, UDICT_TYPE_SMALL_UNSIGNED, "x.small"))) return false;
        v = s;
    } else {
        if (!ubase_check(uref_attr_get_unsigned(ref, &v, UDICT_TYPE_UNSIGNED, "x.big"))) return false;
    }
    return v >= z->mmin && v <= z->mmax;
}
static int match_small(struct uref *uref, uint8_t min, uint8_t max)
{
    uint8_t s;
    UBASE_RETURN(uref_attr_get_small_unsigned(uref, &s, UDICT_TYPE_SMALL_UNSIGNED, "x.small"));
    return (s >= min && s <= max) ? UBASE_ERR_NONE : UBASE_ERR_INVALID;
}
static int match_big(struct uref *uref, uint64_t min, uint64_t max)
{
    uint64_t v;
    UBASE_RETURN(uref_attr_get_unsigned(uref, &v, UDICT_TYPE_UNSIGNED, "x.big"));
    return (v >= min && v <= max) ? UBASE_ERR_NONE : UBASE_ERR_INVALID;
}

/* applies pipe z's documented transformation to the reference copy; returns false if the pipe drops it */
static bool apply_expected(struct ctx *c, struct zpipe *z, struct uref *ref)
{
    switch (z->type) {
    case T_SKIP: {
        size_t size = 0; uref_block_size(ref, &size);
        if (z->opt[0] <= size) uref_block_resize(ref, z->opt[0], -1);
        return true; }
    case T_HTONS: {
        static uint8_t buf[MAXPAY + 8]; size_t size;
        if (extract_all(ref, buf, sizeof buf, &size)) return true;
        for (size_t i = 0; i + 1 < size; i += 2) { uint8_t t = buf[i]; buf[i] = buf[i + 1]; buf[i + 1] = t; }
        struct ubuf *nb = ubuf_block_alloc_from_opaque(c->pfx.fm.block_mgr, buf, size);
        if (size && nb) uref_attach_ubuf(ref, nb);
        return true; }
    case T_DELAY: {
        int64_t d = (int64_t)z->opt[0];
        if (d) {
            if (ref->date_sys != UINT64_MAX) ref->date_sys += d;
            if (ref->date_prog != UINT64_MAX) ref->date_prog += d;
            if (ref->date_orig != UINT64_MAX) ref->date_orig += d;
        }
        return true; }
    case T_SETATTR:
        if (z->dictv >= 0) {
            if (z->dictv >= 1) uref_attr_set_unsigned(ref, 77 + z->dictv, UDICT_TYPE_UNSIGNED, "x.big");
            if (z->dictv >= 2) uref_attr_set_string(ref, "set", UDICT_TYPE_STRING, "y.str");
            if (z->dictv >= 3) uref_attr_set_small_unsigned(ref, 9, UDICT_TYPE_SMALL_UNSIGNED, "x.small");
        }
        return true;
    case T_PROBE_UREF:
        return !c->drop_now;
    case T_SETRAP:
        if (z->opt[0] != UINT64_MAX) uref_clock_set_rap_sys(ref, z->opt[0]);
        return true;
    case T_MATCH_ATTR:
        return match_pred(z, ref);
    default:
        return true;
    }
}

static void uref_differs(struct ctx *c, struct uref *got, struct uref *ref, const char *where)
{
    static uint8_t a[MAXPAY + 8], b[MAXPAY + 8];
    size_t sa = 0, sb = 0;
    if (extract_all(got, a, sizeof a, &sa) || extract_all(ref, b, sizeof b, &sb)) { FAILP(ORACLE_DATA, "content/payload", "%s: payload cannot be read", where); return; }
    if (sa != sb) { FAILP(ORACLE_DATA, "content/payload", "%s: payload size %zu, expected %zu", where, sa, sb); return; }
    for (size_t i = 0; i < sa; i++) if (a[i] != b[i]) { FAILP(ORACLE_DATA, "content/payload", "%s: payload octet %zu is %02x, expected %02x", where, i, a[i], b[i]); return; }
    if (got->date_sys != ref->date_sys || got->date_prog != ref->date_prog || got->date_orig != ref->date_orig ||
        got->dts_pts_delay != ref->dts_pts_delay || got->cr_dts_delay != ref->cr_dts_delay || got->rap_cr_delay != ref->rap_cr_delay) {
        FAILP(ORACLE_DATA, "content/dates", "%s: dates differ: sys %llu/%llu prog %llu/%llu orig %llu/%llu rap_cr_delay %llu/%llu", where,
              (unsigned long long)got->date_sys, (unsigned long long)ref->date_sys, (unsigned long long)got->date_prog, (unsigned long long)ref->date_prog,
              (unsigned long long)got->date_orig, (unsigned long long)ref->date_orig, (unsigned long long)got->rap_cr_delay, (unsigned long long)ref->rap_cr_delay);
        return;
    }
    if (got->flags != ref->flags) { FAILP(ORACLE_DATA, "content/flags", "%s: flags %llx, expected %llx", where, (unsigned long long)got->flags, (unsigned long long)ref->flags); return; }
    if ((got->udict == NULL) != (ref->udict == NULL) || (got->udict && udict_cmp(got->udict, ref->udict)))
        FAILP(ORACLE_DATA, "content/attributes", "%s: attribute dictionaries differ", where);
}

/* ---------------------------------------------------------------- helpers */

static struct upipe *target_of(struct ctx *c, int j, enum out_kind k)
{
    switch (k) {
    case OUT_NEXT: return j + 1 < c->np ? c->p[j + 1].upipe : NULL;
    case OUT_SINKA: return c->sink[0];
    case OUT_SINKB: return c->sink[1];
    default: return NULL;
    }
}

static bool pipe_dead(struct ctx *c, int j)
{
    struct pfx_probe *pr = pfx_probe(&c->pfx, c->p[j].probe);
    return pr->ntracks > 0 && pr->tracks[0].dead;
}

/* liveness model: a pipe the application released lives on only while the pipe before it is alive and outputs to it */
static void check_liveness(struct ctx *c, const char *after)
{
    for (int j = 0; j < c->np && !c->ret; j++) {
        struct zpipe *z = &c->p[j];
        if (!z->upipe) continue;
        bool dead = pipe_dead(c, j);
        if (z->held) {
            if (dead) FAILP(ORACLE_LIFE, "dead/premature", "after %s: p%d:%s threw DEAD while the application still holds a reference", after, j, zoo[z->type].name);
            continue;
        }
        bool referenced = j > 0 && c->p[j - 1].upipe && !pipe_dead(c, j - 1) && c->p[j - 1].out == OUT_NEXT;
        if (!referenced && !dead)
            FAILP(ORACLE_LIFE, "release/not-dead", "after %s: the last reference on p%d:%s is gone but the pipe did not die", after, j, zoo[z->type].name);
        if (referenced && dead)
            FAILP(ORACLE_LIFE, "dead/premature", "after %s: p%d:%s died although the previous pipe still outputs to it", after, j, zoo[z->type].name);
        if (dead) z->upipe = NULL;
    }
}

/* ---------------------------------------------------------------- protocol checks (C04) after each op */

static void check_events(struct ctx *c, const char *after)
{
    struct pfx *pfx = &c->pfx;
    for (int i = 0; i < pfx->nprobes && !c->ret; i++) {
        struct pfx_probe *p = pfx->probes[i];
        for (int k = 0; k < p->ntracks; k++) {
            struct pfx_track *t = &p->tracks[k];
            if (t->saw_nonlog && !t->first_nonlog_is_ready)
                FAILP(ORACLE_PROTO, "ready/first", "after %s: the first event of pipe (probe %d) other than a log is not READY", after, i);
            if (t->dead_count > 1)
                FAILP(ORACLE_PROTO, "dead/once", "after %s: pipe (probe %d) threw DEAD %d times", after, i, t->dead_count);
            if (t->events_after_dead > 0) {
                const char *txt = "";
                int ev = -1;
                for (int e = 0; e < pfx->nevents; e++) if (pfx->events[e].probe == i && pfx->events[e].track == k && pfx->events[e].after_dead) { txt = pfx->events[e].text; ev = pfx->events[e].event; break; }
                FAILP(ORACLE_PROTO, "dead/last", "after %s: pipe (probe %d) threw %s%s%s after DEAD", after, i, pfx_event_name(ev), txt[0] ? ": " : "", txt);
            }
        }
    }
}

/* ---------------------------------------------------------------- operations */

static void process_new_records(struct ctx *c, const char *what, int inject_j, struct uref *ref, bool expect_delivery, int expect_sink, bool strict)
{
    if (ref != NULL && !strict && expect_sink < 0) ref = NULL;
    struct pfx *pfx = &c->pfx;
    int ndeliv = 0;
    for (int i = c->rec_mark; i < pfx->nrecs; i++) {
        struct pfx_rec *r = &pfx->recs[i];
        if (r->kind == PFX_INPUT || r->kind == PFX_FLOWDEF_ACCEPTED || r->kind == PFX_FLOWDEF_REJECTED)
            c->trace = vp_hash_mix(vp_hash_mix(c->trace, r->kind * 64 + r->sink), r->sig);
    }
    for (int i = c->rec_mark; i < pfx->nrecs && !c->ret; i++) {
        struct pfx_rec *r = &pfx->recs[i];
        if (r->kind != PFX_INPUT) continue;
        struct pfx_sink *s = pfx_sink(pfx, r->sink);
        /* C04: an accepted flow definition must precede data on this sink since it was (re)connected */
        bool seen_accept = false, last_reject = false;
        uint32_t since = r->sink == c->sinkid[0] ? c->connect_seq[0] : r->sink == c->sinkid[1] ? c->connect_seq[1] : 0;
        for (int k = i - 1; k >= 0; k--) {
            struct pfx_rec *q = &pfx->recs[k];
            if (q->seq < since) break;
            if (q->sink != r->sink) continue;
            if (q->kind == PFX_FLOWDEF_ACCEPTED) { seen_accept = true; break; }
            if (q->kind == PFX_FLOWDEF_REJECTED) { last_reject = true; break; }
        }
        if (last_reject) FAILP(ORACLE_PROTO, "flowdef/rejected", "%s: sink %d received a buffer although it rejected the last flow definition", what, r->sink);
        else if (!seen_accept) FAILP(ORACLE_PROTO, "flowdef/missing", "%s: sink %d received a buffer before any flow definition", what, r->sink);
        /* ... and it must be the upstream pipe's current output definition */
        if (ORACLE_PROTO && !c->ret && seen_accept)
            for (int o = 0; o < c->np; o++) {
                struct zpipe *u = &c->p[o];
                if (!u->upipe || pipe_dead(c, o)) continue;
                if (!((u->out == OUT_SINKA && r->sink == c->sinkid[0]) || (u->out == OUT_SINKB && r->sink == c->sinkid[1]))) continue;
                struct uref *fd = NULL;
                if (!ubase_check(upipe_get_flow_def(u->upipe, &fd)) || fd == NULL || s->flow_def == NULL) break;
                if (fd->udict && s->flow_def->udict && udict_cmp(fd->udict, s->flow_def->udict))
                    FAILP(true, "flowdef/stale", "%s: sink %d received a buffer but the definition it last accepted differs from p%d:%s's current output definition", what, r->sink, o, zoo[u->type].name);
                break;
            }
        /* ... and on an output of a duplicating pipe: the definition in force on the pipe's input (the outputs forward it unchanged),
         * also when the output was connected after the definition arrived */
        if (ORACLE_PROTO && !c->ret && seen_accept && s->flow_def != NULL)
            for (int o = 0; o < c->np && !c->ret; o++) {
                struct zpipe *u = &c->p[o];
                if (u->type != T_DUP || !u->upipe || pipe_dead(c, o) || !u->has_def) continue;
                for (int k = 0; k < MAXSUB; k++) {
                    if (!u->sub[k].alive || !u->sub[k].has_out || u->sub[k].sink != r->sink) continue;
                    if (o != 0) continue;      /* (further down the chain the definition may come from the pipe before or from the application) */
                    struct uref *want = mk_flow_def(c, u->defv);
                    if (want && want->udict && s->flow_def->udict && udict_cmp(want->udict, s->flow_def->udict))
                        FAILP(true, "flowdef/stale-dup-output", "%s: output %d of p%d:dup received a buffer under a definition that is not the one in force on the pipe's input", what, k, o);
                    uref_free(want);
                }
            }
        c->delivered++;
        if (!(r->sink == c->sinkid[0] || r->sink == c->sinkid[1])) continue;
        ndeliv++;
        if (ref != NULL && r->uref != NULL) {
            if (ndeliv == 1) {
                if (!expect_delivery && strict) FAILP(ORACLE_DATA, "delivery/unexpected", "%s: a buffer was delivered to sink %d although the model says it must be dropped", what, r->sink);
                else if (expect_delivery && strict && r->sink != c->sinkid[expect_sink]) FAILP(ORACLE_DATA, "delivery/wrong-output", "%s: delivered to sink %d, expected sink %d", what, r->sink, c->sinkid[expect_sink]);
                else if (expect_delivery) uref_differs(c, r->uref, ref, what);
            } else FAILP(ORACLE_DATA, "delivery/duplicate", "%s: the buffer was delivered %d times", what, ndeliv);
        }
    }
    if (ref != NULL && strict && expect_delivery && ndeliv == 0)
        FAILP(ORACLE_DATA, "delivery/lost", "%s: the buffer was not delivered (nor kept: the pipes are one-to-one) although flow definition and output are in place", what);
    pfx_sink_drop_kept(pfx, -1);
}

static void end_op(struct ctx *c, const char *what)
{
    if (c->render) pfx_render_since(&c->pfx, c->rep, c->ev_mark, c->rec_mark);
    check_events(c, what);
    check_liveness(c, what);
#if PIPES_PROP == 20
    /* what the pipes throw (everything but log messages) is part of what the application observes: a getter must not change it */
    for (int i = c->ev_mark; i < c->pfx.nevents; i++) {
        struct pfx_event *e = &c->pfx.events[i];
        if (e->event == UPROBE_LOG) continue;
        c->trace = vp_hash_mix(vp_hash_mix(c->trace, 0x3000 + e->probe), (uint64_t)e->event);
    }
#endif
    c->ev_mark = c->pfx.nevents;
    c->rec_mark = c->pfx.nrecs;
}

/* model: push a buffer through pipes j.. applying the documented transformations to ref.
 * Returns true if it reaches the link to sink *sink_p (whether the sink takes it is decided by the
 * sink's recorded answers); *dup_ref_p receives a copy of the reference as it enters a dup pipe. */
#if PIPES_PROP == 5
/* C05: pipelines built lazily.  A pipe without output throws need_output when it has a buffer to forward; the application plugs a
 * free sink from inside the event, and that very buffer has to reach it. */
static bool drop_on_probe_uref(struct pfx *pfx, int probe_id, struct upipe *upipe, struct uref *uref, void *opaque)
{
    struct ctx *c = opaque;
    if (c->drop_now) { R("      (probe_uref: the application asks to drop this buffer)\n"); c->classes |= 1u << CL_PROBE_DROP; }
    return c->drop_now;
}

static enum out_kind lazy_choice(struct ctx *c, int j)
{
    if (!c->lazy || c->p[j].type == T_DUP) return OUT_NONE;     /* (a duplicating pipe forwards through its output subpipes) */
    for (enum out_kind k = OUT_SINKA; k <= OUT_SINKB; k++) {
        bool used = false;
        for (int o = 0; o < c->np; o++) if (o != j && c->p[o].upipe && c->p[o].out == k) used = true;
        if (!used) return k;
    }
    return OUT_NONE;
}

static int lazy_plug_on_need_output(struct pfx *pfx, int probe_id, struct upipe *upipe, void *opaque)
{
    struct ctx *c = opaque;
    for (int j = 0; j < c->np; j++) {
        struct zpipe *z = &c->p[j];
        if (z->probe != probe_id || z->upipe != upipe || !zoo[z->type].has_output) continue;
        if (z->out != OUT_NONE) return UBASE_ERR_UNHANDLED;        /* its output refused the definition: left alone */
        enum out_kind to = lazy_choice(c, j);
        if (to == OUT_NONE) return UBASE_ERR_UNHANDLED;
        R("      (need_output from p%d: the application plugs sink %c)\n", j, to == OUT_SINKA ? 'A' : 'B');
        z->out = to; z->sent_def = -1;
        c->connect_seq[to == OUT_SINKA ? 0 : 1] = pfx->seq;
        c->classes |= 1u << CL_REPLUG;
        c->lazy_plugged++;
        return upipe_set_output(upipe, to == OUT_SINKA ? c->sink[0] : c->sink[1]);
    }
    return UBASE_ERR_UNHANDLED;
}
#endif

static bool model_path(struct ctx *c, int j, struct uref *ref, int *sink_p, bool *strict_p, int *dup_j, struct uref **dup_ref_p)
{
    *strict_p = true;
    for (;;) {
        struct zpipe *z = &c->p[j];
        if (!z->upipe) return false;
        if (!zoo[z->type].has_output) return false;
        if (z->def_unknown && !z->has_def) { *strict_p = false; return false; }
        if (!z->has_def) return false;                          /* "no flow def, dropping uref" */
        if (zoo[z->type].cls == CLS_REGROUP) {                  /* regrouping (when and what it outputs) is decided by C14 */
            *strict_p = false;
            for (int k = j + 1; k < c->np; k++) c->p[k].def_unknown = true;
            return false;
        }
        if (z->type == T_DUP && *dup_ref_p == NULL && *strict_p) { *dup_j = j; *dup_ref_p = uref_dup(ref); }
        if (!apply_expected(c, z, ref)) return false;
        if (z->out == OUT_NONE) {
#if PIPES_PROP == 5
            enum out_kind to = lazy_choice(c, j);
            if (to != OUT_NONE) { *sink_p = to == OUT_SINKA ? 0 : 1; return true; }
#endif
            return false;
        }
        if (z->out == OUT_NEXT) {
            struct zpipe *n = &c->p[j + 1];
            if (z->sent_def != outv(z)) {       /* the output helper sends its definition when it changed or the output was (re)connected */
                if (!n->has_def || n->defv != outv(z)) n->sent_def = -1;   /* its own definition changes: it will resend */
                n->has_def = true; n->defv = outv(z);
                z->sent_def = outv(z);
            }
            j++; continue;
        }
        *sink_p = z->out == OUT_SINKA ? 0 : 1;
        return true;
    }
}

static void op_input(struct ctx *c)
{
    int j = tp_pick(&c->t, c->np);
    struct zpipe *z = &c->p[j];
    if (!z->upipe || !z->held) return;
    /* legal histories only: whoever feeds a pipe sends it a flow definition it accepts first (doc/rules) */
    if (!z->has_def) {
        struct uref *fd = mk_flow_def(c, 0);
        int err = fd ? upipe_set_flow_def(z->upipe, fd) : UBASE_ERR_ALLOC;
        uref_free(fd);
        R("  set_flow_def(p%d:%s, v0) -> %d   [implied before the first buffer]\n", j, zoo[z->type].name, err);
        if (!ubase_check(err)) return;
        z->has_def = true; z->defv = 0;
        process_new_records(c, "set_flow_def", j, NULL, false, -1, false);
        end_op(c, "set_flow_def");
        if (c->ret) return;
    }
    struct inspec s;
    s.seq = c->next_seq++;
    uint8_t sz = tp_u8(&c->t);
    static const int sizes[] = { 16, 1, 2, 0, 3, 188, 255, 64 };
    s.size = sizes[sz % 8];
    s.nseg = 1 + (sz >> 3) % 3;
    if (s.nseg > 1 && s.size >= 2) c->classes |= 1u << CL_SEGMENTED;
    uint8_t f = tp_u8(&c->t);
    s.dates = f & 15; s.attrs = f >> 4;
    s.base = (f & 1) ? 1000000 : 5;
    c->drop_now = c->probe_drop && (sz >> 5) == 5;
    struct uref *in = mk_input(c, &s), *ref = mk_input(c, &s);
    if (!in || !ref) { uref_free(in); uref_free(ref); c->ret = vp_internal(c->rep, "mk_input"); return; }
    char what[96];
    snprintf(what, sizeof what, "input(p%d:%s, seq=%llu size=%d nseg=%d dates=%x attrs=%x)", j, zoo[z->type].name, (unsigned long long)s.seq, s.size, s.nseg, s.dates, s.attrs);
    R("  %s\n", what);
    c->hash = vp_hash_mix(c->hash, 0x100 + j * 64 + sz);
    int si = -1; bool strict; int dup_j = -1; struct uref *dup_ref = NULL;
    bool reaches = model_path(c, j, ref, &si, &strict, &dup_j, &dup_ref);
    for (int k = j; k < c->np; k++) c->p[k].data_flowed = true;
    c->any_data = true;
    c->lazy_plugged = 0;
    upipe_input(z->upipe, in, NULL);
    c->drop_now = false;
    /* the sink's own answers decide: last flow-definition record since it was connected */
    bool expect = false, offered = false;
    if (reaches) {
        struct pfx *pfx = &c->pfx;
        for (int k = pfx->nrecs - 1; k >= 0; k--) {
            struct pfx_rec *q = &pfx->recs[k];
            if (q->seq < c->connect_seq[si]) break;
            if (q->sink != c->sinkid[si]) continue;
            if (q->kind == PFX_FLOWDEF_ACCEPTED) { expect = offered = true; break; }
            if (q->kind == PFX_FLOWDEF_REJECTED) { offered = true; break; }
        }
    }
    /* an output plugged from need_output is there for the buffer that caused the event: the pipe offers it its definition */
    if (ORACLE_DATA && reaches && c->lazy_plugged && !offered)
        FAILP(true, "delivery/lost", "%s: the output plugged from inside need_output was offered neither the flow definition nor the buffer", what);
    /* dup: every output that exists gets its own copy */
    if (dup_ref) {
        struct zpipe *d = &c->p[dup_j];
        for (int k = 0; k < MAXSUB && !c->ret; k++) {
            if (!d->sub[k].alive || !d->sub[k].has_out) continue;
            int n = 0;
            for (int i = c->rec_mark; i < c->pfx.nrecs; i++) {
                struct pfx_rec *r = &c->pfx.recs[i];
                if (r->kind != PFX_INPUT || r->sink != d->sub[k].sink) continue;
                n++;
                if (r->uref) { char w[128]; snprintf(w, sizeof w, "%s at dup output %d", what, k); uref_differs(c, r->uref, dup_ref, w); }
            }
            if (n != 1) FAILP(ORACLE_DATA, "split/count", "%s: dup output %d received the buffer %d times (every output must get every input once)", what, k, n);
        }
        uref_free(dup_ref);
    }
    process_new_records(c, what, j, strict ? ref : NULL, expect, si, strict && reaches);
    uref_free(ref);
    end_op(c, what);
}

static void op_set_flow_def(struct ctx *c)
{
    int j = tp_pick(&c->t, c->np);
    struct zpipe *z = &c->p[j];
    if (!z->upipe || !z->held) return;
    int v = tp_u8(&c->t) % 4;
    if (v == 3 && !zoo[z->type].strict_block) v = 1;   /* a non-block definition is only offered to pipes documented to refuse it */
    struct uref *fd = mk_flow_def(c, v);
    if (!fd) return;
    /* C20, second pass: "a rejected setter leaves the previous value in force" -- a definition the pipe must refuse (the first
     * pass saw it refused) is not offered at all; what the sinks see afterwards must be the same */
    bool left_out = ORACLE_OPTS && c->skip_getters && v == 3 && zoo[z->type].strict_block;
    int err = left_out ? UBASE_ERR_INVALID : upipe_set_flow_def(z->upipe, fd);
    uref_free(fd);
    char what[64];
    snprintf(what, sizeof what, "set_flow_def(p%d:%s, v%d)", j, zoo[z->type].name, v);
    R("  %s -> %d\n", what, err);
    c->hash = vp_hash_mix(c->hash, 0x200 + j * 8 + v);
    bool must_accept = v != 3;
    bool must_reject = v == 3 && zoo[z->type].strict_block;
    if (must_accept && !ubase_check(err)) FAILP(ORACLE_PROTO, "flowdef/refused-valid", "%s: a valid block flow definition was refused (%d)", what, err);
    if (must_reject && ubase_check(err)) FAILP(ORACLE_PROTO, "flowdef/accepted-invalid", "%s: a picture flow definition was accepted by a block pipe", what);
    if (ubase_check(err)) {
        bool changed = !z->has_def || z->defv != v;
        if (z->has_def && changed && z->data_flowed) c->classes |= 1u << CL_FLOWDEF_CHANGE;
        z->has_def = true;
        if (changed) z->sent_def = -1;
        z->defv = v;
    }
    process_new_records(c, what, j, NULL, false, -1, false);
    end_op(c, what);
}

static void op_set_output(struct ctx *c)
{
    int j = tp_pick(&c->t, c->np);
    struct zpipe *z = &c->p[j];
    if (!z->upipe || !z->held || !zoo[z->type].has_output) return;
    enum out_kind k = tp_u8(&c->t) % 4;
    if (k == OUT_NEXT && (j + 1 >= c->np || !c->p[j + 1].upipe || !c->p[j + 1].held)) k = OUT_SINKA;   /* the caller must own a reference on the pipe it passes */
    if (k == OUT_SINKA || k == OUT_SINKB)      /* a recording sink has one upstream at a time */
        for (int o = 0; o < c->np; o++)
            if (o != j && c->p[o].upipe && c->p[o].out == k) { k = k == OUT_SINKA ? OUT_SINKB : OUT_SINKA; break; }
    if (k == OUT_SINKA || k == OUT_SINKB)
        for (int o = 0; o < c->np; o++)
            if (o != j && c->p[o].upipe && c->p[o].out == k) return;
    struct upipe *target = target_of(c, j, k);
    uint32_t seq_before = c->pfx.seq;
    int err = upipe_set_output(z->upipe, target);
    char what[64];
    static const char *kn[] = { "NULL", "next", "sinkA", "sinkB" };
    snprintf(what, sizeof what, "set_output(p%d:%s, %s)", j, zoo[z->type].name, kn[k]);
    R("  %s -> %d\n", what, err);
    c->hash = vp_hash_mix(c->hash, 0x300 + j * 8 + k);
    if (!ubase_check(err)) FAILP(ORACLE_PROTO, "output/set", "%s fails (%d)", what, err);
    if (z->data_flowed && z->out != k) c->classes |= 1u << CL_SWAP_AFTER_DATA;
    z->out = k; z->sent_def = -1;
    if (k == OUT_SINKA || k == OUT_SINKB) c->connect_seq[k == OUT_SINKA ? 0 : 1] = seq_before;
    if (ORACLE_OPTS && !c->skip_getters) {
        struct upipe *got = (struct upipe *)1;
        if (ubase_check(upipe_get_output(z->upipe, &got)) && got != target)
            FAILP(true, "get/output", "%s: get_output returns %p, set was %p", what, (void *)got, (void *)target);
    }
    process_new_records(c, what, j, NULL, false, -1, false);
    end_op(c, what);
}

static void op_flush(struct ctx *c)
{
    int j = tp_pick(&c->t, c->np);
    struct zpipe *z = &c->p[j];
    if (!z->upipe || !z->held) return;
    int err = upipe_flush(z->upipe);
    char what[64];
    snprintf(what, sizeof what, "flush(p%d:%s)", j, zoo[z->type].name);
    R("  %s -> %d\n", what, err);
    c->hash = vp_hash_mix(c->hash, 0x400 + j);
    process_new_records(c, what, j, NULL, false, -1, false);
    end_op(c, what);
}

static void op_release(struct ctx *c)
{
    int j = tp_pick(&c->t, c->np);
    struct zpipe *z = &c->p[j];
    if (!z->upipe || !z->held) return;
    char what[64];
    snprintf(what, sizeof what, "release(p%d:%s)", j, zoo[z->type].name);
    R("  %s\n", what);
    c->hash = vp_hash_mix(c->hash, 0x500 + j);
    if (c->any_data) c->classes |= 1u << CL_RELEASE_MID;
    /* sub-pipes first (they hold their super-pipe) -- unless the application is one that drops its handles on the outputs inside
     * their source_end event, which the duplicating pipe throws when its own last handle goes */
    if (c->pfx.event_hook == NULL)
        for (int k = 0; k < MAXSUB; k++) if (z->sub[k].alive) { upipe_release(z->sub[k].upipe); z->sub[k].alive = false; }
    z->held = false;
    upipe_release(z->upipe);
    for (int k = 0; k < MAXSUB; k++) if (z->sub[k].alive) { upipe_release(z->sub[k].upipe); z->sub[k].alive = false; }
    process_new_records(c, what, j, NULL, false, -1, false);
    end_op(c, what);
}

static void op_sink_cfg(struct ctx *c)
{
    int si = tp_u8(&c->t) & 1;
    uint8_t v = tp_u8(&c->t) % 4;
    struct pfx_sink *s = pfx_sink(&c->pfx, c->sinkid[si]);
    s->reject_first = v == 1 ? 1 : v == 2 ? 2 : 0;
    s->reject_all = v == 3;
    if (v) c->classes |= 1u << CL_REJECT;
    R("  sink%c policy: %s\n", 'A' + si, v == 0 ? "accept" : v == 3 ? "reject all" : v == 1 ? "reject next 1" : "reject next 2");
    c->hash = vp_hash_mix(c->hash, 0x600 + si * 4 + v);
}

static void op_sub(struct ctx *c)
{
    int j = tp_pick(&c->t, c->np);
    struct zpipe *z = &c->p[j];
    if (!z->upipe || !z->held || z->type != T_DUP) return;
    uint8_t kb = tp_u8(&c->t);
    int k = kb % MAXSUB;
    bool defer = (kb & 0x80) != 0;      /* the output is allocated now and connected by a later operation */
    char what[64];
    c->hash = vp_hash_mix(c->hash, 0x700 + j * 4 + k + (defer ? 0x40 : 0));
    if (z->sub[k].alive && !z->sub[k].has_out) {
        /* an output that was allocated unconnected gets its recording sink now: it must be served like the others from here on */
        snprintf(what, sizeof what, "set_output(p%d.sub%d, own sink)", j, k);
        R("  %s\n", what);
        int sid; struct upipe *sk = pfx_sink_alloc(&c->pfx, &sid);
        if (sk) { pfx_sink(&c->pfx, sid)->uref_policy = PFX_SINK_KEEP; upipe_set_output(z->sub[k].upipe, sk); upipe_release(sk); z->sub[k].sink = sid; z->sub[k].has_out = true; }
        c->classes |= 1u << CL_SUBCHURN;
    } else if (z->sub[k].alive) {
        snprintf(what, sizeof what, "release(p%d.sub%d)", j, k);
        R("  %s\n", what);
        upipe_release(z->sub[k].upipe);
        z->sub[k].alive = false;
        c->classes |= 1u << CL_SUBCHURN;
    } else {
        struct upipe_mgr *sub_mgr = NULL;
        if (!ubase_check(upipe_get_sub_mgr(z->upipe, &sub_mgr)) || !sub_mgr) { FAILP(ORACLE_PROTO, "sub/mgr", "dup has no sub manager"); return; }
        int pid;
        struct uprobe *probe = pfx_probe_alloc(&c->pfx, &pid);
        struct upipe *sub = upipe_void_alloc_sub(z->upipe, probe);
        snprintf(what, sizeof what, "p%d.sub%d=alloc_sub", j, k);
        R("  %s -> %s\n", what, sub ? "ok" : "NULL");
        if (!sub) return;
        z->sub[k].upipe = sub; z->sub[k].probe = pid; z->sub[k].alive = true; z->sub[k].hs = H_NONE;
        /* each output gets its own recording sink */
        int sid = -1; struct upipe *sk = defer ? NULL : pfx_sink_alloc(&c->pfx, &sid);
        z->sub[k].has_out = false;
        if (defer) R("    (left unconnected)\n");
        else if (sk) { pfx_sink(&c->pfx, sid)->uref_policy = PFX_SINK_KEEP; upipe_set_output(sub, sk); upipe_release(sk); z->sub[k].sink = sid; z->sub[k].has_out = true; }
    }
    process_new_records(c, what, j, NULL, false, -1, false);
    end_op(c, what);
}

/* ---- options (C20) ---- */
static const uint64_t optvals[] = { 0, 1, 2, 7, 8, 188, 1316, 65535, 0x7fffffff, 5 };

static void op_option(struct ctx *c)
{
    int j = tp_pick(&c->t, c->np);
    struct zpipe *z = &c->p[j];
    if (!z->upipe || !z->held) return;
    uint8_t sel = tp_u8(&c->t);
    bool set = sel & 1;
    uint64_t v = optvals[(sel >> 1) % 10];
    char what[96] = "";
    int err = 0;
    c->hash = vp_hash_mix(c->hash, 0x800 + j * 256 + sel);
    switch (z->type) {
    case T_SKIP:
        if (set) { err = upipe_skip_set_offset(z->upipe, v); snprintf(what, sizeof what, "skip.set_offset(%llu)", (unsigned long long)v); if (ubase_check(err)) z->opt[0] = v; else c->classes |= 1u << CL_OPT_REJECTED; }
        else if (c->skip_getters) break;
        else { size_t got = 12345; err = upipe_skip_get_offset(z->upipe, &got); snprintf(what, sizeof what, "skip.get_offset -> %zu", got);
               if (!ubase_check(err) || got != z->opt[0]) FAILP(ORACLE_OPTS, "get/skip-offset", "skip get_offset returned %zu (err %d), last accepted value is %llu", got, err, (unsigned long long)z->opt[0]);
               c->got_after_set = true; }
        break;
    case T_DELAY:
        if (set) { int64_t d = (sel & 0x80) ? -(int64_t)v : (int64_t)v;
#if PIPES_PROP == 20
            if ((sel & 0x70) == 0x70) d = (sel & 0x80) ? INT64_MIN + 1 : INT64_MAX;      /* the ends of the range: accepted or refused, the getter tells */
#endif
            err = upipe_delay_set_delay(z->upipe, d); snprintf(what, sizeof what, "delay.set_delay(%lld)", (long long)d); if (ubase_check(err)) z->opt[0] = (uint64_t)d; else c->classes |= 1u << CL_OPT_REJECTED; }
        else if (c->skip_getters) break;
        else { int64_t got = 12345; err = upipe_delay_get_delay(z->upipe, &got); snprintf(what, sizeof what, "delay.get_delay -> %lld", (long long)got);
               if (!ubase_check(err) || got != (int64_t)z->opt[0]) FAILP(ORACLE_OPTS, "get/delay", "delay get_delay returned %lld (err %d), last accepted value is %lld", (long long)got, err, (long long)z->opt[0]);
               c->got_after_set = true; }
        break;
    case T_SETRAP:
        if (set) { err = upipe_setrap_set_rap(z->upipe, v); snprintf(what, sizeof what, "setrap.set_rap(%llu)", (unsigned long long)v); if (ubase_check(err)) z->opt[0] = v; else c->classes |= 1u << CL_OPT_REJECTED; }
        else if (c->skip_getters) break;
        else { uint64_t got = 12345; err = upipe_setrap_get_rap(z->upipe, &got); snprintf(what, sizeof what, "setrap.get_rap -> %llu", (unsigned long long)got);
               if (!ubase_check(err) || got != z->opt[0]) FAILP(ORACLE_OPTS, "get/setrap", "setrap get_rap returned %llu (err %d), last accepted value is %llu", (unsigned long long)got, err, (unsigned long long)z->opt[0]);
               c->got_after_set = true; }
        break;
    case T_SETATTR: case T_SETFLOWDEF: {
        bool sa = z->type == T_SETATTR;
        if (set) {
            int dv = (sel >> 1) % 4;
            bool clear = (sel >> 3) % 8 == 7;          /* set_dict(NULL): no dictionary any more */
            struct uref *d = clear ? NULL : mk_dict(c, dv);
            err = sa ? upipe_setattr_set_dict(z->upipe, d) : upipe_setflowdef_set_dict(z->upipe, d);
            uref_free(d);
            if (clear) { dv = -1; snprintf(what, sizeof what, "%s.set_dict(NULL)", zoo[z->type].name); }
            else snprintf(what, sizeof what, "%s.set_dict(v%d)", zoo[z->type].name, dv);
            if (ubase_check(err)) { int before = outv(z); z->dictv = dv; if (outv(z) != before) z->sent_def = -1; } else c->classes |= 1u << CL_OPT_REJECTED;
        } else if (c->skip_getters) break;
        else {
            struct uref *got = (struct uref *)1;
            err = sa ? upipe_setattr_get_dict(z->upipe, &got) : upipe_setflowdef_get_dict(z->upipe, &got);
            snprintf(what, sizeof what, "%s.get_dict", zoo[z->type].name);
            if (!ubase_check(err)) FAILP(ORACLE_OPTS, "get/dict", "%s get_dict fails (%d)", zoo[z->type].name, err);
            else if (z->dictv < 0) { if (got != NULL) FAILP(ORACLE_OPTS, "get/dict", "%s get_dict returns a dictionary although none was set", zoo[z->type].name); }
            else {
                struct uref *want = mk_dict(c, z->dictv);
                if (got == NULL || got == (struct uref *)1 || (got->udict == NULL) != (want->udict == NULL) || (got->udict && udict_cmp(got->udict, want->udict)))
                    FAILP(ORACLE_OPTS, "get/dict", "%s get_dict does not return the dictionary that was set (variant %d)", zoo[z->type].name, z->dictv);
                uref_free(want);
            }
            c->got_after_set = true;
            /* setflowdef: the flow definition getter reports the input definition amended with the dictionary IN FORCE
             * (upipe_setflowdef.h: "sets the dictionary to set ... on flow definitions"), not with one that was replaced or cleared */
            /* (first pipe of the chain only: further down the input definition may already carry such attributes) */
            if (!sa && z == &c->p[0] && z->has_def && !c->ret) {
                struct uref *fd = NULL;
                if (ubase_check(upipe_get_flow_def(z->upipe, &fd)) && fd != NULL) {
                    uint64_t big = 0; const char *str = NULL; uint8_t small = 0;
                    bool hb = ubase_check(uref_attr_get_unsigned(fd, &big, UDICT_TYPE_UNSIGNED, "x.big"));
                    bool hs = ubase_check(uref_attr_get_string(fd, &str, UDICT_TYPE_STRING, "y.str"));
                    bool hm = ubase_check(uref_attr_get_small_unsigned(fd, &small, UDICT_TYPE_SMALL_UNSIGNED, "x.small"));
                    bool wb = z->dictv >= 1, ws = z->dictv >= 2, wm = z->dictv >= 3;
                    if (hb != wb || hs != ws || hm != wm || (wb && big != 77 + (uint64_t)z->dictv))
                        FAILP(ORACLE_OPTS, "get/setflowdef-flow-def", "setflowdef get_flow_def carries x.big=%s y.str=%s x.small=%s; the dictionary in force (%s) calls for x.big=%s y.str=%s x.small=%s",
                              hb ? "yes" : "no", hs ? "yes" : "no", hm ? "yes" : "no", z->dictv < 0 ? "none" : "a variant", wb ? "yes" : "no", ws ? "yes" : "no", wm ? "yes" : "no");
                }
            }
        }
        break; }
    case T_MATCH_ATTR:
        if (set) {
            int mode = 1 + ((sel >> 1) & 1);
            uint64_t mn = (sel >> 2) % 4 * 20, mx = mn + (sel >> 4) * 16;
            if (mode == 1) upipe_match_attr_set_uint8_t(z->upipe, match_small); else upipe_match_attr_set_uint64_t(z->upipe, match_big);
            err = upipe_match_attr_set_boundaries(z->upipe, mn, mx);
            if (ubase_check(err)) { z->match_mode = mode; z->mmin = mn; z->mmax = mx; }
            snprintf(what, sizeof what, "match_attr.set(mode %d, [%llu,%llu])", mode, (unsigned long long)mn, (unsigned long long)mx);
        }
        break;
    case T_AGG: {
        if (set) { err = upipe_set_output_size(z->upipe, v); snprintf(what, sizeof what, "agg.set_output_size(%llu)", (unsigned long long)v); if (ubase_check(err)) z->opt[0] = v; else c->classes |= 1u << CL_OPT_REJECTED; }
        else if (c->skip_getters) break;
        else { unsigned got = 12345; err = upipe_get_output_size(z->upipe, &got); snprintf(what, sizeof what, "agg.get_output_size -> %u", got);
               if (!ubase_check(err) || got != z->opt[0]) FAILP(ORACLE_OPTS, "get/agg-output-size", "agg get_output_size returned %u (err %d), last accepted value is %llu", got, err, (unsigned long long)z->opt[0]);
               c->got_after_set = true; }
        break; }
    case T_CHUNK: {
        if (set) {
            unsigned mtu = v, align = optvals[(sel >> 4) % 10];
            err = upipe_chunk_stream_set_mtu(z->upipe, mtu, align);
            snprintf(what, sizeof what, "chunk_stream.set_mtu(%u,%u)", mtu, align);
            /* documented: align must not exceed mtu */
            if (ubase_check(err)) { z->opt[0] = mtu; z->opt[1] = align; } else c->classes |= 1u << CL_OPT_REJECTED;
        } else if (c->skip_getters) break;
        else {
            unsigned mtu = 12345, align = 12345;
            err = upipe_chunk_stream_get_mtu(z->upipe, &mtu, &align);
            snprintf(what, sizeof what, "chunk_stream.get_mtu -> %u,%u", mtu, align);
            if (!ubase_check(err) || mtu != z->opt[0] || align != z->opt[1]) FAILP(ORACLE_OPTS, "get/chunk-mtu", "chunk_stream get_mtu returned %u,%u (err %d), last accepted values are %llu,%llu", mtu, align, err, (unsigned long long)z->opt[0], (unsigned long long)z->opt[1]);
            c->got_after_set = true;
        }
        break; }
    default: {
        /* generic getters of every output-helper pipe: flow definition and output */
        if (!zoo[z->type].has_output || c->skip_getters) break;
        c->got_after_set = true;
        struct uref *fd = (struct uref *)1;
        err = upipe_get_flow_def(z->upipe, &fd);
        snprintf(what, sizeof what, "%s.get_flow_def", zoo[z->type].name);
        if (!ubase_check(err)) FAILP(ORACLE_OPTS, "get/flow-def", "%s get_flow_def fails", zoo[z->type].name);
        else if (z->has_def && (fd == NULL || fd == (struct uref *)1)) FAILP(ORACLE_OPTS, "get/flow-def", "%s get_flow_def returns nothing although a definition was accepted", zoo[z->type].name);
        else if (z->has_def && z->type != T_GENAUX && !z->def_unknown) {
            const char *def = NULL; uref_flow_get_def(fd, &def);
            if (!def || strcmp(def, defname(z->defv))) FAILP(ORACLE_OPTS, "get/flow-def", "%s get_flow_def returns '%s', the accepted definition was '%s'", zoo[z->type].name, def ? def : "(null)", defname(z->defv));
            /* two of the definitions have the same name and differ by an attribute: the getter reports the one accepted last */
            uint64_t ex = 0;
            bool has_extra = ubase_check(uref_attr_get_unsigned(fd, &ex, UDICT_TYPE_UNSIGNED, "x.extra"));
            if (!c->ret && has_extra != ((z->defv & 15) == 2))
                FAILP(ORACLE_OPTS, "get/flow-def", "%s get_flow_def returns a definition %s the attribute x.extra, the definition accepted last (v%d) %s it", zoo[z->type].name, has_extra ? "with" : "without", z->defv & 15, (z->defv & 15) == 2 ? "carries" : "does not carry");
        }
        break; }
    }
    if (what[0]) { R("  p%d:%s -> %d\n", j, what, err); }
    process_new_records(c, what, j, NULL, false, -1, false);
    end_op(c, what);
}

/* ---------------------------------------------------------------- main */

static struct ctx ctx;

#if PIPES_PROP == 1
static int replug_on_need_output(struct pfx *pfx, int probe_id, struct upipe *upipe, void *opaque)
{
    struct ctx *c = opaque;
    for (int j = 0; j < c->np; j++) {
        struct zpipe *z = &c->p[j];
        if (z->probe != probe_id || z->upipe != upipe || !zoo[z->type].has_output) continue;
        if (z->out == OUT_NEXT) return UBASE_ERR_UNHANDLED;         /* keeps its place in the chain */
        enum out_kind to = z->out == OUT_SINKA ? OUT_SINKB : OUT_SINKA;
        if (c->replugs++ >= 4) return UBASE_ERR_UNHANDLED;
        R("      (need_output from p%d: the application plugs sink %c)\n", j, to == OUT_SINKA ? 'A' : 'B');
        z->out = to;
        c->classes |= 1u << CL_REPLUG;
        return upipe_set_output(upipe, to == OUT_SINKA ? c->sink[0] : c->sink[1]);
    }
    return UBASE_ERR_UNHANDLED;
}
#endif

#if PIPES_PROP == 1
/* applications commonly drop their handle on a pipe inside its source_end event: here on the outputs of a duplicating pipe, which
 * throws source_end on each of them while it is being destroyed (the walk over the outputs must survive an output that disappears) */
static void release_on_source_end(struct pfx *pfx, int probe_id, struct upipe *upipe, int event, void *opaque)
{
    struct ctx *c = opaque;
    if (event != UPROBE_SOURCE_END) return;
    for (int j = 0; j < c->np; j++)
        for (int k = 0; k < MAXSUB; k++) {
            struct zsub *sb = &c->p[j].sub[k];
            if (!sb->alive || sb->probe != probe_id || sb->upipe != upipe) continue;
            R("      (source_end on p%d.sub%d: the application releases its handle inside the event)\n", j, k);
            sb->alive = false;
            c->classes |= 1u << CL_SUBCHURN;
            upipe_release(upipe);
            return;
        }
}
#endif

static int run_once(const uint8_t *tp_, size_t len, struct vp_report *rep, unsigned flags, bool skip_getters, int force_pool)
{
    struct ctx *c = &ctx;
    memset(c, 0, sizeof(*c));
    tp_init(&c->t, tp_, len);
    c->rep = rep; c->render = flags & VP_RENDER; c->hash = VP_HASH_INIT;
    c->skip_getters = skip_getters; c->force_pool = force_pool; c->trace = VP_HASH_INIT;

    uint8_t cfgb = tp_u8(&c->t);
    struct pfx_cfg cfg = { .pool_depth = force_pool >= 0 ? force_pool : (int[]){ 0, 1, 4 }[cfgb % 3], .prepend = (cfgb / 3) % 2 ? 8 : 0, .append = 0, .align = (cfgb / 6) % 2 ? 16 : 0,
                           .with_uref_mgr = true, .with_ubuf_mem = true, .with_upump_mgr = true, .with_uclock = true };
    if (pfx_init(&c->pfx, &cfg) != 0) return vp_internal(rep, "pfx_init");
    if (cfg.pool_depth) c->classes |= 1u << CL_POOL;
    c->hash = vp_hash_mix(c->hash, cfgb);
    R(PID " pipes: pool_depth=%d prepend=%d align=%d\n", cfg.pool_depth, cfg.prepend, cfg.align);

    for (int i = 0; i < 2; i++) {
        c->sink[i] = pfx_sink_alloc(&c->pfx, &c->sinkid[i]);
        pfx_sink(&c->pfx, c->sinkid[i])->uref_policy = PFX_SINK_KEEP;
    }
#if PIPES_PROP == 1
    /* C01 only (the delivery models of the other properties do not follow it): in a share of the cases the application answers
     * need_output -- thrown when a pipe has no output, or when its output refused the flow definition -- by plugging the OTHER
     * sink, as applications that build their pipelines lazily do */
    if ((cfgb / 12) % 3 == 2) { c->pfx.need_output_hook = replug_on_need_output; c->pfx.need_output_opaque = c; }
    if ((cfgb / 36) % 2 == 1) { c->pfx.event_hook = release_on_source_end; c->pfx.event_opaque = c; }
#endif
#if PIPES_PROP == 5
    if ((cfgb / 36) % 2 == 1) { c->probe_drop = true; c->pfx.probe_uref_hook = drop_on_probe_uref; c->pfx.probe_uref_opaque = c; }
    if ((cfgb / 12) % 3 == 2) { c->lazy = true; c->pfx.need_output_hook = lazy_plug_on_need_output; c->pfx.need_output_opaque = c; }
#endif
    c->np = 1 + tp_u8(&c->t) % MAXP;
    if (c->np >= 2) c->classes |= 1u << CL_CHAIN2;
    for (int j = 0; j < c->np; j++) {
        struct zpipe *z = &c->p[j];
        z->type = tp_u8(&c->t) % T_NTYPES;
        if (j < c->np - 1 && !zoo[z->type].has_output) z->type = T_IDEM;
        z->dictv = -1; z->sent_def = -1;
        z->opt[0] = z->type == T_SETRAP ? UINT64_MAX : 0;
        c->hash = vp_hash_mix(c->hash, z->type);
        struct uprobe *probe = pfx_probe_alloc(&c->pfx, &z->probe);
        z->upipe = upipe_void_alloc(zoo[z->type].mgr(), probe);
        R("  p%d = %s (probe %d)\n", j, zoo[z->type].name, z->probe);
        if (!z->upipe) { c->ret = vp_internal(rep, "alloc %s", zoo[z->type].name); break; }
        z->held = true;
        if (z->type == T_AGG) { unsigned v = 0; upipe_get_output_size(z->upipe, &v); z->opt[0] = v; }
        if (z->type == T_CHUNK) { unsigned m = 0, a = 0; upipe_chunk_stream_get_mtu(z->upipe, &m, &a); z->opt[0] = m; z->opt[1] = a; }
    }
    end_op(c, "alloc");
    /* initial plumbing: chain, last to sink A */
    for (int j = 0; j < c->np && !c->ret; j++) {
        struct zpipe *z = &c->p[j];
        if (!zoo[z->type].has_output) continue;
        z->out = j + 1 < c->np ? OUT_NEXT : OUT_SINKA;
        upipe_set_output(z->upipe, target_of(c, j, z->out));
    }
    end_op(c, "plumbing");

    int nops = 0;
    while (!tp_done(&c->t) && nops < MAXOPS && !c->ret && pfx_log_room(&c->pfx)) {
        nops++;
        uint8_t op = tp_u8(&c->t) % 16;
        switch (op) {
        case 0: case 1: case 2: case 3: case 4: case 5: op_input(c); break;
        case 6: case 7: op_set_flow_def(c); break;
        case 8: op_set_output(c); break;
        case 9: op_flush(c); break;
        case 10: op_release(c); break;
        case 11: op_sink_cfg(c); break;
        case 12: op_sub(c); break;
        default: op_option(c); break;
        }
    }
    /* tail: release everything the application still holds */
    R("  -- tail: release all\n");
    for (int j = 0; j < c->np; j++) {
        struct zpipe *z = &c->p[j];
        for (int k = 0; k < MAXSUB; k++) if (z->sub[k].alive) { upipe_release(z->sub[k].upipe); z->sub[k].alive = false; }
        if (z->held) { z->held = false; upipe_release(z->upipe); }
    }
    for (int i = 0; i < 2; i++) upipe_release(c->sink[i]);
    process_new_records(c, "final release", 0, NULL, false, -1, false);
    end_op(c, "final release");
    /* every pipe must have died exactly once */
    for (int i = 0; i < c->pfx.nprobes && !c->ret; i++) {
        struct pfx_probe *p = c->pfx.probes[i];
        for (int k = 0; k < p->ntracks; k++)
            if (p->tracks[k].ready && p->tracks[k].dead_count != 1)
                FAILP(ORACLE_LIFE || ORACLE_PROTO, "dead/count", "pipe (probe %d) threw READY but DEAD %d times by the end of the history", i, p->tracks[k].dead_count);
    }
    const char *audit = pfx_clean(&c->pfx);
    if (audit) {
        if (!strncmp(audit, "INTERNAL", 8)) { if (!c->ret) c->ret = vp_internal(rep, "%s", audit); }
        else FAILP(ORACLE_LIFE, "audit", "%s", audit);
    }
    if (c->delivered >= 8) c->classes |= 1u << CL_DELIVERED8;
    if (c->got_after_set && c->any_data) c->classes |= 1u << CL_OPT_GET_AFTER_SET;
    rep->case_hash = c->hash;
    rep->classes |= c->classes;
#if PIPES_PROP == 1
    rep->nontrivial = (c->classes & ((1u << CL_SWAP_AFTER_DATA) | (1u << CL_RELEASE_MID) | (1u << CL_SUBCHURN))) != 0;
#elif PIPES_PROP == 4
    rep->nontrivial = (c->classes & ((1u << CL_SWAP_AFTER_DATA) | (1u << CL_FLOWDEF_CHANGE) | (1u << CL_REJECT))) != 0;
#elif PIPES_PROP == 5
    rep->nontrivial = (c->classes & (1u << CL_DELIVERED8)) && (c->classes & (1u << CL_SEGMENTED));
#else
    rep->nontrivial = (c->classes & (1u << CL_OPT_GET_AFTER_SET)) != 0;
#endif
    return c->ret;
}

static int run(const uint8_t *tape, size_t len, struct vp_report *rep, unsigned flags)
{
#if PIPES_PROP == 1
    /* the decoded history is executed with pool depth 0 (every structure is a malloc: ASan sees stale accesses)
     * and with pools (recycled structures are poisoned while they sit in a pool) */
    pool_track_reset();
    int r = run_once(tape, len, rep, flags, false, 0);
    if (r) return r;
    if (flags & VP_RENDER) vp_render(rep, "---- second pass: pool depth 4\n");
    pool_track_reset();
    r = run_once(tape, len, rep, flags, false, 4);
    rep->classes |= 1u << CL_POOL;
    return r;
#elif PIPES_PROP == 20
    int r = run_once(tape, len, rep, flags, false, -1);
    if (r) return r;
    uint64_t with_getters = ctx.trace;
    int nt = rep->nontrivial; uint64_t h = rep->case_hash; uint32_t cl = rep->classes;
    if (!ctx.got_after_set) return 0;
    /* metamorphic: the same history without the getter calls must show the sinks exactly the same things */
    struct vp_report r2; memset(&r2, 0, sizeof r2);
    r = run_once(tape, len, &r2, flags & ~VP_RENDER, true, -1);
    free(r2.render);
    rep->nontrivial = nt; rep->case_hash = h; rep->classes = cl;
    if (r == 2) return vp_internal(rep, "second pass: %s", r2.msg);
    if (r == 1) return vp_fail(rep, r2.key, "without getter calls: %s", r2.msg);
    if (ctx.trace != with_getters)
        return vp_fail(rep, "C20/noninterference/trace", "the sinks saw different flow definitions / buffers when the getter calls of this history (and the flow definitions the pipe refused) are left out: a getter, or a setter that was rejected, changed what the pipe does");
    return 0;
#else
    return run_once(tape, len, rep, flags, false, -1);
#endif
}

const struct vp_executor vp_executor = { PID, "pipes", 200, class_names, run, NULL };

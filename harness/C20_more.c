/* C20 (executor "more") — getters report what setters stored and do not change the pipe, for the option pairs of the pipes
 * that the pipe zoo of pipes_core.c does not hold: queue sink (max_length, output), queue source (max_length, output, flow
 * definition), ts_sync (output size, sync count), ts_check (output size), genaux (attribute getter).
 *
 * A case is a history of set(value) / get / data / loop-step operations over one pipe (pair).  Model = last accepted value
 * (initially the documented default: ts_sync sync 2 and size 188, ts_check 188, genaux uref_clock_get_cr_sys, queue source
 * length as allocated; the queue sink's max_length has no documented default: its first reading is taken).  Oracles:
 *   get    -> the model's value;        rejected set -> the previous value stays in force;      get twice -> same answer;
 *   non-interference: the whole history is run twice on the same tape, once with the getter calls and once without them;
 *   everything the recording sink saw (flow definitions, buffers, payloads, in order) must be identical. */
#include "vp.h"
#include "tape.h"
#include "pipefix.h"
#include "upipe/uref_clock.h"
#include "upipe/uref_block_flow.h"
#include "upipe/udict.h"
#include "upipe-modules/upipe_queue_sink.h"
#include "upipe-modules/upipe_queue_source.h"
#include "upipe-modules/upipe_genaux.h"
#include "upipe-ts/upipe_ts_sync.h"
#include "upipe-ts/upipe_ts_check.h"
#include <stdlib.h>
#include <stdio.h>

#define PID "C20"
enum { K_QUEUE, K_TSSYNC, K_TSCHECK, K_GENAUX, K_N };
static const char *const kname[] = { "qsink->qsrc", "ts_sync", "ts_check", "genaux" };
enum { CL_QUEUE, CL_TSSYNC, CL_TSCHECK, CL_GENAUX, CL_SET_ACCEPTED, CL_SET_REJECTED, CL_GET_AFTER_SET, CL_GET_THEN_DATA, CL_DATA_DELIVERED, CL_OUTPUT_SWAPPED, CL_PSEUDO };
static const char *const class_names[] = { "queue_pair", "ts_sync", "ts_check", "genaux", "set_accepted", "set_rejected", "get_after_accepted_set",
    "get_then_data", "data_delivered", "qsrc_output_replaced", "qsink_pseudo_output", NULL };

typedef int (*getattr_fn)(struct uref *, uint64_t *);
static const getattr_fn getattrs[] = { uref_clock_get_cr_sys, uref_clock_get_pts_prog, uref_clock_get_dts_orig, uref_clock_get_cr_prog };
static const char *const getattr_names[] = { "cr_sys", "pts_prog", "dts_orig", "cr_prog" };

struct ctx {
    struct tape t;
    struct vp_report *rep;
    bool render, skip_getters;
    struct pfx pfx;
    int kind;
    struct upipe *pipe, *qsrc, *sink[2], *pseudo;
    int sinkid[2], cur_sink;
    /* model */
    unsigned m_size; int m_sync; int m_getattr; getattr_fn m_default_fn;
    unsigned m_maxlen; bool m_maxlen_known;
    unsigned m_qlen;
    bool m_pseudo;
    bool accepted_since_get, got_after_set;
    uint64_t seq, trace, hash;
    uint64_t classes;
    int ret, delivered;
    uint8_t stream_pos;
};

#define R(...) do { if (c->render && !c->skip_getters) vp_render(c->rep, __VA_ARGS__); } while (0)
#define FAIL(key, ...) do { if (!c->ret) { c->ret = vp_fail(c->rep, PID "/" key, __VA_ARGS__); R("    !! %s\n", c->rep->msg); } } while (0)
#define CLS(b) (c->classes |= 1ull << (b))
#define GETTERS (!c->skip_getters)

/* ---- a minimal pseudo-output pipe for the queue sink (it only has to exist and be refcounted) ---- */
static int pseudo_control(struct upipe *upipe, int command, va_list args) { return UBASE_ERR_UNHANDLED; }
static struct upipe_mgr pseudo_mgr = { .refcount = NULL, .signature = UBASE_FOURCC('p','s','d','o'), .upipe_control = pseudo_control };
struct pseudo { struct upipe upipe; struct urefcount urefcount; };
static void pseudo_free(struct urefcount *urefcount)
{
    struct pseudo *p = container_of(urefcount, struct pseudo, urefcount);
    upipe_throw_dead(&p->upipe);
    upipe_clean(&p->upipe);
    urefcount_clean(urefcount);
    free(p);
}
static struct upipe *pseudo_new(struct ctx *c)
{
    struct pseudo *p = calloc(1, sizeof *p);
    upipe_init(&p->upipe, &pseudo_mgr, pfx_probe_alloc(&c->pfx, NULL));
    urefcount_init(&p->urefcount, pseudo_free);
    p->upipe.refcount = &p->urefcount;
    upipe_throw_ready(&p->upipe);
    return &p->upipe;
}

/* ---- what the sinks saw since the last call ---- */
static void absorb(struct ctx *c, int *from)
{
    struct pfx *pfx = &c->pfx;
    for (; *from < pfx->nrecs; (*from)++) {
        struct pfx_rec *r = &pfx->recs[*from];
        if (r->kind == PFX_INPUT) {
            c->trace = vp_hash_mix(c->trace, 0x1000 + r->sink); c->trace = vp_hash_mix(c->trace, r->size); c->trace = vp_hash_mix(c->trace, r->phash);
            c->trace = vp_hash_mix(c->trace, r->useq);
            c->delivered++;
        } else if (r->kind == PFX_FLOWDEF_ACCEPTED) {
            uint64_t sz = 0; const char *def = "";
            if (r->uref) { uref_block_flow_get_size(r->uref, &sz); uref_flow_get_def(r->uref, &def); }
            c->trace = vp_hash_mix(c->trace, 0x2000 + r->sink); c->trace = vp_hash_mix(c->trace, sz);
            for (const char *p = def; *p; p++) c->trace = vp_hash_mix(c->trace, (uint8_t)*p);
        }
    }
}

static void drain_loop(struct ctx *c, int max)
{
    for (int i = 0; i < max && fake_upump_step(c->pfx.loop, 0); i++) ;
}

/* ---- getters ---- */
static void get_size(struct ctx *c, const char *why)
{
    unsigned v = 0xdeadbeef, v2 = 0xdeadbeef;
    int e = upipe_get_output_size(c->pipe, &v), e2 = upipe_get_output_size(c->pipe, &v2);
    R("  get_output_size -> %d, %u\n", e, v);
    if (!ubase_check(e) || !ubase_check(e2)) FAIL("get/output-size", "upipe_get_output_size fails (%d) on %s", e, kname[c->kind]);
    else if (v != c->m_size) FAIL("get/output-size", "%s: get_output_size returns %u, the last accepted value is %u (%s)", kname[c->kind], v, c->m_size, why);
    else if (v2 != v) FAIL("get/idempotent", "%s: two consecutive get_output_size return %u then %u", kname[c->kind], v, v2);
}
static void get_sync(struct ctx *c, const char *why)
{
    int v = -777, v2 = -777;
    int e = upipe_ts_sync_get_sync(c->pipe, &v), e2 = upipe_ts_sync_get_sync(c->pipe, &v2);
    R("  get_sync -> %d, %d\n", e, v);
    if (!ubase_check(e) || !ubase_check(e2)) FAIL("get/sync", "upipe_ts_sync_get_sync fails (%d)", e);
    else if (v != c->m_sync) FAIL("get/sync", "ts_sync: get_sync returns %d, the last accepted value is %d (%s)", v, c->m_sync, why);
    else if (v2 != v) FAIL("get/idempotent", "ts_sync: two consecutive get_sync return %d then %d", v, v2);
}
static void get_getattr(struct ctx *c, const char *why)
{
    getattr_fn f = NULL, f2 = NULL;
    int e = upipe_genaux_get_getattr(c->pipe, &f), e2 = upipe_genaux_get_getattr(c->pipe, &f2);
    /* the default, uref_clock_get_cr_sys, is a static inline function: the copy compiled into upipe_genaux.c has another address than
     * the harness' copy, so the default is only known as "whatever the first reading says" */
    getattr_fn want = c->m_getattr >= 0 ? getattrs[c->m_getattr] : c->m_default_fn;
    R("  get_getattr -> %d, %s\n", e, c->m_getattr < 0 ? "the default" : f == want ? getattr_names[c->m_getattr] : "another function");
    if (!ubase_check(e) || !ubase_check(e2)) FAIL("get/getattr", "upipe_genaux_get_getattr fails (%d)", e);
    else if (c->m_getattr < 0 && c->m_default_fn == NULL) { c->m_default_fn = f; if (f == NULL) FAIL("get/getattr", "genaux reports a NULL attribute getter by default"); }
    else if (f != want) FAIL("get/getattr", "genaux: get_getattr does not return the last accepted callback (%s; %s)", c->m_getattr >= 0 ? getattr_names[c->m_getattr] : "the default", why);
    else if (f2 != f) FAIL("get/idempotent", "genaux: two consecutive get_getattr differ");
}
static void get_queue(struct ctx *c, const char *why)
{
    unsigned v = 0xdeadbeef, v2 = 0xdeadbeef;
    int e = upipe_get_max_length(c->pipe, &v), e2 = upipe_get_max_length(c->pipe, &v2);
    R("  qsink get_max_length -> %d, %u\n", e, v);
    if (!ubase_check(e) || !ubase_check(e2)) FAIL("get/max-length", "upipe_get_max_length fails on the queue sink (%d)", e);
    else if (!c->m_maxlen_known) { c->m_maxlen = v; c->m_maxlen_known = true; }
    else if (v != c->m_maxlen) FAIL("get/max-length", "queue sink: get_max_length returns %u, the last value set is %u (%s)", v, c->m_maxlen, why);
    if (!c->ret && v2 != v) FAIL("get/idempotent", "queue sink: two consecutive get_max_length return %u then %u", v, v2);
    struct upipe *o = (struct upipe *)1;
    e = upipe_get_output(c->pipe, &o);
    R("  qsink get_output -> %d, %s\n", e, o == NULL ? "NULL" : o == c->pseudo ? "the pseudo-output" : "another pipe");
    if (!ubase_check(e)) FAIL("get/qsink-output", "upipe_get_output fails on the queue sink (%d)", e);
    else if (o != (c->m_pseudo ? c->pseudo : NULL)) FAIL("get/qsink-output", "queue sink: get_output returns %s, the last value set is %s (%s)",
                                                         o == NULL ? "NULL" : "a pipe", c->m_pseudo ? "the pseudo-output" : "NULL", why);
    /* queue source */
    unsigned l = 0xdeadbeef;
    e = upipe_qsrc_get_max_length(c->qsrc, &l);
    R("  qsrc get_max_length -> %d, %u\n", e, l);
    if (!ubase_check(e)) FAIL("get/qsrc-max-length", "upipe_qsrc_get_max_length fails (%d)", e);
    else if (l != c->m_qlen) FAIL("get/qsrc-max-length", "queue source allocated with length %u reports max_length %u", c->m_qlen, l);
    o = (struct upipe *)1;
    e = upipe_get_output(c->qsrc, &o);
    if (!ubase_check(e)) FAIL("get/qsrc-output", "upipe_get_output fails on the queue source (%d)", e);
    else if (o != c->sink[c->cur_sink]) FAIL("get/qsrc-output", "queue source: get_output does not return the output that was set last (%s)", why);
    struct uref *fd = NULL, *fd2 = NULL;
    e = upipe_get_flow_def(c->qsrc, &fd); e2 = upipe_get_flow_def(c->qsrc, &fd2);
    if (ubase_check(e) != ubase_check(e2) || fd != fd2) FAIL("get/idempotent", "queue source: two consecutive get_flow_def differ");
}
static void get_all(struct ctx *c, const char *why)
{
    if (c->skip_getters || c->ret) return;
    switch (c->kind) {
    case K_QUEUE: get_queue(c, why); break;
    case K_TSSYNC: get_size(c, why); if (!c->ret) get_sync(c, why); break;
    case K_TSCHECK: get_size(c, why); break;
    default: get_getattr(c, why); break;
    }
    if (c->accepted_since_get) { c->got_after_set = true; CLS(CL_GET_AFTER_SET); }
    c->accepted_since_get = false;
}

/* ---- data ---- */
static void feed(struct ctx *c, unsigned a)
{
    struct pfx *pfx = &c->pfx;
    int n = 1 + a % 3;
    for (int i = 0; i < n && !c->ret; i++) {
        struct uref *u;
        if (c->kind == K_TSSYNC || c->kind == K_TSCHECK) {
            /* a synthetic transport stream cut at packet boundaries of the CURRENT size, so that both pipes output */
            size_t size = c->m_size * (1 + (a >> 2) % 2);
            u = pfx_uref_block(pfx, c->seq, size, 1 + (a >> 3) % 2);
            if (u == NULL) { c->ret = vp_internal(c->rep, "uref"); return; }
            for (size_t off = 0; off < size; off += c->m_size) {
                uint8_t *w; int s = 1;
                if (ubase_check(uref_block_write(u, off, &s, &w))) { w[0] = 0x47; uref_block_unmap(u, off); }
            }
        } else if (c->kind == K_GENAUX) {
            u = uref_alloc_control(pfx->fm.uref_mgr);
            if (u == NULL) { c->ret = vp_internal(c->rep, "uref"); return; }
            uref_clock_set_cr_sys(u, 1000 + c->seq); uref_clock_set_cr_prog(u, 2000 + c->seq); uref_clock_set_cr_orig(u, 3000 + c->seq);
            uref_clock_set_cr_dts_delay(u, 10); uref_clock_set_dts_pts_delay(u, 100);
        } else {
            u = pfx_uref_block(pfx, c->seq, (c->seq * 5 + 1) % 40, 1 + (a >> 3) % 2);
            if (u == NULL) { c->ret = vp_internal(c->rep, "uref"); return; }
        }
        c->seq++;
        upipe_input(c->pipe, u, NULL);
    }
    R("  input %d buffer(s)\n", n);
    if (c->got_after_set) CLS(CL_GET_THEN_DATA);
    if (c->kind == K_QUEUE) drain_loop(c, 1 + a % 4);
}

/* ---- one pass over the tape ---- */
static int run_pass(struct ctx *c, const uint8_t *tape, size_t len, bool skip_getters, unsigned flags)
{
    struct vp_report *rep = c->rep;
    bool render = c->render;
    memset(c, 0, sizeof *c);
    c->rep = rep; c->render = render; c->skip_getters = skip_getters;
    tp_init(&c->t, tape, len);
    c->trace = VP_HASH_INIT; c->hash = VP_HASH_INIT;
    uint8_t b0 = tp_u8(&c->t), b1 = tp_u8(&c->t);
    c->kind = b0 % K_N;
    struct pfx_cfg cfg = { .pool_depth = (b0 / K_N) % 2 ? 2 : 0, .with_uref_mgr = true, .with_ubuf_mem = true, .with_upump_mgr = true, .with_uclock = true };
    if (pfx_init(&c->pfx, &cfg) != 0) return vp_internal(rep, "pfx_init");
    struct pfx *pfx = &c->pfx;
    CLS(c->kind);
    c->hash = vp_hash_mix(c->hash, b0); c->hash = vp_hash_mix(c->hash, b1);
    R(PID "/more %s, pool depth %d\n", kname[c->kind], cfg.pool_depth);
    for (int k = 0; k < 2; k++) { c->sink[k] = pfx_sink_alloc(pfx, &c->sinkid[k]); }
    int from = 0;
    struct uref *fd;
    int err = UBASE_ERR_NONE;
    switch (c->kind) {
    case K_QUEUE: {
        c->m_qlen = 1 + b1 % 4;
        struct upipe_mgr *sm = upipe_qsrc_mgr_alloc(), *km = upipe_qsink_mgr_alloc();
        c->qsrc = upipe_qsrc_alloc(sm, pfx_probe_alloc(pfx, NULL), c->m_qlen);
        upipe_mgr_release(sm);
        if (c->qsrc == NULL) { upipe_mgr_release(km); c->ret = vp_internal(rep, "qsrc alloc"); break; }
        c->pipe = upipe_qsink_alloc(km, pfx_probe_alloc(pfx, NULL), c->qsrc);
        upipe_mgr_release(km);
        if (c->pipe == NULL) { c->ret = vp_internal(rep, "qsink alloc"); break; }
        upipe_set_output(c->qsrc, c->sink[0]);
        fd = pfx_flow_def_block(pfx, "q.");
        err = upipe_set_flow_def(c->pipe, fd);
        uref_free(fd);
        break; }
    case K_TSSYNC: case K_TSCHECK: {
        struct upipe_mgr *m = c->kind == K_TSSYNC ? upipe_ts_sync_mgr_alloc() : upipe_ts_check_mgr_alloc();
        c->pipe = upipe_void_alloc(m, pfx_probe_alloc(pfx, NULL));
        upipe_mgr_release(m);
        if (c->pipe == NULL) { c->ret = vp_internal(rep, "alloc"); break; }
        c->m_size = 188; c->m_sync = 2;
        fd = pfx_flow_def_block(pfx, "mpegts.");
        err = upipe_set_flow_def(c->pipe, fd);
        uref_free(fd);
        upipe_set_output(c->pipe, c->sink[0]);
        break; }
    default: {
        struct upipe_mgr *m = upipe_genaux_mgr_alloc();
        c->pipe = upipe_void_alloc(m, pfx_probe_alloc(pfx, NULL));
        upipe_mgr_release(m);
        if (c->pipe == NULL) { c->ret = vp_internal(rep, "alloc"); break; }
        c->m_getattr = -1;
        fd = uref_alloc_control(pfx->fm.uref_mgr);
        uref_flow_set_def(fd, "void.");
        err = upipe_set_flow_def(c->pipe, fd);
        uref_free(fd);
        upipe_set_output(c->pipe, c->sink[0]);
        break; }
    }
    if (!c->ret && !ubase_check(err)) c->ret = vp_internal(rep, "%s refused its flow definition (%d)", kname[c->kind], err);

    int maxops = (flags & VP_THOROUGH) ? 80 : 40, nops = 0;
    while (!tp_done(&c->t) && nops++ < maxops && !c->ret) {
        uint8_t b = tp_u8(&c->t);
        unsigned op = b & 7, a = b >> 3;
        c->hash = vp_hash_mix(c->hash, b);
        switch (op) {
        case 0: case 1: feed(c, a); break;
        case 2: case 3:     /* first option */
            if (c->kind == K_QUEUE) {
                unsigned v = (unsigned[]){ 0, 1, 2, 3, 255, 1000, 65536, 7 }[a % 8];
                int e = upipe_set_max_length(c->pipe, v);
                R("  qsink set_max_length(%u) -> %d\n", v, e);
                if (ubase_check(e)) { c->m_maxlen = v; c->m_maxlen_known = true; c->accepted_since_get = true; CLS(CL_SET_ACCEPTED); }
                else CLS(CL_SET_REJECTED);
            } else if (c->kind == K_GENAUX) {
                int i = a % 5;      /* 4: NULL, documented as invalid */
                int e = upipe_genaux_set_getattr(c->pipe, i < 4 ? getattrs[i] : NULL);
                R("  set_getattr(%s) -> %d\n", i < 4 ? getattr_names[i] : "NULL", e);
                if (i == 4 && ubase_check(e)) FAIL("set/getattr", "genaux accepted a NULL attribute getter");
                if (ubase_check(e) && i < 4) { c->m_getattr = i; c->accepted_since_get = true; CLS(CL_SET_ACCEPTED); }
                else CLS(CL_SET_REJECTED);
            } else {
                unsigned v = (unsigned[]){ 188, 192, 196, 204, 16, 188, 204, 47 }[a % 8];
                int e = upipe_set_output_size(c->pipe, v);
                R("  set_output_size(%u) -> %d\n", v, e);
                if (ubase_check(e)) { c->m_size = v; c->accepted_since_get = true; CLS(CL_SET_ACCEPTED); }
                else CLS(CL_SET_REJECTED);
            }
            break;
        case 4:             /* second option */
            if (c->kind == K_TSSYNC) {
                int v = (int[]){ 2, 3, 5, 1, 0, -1, 4, 2 }[a % 8];
                int e = upipe_ts_sync_set_sync(c->pipe, v);
                R("  set_sync(%d) -> %d\n", v, e);
                if (v < 2 && ubase_check(e)) FAIL("set/sync", "ts_sync accepted a sync count of %d, the documented minimum is 2", v);
                if (ubase_check(e)) { c->m_sync = v; c->accepted_since_get = true; CLS(CL_SET_ACCEPTED); }
                else CLS(CL_SET_REJECTED);
            } else if (c->kind == K_QUEUE) {
                if (!c->m_pseudo) {
                    if (c->pseudo == NULL) c->pseudo = pseudo_new(c);
                    int e = upipe_set_output(c->pipe, c->pseudo);
                    R("  qsink set_output(pseudo) -> %d\n", e);
                    if (ubase_check(e)) { c->m_pseudo = true; c->accepted_since_get = true; CLS(CL_PSEUDO); CLS(CL_SET_ACCEPTED); }
                } else {
                    int e = upipe_set_output(c->pipe, NULL);
                    R("  qsink set_output(NULL) -> %d\n", e);
                    if (ubase_check(e)) { c->m_pseudo = false; c->accepted_since_get = true; CLS(CL_SET_ACCEPTED); }
                }
            } else feed(c, a);
            break;
        case 5:
            if (c->kind == K_QUEUE && (a & 1)) {
                int k = !c->cur_sink;
                int e = upipe_set_output(c->qsrc, c->sink[k]);
                R("  qsrc set_output(sink %d) -> %d\n", k, e);
                if (ubase_check(e)) { c->cur_sink = k; c->accepted_since_get = true; CLS(CL_OUTPUT_SWAPPED); }
            } else if (c->kind == K_QUEUE) drain_loop(c, 1 + a % 8);
            else feed(c, a);
            break;
        default: get_all(c, "after the operations above"); break;
        }
        absorb(c, &from);
    }
    /* the end: read everything back once more, then let go */
    get_all(c, "at the end of the history");
    /* the queue sink holds buffers (and a reference on itself) until the loop has moved them: run the loop dry each time */
    if (c->kind == K_QUEUE) drain_loop(c, 100000);
    upipe_release(c->pipe); c->pipe = NULL;
    if (c->qsrc) { drain_loop(c, 100000); upipe_release(c->qsrc); c->qsrc = NULL; drain_loop(c, 100000); }
    if (c->pseudo) { upipe_release(c->pseudo); c->pseudo = NULL; }
    absorb(c, &from);
    if (c->delivered) CLS(CL_DATA_DELIVERED);
    for (int k = 0; k < 2; k++) upipe_release(c->sink[k]);
    const char *audit = pfx_clean(pfx);
    if (audit && !c->ret) {
        if (!strncmp(audit, "INTERNAL", 8)) c->ret = vp_internal(rep, "%s", audit);
        /* a leak is C01's business; here it only makes the comparison of the two passes meaningless */
        else c->ret = vp_internal(rep, "audit: %s", audit);
    }
    return c->ret;
}

static int run(const uint8_t *tape, size_t len, struct vp_report *rep, unsigned flags)
{
    static struct ctx ctx;
    struct ctx *c = &ctx;
    c->rep = rep; c->render = flags & VP_RENDER;
    int r = run_pass(c, tape, len, false, flags);
    uint64_t trace1 = c->trace, classes = c->classes, hash = c->hash;
    int delivered1 = c->delivered;
    bool nt = (classes & (1ull << CL_GET_THEN_DATA)) && (classes & (1ull << CL_DATA_DELIVERED));
    if (r == 0) {
        r = run_pass(c, tape, len, true, flags);
        if (r == 0 && (c->trace != trace1 || c->delivered != delivered1)) {
            if (flags & VP_RENDER) vp_render(rep, "  second pass (same history, getter calls left out): %d buffer(s) delivered, first pass %d\n", c->delivered, delivered1);
            r = vp_fail(rep, PID "/noninterference/trace", "%s: the recording sinks saw something different when the getter calls were left out of the same history (%d buffers against %d, or other sizes / payloads / flow definitions): a getter changes what the pipe does",
                        kname[c->kind], delivered1, c->delivered);
        }
    }
    rep->case_hash = hash;
    rep->classes = classes;
    rep->nontrivial = nt;
    return r;
}

const struct vp_executor vp_executor = { PID, "more", 96, class_names, run, NULL };

/* C03 — segmented block buffers behave exactly like byte strings.
 * Model-based: every handle has a plain byte-vector model; after each operation a
 * tape-chosen probe (first access after the mutation: exercises the segment cache)
 * and then a full comparison through every access path. */
#include "vp.h"
#include "tape.h"
#include "fix_mem.h"
#include "faultmalloc.h"
#include <stdlib.h>
#include <stdio.h>
#include <sys/uio.h>

#define MAXH 6
#define MAXSZ 700
#define MAXOPS 50

enum { CL_MULTISEG, CL_CROSS, CL_ERRPATH, CL_CACHEOP, CL_OUTSIDE_OK, CL_NEGOFF, CL_PREPEND, CL_FIND, CL_POOL, CL_ALIGN, CL_FAULT, CL_FAULT_MULTI };
static const char *const class_names[] = {
    "multi_segment_handle", "accessor_crossed_segment", "error_path_taken", "access_after_cache_moving_op",
    "out_of_domain_call_succeeded", "negative_offset", "prepend_ok", "find_multi_octet", "pool_depth_gt0", "align_gt0",
    "allocation_refused_inside_operation", "allocation_refused_on_multi_segment_handle", NULL };

struct mh {
    struct ubuf *u;
    uint8_t m[MAXSZ + 64];
    uint8_t wild[MAXSZ + 64];
    size_t n;
    int prep_avail;      /* prepend space known to be available (fresh allocations) */
    int64_t bnd[8]; int nb;   /* real segment boundaries seen at the last full check */
};

struct ctx {
    struct tape t;
    struct vp_report *rep;
    bool render;
    struct fix_mem fm;
    struct mh h[MAXH];
    int mgr_prepend;
    unsigned pat;
    int ret;
    uint64_t hash;
    bool multiseg, cross, errpath, cacheop, outside_ok, negoff, prepend_ok, findm;
    bool faultmode, faulthit, faultmulti;
};

#define R(...) do { if (c->render) vp_render(c->rep, __VA_ARGS__); } while (0)
#ifdef BLOCKSTR_AS_C01
/* the same generated histories serve C01 at buffer level: only memory oracles (ASan, leak audit) are reported */
#define FAIL(key, ...) do { } while (0)
#define LEAKKEY "C01/audit-blocks"
#define EXEC_ID "C01"
#define EXEC_VARIANT "blocks"
#else
#define FAIL(key, ...) do { if (!c->ret) c->ret = vp_fail(c->rep, key, __VA_ARGS__); } while (0)
#define LEAKKEY "C03/leak"
#define EXEC_ID "C03"
#define EXEC_VARIANT "blockstr"
#endif

/* allocation fault injection (engine/faultmalloc.h, force-included): in a share of the cases the n-th allocation inside an
 * operation is refused. The operation may then report an error -- and must leave every handle as it was (the property's
 * "an operation that reports an error leaves size and content unchanged") -- or succeed some other way, exactly. */
#define FAULTED() (vp_fault_refused() > 0)

static uint8_t pat_byte(struct ctx *c) { c->pat = c->pat * 1103515245u + 12345u; uint8_t b = c->pat >> 16; return (b & 0x30) ? b : (b & 3); /* many 0..3 for find */ }

static int norm(int64_t off, size_t n) { return off < 0 ? off + (int64_t)n : off; }

/* compare bytes read from handle with the model, skipping wildcards */
static bool model_eq(struct mh *h, size_t off, const uint8_t *p, size_t len, size_t *bad)
{
    for (size_t i = 0; i < len; i++)
        if (!h->wild[off + i] && h->m[off + i] != p[i]) { *bad = off + i; return false; }
    return true;
}

/* full check of one handle through every access path; resolves wildcards */
static void full_check(struct ctx *c, int hi, const char *after)
{
    struct mh *h = &c->h[hi];
    if (!h->u || c->ret) return;
    size_t sz = (size_t)-1, bad;
    if (!ubase_check(ubuf_block_size(h->u, &sz)) || sz != h->n) {
        FAIL("C03/size", "after %s: handle %d ubuf_block_size=%zu, byte-string model says %zu", after, hi, sz, h->n);
        return;
    }
    static uint8_t buf[MAXSZ + 64];
    /* extract everything */
    if (!ubase_check(ubuf_block_extract(h->u, 0, -1, buf))) {
        FAIL("C03/content/extract", "after %s: handle %d size %zu but extract(0,-1) fails (size exceeds content)", after, hi, h->n);
        return;
    }
    if (!model_eq(h, 0, buf, h->n, &bad)) {
        FAIL("C03/content/extract", "after %s: handle %d octet %zu is %02x, model says %02x", after, hi, bad, buf[bad], h->m[bad]);
        return;
    }
    for (size_t i = 0; i < h->n; i++) if (h->wild[i]) { h->m[i] = buf[i]; h->wild[i] = 0; }
    /* read loop */
    size_t off = 0; int nseg = 0;
    h->nb = 0;
    while (off < h->n) {
        int s = -1; const uint8_t *p;
        if (!ubase_check(ubuf_block_read(h->u, off, &s, &p))) { FAIL("C03/content/read", "after %s: handle %d read(%zu,-1) fails inside size %zu", after, hi, off, h->n); return; }
        if (s <= 0 || off + s > h->n) { FAIL("C03/content/read", "after %s: handle %d read(%zu,-1) returned size %d (total %zu)", after, hi, off, s, h->n); ubuf_block_unmap(h->u, off); return; }
        if (!model_eq(h, off, p, s, &bad)) { FAIL("C03/content/read", "after %s: handle %d read loop octet %zu is %02x, model %02x", after, hi, bad, p[bad - off], h->m[bad]); ubuf_block_unmap(h->u, off); return; }
        if (!ubase_check(ubuf_block_unmap(h->u, off))) { FAIL("C03/unmap", "after %s: unmap(%zu) fails", after, off); return; }
        off += s; nseg++;
        if (off < h->n && h->nb < 8) h->bnd[h->nb++] = off;
    }
    if (nseg > 1) c->multiseg = true;
    { int s = -1; const uint8_t *p;
      if (ubase_check(ubuf_block_read(h->u, h->n, &s, &p))) { FAIL("C03/range/read-at-end", "after %s: handle %d read at offset == size %zu succeeds (size %d)", after, hi, h->n, s); return; } }
    /* iovec */
    int cnt = ubuf_block_iovec_count(h->u, 0, -1);
    if (cnt != nseg) { FAIL("C03/content/iovec", "after %s: handle %d iovec_count=%d, read loop saw %d segments", after, hi, cnt, nseg); return; }
    if (cnt > 0) {
        struct iovec iov[cnt];
        if (!ubase_check(ubuf_block_iovec_read(h->u, 0, -1, iov))) { FAIL("C03/content/iovec", "after %s: iovec_read fails", after); return; }
        size_t o = 0;
        for (int i = 0; i < cnt; i++) {
            if (o + iov[i].iov_len > h->n || !model_eq(h, o, iov[i].iov_base, iov[i].iov_len, &bad)) { FAIL("C03/content/iovec", "after %s: handle %d iovec %d differs from model", after, hi, i); break; }
            o += iov[i].iov_len;
        }
        if (!c->ret && o != h->n) FAIL("C03/content/iovec", "after %s: iovecs cover %zu octets of %zu", after, o, h->n);
        if (!ubase_check(ubuf_block_iovec_unmap(h->u, 0, -1, iov))) FAIL("C03/unmap", "after %s: iovec_unmap fails", after);
    }
    /* peek whole */
    if (h->n && !c->ret) {
        static uint8_t pb[MAXSZ + 64];
        const uint8_t *p = ubuf_block_peek(h->u, 0, -1, pb);
        if (!p) FAIL("C03/content/peek", "after %s: peek(0,-1) fails", after);
        else {
            if (!model_eq(h, 0, p, h->n, &bad)) FAIL("C03/content/peek", "after %s: handle %d peek octet %zu is %02x, model %02x", after, hi, bad, p[bad], h->m[bad]);
            ubuf_block_peek_unmap(h->u, 0, pb, p);
        }
    }
}

static void check_all(struct ctx *c, const char *after)
{
    for (int i = 0; i < MAXH; i++) full_check(c, i, after);
}

/* after a call outside the documented domain succeeded: the handle must still be a
 * self-consistent byte string; the model is re-synchronised from it */
static void resync(struct ctx *c, int hi, const char *after)
{
    struct mh *h = &c->h[hi];
    size_t sz;
    c->outside_ok = true;
    if (!ubase_check(ubuf_block_size(h->u, &sz)) || sz > MAXSZ + 32) {
        FAIL("C03/inconsistent/size", "%s succeeded outside its domain and left handle %d with size %zu", after, hi, sz); return; }
    static uint8_t buf[MAXSZ + 64];
    if (!ubase_check(ubuf_block_extract(h->u, 0, sz, buf))) {
        FAIL("C03/inconsistent/content", "%s succeeded outside its domain: handle %d says size %zu but that many octets cannot be read", after, hi, sz); return; }
    memcpy(h->m, buf, sz); memset(h->wild, 0, sz); h->n = sz;
}

static int pick_live(struct ctx *c)
{
    int live[MAXH], n = 0;
    for (int i = 0; i < MAXH; i++) if (c->h[i].u) live[n++] = i;
    if (!n) return -1;
    return live[tp_pick(&c->t, n)];
}
static int pick_any_live(struct ctx *c)
{
    for (int i = 0; i < MAXH; i++) if (c->h[i].u) return i;
    return -1;
}
static int pick_free(struct ctx *c)
{
    for (int i = 0; i < MAXH; i++) if (!c->h[i].u) return i;
    return -1;
}

static int do_alloc(struct ctx *c, int slot, int size, bool opaque)
{
    struct mh *h = &c->h[slot];
    uint8_t tmp[128];
    for (int i = 0; i < size; i++) tmp[i] = pat_byte(c);
    if (opaque) h->u = ubuf_block_alloc_from_opaque(c->fm.block_mgr, tmp, size);
    else {
        h->u = ubuf_block_alloc(c->fm.block_mgr, size);
        if (h->u && size) {
            int s = -1; uint8_t *p;
            if (!ubase_check(ubuf_block_write(h->u, 0, &s, &p)) || s != size) {
                FAIL("C03/fresh/single-segment", "fresh ubuf_block_alloc(%d): write(0,-1) returned size %d", size, s);
                return -1;
            }
            memcpy(p, tmp, size);
            ubuf_block_unmap(h->u, 0);
        }
    }
    if (!h->u) { if (FAULTED()) { c->errpath = true; return -1; } FAIL("C03/alloc", "ubuf_block_alloc(%d) failed", size); return -1; }
    memcpy(h->m, tmp, size); memset(h->wild, 0, sizeof(h->wild)); h->n = size; h->prep_avail = c->mgr_prepend; h->nb = 0;
    if (size) {
        int s = -1; const uint8_t *p;
        if (!ubase_check(ubuf_block_read(h->u, 0, &s, &p)) || s != size)
            FAIL("C03/fresh/single-segment", "fresh block of %d octets: read(0,-1) returned %d (not one contiguous segment)", size, s);
        else ubuf_block_unmap(h->u, 0);
    }
    return 0;
}

/* the probe: first access after the mutation */
static void probe(struct ctx *c, int hi)
{
    struct mh *h = &c->h[hi];
    vp_fault_disarm();          /* the accessors run without faults */
    if (!h->u || c->ret) return;
    uint8_t kind = tp_u8(&c->t) % 8;
    if (kind == 0) return;
    if (kind >= 5) {   /* value-dependent accessors need every octet known: not right after a prepend/copy left undefined octets */
        bool anywild = false;
        for (int k = 0; k < MAXH; k++) if (c->h[k].u) for (size_t i = 0; i < c->h[k].n; i++) if (c->h[k].wild[i]) anywild = true;
        if (anywild) kind = 1;
    }
    int64_t off = tp_off(&c->t, h->n, h->bnd, h->nb);
    int noff = norm(off, h->n);
    bool off_ok = noff >= 0 && (size_t)noff < h->n;
    if (off < 0 && off_ok) c->negoff = true;
    size_t bad;
    static uint8_t buf[2 * MAXSZ + 256];
    switch (kind) {
    case 1: { /* read */
        int64_t len = tp_len(&c->t, h->n, noff);
        int s = len; const uint8_t *p;
        R("    probe read(%lld,%lld)", (long long)off, (long long)len);
        int err = ubuf_block_read(h->u, off, &s, &p);
        bool indom = off_ok && (len == -1 || (len >= 0 && noff + len <= (int64_t)h->n));
        R(" -> %d size %d\n", err, s);
        if (ubase_check(err)) {
            if (indom || (off_ok && len > 0)) {
                int64_t want = len == -1 ? (int64_t)h->n - noff : len;
                if (s < 0 || s > want || (want > 0 && s == 0) || (size_t)(noff + s) > h->n)
                    FAIL("C03/content/read", "read(%lld,%lld) on %zu octets returned size %d", (long long)off, (long long)len, h->n, s);
                else if (!model_eq(h, noff, p, s, &bad))
                    FAIL("C03/content/read", "read(%lld,%lld): octet %zu is %02x, model says %02x", (long long)off, (long long)len, bad, p[bad - noff], h->m[bad]);
                if (s >= 0 && s < want) c->cross = true;
            }
            ubuf_block_unmap(h->u, off);
        } else {
            c->errpath = true;
            if (indom) FAIL("C03/domain/read", "read(%lld,%lld) inside a block of %zu octets fails", (long long)off, (long long)len, h->n);
        }
        break; }
    case 2: case 3: { /* extract / peek */
        int64_t len = tp_len(&c->t, h->n, noff);
        bool indom = noff >= 0 && (len == -1 ? (size_t)noff <= h->n : (len >= 0 && noff + len <= (int64_t)h->n));
        if (off < 0 && len == -1) indom = indom && true;
        int64_t want = len == -1 ? (int64_t)h->n - noff : len;
        if (len < -1 || len > MAXSZ + 64) break;   /* destination buffer contract: caller provides size octets */
        /* the caller's buffer holds `want` octets: what lies behind them must not be written (canary) */
        size_t guard_at = indom && want >= 0 ? (size_t)want : sizeof(buf) - 32;
        for (size_t g = 0; g < 32 && guard_at + g < sizeof(buf); g++) buf[guard_at + g] = (uint8_t)(0xc5 ^ g);
#define C03_GUARD_OK() ({ bool ok_ = true; for (size_t g = 0; g < 32 && guard_at + g < sizeof(buf); g++) if (buf[guard_at + g] != (uint8_t)(0xc5 ^ g)) ok_ = false; ok_; })
        if (indom && want >= 0 && !c->ret) {
            /* the same range as a scatter list: as many octets as asked, in order */
            int cnt = ubuf_block_iovec_count(h->u, off, len);
            if (cnt < 0) { if (want > 0) FAIL("C03/domain/iovec", "iovec_count(%lld,%lld) inside %zu octets fails", (long long)off, (long long)len, h->n); }
            else if (cnt <= 64) {
                struct iovec iov[65];
                if (cnt > 0 && ubase_check(ubuf_block_iovec_read(h->u, off, len, iov))) {
                    size_t tot = 0; bool same = true;
                    for (int i = 0; i < cnt; i++) { if (tot + iov[i].iov_len <= (size_t)want && !model_eq(h, noff + tot, iov[i].iov_base, iov[i].iov_len, &bad)) same = false; tot += iov[i].iov_len; }
                    if (tot != (size_t)want || !same) FAIL("C03/content/iovec", "iovec(%lld,%lld) on %zu octets: %d vectors covering %zu octets, the range holds %lld%s", (long long)off, (long long)len, h->n, cnt, tot, (long long)want, same ? "" : " (content differs)");
                    ubuf_block_iovec_unmap(h->u, off, len, iov);
                } else if (cnt > 0) FAIL("C03/domain/iovec", "iovec_read(%lld,%lld) inside %zu octets fails", (long long)off, (long long)len, h->n);
                else if (want > 0) FAIL("C03/content/iovec", "iovec_count(%lld,%lld) on %zu octets is 0, the range holds %lld octets", (long long)off, (long long)len, h->n, (long long)want);
            }
        }
        if (kind == 2) {
            R("    probe extract(%lld,%lld)", (long long)off, (long long)len);
            int err = ubuf_block_extract(h->u, off, len, buf);
            R(" -> %d\n", err);
            if (indom) {
                if (!ubase_check(err)) FAIL("C03/domain/extract", "extract(%lld,%lld) inside %zu octets fails", (long long)off, (long long)len, h->n);
                else if (!model_eq(h, noff, buf, want, &bad)) FAIL("C03/content/extract", "extract(%lld,%lld): octet %zu is %02x, model %02x", (long long)off, (long long)len, bad, buf[bad - noff], h->m[bad]);
                else if (!C03_GUARD_OK()) FAIL("C03/content/extract", "extract(%lld,%lld) on %zu octets wrote beyond the %lld octets of the range into the caller's buffer", (long long)off, (long long)len, h->n, (long long)want);
            } else if (!ubase_check(err)) c->errpath = true;
        } else {
            if (indom && (size_t)noff >= h->n) break; /* peek at offset == size: may fail */
            R("    probe peek(%lld,%lld)", (long long)off, (long long)len);
            const uint8_t *p = ubuf_block_peek(h->u, off, len, buf);
            R(" -> %s\n", p ? (p == buf ? "copied" : "direct") : "NULL");
            if (indom) {
                if (!p) FAIL("C03/domain/peek", "peek(%lld,%lld) inside %zu octets fails", (long long)off, (long long)len, h->n);
                else if (!model_eq(h, noff, p, want, &bad)) FAIL("C03/content/peek", "peek(%lld,%lld): octet %zu is %02x, model %02x", (long long)off, (long long)len, bad, p[bad - noff], h->m[bad]);
                else if (!C03_GUARD_OK()) FAIL("C03/content/peek", "peek(%lld,%lld) on %zu octets wrote beyond the %lld octets of the range into the caller's buffer", (long long)off, (long long)len, h->n, (long long)want);
                if (p == buf) c->cross = true;
            } else if (!p) c->errpath = true;
            if (p) ubuf_block_peek_unmap(h->u, off, buf, p);
        }
        break; }
    case 4: { /* size_linear */
        size_t s = 0;
        int err = ubuf_block_size_linear(h->u, off, &s);
        R("    probe size_linear(%lld) -> %d %zu\n", (long long)off, err, s);
        if (off_ok) {
            if (!ubase_check(err)) FAIL("C03/domain/size_linear", "size_linear(%lld) inside %zu octets fails", (long long)off, h->n);
            else if (s == 0 || noff + s > h->n) FAIL("C03/content/size_linear", "size_linear(%lld) = %zu on %zu octets", (long long)off, s, h->n);
        } else if (!ubase_check(err)) c->errpath = true;
        break; }
    case 5: { /* scan / find */
        int k = 1 + tp_u8(&c->t) % 4;
        unsigned w[4];
        /* word: taken from the content at a random place (likely match) or arbitrary */
        uint8_t sel = tp_u8(&c->t);
        size_t from = h->n ? tp_range(&c->t, 0, h->n - 1) : 0;
        for (int i = 0; i < k; i++) w[i] = ((sel & 1) && from + i < h->n) ? h->m[from + i] : (tp_u8(&c->t) & 3);
        if (sel & 2) w[k - 1] ^= 1;
        if (noff < 0 || (size_t)noff > h->n) break;   /* start offset beyond the block: not in the documented domain (size_t) */
        size_t o = noff;
        int err = k == 1 ? ubuf_block_scan(h->u, &o, w[0]) :
                  k == 2 ? ubuf_block_find(h->u, &o, 2, w[0], w[1]) :
                  k == 3 ? ubuf_block_find(h->u, &o, 3, w[0], w[1], w[2]) :
                           ubuf_block_find(h->u, &o, 4, w[0], w[1], w[2], w[3]);
        /* reference */
        size_t ro = noff; bool found = false;
        for (;; ro++) {
            while (ro < h->n && h->m[ro] != w[0]) ro++;
            if (ro >= h->n) { ro = h->n; break; }
            if (ro + k > h->n) break;                /* first candidate, not enough octets */
            int j; for (j = 1; j < k && h->m[ro + j] == w[j]; j++);
            if (j == k) { found = true; break; }
        }
        R("    probe find(%d from %d: %02x %02x %02x %02x) -> %d at %zu (ref %s at %zu)\n", k, noff, w[0], k > 1 ? w[1] : 0, k > 2 ? w[2] : 0, k > 3 ? w[3] : 0, err, o, found ? "found" : "none", ro);
        if (k > 1) c->findm = true;
        if (ubase_check(err) != found || o != ro)
            FAIL(k == 1 ? "C03/content/scan" : "C03/content/find", "find %d octets from %d in %zu octets: got %s at %zu, byte-string search says %s at %zu", k, noff, h->n, ubase_check(err) ? "found" : "not found", o, found ? "found" : "not found", ro);
        break; }
    case 6: { /* compare / equal with another live handle */
        int oi = pick_live(c);
        if (oi < 0) break;
        struct mh *s = &c->h[oi];
        if (tp_bool(&c->t)) {
            int err = ubuf_block_equal(h->u, s->u);
            bool eq = h->n == s->n && !memcmp(h->m, s->m, h->n);
            R("    probe equal(h%d,h%d) -> %d\n", hi, oi, err);
            if (ubase_check(err) != eq) FAIL("C03/content/equal", "equal(h%d,h%d) says %s, models say %s", hi, oi, ubase_check(err) ? "equal" : "different", eq ? "equal" : "different");
        } else {
            if (off < 0) break;  /* documented for an offset in the large block */
            int err = ubuf_block_compare(h->u, off, s->u);
            bool eq = (size_t)off + s->n <= h->n && !memcmp(h->m + off, s->m, s->n);
            R("    probe compare(h%d,%lld,h%d) -> %d\n", hi, (long long)off, oi, err);
            if (ubase_check(err) != eq) FAIL("C03/content/compare", "compare(h%d,%lld,h%d) says %s, models say %s", hi, (long long)off, oi, ubase_check(err) ? "match" : "no match", eq ? "match" : "no match");
        }
        break; }
    default: { /* match */
        size_t k = tp_u8(&c->t) % 9;
        uint8_t filter[8], mask[8];
        uint8_t sel = tp_u8(&c->t);
        bool want = k <= h->n;
        for (size_t i = 0; i < k; i++) {
            mask[i] = (sel & 1) ? 0xff : tp_u8(&c->t);
            uint8_t b = i < h->n ? h->m[i] : 0;
            filter[i] = b & mask[i];
            if ((sel & 2) && i == (size_t)(sel >> 2) % (k ? k : 1)) { filter[i] ^= (mask[i] & -mask[i]) ? (mask[i] & -mask[i]) : 0; if (mask[i]) want = false; }
        }
        int err = ubuf_block_match(h->u, filter, mask, k);
        R("    probe match(size %zu) -> %d (ref %d)\n", k, err, want);
        if (ubase_check(err) != want) FAIL("C03/content/match", "match of %zu octets says %s, model says %s", k, ubase_check(err) ? "match" : "no match", want ? "match" : "no match");
        break; }
    }
}

static void release(struct ctx *c, int hi) { if (c->h[hi].u) { ubuf_free(c->h[hi].u); c->h[hi].u = NULL; c->h[hi].n = 0; } }

static int run(const uint8_t *tp_, size_t len, struct vp_report *rep, unsigned flags)
{
    static struct ctx ctx;
    struct ctx *c = &ctx;
    memset(c, 0, sizeof(*c));
    tp_init(&c->t, tp_, len);
    c->rep = rep; c->render = flags & VP_RENDER; c->pat = 12345; c->hash = VP_HASH_INIT;

    static const int depths[] = { 0, 1, 4 }, preps[] = { 0, 8, 32, 3 }, apps[] = { 0, 15, 1 }, aligns[] = { 0, 16, 64 };
    uint8_t cfg = tp_u8(&c->t);
    int depth = depths[cfg % 3], prep = preps[(cfg / 3) % 4], app = apps[(cfg / 12) % 3], align = aligns[(cfg / 36) % 3];
    int align_off = align ? (int)(tp_u8(&c->t) % 5) - 2 : 0;
    c->mgr_prepend = prep;
    if (fix_mem_init_full(&c->fm, depth, prep, app, align, align_off) != 0) return vp_internal(rep, "fixture init");
    c->faultmode = cfg >= 216;      /* (216..255 alias configurations 0..39) */
    R("C03 config: pool_depth=%d prepend=%d append=%d align=%d align_offset=%d%s\n", depth, prep, app, align, align_off, c->faultmode ? " [allocation faults]" : "");
    c->hash = vp_hash_mix(c->hash, cfg);

    int nops = 0;
    while (!tp_done(&c->t) && nops < MAXOPS && !c->ret) {
        nops++;
        uint8_t opb = tp_u8(&c->t), op = opb % 16;
        int hi = -1;
        /* fault mode: the operations whose octet is >= 128 run with the 1st..4th allocation from now on refused */
        unsigned nth = (c->faultmode && opb >= 128) ? 1 + (opb >> 4) % 4 : 0;
        bool multi_before = false;
        if (nth) for (int i = 0; i < MAXH; i++) if (c->h[i].u && c->h[i].nb > 0) multi_before = true;
        vp_fault_arm(nth);
        char what[96] = "";
        bool cachemove = false;
        c->hash = vp_hash_mix(c->hash, op);
        switch (op) {
        case 0: case 1: { /* alloc */
            int slot = pick_free(c);
            if (slot < 0) { slot = pick_live(c); release(c, slot); }
            int size = tp_u8(&c->t) % 65;
            if (tp_u8(&c->t) % 8 == 7) size = 0;
            if (op && size == 0) size = 1;   /* alloc_from_opaque of nothing: not documented */
            snprintf(what, sizeof what, "h%d=alloc%s(%d)", slot, op ? "_from_opaque" : "", size);
            R("  %s\n", what);
            if (do_alloc(c, slot, size, op) < 0) break;
            hi = slot; break; }
        case 2: { /* dup */
            int s = pick_live(c), slot = pick_free(c);
            if (s < 0 || slot < 0) break;
            snprintf(what, sizeof what, "h%d=dup(h%d)", slot, s);
            R("  %s\n", what);
            c->h[slot].u = ubuf_dup(c->h[s].u);
            if (!c->h[slot].u) { if (FAULTED()) { c->errpath = true; hi = s; break; } FAIL("C03/domain/dup", "ubuf_dup fails"); break; }
            memcpy(c->h[slot].m, c->h[s].m, c->h[s].n); memcpy(c->h[slot].wild, c->h[s].wild, c->h[s].n);
            c->h[slot].n = c->h[s].n; c->h[slot].prep_avail = 0; c->h[slot].nb = 0;
            hi = slot; break; }
        case 3: { /* splice */
            int s = pick_live(c), slot = pick_free(c);
            if (s < 0 || slot < 0) break;
            struct mh *h = &c->h[s];
            int64_t off = tp_off(&c->t, h->n, h->bnd, h->nb);
            int noff = norm(off, h->n);
            int64_t sz = tp_len(&c->t, h->n, noff);
            bool indom = noff >= 0 && (size_t)noff < h->n && (sz == -1 || (sz >= 0 && noff + sz <= (int64_t)h->n));
            snprintf(what, sizeof what, "h%d=splice(h%d,%lld,%lld)", slot, s, (long long)off, (long long)sz);
            c->hash = vp_hash_mix(c->hash, off * 1000 + sz);
            struct ubuf *nu = ubuf_block_splice(h->u, off, sz);
            R("  %s -> %s%s\n", what, nu ? "ok" : "NULL", indom ? "" : " [outside domain]");
            if (off < 0 && indom) c->negoff = true;
            if (indom) {
                if (!nu) { if (FAULTED()) { c->errpath = true; hi = s; break; } FAIL("C03/domain/splice", "%s inside a block of %zu octets fails", what, h->n); break; }
                int64_t want = sz == -1 ? (int64_t)h->n - noff : sz;
                c->h[slot].u = nu;
                memcpy(c->h[slot].m, h->m + noff, want); memcpy(c->h[slot].wild, h->wild + noff, want); c->h[slot].n = want;
            } else if (nu) { c->h[slot].u = nu; resync(c, slot, what); }
            else c->errpath = true;
            c->h[slot].prep_avail = 0; c->h[slot].nb = 0;
            hi = s; probe(c, s); hi = slot; break; }
        case 4: { /* split */
            int s = pick_live(c), slot = pick_free(c);
            if (s < 0 || slot < 0) break;
            struct mh *h = &c->h[s];
            int64_t off = tp_off(&c->t, h->n, h->bnd, h->nb);
            int noff = norm(off, h->n);
            bool indom = noff >= 0 && (size_t)noff < h->n;
            snprintf(what, sizeof what, "h%d=split(h%d,%lld)", slot, s, (long long)off);
            c->hash = vp_hash_mix(c->hash, off);
            struct ubuf *nu = ubuf_block_split(h->u, off);
            R("  %s -> %s%s\n", what, nu ? "ok" : "NULL", indom ? "" : " [outside domain]");
            if (off < 0 && indom) c->negoff = true;
            cachemove = true;
            if (indom) {
                if (!nu) { if (FAULTED()) { c->errpath = true; hi = s; break; } FAIL("C03/domain/split", "%s inside a block of %zu octets fails", what, h->n); break; }
                c->h[slot].u = nu;
                memcpy(c->h[slot].m, h->m + noff, h->n - noff); memcpy(c->h[slot].wild, h->wild + noff, h->n - noff);
                c->h[slot].n = h->n - noff; h->n = noff;
            } else if (nu) { c->h[slot].u = nu; resync(c, slot, what); resync(c, s, what); }
            else c->errpath = true;
            c->h[slot].prep_avail = 0; c->h[slot].nb = 0;
            probe(c, s);
            hi = slot; break; }
        case 5: { /* append */
            int a = pick_live(c), b = pick_live(c);
            if (a < 0 || b < 0 || a == b || c->h[a].n + c->h[b].n > MAXSZ) break;
            snprintf(what, sizeof what, "append(h%d,h%d)", a, b);
            int err = ubuf_block_append(c->h[a].u, c->h[b].u);
            R("  %s -> %d\n", what, err);
            if (!ubase_check(err)) { if (FAULTED()) { c->errpath = true; hi = a; break; } FAIL("C03/domain/append", "%s fails", what); break; }
            memcpy(c->h[a].m + c->h[a].n, c->h[b].m, c->h[b].n); memcpy(c->h[a].wild + c->h[a].n, c->h[b].wild, c->h[b].n);
            c->h[a].n += c->h[b].n; c->h[b].u = NULL; c->h[b].n = 0;
            hi = a; break; }
        case 6: { /* insert */
            int a = pick_live(c), b = pick_live(c);
            if (a < 0 || b < 0 || a == b || c->h[a].n + c->h[b].n > MAXSZ) break;
            struct mh *h = &c->h[a];
            int64_t off = tp_off(&c->t, h->n, h->bnd, h->nb);
            int noff = norm(off, h->n);
            bool indom = noff >= 0 && (size_t)noff < h->n;
            snprintf(what, sizeof what, "insert(h%d,%lld,h%d)", a, (long long)off, b);
            c->hash = vp_hash_mix(c->hash, off);
            int err = ubuf_block_insert(h->u, off, c->h[b].u);
            R("  %s -> %d%s\n", what, err, indom ? "" : " [outside domain]");
            if (off < 0 && indom) c->negoff = true;
            if (ubase_check(err)) {
                size_t bn = c->h[b].n;
                if (indom) {
                    memmove(h->m + noff + bn, h->m + noff, h->n - noff); memmove(h->wild + noff + bn, h->wild + noff, h->n - noff);
                    memcpy(h->m + noff, c->h[b].m, bn); memcpy(h->wild + noff, c->h[b].wild, bn);
                    h->n += bn;
                }
                c->h[b].u = NULL; c->h[b].n = 0;
                if (!indom) resync(c, a, what);
            } else {
                c->errpath = true;
                if (indom && !FAULTED()) FAIL("C03/domain/insert", "%s inside a block of %zu octets fails", what, h->n);
            }
            hi = a; break; }
        case 7: { /* delete */
            int a = pick_live(c); if (a < 0) break;
            struct mh *h = &c->h[a];
            int64_t off = tp_off(&c->t, h->n, h->bnd, h->nb);
            int noff = norm(off, h->n);
            int64_t sz = tp_len(&c->t, h->n, noff);
            bool indom = noff >= 0 && (size_t)noff < h->n && (sz == -1 || (sz >= 0 && noff + sz <= (int64_t)h->n));
            snprintf(what, sizeof what, "delete(h%d,%lld,%lld)", a, (long long)off, (long long)sz);
            c->hash = vp_hash_mix(c->hash, off * 1000 + sz);
            int err = ubuf_block_delete(h->u, off, sz);
            R("  %s -> %d%s\n", what, err, indom ? "" : " [outside domain]");
            if (off < 0 && indom) c->negoff = true;
            if (ubase_check(err)) {
                if (indom) {
                    int64_t d = sz == -1 ? (int64_t)h->n - noff : sz;
                    memmove(h->m + noff, h->m + noff + d, h->n - noff - d); memmove(h->wild + noff, h->wild + noff + d, h->n - noff - d);
                    h->n -= d;
                } else resync(c, a, what);
            } else {
                c->errpath = true;
                if (indom && !FAULTED()) FAIL("C03/domain/delete", "%s inside a block of %zu octets fails", what, h->n);
            }
            hi = a; break; }
        case 8: { /* truncate */
            int a = pick_live(c); if (a < 0) break;
            struct mh *h = &c->h[a];
            int64_t off = tp_off(&c->t, h->n, h->bnd, h->nb);
            bool indom = off >= 0 && (size_t)off <= h->n;
            snprintf(what, sizeof what, "truncate(h%d,%lld)", a, (long long)off);
            c->hash = vp_hash_mix(c->hash, off);
            int err = ubuf_block_truncate(h->u, off);
            R("  %s -> %d%s\n", what, err, indom ? "" : " [outside domain]");
            cachemove = true;
            if (ubase_check(err)) { if (indom) h->n = off; else resync(c, a, what); }
            else { c->errpath = true; if (indom && !FAULTED()) FAIL("C03/domain/truncate", "%s inside a block of %zu octets fails", what, h->n); }
            hi = a; break; }
        case 9: { /* resize */
            int a = pick_live(c); if (a < 0) break;
            struct mh *h = &c->h[a];
            int64_t off = tp_off(&c->t, h->n, h->bnd, h->nb);
            int noff = norm(off, h->n);
            int64_t sz = tp_len(&c->t, h->n, noff);
            bool indom = noff >= 0 && (size_t)noff <= h->n && (sz == -1 || (sz >= 0 && noff + sz <= (int64_t)h->n));
            snprintf(what, sizeof what, "resize(h%d,%lld,%lld)", a, (long long)off, (long long)sz);
            c->hash = vp_hash_mix(c->hash, off * 1000 + sz);
            int err = ubuf_block_resize(h->u, off, sz);
            R("  %s -> %d%s\n", what, err, indom ? "" : " [outside domain]");
            if (off < 0 && indom) c->negoff = true;
            cachemove = true;
            if (ubase_check(err)) {
                if (indom) {
                    int64_t ns = sz == -1 ? (int64_t)h->n - noff : sz;
                    memmove(h->m, h->m + noff, ns); memmove(h->wild, h->wild + noff, ns); h->n = ns;
                } else resync(c, a, what);
            } else { c->errpath = true; if (indom && !((size_t)noff == h->n) && !FAULTED()) FAIL("C03/domain/resize", "%s inside a block of %zu octets fails", what, h->n); }
            hi = a; break; }
        case 10: { /* prepend */
            int a = pick_live(c); if (a < 0) break;
            struct mh *h = &c->h[a];
            static const int ks[] = { 0, 1, 3, 8, 9, 32, 33 };
            int k = ks[tp_u8(&c->t) % 7];
            if (h->n + k > MAXSZ) break;
            snprintf(what, sizeof what, "prepend(h%d,%d)", a, k);
            c->hash = vp_hash_mix(c->hash, k);
            int err = ubuf_block_prepend(h->u, k);
            R("  %s -> %d (known available %d)\n", what, err, h->prep_avail);
            cachemove = true;
            if (ubase_check(err)) {
                memmove(h->m + k, h->m, h->n); memmove(h->wild + k, h->wild, h->n);
                memset(h->wild, 1, k); h->n += k;
                h->prep_avail = h->prep_avail >= k ? h->prep_avail - k : 0;
                for (int i = 0; i < h->nb; i++) h->bnd[i] += k;
                if (k) c->prepend_ok = true;
            } else {
                c->errpath = true;
                if (k <= h->prep_avail && !FAULTED()) FAIL("C03/domain/prepend", "%s fails although the manager reserved %d octets of prepend", what, h->prep_avail);
            }
            hi = a; break; }
        case 11: case 12: { /* copy / merge */
            int a = pick_live(c); if (a < 0) break;
            struct mh *h = &c->h[a];
            static const int skips[] = { 0, 1, -1, -5, 7 };
            uint8_t sel = tp_u8(&c->t);
            int skip = (sel % 8 < 5) ? skips[sel % 8] : (sel % 8 == 5 ? (int)h->n : sel % 8 == 6 ? (int)h->n + 1 : (int)tp_range(&c->t, 0, h->n));
            int64_t ns = tp_len(&c->t, h->n, skip);
            if (ns > MAXSZ || ns < -2) break;
            int slot = op == 11 ? pick_free(c) : a;
            if (slot < 0) break;
            /* documented domain: skip <= size; size -1 or >= -skip; (a zero-sized result may fail) */
            int64_t rs = ns == -1 ? (int64_t)h->n - skip : ns;
            bool indom = skip <= (int64_t)h->n && ns >= -1 && rs >= -skip && rs > 0 && rs > (skip < 0 ? -skip : 0) && (skip < (int64_t)h->n);
            snprintf(what, sizeof what, "%s(h%d,%d,%lld)", op == 11 ? "copy" : "merge", a, skip, (long long)ns);
            c->hash = vp_hash_mix(c->hash, skip * 1000 + ns);
            struct ubuf *nu = NULL; int err = 0;
            if (op == 11) nu = ubuf_block_copy(c->fm.block_mgr, h->u, skip, ns);
            else { err = ubuf_block_merge(c->fm.block_mgr, &h->u, skip, ns); nu = ubase_check(err) ? h->u : NULL; }
            R("  %s -> %s%s\n", what, nu ? "ok" : "failed", indom ? "" : " [outside domain]");
            if (!nu) { c->errpath = true; if (indom && !FAULTED()) FAIL("C03/domain/copy", "%s on a block of %zu octets fails", what, h->n); hi = a; break; }
            if (rs < 0 || rs > MAXSZ) { if (op == 11) c->h[slot].u = nu; resync(c, slot, what); hi = slot; break; }
            /* model: result[i] = src[i + skip] where defined, else wildcard */
            static uint8_t nm[MAXSZ + 64], nw[MAXSZ + 64];
            for (int64_t i = 0; i < rs; i++) {
                int64_t si = i + skip;
                if (si >= 0 && si < (int64_t)h->n) { nm[i] = h->m[si]; nw[i] = h->wild[si]; } else { nm[i] = 0; nw[i] = 1; }
            }
            struct mh *d = &c->h[slot];
            d->u = nu; memcpy(d->m, nm, rs); memcpy(d->wild, nw, rs); d->n = rs; d->prep_avail = c->mgr_prepend; d->nb = 0;
            if (!indom) resync(c, slot, what);
            cachemove = true;
            hi = slot; break; }
        case 13: { /* write-fill */
            int a = pick_live(c); if (a < 0) break;
            struct mh *h = &c->h[a];
            int64_t off = tp_off(&c->t, h->n, h->bnd, h->nb);
            int noff = norm(off, h->n);
            int64_t sz = tp_len(&c->t, h->n, noff);
            bool indom = noff >= 0 && (size_t)noff < h->n && (sz == -1 || (sz >= 0 && noff + sz <= (int64_t)h->n));
            if (!indom) break;   /* out-of-range reads are probed separately; writes stay inside */
            int s = sz; uint8_t *p;
            int err = ubuf_block_write(h->u, off, &s, &p);
            snprintf(what, sizeof what, "write(h%d,%lld,%lld)", a, (long long)off, (long long)sz);
            R("  %s -> %d size %d\n", what, err, s);
            if (ubase_check(err)) {
                int64_t want = sz == -1 ? (int64_t)h->n - noff : sz;
                if (s < 0 || s > want || (size_t)(noff + s) > h->n) { FAIL("C03/content/write", "%s granted size %d on %zu octets", what, s, h->n); ubuf_block_unmap(h->u, off); break; }
                for (int i = 0; i < s; i++) { p[i] = pat_byte(c); h->m[noff + i] = p[i]; h->wild[noff + i] = 0; }
                ubuf_block_unmap(h->u, off);
            }
            hi = a; break; }
        case 14: { /* free */
            int a = pick_live(c); if (a < 0) break;
            R("  free(h%d)\n", a);
            release(c, a); break; }
        default: { /* probe only */
            int a = pick_live(c); if (a < 0) break;
            R("  access(h%d)\n", a);
            probe(c, a); break; }
        }
        vp_fault_disarm();
        if (nth && FAULTED()) {
            c->faulthit = true; if (multi_before) c->faultmulti = true;
            R("    (allocation %u inside the operation was refused)\n", nth);
            c->hash = vp_hash_mix(c->hash, 0xfa00 + nth);
            if (hi < 0) hi = pick_any_live(c);
        }
        if (hi >= 0 && !c->ret) {
            if (cachemove && c->h[hi].u) c->cacheop = true;
            probe(c, hi);
            check_all(c, what);
        }
    }
    for (int i = 0; i < MAXH; i++) release(c, i);
    const char *leak = fix_mem_clean(&c->fm);
    if (leak && !c->ret) c->ret = vp_fail(rep, LEAKKEY, "%s", leak);

    rep->case_hash = c->hash;
    if (c->multiseg) rep->classes |= 1u << CL_MULTISEG;
    if (c->cross) rep->classes |= 1u << CL_CROSS;
    if (c->errpath) rep->classes |= 1u << CL_ERRPATH;
    if (c->cacheop) rep->classes |= 1u << CL_CACHEOP;
    if (c->outside_ok) rep->classes |= 1u << CL_OUTSIDE_OK;
    if (c->negoff) rep->classes |= 1u << CL_NEGOFF;
    if (c->prepend_ok) rep->classes |= 1u << CL_PREPEND;
    if (c->findm) rep->classes |= 1u << CL_FIND;
    if (depth) rep->classes |= 1u << CL_POOL;
    if (align) rep->classes |= 1u << CL_ALIGN;
    if (c->faulthit) rep->classes |= 1u << CL_FAULT;
    if (c->faultmulti) rep->classes |= 1u << CL_FAULT_MULTI;
    rep->nontrivial = (c->multiseg && c->cross) || c->errpath || c->cacheop;
    return c->ret;
}

const struct vp_executor vp_executor = { EXEC_ID, EXEC_VARIANT, 220, class_names, run, NULL };

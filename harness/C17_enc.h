/* C17 reference encoder side (independent of upipe and of the stand-in bitstream headers):
 * MSB-first bit writer, exp-Golomb codes (H.264 9.1 / H.265 9.2), emulation prevention
 * (H.264 7.4.1 / H.265 7.4.2), Annex B byte stream assembly, and the table of NAL units
 * and access units of the generated stream. */
#ifndef C17_ENC_H_
#define C17_ENC_H_

#include <stdint.h>
#include <stddef.h>
#include <stdbool.h>
#include <string.h>

#define ES_MAX      24000
#define ES_MAXNAL   160
#define ES_MAXAU    24

/* ---- RBSP bit writer ---- */
struct rb { uint8_t b[4096]; size_t bits; };
static void rb_init(struct rb *w) { memset(w, 0, sizeof(*w)); }
static void rb_u(struct rb *w, int n, uint32_t v)
{
    for (int i = n - 1; i >= 0; i--) {
        if (w->bits / 8 >= sizeof(w->b) - 1) return;
        if ((v >> i) & 1) w->b[w->bits / 8] |= 0x80 >> (w->bits % 8);
        w->bits++;
    }
}
static void rb_ue(struct rb *w, uint32_t code)
{
    uint64_t x = (uint64_t)code + 1;
    int k = 0;
    while ((x >> (k + 1)) != 0) k++;
    rb_u(w, k, 0);
    rb_u(w, 1, 1);
    if (k) rb_u(w, k, (uint32_t)(x & ((1ull << k) - 1)));
}
static void rb_se(struct rb *w, int32_t v)
{
    rb_ue(w, v > 0 ? 2u * (uint32_t)v - 1 : 2u * (uint32_t)(-(int64_t)v));
}
static void rb_trailing(struct rb *w)
{
    rb_u(w, 1, 1);
    while (w->bits % 8) rb_u(w, 1, 0);
}

/* ---- NAL and access unit tables ---- */
struct pic {            /* the syntax elements that decide access unit boundaries */
    /* H.264 */
    bool idr; int ref_idc; int pps_id; uint32_t frame_num; bool field, bottom;
    uint32_t idr_pic_id; int poc_type; uint32_t poc_lsb; int32_t dpb, dp0, dp1;
    /* H.265 */
    bool first_slice;
    int slice_type;
};

struct nalrec {
    int type;               /* nal_unit_type */
    size_t hp;              /* offset of the first NAL header octet */
    size_t pend;            /* end of the NAL unit proper (before trailing zero octets) */
    size_t start, end;      /* canonical span: zero_byte? + start code prefix + NAL + trailing zeros */
    bool vcl;
    int id, ref_id;         /* parameter sets: own id, referenced id */
    int chroma, depth, subl; /* SPS: chroma_format_idc, bit_depth_minus8; H.265 VPS / SPS: max_sub_layers_minus1 */
    struct pic pic;         /* slices */
};

struct aurec {
    int nal0, nal1;         /* NAL units [nal0, nal1) */
    size_t start, end;
    bool has_vcl, key, has_aud, has_ps;  /* has_ps: contains an SPS (H.264) / a VPS (H.265) */
};

struct es {
    uint8_t b[ES_MAX + 64];
    size_t len;
    struct nalrec nal[ES_MAXNAL];
    int nnal;
    struct aurec au[ES_MAXAU];
    int nau;
    bool overflow;
    /* which optional SPS syntax the reference encoder wrote (class statistics) */
    bool has_vui, has_hrd, has_scaling, has_timing;
};

/* Optional SPS syntax (VUI with timing and HRD parameters, scaling lists): 0 = none, as before. The choices
 * of SPS number n are drawn from a generator seeded with (g_ext, n), so they use no tape octets. */
static uint8_t g_ext;
static uint32_t ext_seed(int ordinal) { return g_ext ? ((uint32_t)g_ext * 0x9E3779B1u) ^ ((uint32_t)(ordinal + 1) * 0x85EBCA6Bu) : 0; }
static uint32_t ext_rnd(uint32_t *s) { *s = *s * 1664525u + 1013904223u; return *s >> 8; }

/* appends one NAL unit: sc = 3 or 4 start code octets, hdr/nhdr = NAL header, the RBSP with
 * emulation prevention, tz trailing zero octets */
static struct nalrec *es_nal(struct es *e, int type, int sc, const uint8_t *hdr, int nhdr,
                             const struct rb *w, int tz)
{
    size_t n = w->bits / 8;
    if (e->nnal >= ES_MAXNAL || e->len + 4 + nhdr + n * 3 / 2 + tz + 8 > ES_MAX) { e->overflow = true; return NULL; }
    struct nalrec *r = &e->nal[e->nnal++];
    memset(r, 0, sizeof(*r));
    r->type = type;
    if (sc == 4) e->b[e->len++] = 0;
    e->b[e->len++] = 0; e->b[e->len++] = 0; e->b[e->len++] = 1;
    r->hp = e->len;
    for (int i = 0; i < nhdr; i++) e->b[e->len++] = hdr[i];
    int zeros = 0;
    for (size_t i = 0; i < n; i++) {
        if (zeros >= 2 && w->b[i] <= 3) { e->b[e->len++] = 3; zeros = 0; }
        e->b[e->len++] = w->b[i];
        zeros = w->b[i] == 0 ? zeros + 1 : 0;
    }
    r->pend = e->len;
    for (int i = 0; i < tz; i++) e->b[e->len++] = 0;
    return r;
}

/* canonical spans (Annex B: zero_byte + start_code_prefix_one_3bytes open a byte stream NAL
 * unit, further zero octets before them are trailing_zero_8bits of the previous one) */
static void es_spans(struct es *e)
{
    for (int k = 0; k < e->nnal; k++) {
        size_t one = e->nal[k].hp - 1, z = 0;
        size_t floor = k ? e->nal[k - 1].hp + 1 : 0;
        while (one - z > floor && e->b[one - z - 1] == 0) z++;
        e->nal[k].start = one - (z > 3 ? 3 : z);
    }
    for (int k = 0; k < e->nnal; k++)
        e->nal[k].end = k + 1 < e->nnal ? e->nal[k + 1].start : e->len;
}

/* scans any octet string for start codes the way Annex B defines them (harness' own
 * scanner, used for corrupt input where no NAL table exists). Returns the number of start
 * codes; start[i] = canonical start (3 or 4 octets before the header), hdr[i] = header offset */
static int es_scan(const uint8_t *p, size_t n, size_t *start, size_t *hdr, int max)
{
    int c = 0;
    for (size_t i = 0; i + 3 < n + 1 && c < max; i++) {
        if (i + 2 < n && p[i] == 0 && p[i + 1] == 0 && p[i + 2] == 1) {
            start[c] = (i > 0 && p[i - 1] == 0) ? i - 1 : i;
            hdr[c] = i + 3;
            c++;
            i += 2;
        }
    }
    return c;
}

/* removes emulation prevention octets (7.4.1: 00 00 03 -> 00 00); returns the RBSP length written (at most max) */
static size_t es_unescape(const uint8_t *p, size_t n, uint8_t *out, size_t max)
{
    size_t l = 0; int zeros = 0;
    for (size_t i = 0; i < n && l < max; i++) {
        if (zeros >= 2 && p[i] == 3) { zeros = 0; continue; }
        out[l++] = p[i];
        zeros = p[i] == 0 ? zeros + 1 : 0;
    }
    return l;
}

/* ---- parameter sets out of band (global headers of the flow definition): reference writers and parsers,
 * from ITU-T H.264 / H.265 annex B and ISO/IEC 14496-15 5.3.3.1 (AVCDecoderConfigurationRecord) and 8.3.3.1
 * (HEVCDecoderConfigurationRecord); nothing here uses the stand-in bitstream headers ---- */
#define GH_MAX      20000
#define GH_MAXNAL   48
struct ghnal { int type; const uint8_t *p; size_t len; };
struct ghinfo {                 /* what a configuration record says besides the parameter sets */
    int version, length_size;
    uint8_t prof[12];           /* avcC: profile, compatibility, level; hvcC: the 12 general profile / tier / level octets */
    int chroma, depth_luma, depth_chroma, nlayers;
    bool reserved_ok;
};

static size_t gh_write_annexb(uint8_t *out, size_t cap, const struct ghnal *n, int nn, bool sc3)
{
    size_t l = 0;
    for (int k = 0; k < nn; k++) {
        if (l + 4 + n[k].len > cap) return 0;
        if (!sc3) out[l++] = 0;
        out[l++] = 0; out[l++] = 0; out[l++] = 1;
        memcpy(out + l, n[k].p, n[k].len); l += n[k].len;
    }
    return l;
}

/* avcC; sps / pps in the order given; ext: the four trailing octets that profiles 100, 110, 122, 144 carry */
static size_t gh_write_avcc(uint8_t *out, size_t cap, const struct ghnal *n, int nn, int length_size, bool ext, int chroma, int depth)
{
    size_t l = 0; int nsps = 0, npps = 0;
    const struct ghnal *first = NULL;
    for (int k = 0; k < nn; k++) { if (n[k].type == 7) { nsps++; if (!first) first = &n[k]; } else if (n[k].type == 8) npps++; }
    if (nsps > 31 || npps > 255 || cap < 16) return 0;
    out[l++] = 1;
    out[l++] = first && first->len > 1 ? first->p[1] : 0;
    out[l++] = first && first->len > 2 ? first->p[2] : 0;
    out[l++] = first && first->len > 3 ? first->p[3] : 0;
    out[l++] = 0xfc | (length_size - 1);
    out[l++] = 0xe0 | nsps;
    for (int k = 0; k < nn; k++) if (n[k].type == 7) {
        if (n[k].len > 0xffff || l + 2 + n[k].len + 8 > cap) return 0;
        out[l++] = n[k].len >> 8; out[l++] = n[k].len & 0xff; memcpy(out + l, n[k].p, n[k].len); l += n[k].len; }
    out[l++] = npps;
    for (int k = 0; k < nn; k++) if (n[k].type == 8) {
        if (n[k].len > 0xffff || l + 2 + n[k].len + 8 > cap) return 0;
        out[l++] = n[k].len >> 8; out[l++] = n[k].len & 0xff; memcpy(out + l, n[k].p, n[k].len); l += n[k].len; }
    if (ext) { out[l++] = 0xfc | (chroma & 3); out[l++] = 0xf8 | (depth & 7); out[l++] = 0xf8 | (depth & 7); out[l++] = 0; }
    return l;
}

static bool gh_parse_avcc(const uint8_t *h, size_t len, struct ghnal *n, int *nn, int max, struct ghinfo *inf)
{
    memset(inf, 0, sizeof(*inf)); *nn = 0;
    if (len < 7) return false;
    inf->version = h[0]; inf->prof[0] = h[1]; inf->prof[1] = h[2]; inf->prof[2] = h[3];
    inf->length_size = (h[4] & 3) + 1;
    inf->reserved_ok = (h[4] & 0xfc) == 0xfc && (h[5] & 0xe0) == 0xe0;
    size_t l = 6;
    for (int i = 0, c = h[5] & 0x1f; i < c; i++) {
        if (l + 2 > len) return false;
        size_t sz = (size_t)h[l] << 8 | h[l + 1]; l += 2;
        if (l + sz > len || *nn >= max) return false;
        n[*nn].type = 7; n[*nn].p = h + l; n[*nn].len = sz; (*nn)++; l += sz;
    }
    if (l + 1 > len) return false;
    int c = h[l++];
    for (int i = 0; i < c; i++) {
        if (l + 2 > len) return false;
        size_t sz = (size_t)h[l] << 8 | h[l + 1]; l += 2;
        if (l + sz > len || *nn >= max) return false;
        n[*nn].type = 8; n[*nn].p = h + l; n[*nn].len = sz; (*nn)++; l += sz;
    }
    return l == len || l + 4 <= len;    /* optionally followed by the high-profile fields */
}

/* hvcC: one array per NAL unit type present, in the order VPS, SPS, PPS */
static size_t gh_write_hvcc(uint8_t *out, size_t cap, const struct ghnal *n, int nn, int length_size, const uint8_t ptl[12],
                            int chroma, int depth, int nlayers)
{
    if (cap < 32) return 0;
    size_t l = 0;
    out[l++] = 1;
    memcpy(out + l, ptl, 12); l += 12;
    out[l++] = 0xf0; out[l++] = 0x00;           /* reserved '1111' + min_spatial_segmentation_idc */
    out[l++] = 0xfc;                            /* reserved + parallelismType */
    out[l++] = 0xfc | (chroma & 3);
    out[l++] = 0xf8 | (depth & 7);
    out[l++] = 0xf8 | (depth & 7);
    out[l++] = 0; out[l++] = 0;                 /* avgFrameRate */
    out[l++] = (0 << 6) | ((nlayers & 7) << 3) | (1 << 2) | (length_size - 1);
    size_t narr_at = l++; int narr = 0;
    static const int order[3] = { 32, 33, 34 };
    for (int a = 0; a < 3; a++) {
        int c = 0;
        for (int k = 0; k < nn; k++) if (n[k].type == order[a]) c++;
        if (!c) continue;
        if (l + 3 > cap) return 0;
        out[l++] = 0x80 | order[a]; out[l++] = c >> 8; out[l++] = c & 0xff;
        for (int k = 0; k < nn; k++) if (n[k].type == order[a]) {
            if (n[k].len > 0xffff || l + 2 + n[k].len > cap) return 0;
            out[l++] = n[k].len >> 8; out[l++] = n[k].len & 0xff; memcpy(out + l, n[k].p, n[k].len); l += n[k].len; }
        narr++;
    }
    out[narr_at] = narr;
    return l;
}

static bool gh_parse_hvcc(const uint8_t *h, size_t len, struct ghnal *n, int *nn, int max, struct ghinfo *inf)
{
    memset(inf, 0, sizeof(*inf)); *nn = 0;
    if (len < 23) return false;
    inf->version = h[0];
    memcpy(inf->prof, h + 1, 12);
    inf->reserved_ok = (h[13] & 0xf0) == 0xf0 && (h[15] & 0xfc) == 0xfc && (h[16] & 0xfc) == 0xfc && (h[17] & 0xf8) == 0xf8 && (h[18] & 0xf8) == 0xf8;
    inf->chroma = h[16] & 3; inf->depth_luma = h[17] & 7; inf->depth_chroma = h[18] & 7;
    inf->nlayers = (h[21] >> 3) & 7; inf->length_size = (h[21] & 3) + 1;
    size_t l = 23;
    for (int a = 0, na = h[22]; a < na; a++) {
        if (l + 3 > len) return false;
        int type = h[l] & 0x3f, c = h[l + 1] << 8 | h[l + 2]; l += 3;
        for (int i = 0; i < c; i++) {
            if (l + 2 > len) return false;
            size_t sz = (size_t)h[l] << 8 | h[l + 1]; l += 2;
            if (l + sz > len || *nn >= max) return false;
            n[*nn].type = type; n[*nn].p = h + l; n[*nn].len = sz; (*nn)++; l += sz;
        }
    }
    return l == len;
}

/* Annex B global headers: every NAL unit behind a start code, from the first octet on */
static bool gh_parse_annexb(const uint8_t *h, size_t len, bool h265, struct ghnal *n, int *nn, int max)
{
    static size_t st[GH_MAXNAL + 1], hd[GH_MAXNAL + 1];
    *nn = 0;
    int c = es_scan(h, len, st, hd, GH_MAXNAL + 1);
    if (c == 0 || c > max || st[0] != 0) return false;
    for (int k = 0; k < c; k++) {
        size_t e = k + 1 < c ? st[k + 1] : len;
        if (hd[k] >= e) return false;
        n[k].type = h265 ? (h[hd[k]] >> 1) & 0x3f : h[hd[k]] & 0x1f;
        n[k].p = h + hd[k]; n[k].len = e - hd[k];
    }
    *nn = c;
    return true;
}

#endif

/* C17 reference encoder side (independent of upipe and of the stand-in bitstream headers):
 * MSB-first bit writer, exp-Golomb codes (H.264 9.1 / H.265 9.2), emulation prevention
 * (H.264 7.4.1 / H.265 7.4.2), Annex B byte stream assembly, and the table of NAL units
 * and access units of the generated stream. */
#ifndef C17_ENC_H_
#define C17_ENC_H_

#include <stdint.h>
#include <stddef.h>
#include <stdbool.h>
#include <string.h>

#define ES_MAX      24000
#define ES_MAXNAL   160
#define ES_MAXAU    24

/* ---- RBSP bit writer ---- */
struct rb { uint8_t b[1024]; size_t bits; };
static void rb_init(struct rb *w) { memset(w, 0, sizeof(*w)); }
static void rb_u(struct rb *w, int n, uint32_t v)
{
    for (int i = n - 1; i >= 0; i--) {
        if (w->bits / 8 >= sizeof(w->b) - 1) return;
        if ((v >> i) & 1) w->b[w->bits / 8] |= 0x80 >> (w->bits % 8);
        w->bits++;
    }
}
static void rb_ue(struct rb *w, uint32_t code)
{
    uint64_t x = (uint64_t)code + 1;
    int k = 0;
    while ((x >> (k + 1)) != 0) k++;
    rb_u(w, k, 0);
    rb_u(w, 1, 1);
    if (k) rb_u(w, k, (uint32_t)(x & ((1ull << k) - 1)));
}
static void rb_se(struct rb *w, int32_t v)
{
    rb_ue(w, v > 0 ? 2u * (uint32_t)v - 1 : 2u * (uint32_t)(-(int64_t)v));
}
static void rb_trailing(struct rb *w)
{
    rb_u(w, 1, 1);
    while (w->bits % 8) rb_u(w, 1, 0);
}

/* ---- NAL and access unit tables ---- */
struct pic {            /* the syntax elements that decide access unit boundaries */
    /* H.264 */
    bool idr; int ref_idc; int pps_id; uint32_t frame_num; bool field, bottom;
    uint32_t idr_pic_id; int poc_type; uint32_t poc_lsb; int32_t dpb, dp0, dp1;
    /* H.265 */
    bool first_slice;
    int slice_type;
};

struct nalrec {
    int type;               /* nal_unit_type */
    size_t hp;              /* offset of the first NAL header octet */
    size_t pend;            /* end of the NAL unit proper (before trailing zero octets) */
    size_t start, end;      /* canonical span: zero_byte? + start code prefix + NAL + trailing zeros */
    bool vcl;
    int id, ref_id;         /* parameter sets: own id, referenced id */
    struct pic pic;         /* slices */
};

struct aurec {
    int nal0, nal1;         /* NAL units [nal0, nal1) */
    size_t start, end;
    bool has_vcl, key, has_aud, has_ps;  /* has_ps: contains an SPS (H.264) / a VPS (H.265) */
};

struct es {
    uint8_t b[ES_MAX + 64];
    size_t len;
    struct nalrec nal[ES_MAXNAL];
    int nnal;
    struct aurec au[ES_MAXAU];
    int nau;
    bool overflow;
};

/* appends one NAL unit: sc = 3 or 4 start code octets, hdr/nhdr = NAL header, the RBSP with
 * emulation prevention, tz trailing zero octets */
static struct nalrec *es_nal(struct es *e, int type, int sc, const uint8_t *hdr, int nhdr,
                             const struct rb *w, int tz)
{
    size_t n = w->bits / 8;
    if (e->nnal >= ES_MAXNAL || e->len + 4 + nhdr + n * 3 / 2 + tz + 8 > ES_MAX) { e->overflow = true; return NULL; }
    struct nalrec *r = &e->nal[e->nnal++];
    memset(r, 0, sizeof(*r));
    r->type = type;
    if (sc == 4) e->b[e->len++] = 0;
    e->b[e->len++] = 0; e->b[e->len++] = 0; e->b[e->len++] = 1;
    r->hp = e->len;
    for (int i = 0; i < nhdr; i++) e->b[e->len++] = hdr[i];
    int zeros = 0;
    for (size_t i = 0; i < n; i++) {
        if (zeros >= 2 && w->b[i] <= 3) { e->b[e->len++] = 3; zeros = 0; }
        e->b[e->len++] = w->b[i];
        zeros = w->b[i] == 0 ? zeros + 1 : 0;
    }
    r->pend = e->len;
    for (int i = 0; i < tz; i++) e->b[e->len++] = 0;
    return r;
}

/* canonical spans (Annex B: zero_byte + start_code_prefix_one_3bytes open a byte stream NAL
 * unit, further zero octets before them are trailing_zero_8bits of the previous one) */
static void es_spans(struct es *e)
{
    for (int k = 0; k < e->nnal; k++) {
        size_t one = e->nal[k].hp - 1, z = 0;
        size_t floor = k ? e->nal[k - 1].hp + 1 : 0;
        while (one - z > floor && e->b[one - z - 1] == 0) z++;
        e->nal[k].start = one - (z > 3 ? 3 : z);
    }
    for (int k = 0; k < e->nnal; k++)
        e->nal[k].end = k + 1 < e->nnal ? e->nal[k + 1].start : e->len;
}

/* scans any octet string for start codes the way Annex B defines them (harness' own
 * scanner, used for corrupt input where no NAL table exists). Returns the number of start
 * codes; start[i] = canonical start (3 or 4 octets before the header), hdr[i] = header offset */
static int es_scan(const uint8_t *p, size_t n, size_t *start, size_t *hdr, int max)
{
    int c = 0;
    for (size_t i = 0; i + 3 < n + 1 && c < max; i++) {
        if (i + 2 < n && p[i] == 0 && p[i + 1] == 0 && p[i + 2] == 1) {
            start[c] = (i > 0 && p[i - 1] == 0) ? i - 1 : i;
            hdr[c] = i + 3;
            c++;
            i += 2;
        }
    }
    return c;
}

#endif

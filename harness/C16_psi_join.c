/* C16 (join) — the section joiner forwards every section of every input: the multiset of
 * outputs equals the union of the inputs and the order of each input is kept.
 * Inputs (sub-pipes) are added and removed between sections, the output may be changed.
 * Sections are valid; octet 0 (table_id) carries the number of the input, the body carries a
 * per-input sequence number, so every delivered block identifies its origin.
 */
#include "C16_fixture.h"
#include "upipe-ts/upipe_ts_psi_join.h"
#include "upipe-ts/uref_ts_flow.h"

#define MAXLIVE 4
#define MAXIN   28
#define MAXOPS  32
#define MAXSENT 40
#define MAXLEN  4096

enum { CL_TWO_INPUTS, CL_INTERLEAVED, CL_ADD_BETWEEN, CL_REMOVE_BETWEEN, CL_SWITCH_OUTPUT, CL_BIG, CL_SEG,
       CL_REFLOW, CL_HOLD, CL_PARENT_FIRST, CL_FOUR_INPUTS, CL_FAULT, CL_TO_REFUSING, CL_AFTER_REFUSING };
static const char *const class_names[] = {
    "two_inputs_delivered", "inputs_interleaved", "input_added_between_sections", "input_removed_between_sections",
    "output_changed_between_sections", "section_ge_1024", "segmented_section", "input_flow_def_set_again",
    "sink_holds_outputs", "join_released_before_inputs", "four_inputs_live", "allocation_refused_inside_set_flow_def",
    "section_while_the_output_refuses_the_flow_def", "section_after_a_refusing_output_was_replaced", NULL };

struct sent { uint8_t *b; int len; };
struct in {
    bool live, used;
    struct upipe *sub;
    struct c16_probe probe;
    struct sent sent[MAXSENT]; int nsent;
};

struct ctx {
    struct tape t; struct vp_report *rep; bool render; int ret;
    struct fix_mem fm;
    struct in in[MAXIN]; int nin, nlive;
    struct c16_probe probe;
    struct c16_sink sink[2]; int cursink; bool rejecting, refused_some, was_refusing;
    struct upipe *join;
    uint32_t classes; uint64_t hash;
    unsigned seq;
    int ntotal, last_input; bool interleaved; int switches_back;
};

#define R(...) do { if (c->render) vp_render(c->rep, __VA_ARGS__); } while (0)
/* Compiled three times: for C16 (routing of sections), with -DC16_AS=4 for C04 (announcements and flow definition of the
 * pipe and its sub-pipes: only keys "C04/...") and with -DC16_AS=1 for C01 (destroyed exactly once, nothing left: "C01/..."). */
#ifndef C16_AS
#define C16_AS 16
#endif
#if C16_AS == 4
#define EXEC_PID "C04"
#define KEY_ON(key) (!strncmp(key, "C04/", 4))
#elif C16_AS == 1
#define EXEC_PID "C01"
#define KEY_ON(key) (!strncmp(key, "C01/", 4))
#else
#define EXEC_PID "C16"
#define KEY_ON(key) (!strncmp(key, "C16/", 4))
#endif
#define FAIL(key, ...) do { if (!c->ret && KEY_ON(key)) c->ret = vp_fail(c->rep, key, __VA_ARGS__); } while (0)
/* protocol facts recorded by a probe of the fixture */
#define PROTO(pr, what, idx) do { \
    if ((pr).first_nonlog_not_ready) FAIL("C04/ready/first", "%s %d threw another event before READY", what, idx); \
    if ((pr).n_dead > 1) FAIL("C04/dead/count", "%s %d threw DEAD %u times", what, idx, (pr).n_dead); \
    if ((pr).n_after_dead) FAIL("C04/dead/last", "%s %d threw %u event(s) after DEAD (first: event %d)", what, idx, (pr).n_after_dead, (pr).first_after_dead); \
} while (0)
#define CLS(x) (c->classes |= 1u << (x))

static struct uref *input_flow_def(struct ctx *c, uint8_t a)
{
    struct uref *f = uref_block_flow_alloc_def(c->fm.uref_mgr, "mpegtspsi.");
    if (!f) return NULL;
    static const uint64_t rates[4] = { 0, 1, 1500, 125000 };
    static const uint64_t ivals[4] = { 0, 27000000, 2700000, 13500000 };
    static const uint64_t lats[4] = { 0, 1, 27000, 2700000 };
    if (rates[a & 3]) uref_block_flow_set_octetrate(f, rates[a & 3]);
    if (ivals[(a >> 2) & 3]) uref_ts_flow_set_psi_section_interval(f, ivals[(a >> 2) & 3]);
    if (lats[(a >> 4) & 3]) uref_clock_set_latency(f, lats[(a >> 4) & 3]);
    return f;
}

static void add_input(struct ctx *c)
{
    if (c->nin >= MAXIN || c->nlive >= MAXLIVE) return;
    struct in *n = &c->in[c->nin];
    memset(n, 0, sizeof(*n));
    uint8_t a = tp_u8(&c->t);
    n->used = true;
    n->sub = upipe_void_alloc_sub(c->join, c16_probe_init(&n->probe, "in", c->nin, c->rep, c->render));
    if (!n->sub) { FAIL("C16/join/alloc-input", "allocation of input %d refused", c->nin); c->nin++; return; }
    struct uref *f = input_flow_def(c, a);
    if (!f) { c->ret = vp_internal(c->rep, "flow def"); upipe_release(n->sub); n->sub = NULL; c->nin++; return; }
    if (!ubase_check(upipe_set_flow_def(n->sub, f))) FAIL("C16/join/flow-def", "input %d refused block.mpegtspsi.", c->nin);
    uref_free(f);
    n->live = true;
    R("  add input %d (flow attributes %02x)\n", c->nin, a);
    c->hash = vp_hash_mix(c->hash, 0x1000000 | a);
    if (c->ntotal) CLS(CL_ADD_BETWEEN);
    c->nin++; c->nlive++;
    if (c->nlive == 4) CLS(CL_FOUR_INPUTS);
}

static int pick_live(struct ctx *c)
{
    if (!c->nlive) return -1;
    int k = tp_u8(&c->t) % c->nlive;
    for (int i = 0; i < c->nin; i++) if (c->in[i].live && k-- == 0) return i;
    return -1;
}

static void remove_input(struct ctx *c)
{
    int idx = pick_live(c);
    if (idx < 0) return;
    R("  remove input %d\n", idx);
    upipe_release(c->in[idx].sub);
    c->in[idx].sub = NULL; c->in[idx].live = false; c->nlive--;
    c->hash = vp_hash_mix(c->hash, 0x2000000 | idx);
    if (c->ntotal) CLS(CL_REMOVE_BETWEEN);
}

static void send_section(struct ctx *c)
{
    int idx = pick_live(c);
    if (idx < 0) return;
    struct in *n = &c->in[idx];
    if (n->nsent >= MAXSENT) return;
    uint8_t a = tp_u8(&c->t);
    static const int lens[16] = { 3, 12, 4, 16, 8, 13, 64, 183, 184, 185, 1024, 4096, 5, 300, 32, 20 };
    int len = lens[a & 15];
    uint8_t *sec = malloc(len);
    sec[0] = (uint8_t)idx;
    bool syntax = (a & 0x10) && len >= 12;
    sec[1] = (uint8_t)((syntax ? 0x80 : 0) | 0x30 | (((len - 3) >> 8) & 0x0f));
    sec[2] = (len - 3) & 0xff;
    for (int i = 3; i < len; i++) sec[i] = i == 3 ? (uint8_t)n->nsent : (uint8_t)(idx * 41 + n->nsent * 7 + i * 3 + (i >> 8));
    /* while the output is a pipe that refuses the flow definition the sections are dropped (and must not reach it); once the
     * application has replaced it, every section is forwarded again */
    bool to_refusing = c->rejecting && c->cursink == 1;
    if (!to_refusing) { n->sent[n->nsent].b = sec; n->sent[n->nsent].len = len; n->nsent++; }
    else { CLS(CL_TO_REFUSING); c->refused_some = true; }
    if (len >= 1024) CLS(CL_BIG);
    struct ubuf *u;
    size_t cuts[2]; int ncuts = 0;
    if ((a >> 5) == 7 && len > 2) {
        cuts[ncuts++] = 1 + (a & 1); if (len > 9) cuts[ncuts++] = len - 1;
        u = c16_block_pieces(c->fm.block_mgr, sec, len, cuts, ncuts, NULL);
        CLS(CL_SEG);
    } else if ((a >> 5) == 6) u = c16_block_window(c->fm.block_mgr, sec, len, 4, 0);
    else u = c16_block_from(c->fm.block_mgr, sec, len);
    struct uref *uref = c16_uref_with(c->fm.uref_mgr, u);
    if (!uref) { c->ret = vp_internal(c->rep, "cannot build a section"); return; }
    c->hash = vp_hash_mix(c->hash, 0x3000000 | (idx << 16) | len);
    if (c->last_input >= 0 && c->last_input != idx) { c->switches_back++; if (c->switches_back >= 2) { c->interleaved = true; CLS(CL_INTERLEAVED); } }
    c->last_input = idx;
    int before = c->sink[0].nrec + c->sink[1].nrec;
    upipe_input(n->sub, uref, NULL);
    R("  section on input %d: #%d, %d octets%s -> %d block(s) at the sinks\n", idx, n->nsent - 1, len, to_refusing ? " (the output refuses the flow definition)" : "", c->sink[0].nrec + c->sink[1].nrec - before);
    c->ntotal++;
    if (to_refusing) free(sec);
    else if (c->was_refusing) CLS(CL_AFTER_REFUSING);
}

static int cmp_rec(const void *a, const void *b)
{
    const struct c16_rec *x = *(const struct c16_rec *const *)a, *y = *(const struct c16_rec *const *)b;
    return x->seq < y->seq ? -1 : x->seq > y->seq;
}

static int run(const uint8_t *tape, size_t len, struct vp_report *rep, unsigned flags)
{
    static struct ctx ctx;
    struct ctx *c = &ctx;
    memset(c, 0, sizeof(*c));
    tp_init(&c->t, tape, len);
    c->rep = rep; c->render = flags & VP_RENDER; c->hash = VP_HASH_INIT;
    c->last_input = -1;

    uint8_t b0 = tp_u8(&c->t);
    int ninit = 1 + b0 % 4;
    bool hold = (b0 >> 4) & 1;
    bool parent_first = (b0 >> 5) & 1;
    int mgrcfg = (b0 >> 6) & 3;
    static const int depth[4] = { 0, 0, 2, 8 };
    /* configuration 1: dictionaries without spare room, so that every attribute the joiner adds to its flow definition allocates */
    if (fix_mem_init_udict(&c->fm, depth[mgrcfg], 0, 0, 0, 0, mgrcfg == 1 ? 1 : -1, mgrcfg == 1 ? 0 : -1) != 0) return vp_internal(rep, "fix_mem_init");
    c->hash = vp_hash_mix(c->hash, b0);
    if (hold) CLS(CL_HOLD);
    R("C16/join initial inputs=%d hold=%d join-released-first=%d mgr=%d\n", ninit, hold, parent_first, mgrcfg);

    c16_sink_init(&c->sink[0], 0, hold, &c->seq);
    c16_sink_init(&c->sink[1], 1, hold, &c->seq);
    c->rejecting = ((b0 * 167u) >> 3) % 4 == 2;
    c->sink[1].reject_flow_def = c->rejecting;
    struct uref *flow_def = uref_block_flow_alloc_def(c->fm.uref_mgr, "mpegtspsi.");
    c->join = flow_def ? upipe_flow_alloc(upipe_ts_psi_join_mgr_alloc(), c16_probe_init(&c->probe, "join", 0, rep, c->render), flow_def) : NULL;
    if (flow_def) uref_free(flow_def);
    if (!c->join) { c->ret = vp_internal(rep, "cannot allocate the pipe"); goto out; }
    if (!ubase_check(upipe_set_output(c->join, &c->sink[0].upipe))) FAIL("C16/join/set-output", "set_output refused");

    for (int i = 0; i < ninit && !c->ret; i++) add_input(c);
    int maxops = (flags & VP_THOROUGH) ? MAXOPS : 20;
    int nops = 1 + tp_u8(&c->t) % maxops;
    for (int k = 0; k < nops && !c->ret; k++) {
        uint8_t op = tp_u8(&c->t);
        switch (op % 16) {
        case 12: case 13: if (c->nlive < MAXLIVE) { add_input(c); break; } send_section(c); break;
        case 14: if (c->nlive > 1) { remove_input(c); break; } add_input(c); break;
        case 15:
            if (op & 0x10) {
                if (c->rejecting && c->cursink == 1 && c->refused_some) c->was_refusing = true;
                c->cursink ^= 1;
                R("  set_output(sink %d)\n", c->cursink);
                if (!ubase_check(upipe_set_output(c->join, &c->sink[c->cursink].upipe))) FAIL("C16/join/set-output", "set_output refused");
                if (c->ntotal) CLS(CL_SWITCH_OUTPUT);
                c->hash = vp_hash_mix(c->hash, 0x4000000);
            } else {
                int idx = pick_live(c);
                if (idx >= 0) {
                    uint8_t a = tp_u8(&c->t);
                    struct uref *f = input_flow_def(c, a);
                    R("  input %d: set_flow_def again (flow attributes %02x)\n", idx, a);
#ifdef VP_FAULTMALLOC_H
                    /* allocation fault injection (engine/faultmalloc.h): the 1st or 2nd allocation inside the call is refused. The call
                     * may fail; the joiner goes on forwarding every section of every input (judged by the following operations) */
                    bool fault = (op & 0x20) != 0;
                    if (fault) vp_fault_arm(1 + ((op >> 6) & 1));
                    int fe = f ? upipe_set_flow_def(c->in[idx].sub, f) : UBASE_ERR_NONE;
                    bool refused = fault && vp_fault_disarm() > 0;
                    if (refused) { R("    (an allocation inside the call was refused: -> %d)\n", fe); CLS(CL_FAULT); c->hash = vp_hash_mix(c->hash, 0xfa); }
                    if (f && !ubase_check(fe) && !refused) FAIL("C16/join/flow-def", "input %d refused block.mpegtspsi.", idx);
#else
                    if (f && !ubase_check(upipe_set_flow_def(c->in[idx].sub, f))) FAIL("C16/join/flow-def", "input %d refused block.mpegtspsi.", idx);
#endif
                    if (f) uref_free(f);
                    CLS(CL_REFLOW);
                    c->hash = vp_hash_mix(c->hash, 0x5000000 | a);
                }
            }
            break;
        default: send_section(c); break;
        }
    }

    /* ---- oracle: union of the sinks in arrival order ---- */
    if (!c->ret) {
        int tot = c->sink[0].nrec + c->sink[1].nrec, k = 0;
        struct c16_rec **all = malloc((tot + 1) * sizeof(*all));
        for (int s = 0; s < 2; s++) for (int i = 0; i < c->sink[s].nrec; i++) all[k++] = &c->sink[s].rec[i];
        qsort(all, tot, sizeof(*all), cmp_rec);
        if (c->sink[0].broken || c->sink[1].broken) FAIL("C16/join/output-unreadable", "a delivered block announces a size that cannot be read");
        int pos[MAXIN]; memset(pos, 0, sizeof pos);
        int ndelivering = 0;
        for (int i = 0; i < tot && !c->ret; i++) {
            struct c16_rec *r = all[i];
            int idx = r->len ? r->data[0] : -1;
            if (idx < 0 || idx >= c->nin || !c->in[idx].used) { FAIL("C16/join/invented", "delivered block %d (%zu octets) comes from no input", i, r->len); break; }
            struct in *n = &c->in[idx];
            if (pos[idx] >= n->nsent) { FAIL("C16/join/duplicate", "input %d sent %d sections, block %d is one more from it", idx, n->nsent, i); break; }
            struct sent *s = &n->sent[pos[idx]];
            if (r->len != (size_t)s->len || memcmp(r->data, s->b, s->len)) {
                bool later = false;
                for (int q = pos[idx] + 1; q < n->nsent; q++) if (r->len == (size_t)n->sent[q].len && !memcmp(r->data, n->sent[q].b, r->len)) later = true;
                if (later) FAIL("C16/join/lost-or-reordered", "input %d: section #%d was skipped or overtaken (delivered block %d is a later section of that input)", idx, pos[idx], i);
                else FAIL("C16/join/content", "input %d: delivered block %d differs from section #%d (%zu octets vs %d)", idx, i, pos[idx], r->len, s->len);
                break;
            }
            pos[idx]++;
        }
        for (int i = 0; i < c->nin && !c->ret; i++) {
            if (c->in[i].nsent) ndelivering++;
            if (pos[i] < c->in[i].nsent) FAIL("C16/join/lost", "input %d sent %d sections, %d were delivered", i, c->in[i].nsent, pos[i]);
        }
        if (ndelivering >= 2) CLS(CL_TWO_INPUTS);
        free(all);
        if (!c->ret && hold)
            for (int s = 0; s < 2 && !c->ret; s++) {
                int bad = c16_sink_verify_held(&c->sink[s]);
                if (bad >= 0) FAIL("C16/join/mutated-after-output", "block %d handed to sink %d was changed afterwards", bad, s);
            }
    }
out:
    if (parent_first && c->join) { R("  release join\n"); upipe_release(c->join); c->join = NULL; CLS(CL_PARENT_FIRST); }
    for (int i = 0; i < c->nin; i++) if (c->in[i].live) { upipe_release(c->in[i].sub); c->in[i].live = false; }
    if (c->join) upipe_release(c->join);
    for (int i = 0; i < c->nin; i++)
        if (!c->ret && c->in[i].used && c->in[i].probe.n_ready && c->in[i].probe.n_dead != 1)
            FAIL("C01/audit/join", "input %d was released but threw dead %u times", i, c->in[i].probe.n_dead);
    if (!c->ret && c->probe.n_ready && c->probe.n_dead != 1)
        FAIL("C01/audit/join", "every reference was released but the joiner threw dead %u times", c->probe.n_dead);
    for (int i = 0; i < c->nin; i++) if (c->in[i].used) PROTO(c->in[i].probe, "input sub-pipe", i);
    PROTO(c->probe, "the joiner", 0);
    for (int k = 0; k < 2; k++) {
        /* the joiner has one output, replaced by set_output: each newly connected sink gets the definition before data */
        if (c->sink[k].data_before_flow_def) FAIL("C04/flowdef/missing", "sink %d received a buffer before any flow definition", k);
        if (c->sink[k].data_while_rejected) FAIL("C16/join/delivered-to-refusing-output", "sink %d received a section although it had refused the flow definition", k);
    }
    c16_sink_clean(&c->sink[0]);
    c16_sink_clean(&c->sink[1]);
    for (int i = 0; i < c->nin; i++) for (int k = 0; k < c->in[i].nsent; k++) free(c->in[i].sent[k].b);
    const char *leak = fix_mem_clean(&c->fm);
    if (leak) FAIL("C01/audit/join", "%s", leak);

    rep->case_hash = c->hash;
    rep->classes = c->classes;
    rep->nontrivial = c->interleaved;
    return c->ret;
}

const struct vp_executor vp_executor = { EXEC_PID, "join", 96, class_names, run, NULL };

/* Table-driven pipe-level executor for C01 (lifecycle), C04 (protocol) and C05 (accounting) over the
 * pipe types of lib/upipe-modules that pipes_core.c does not cover.  Only GENERIC oracles are used:
 * nothing here models what a pipe computes.  Compiled once per property with -DPIPES_PROP=1|4|5.
 *
 * Topology of a case: [head ->] MAIN(+ up to 3 sub-pipes) [-> tail]; every output ends in a "tap"
 * (a harness pipe that checks the C04 rules at the very moment a buffer or a definition passes and
 * forwards to a recording sink of the shared fixture). */
#include "vp.h"
#include "tape.h"
#include "pipefix.h"
#include "upipe/uref_clock.h"
#include "upipe/uref_block_flow.h"
#include "upipe/uref_pic.h"
#include "upipe/uref_pic_flow.h"
#include "upipe/uref_sound.h"
#include "upipe/uref_sound_flow.h"
#include "upipe/uref_void_flow.h"
#include "upipe/ubuf_pic.h"
#include "upipe/ubuf_sound.h"
#include "upipe/ubuf_mem.h"
#include "upipe/udict.h"
#include "upipe/uprobe_uref_mgr.h"
#include "upipe/upipe_helper_upipe.h"
#include "upipe/upipe_helper_urefcount.h"
#include "upipe/upipe_helper_void.h"
#include "upipe/upipe_helper_output.h"
#include "upipe/upipe_helper_upump_mgr.h"
#include "upipe/upipe_helper_upump.h"
#include "upipe/uprobe_source_mgr.h"
#include "upipe-modules/upipe_noclock.h"
#include "upipe-modules/upipe_nodemux.h"
#include "upipe-modules/upipe_multicat_probe.h"
#include "upipe-modules/upipe_dump.h"
#include "upipe-modules/upipe_rtp_h264.h"
#include "upipe-modules/upipe_rtp_mpeg4.h"
#include "upipe-modules/upipe_burst.h"
#include "upipe-modules/upipe_dejitter.h"
#include "upipe-modules/upipe_play.h"
#include "upipe-modules/upipe_block_to_sound.h"
#include "upipe-modules/upipe_ntsc_prepend.h"
#include "upipe-modules/upipe_crop.h"
#include "upipe-modules/upipe_separate_fields.h"
#include "upipe-modules/upipe_row_split.h"
#include "upipe-modules/upipe_row_join.h"
#include "upipe-modules/upipe_video_blank.h"
#include "upipe-modules/upipe_audio_blank.h"
#include "upipe-modules/upipe_videocont.h"
#include "upipe-modules/upipe_audiocont.h"
#include "upipe-modules/upipe_subpic_schedule.h"
#include "upipe-modules/upipe_blit.h"
#include "upipe-modules/upipe_sync.h"
#include "upipe-modules/upipe_audio_split.h"
#include "upipe-modules/upipe_audio_merge.h"
#include "upipe-modules/upipe_void_source.h"
#include "upipe-modules/upipe_blank_source.h"
#include "upipe-modules/upipe_sine_wave_source.h"
#include "upipe-modules/upipe_grid.h"
#include "upipe-modules/upipe_rtp_prepend.h"
#include "upipe-modules/upipe_rtp_decaps.h"
#include "upipe-modules/upipe_rtcp.h"
#include "upipe-modules/upipe_rtp_reorder.h"
#include "upipe-modules/upipe_id3v2_decaps.h"
#include "upipe-modules/upipe_id3v2_encaps.h"
#include "upipe-modules/upipe_id3v2.h"
#include "upipe-modules/upipe_rtp_pcm_pack.h"
#include "upipe-modules/upipe_rtp_pcm_unpack.h"
#include "upipe-modules/upipe_stream_switcher.h"
#include "upipe-modules/upipe_auto_inner.h"
#include "upipe-modules/upipe_rtp_demux.h"
#include "upipe-modules/upipe_vanc_decoder.h"
#include "upipe-modules/upipe_dtsdi.h"
#include "upipe-modules/upipe_s337_encaps.h"
#include "upipe-modules/upipe_graph.h"
#include "upipe-modules/uref_graph.h"
#include "upipe-modules/uref_graph_flow.h"
#include "upipe-modules/upipe_auto_source.h"
#include "upipe-modules/upipe_sequential_source.h"
#include "upipe-modules/upipe_segment_source.h"
#include <stdlib.h>
#include <stdio.h>

#ifndef PIPES_PROP
#define PIPES_PROP 5
#endif
#if PIPES_PROP == 1
#define PID "C01"
#elif PIPES_PROP == 4
#define PID "C04"
#else
#define PID "C05"
#endif
#define ORACLE_LIFE  (PIPES_PROP == 1)
#define ORACLE_PROTO (PIPES_PROP == 4)
#define ORACLE_DATA  (PIPES_PROP == 5)

#define MAXOPS 40
#define NNODE 6            /* 0 head, 1 main, 2..4 sub-pipes of main, 5 tail */
#define N_HEAD 0
#define N_MAIN 1
#define N_SUB0 2
#define N_TAIL 5
#define NSUB 3
#define NTAP 5             /* 0 = A, 1 = B, 2..4 = own taps of the sub-pipes */
#define MAXSEQ 96
#define TICK ((uint64_t)UCLOCK_FREQ / 25)

enum kind { K_BLOCK = 0, K_PIC, K_SOUND, K_VOID, K_ANY, K_NONE };
static const char *const kind_names[] = { "block", "pic", "sound", "void", "any", "none" };

/* flags of a node specification */
#define F_ONE2ONE   0x0001   /* documented one output per input, synchronously, same order (strict C05 check) */
#define F_MULTI     0x0002   /* one input may legitimately come out several times (split in NALs / fields / rows, repeated pictures, one copy per output) */
#define F_HOLD      0x0004   /* may keep buffers */
#define F_PUMP      0x0008   /* works from the event loop */
#define F_UCLOCK    0x0010   /* the application must attach a clock before use (as the unit tests do) */
#define F_SELFHOLD  0x0020   /* keeps a reference on itself while it holds input (upipe_helper_input convention) */
#define F_ATTRMIX   0x0040   /* documented to import attributes of one input into another (sequence numbers travel) */
#define F_ORDER     0x0080   /* order preserving */
#define F_SOURCE    0x0100   /* produces buffers of its own */
#define F_NOSEQ     0x0200   /* output buffers are new urefs (no sequence number) */
#define F_PTSMATCH  0x0800   /* the pipe picks the buffers of its inputs by date against a reference flow */
#define F_PICSIZE   0x0400   /* pictures leave with the size the output definition announces (whole pictures, not chunks) */

struct ctx;
struct node;
struct inspec { uint64_t seq; uint8_t sz; uint8_t fl; };

struct nspec {
    const char *name;
    /* allocation: NULL = upipe_void_alloc / upipe_void_alloc_sub. variant 0 is valid; others per type (may legitimately return NULL) */
    struct upipe *(*alloc)(struct ctx *, struct node *, struct uprobe *, int variant, bool *must_fail);
    bool has_in, has_out, getfd;
    int in_kind;
    unsigned flags;
    struct uref *(*mk_def)(struct ctx *, struct node *, int v);           /* NULL: generic by kind */
    struct uref *(*mk_in)(struct ctx *, struct node *, struct inspec *);   /* NULL: generic by kind */
    void (*ctl)(struct ctx *, struct node *, uint8_t sel, char *what, size_t wlen);
    int min_size;                                                          /* F_ONE2ONE holds for block payloads of at least this size */
    unsigned kinds;                                                        /* K_ANY: bit set of the kinds to choose from (0 = all four) */
};

struct wtype {
    struct upipe_mgr *(*mgr)(void);
    struct nspec main;
    int nsub;
    struct nspec sub[2];
};

enum { CL_SWAP_AFTER_DATA, CL_RELEASE_MID, CL_SUBCHURN, CL_REJECT, CL_FLOWDEF_CHANGE, CL_DELIVERED, CL_DELIVERED8, CL_HELD, CL_LOOP, CL_CHAIN,
       CL_CTL, CL_ALLOC_REFUSED, CL_POOL, CL_SUBDATA, CL_EXCLUDED, CL_NCLASSES };
static const char *const class_names_gen[] = {
    "output_replaced_after_data", "release_in_mid_history", "subpipe_churn", "sink_rejected_flow_def", "flow_def_changed_after_data",
    "delivered_ge_1", "delivered_ge_8", "buffers_held_across_ops", "loop_dispatched_pump", "chain_of_2", "own_control_command",
    "alloc_with_invalid_argument_refused", "pool_depth_gt0", "subpipe_carried_data", "exclusion_applied", NULL };

struct node {
    bool used;
    int idx;
    int type;               /* index in the table */
    int sk;                 /* -1 main, else sub kind */
    const struct nspec *sp;
    struct upipe *upipe;
    int probe;
    bool held;
    bool def_unconfirmed;   /* the current definition reached the pipe through the head pipe only */
    bool gone;              /* seen dead */
    int kind;               /* resolved input kind */
    int fmt;                /* picture / sound format of the input */
    bool has_def; int defv;
    int w, h;               /* picture size of the accepted definition */
    int out;                /* -1 none, 0..NTAP-1 tap, 100+n node n */
    bool fed;
    uint64_t pts;
    int vpos;               /* row_join: next chunk position */
    int subv;               /* allocation variant */
    int name;               /* flow name index (cont pipes) */
    unsigned nin;           /* inputs given */
};

struct tap {
    struct upipe upipe;
    struct urefcount urefcount;
    struct ctx *c;
    int id;
    struct upipe *sink; int sinkid;
    int from;               /* node index feeding it, -1 none */
    int state;              /* since connected: 0 nothing, 1 accepted, 2 rejected */
    bool live;
    unsigned inputs;
};

#define MAXLIVE 2048
struct ctx {
    struct tape t;
    struct vp_report *rep;
    bool render;
    unsigned flags;
    struct pfx pfx;
    struct node n[NNODE];
    struct tap *tap[NTAP];
    /* tracking uref manager */
    struct uref_mgr wmgr; struct urefcount wref; struct uref_mgr *inner;
    struct uref *live[MAXLIVE]; int nlive; bool live_overflow; unsigned long bad_free;
    /* picture / sound managers, created on demand */
    struct ubuf_mgr *picmgr[4]; struct ubuf_mgr *sndmgr[6];
    uint64_t next_seq;
    uint8_t seq_node[MAXSEQ];      /* node that received sequence number s */
    uint16_t seq_deliv[MAXSEQ][NTAP];
    int ret;
    uint64_t hash;
    uint32_t classes;
    int delivered, delivered_main;
    int ev_mark, rec_mark;
    bool any_data;
    int force_pool;
    uint32_t excluded;
    int cur_op_node; uint64_t cur_op_seq;   /* the input in progress */
    struct upipe_mgr *shared_mgr;           /* sequential_source: the manager its peers are allocated from */
    unsigned seen_flags;                   /* flags of every pipe the case ever had (sub-pipe slots are reused) */
};
static struct ctx ctx;

#define R(...) do { if (c->render) vp_render(c->rep, __VA_ARGS__); } while (0)
#define FAILP(on, key, ...) do { if ((on) && !c->ret) c->ret = vp_fail(c->rep, PID "/" key, __VA_ARGS__); } while (0)

static const struct wtype table[];
static const int ntypes;
static const char *node_name(struct ctx *c, struct node *n);
static bool node_alive(struct ctx *c, struct node *n);

/* ---------------------------------------------------------------- pooled structures are poisoned while in a pool (C01) */
#if PIPES_PROP == 1
#include "upipe/uverif.h"
#include <sanitizer/asan_interface.h>
#include <sanitizer/allocator_interface.h>
static void *pool_pending;
static void pool_track_reset(void) { pool_pending = NULL; }
void upipe_verif_pool(int op, void *pool, void *obj)
{
    switch (op) {
    case UVERIF_POOL_FREE: pool_pending = obj; break;
    case UVERIF_LIFO_PUSHED:
        if (obj == pool_pending && __sanitizer_get_ownership(obj))
            __asan_poison_memory_region(obj, __sanitizer_get_allocated_size(obj));
        pool_pending = NULL;
        break;
    case UVERIF_LIFO_POPPED:
        if (obj != NULL && __sanitizer_get_ownership(obj))
            __asan_unpoison_memory_region(obj, __sanitizer_get_allocated_size(obj));
        break;
    }
}
#endif

/* ---------------------------------------------------------------- tracking uref manager: which urefs are alive right now */
static struct uref *wmgr_alloc(struct uref_mgr *mgr)
{
    struct ctx *c = container_of(mgr, struct ctx, wmgr);
    struct uref *u = c->inner->uref_alloc(c->inner);
    if (!u) return NULL;
    u->mgr = mgr;
    if (c->nlive < MAXLIVE) c->live[c->nlive++] = u; else c->live_overflow = true;
    return u;
}
static void wmgr_free(struct uref *u)
{
    struct ctx *c = container_of(u->mgr, struct ctx, wmgr);
    int i;
    for (i = c->nlive - 1; i >= 0; i--) if (c->live[i] == u) break;
    if (i >= 0) c->live[i] = c->live[--c->nlive]; else if (!c->live_overflow) c->bad_free++;
    u->mgr = c->inner;
    c->inner->uref_free(u);
}
static int wmgr_control(struct uref_mgr *mgr, int command, va_list args)
{
    struct ctx *c = container_of(mgr, struct ctx, wmgr);
    return c->inner->uref_mgr_control ? c->inner->uref_mgr_control(c->inner, command, args) : UBASE_ERR_UNHANDLED;
}
static void wmgr_dead(struct urefcount *r) { (void)r; }
static void wmgr_init(struct ctx *c)
{
    c->inner = c->pfx.fm.uref_mgr;
    urefcount_init(&c->wref, wmgr_dead);
    c->wmgr.refcount = &c->wref;
    c->wmgr.control_attr_size = c->inner->control_attr_size;
    c->wmgr.udict_mgr = c->inner->udict_mgr;
    c->wmgr.uref_alloc = wmgr_alloc;
    c->wmgr.uref_free = wmgr_free;
    c->wmgr.uref_mgr_control = wmgr_control;
    c->pfx.fm.uref_mgr = &c->wmgr;     /* the fixture's builders allocate through the tracking manager; swapped back before pfx_clean */
}

/* ---------------------------------------------------------------- taps */
static bool node_dead(struct ctx *c, struct node *n)
{
    if (!n->used || n->upipe == NULL) return true;
    struct pfx_probe *pr = pfx_probe(&c->pfx, n->probe);
    for (int i = pr->ntracks - 1; i >= 0; i--)
        if (pr->tracks[i].upipe == n->upipe) return pr->tracks[i].dead;
    return false;
}

static void tap_check(struct ctx *c, struct tap *t, const char *what)
{
    if (t->from < 0) return;
    struct node *n = &c->n[t->from];
    if (n->gone || node_dead(c, n))
        FAILP(ORACLE_PROTO, "dead/touch", "%s reaches the output of %s after that pipe threw DEAD", what, node_name(c, n));
}

static void tap_input(struct upipe *upipe, struct uref *uref, struct upump **upump_p)
{
    struct tap *t = container_of(upipe, struct tap, upipe);
    struct ctx *c = t->c;
    t->inputs++;
    tap_check(c, t, "a buffer");
    if (t->from >= 0 && !c->ret) {
        struct node *n = &c->n[t->from];
        struct pfx_sink *s = pfx_sink(&c->pfx, t->sinkid);
        if (t->state == 2)
            FAILP(ORACLE_PROTO, "flowdef/rejected", "output of %s: a buffer is delivered although the output rejected the last flow definition", node_name(c, n));
        else if (t->state == 0)
            FAILP(ORACLE_PROTO, "flowdef/missing", "output of %s: a buffer is delivered before any flow definition since this output was connected", node_name(c, n));
        else if (n->sp->getfd && !node_dead(c, n)) {
            struct uref *fd = NULL;
            if (ubase_check(upipe_get_flow_def(n->upipe, &fd)) && fd != NULL && s->flow_def != NULL &&
                fd->udict && s->flow_def->udict && udict_cmp(fd->udict, s->flow_def->udict))
                FAILP(ORACLE_PROTO, "flowdef/stale", "output of %s: a buffer is delivered but the definition the output last accepted differs from the pipe's current output definition (get_flow_def)", node_name(c, n));
        }
        /* a picture of another size than the accepted definition announces belongs to another flow: its definition never arrived */
        if (!c->ret && t->state == 1 && (n->sp->flags & F_PICSIZE) && s->flow_def != NULL && uref->ubuf != NULL) {
            uint64_t dh = 0, dv = 0; size_t ph = 0, pv = 0;
            if (ubase_check(uref_pic_flow_get_hsize(s->flow_def, &dh)) && ubase_check(uref_pic_flow_get_vsize(s->flow_def, &dv)) &&
                dh != 0 && dv != 0 && ubase_check(uref_pic_size(uref, &ph, &pv, NULL)) && (ph != dh || pv != dv))   /* (crop to zero lines: no picture has that size) */
                FAILP(ORACLE_PROTO, "flowdef/picture-size", "output of %s: a picture of %zux%zu is delivered under an accepted definition announcing %"PRIu64"x%"PRIu64, node_name(c, n), ph, pv, dh, dv);
        }
    }
    upipe_input(t->sink, uref, upump_p);
}

static int tap_control(struct upipe *upipe, int command, va_list args)
{
    struct tap *t = container_of(upipe, struct tap, upipe);
    struct ctx *c = t->c;
    switch (command) {
    case UPIPE_SET_FLOW_DEF: {
        struct uref *fd = va_arg(args, struct uref *);
        tap_check(c, t, "a flow definition");
        int err = upipe_set_flow_def(t->sink, fd);
        t->state = ubase_check(err) ? 1 : 2;
        return err;
    }
    case UPIPE_REGISTER_REQUEST: {
        struct urequest *r = va_arg(args, struct urequest *);
        return upipe_control(t->sink, UPIPE_REGISTER_REQUEST, r);
    }
    case UPIPE_UNREGISTER_REQUEST: {
        struct urequest *r = va_arg(args, struct urequest *);
        return upipe_control(t->sink, UPIPE_UNREGISTER_REQUEST, r);
    }
    default:
        return UBASE_ERR_UNHANDLED;
    }
}

static void tap_free(struct urefcount *r)
{
    struct tap *t = container_of(r, struct tap, urefcount);
    upipe_throw_dead(&t->upipe);
    upipe_release(t->sink);
    t->live = false;
    upipe_clean(&t->upipe);
    urefcount_clean(r);
}

static struct upipe_mgr tap_mgr = { .refcount = NULL, .signature = UBASE_FOURCC('v','t','a','p'), .upipe_input = tap_input, .upipe_control = tap_control };

static struct tap *tap_alloc(struct ctx *c, int id)
{
    hc_pause(1);
    struct tap *t = calloc(1, sizeof(*t));
    hc_pause(-1);
    t->c = c; t->id = id; t->from = -1; t->live = true;
    t->sink = pfx_sink_alloc(&c->pfx, &t->sinkid);
    pfx_sink(&c->pfx, t->sinkid)->uref_policy = PFX_SINK_KEEP;
    int pid;
    upipe_init(&t->upipe, &tap_mgr, pfx_probe_alloc(&c->pfx, &pid));
    urefcount_init(&t->urefcount, tap_free);
    t->upipe.refcount = &t->urefcount;
    upipe_throw_ready(&t->upipe);
    return t;
}

/* ---------------------------------------------------------------- stand-in source pipe for the source bins
 * (auto_source, sequential_source, segment_source wrap a source manager that opens files or sockets; here the manager is
 * this pipe: set_uri starts an idler pump that emits three 32-octet blocks and then announces the end of the source) */
struct wsrc {
    struct urefcount urefcount;
    struct upipe *output; struct uref *flow_def; enum upipe_helper_output_state output_state; struct uchain request_list;
    struct upump_mgr *upump_mgr; struct upump *upump;
    unsigned left, output_size;
    char uri[40];
    struct upipe upipe;
};
#define WSRC_SIGNATURE UBASE_FOURCC('v','s','r','c')
UPIPE_HELPER_UPIPE(wsrc, upipe, WSRC_SIGNATURE)
UPIPE_HELPER_UREFCOUNT(wsrc, urefcount, wsrc_free)
UPIPE_HELPER_VOID(wsrc)
UPIPE_HELPER_OUTPUT(wsrc, output, flow_def, output_state, request_list)
UPIPE_HELPER_UPUMP_MGR(wsrc, upump_mgr)
UPIPE_HELPER_UPUMP(wsrc, upump, upump_mgr)
static struct upipe *wsrc_alloc(struct upipe_mgr *mgr, struct uprobe *uprobe, uint32_t signature, va_list args)
{
    struct upipe *upipe = wsrc_alloc_void(mgr, uprobe, signature, args);
    if (!upipe) return NULL;
    struct wsrc *w = wsrc_from_upipe(upipe);
    wsrc_init_urefcount(upipe); wsrc_init_output(upipe); wsrc_init_upump_mgr(upipe); wsrc_init_upump(upipe);
    w->left = 0; w->output_size = 32; w->uri[0] = 0;
    upipe_throw_ready(upipe);
    return upipe;
}
static void wsrc_idler(struct upump *upump)
{
    struct upipe *upipe = upump_get_opaque(upump, struct upipe *);
    struct wsrc *w = wsrc_from_upipe(upipe);
    if (w->left == 0) { wsrc_set_upump(upipe, NULL); upipe_throw_source_end(upipe); return; }
    w->left--;
    struct uref *u = uref_block_alloc(&ctx.wmgr, ctx.pfx.fm.block_mgr, w->output_size ? w->output_size : 1);
    if (u) wsrc_output(upipe, u, &w->upump);
}
static int wsrc_set_uri(struct upipe *upipe, const char *uri)
{
    struct wsrc *w = wsrc_from_upipe(upipe);
    wsrc_set_upump(upipe, NULL);
    w->left = 0; w->uri[0] = 0;
    if (!uri) return UBASE_ERR_NONE;
    if (strstr(uri, "bad")) return UBASE_ERR_EXTERNAL;                 /* cannot be opened */
    snprintf(w->uri, sizeof w->uri, "%s", uri);
    struct uref *fd = uref_block_flow_alloc_def(&ctx.wmgr, "stub.");
    if (!fd) return UBASE_ERR_ALLOC;
    wsrc_store_flow_def(upipe, fd);
    wsrc_check_upump_mgr(upipe);
    if (!w->upump_mgr) return UBASE_ERR_NONE;
    struct upump *pump = upump_alloc_idler(w->upump_mgr, wsrc_idler, upipe, upipe->refcount);
    if (!pump) return UBASE_ERR_UPUMP;
    wsrc_set_upump(upipe, pump);
    upump_start(pump);
    w->left = 3;
    return UBASE_ERR_NONE;
}
static int wsrc_control(struct upipe *upipe, int command, va_list args)
{
    struct wsrc *w = wsrc_from_upipe(upipe);
    UBASE_HANDLED_RETURN(wsrc_control_output(upipe, command, args));
    switch (command) {
    case UPIPE_ATTACH_UPUMP_MGR: wsrc_set_upump(upipe, NULL); return wsrc_attach_upump_mgr(upipe);
    case UPIPE_SET_URI: return wsrc_set_uri(upipe, va_arg(args, const char *));
    case UPIPE_GET_URI: *va_arg(args, const char **) = w->uri[0] ? w->uri : NULL; return UBASE_ERR_NONE;
    case UPIPE_SET_OUTPUT_SIZE: w->output_size = va_arg(args, unsigned int) % 300; return UBASE_ERR_NONE;
    case UPIPE_GET_OUTPUT_SIZE: *va_arg(args, unsigned int *) = w->output_size; return UBASE_ERR_NONE;
    default: return UBASE_ERR_UNHANDLED;
    }
}
static void wsrc_free(struct upipe *upipe)
{
    upipe_throw_dead(upipe);
    wsrc_clean_upump(upipe); wsrc_clean_upump_mgr(upipe); wsrc_clean_output(upipe); wsrc_clean_urefcount(upipe);
    wsrc_free_void(upipe);
}
static struct upipe_mgr wsrc_mgr = { .refcount = NULL, .signature = WSRC_SIGNATURE, .upipe_alloc = wsrc_alloc, .upipe_control = wsrc_control };
static struct upipe_mgr wsrc_mgr_b = { .refcount = NULL, .signature = WSRC_SIGNATURE, .upipe_alloc = wsrc_alloc, .upipe_control = wsrc_control };

/* ---------------------------------------------------------------- formats, flow definitions, buffers */
struct picfmt { const char *name; uint8_t mp; int np; struct { const char *chroma; uint8_t hsub, vsub, mps; } pl[3]; };
static const struct picfmt picfmts[2] = {
    { "y8", 1, 1, { { "y8", 1, 1, 1 } } },
    { "i420", 1, 3, { { "y8", 1, 1, 1 }, { "u8", 2, 2, 1 }, { "v8", 2, 2, 1 } } },
};
enum { SF_S32P2 = 0, SF_F32PL2, SF_S16PL2, SF_S16P2, SF_S32P1, SF_S16PL1, SF_NFMT };
struct sndfmt { const char *name; const char *def; uint8_t planes, channels, sample_size; const char *chan[2]; };
static const struct sndfmt sndfmts[SF_NFMT] = {
    [SF_S32P2]  = { "s32-packed-2ch", "s32.", 1, 2, 8, { "lr" } },
    [SF_F32PL2] = { "f32-planar-2ch", "f32.", 2, 2, 4, { "l", "r" } },
    [SF_S16PL2] = { "s16-planar-2ch", "s16.", 2, 2, 2, { "l", "r" } },
    [SF_S16P2]  = { "s16-packed-2ch", "s16.", 1, 2, 4, { "lr" } },
    [SF_S32P1]  = { "s32-packed-1ch", "s32.", 1, 1, 4, { "c" } },
    [SF_S16PL1] = { "s16-planar-1ch", "s16.", 1, 1, 2, { "l" } },
};

static struct uref_mgr *UM(struct ctx *c) { return &c->wmgr; }

static struct uref *def_pic_fmt(struct ctx *c, int fmt, int w, int h)
{
    const struct picfmt *f = &picfmts[fmt & 1];
    struct uref *u = uref_pic_flow_alloc_def(UM(c), f->mp);
    if (!u) return NULL;
    for (int p = 0; p < f->np; p++) uref_pic_flow_add_plane(u, f->pl[p].hsub, f->pl[p].vsub, f->pl[p].mps, f->pl[p].chroma);
    uref_pic_flow_set_hsize(u, w); uref_pic_flow_set_vsize(u, h);
    uref_pic_flow_set_hsize_visible(u, w); uref_pic_flow_set_vsize_visible(u, h);
    struct urational fps = { 25, 1 };
    uref_pic_flow_set_fps(u, fps);
    return u;
}
static void vsize(int v, int *w, int *h) { if (v == 1) { *w = 16; *h = 8; } else { *w = 32; *h = 16; } }
static void extra(struct uref *u, int v)
{
    if (!u) return;
    if (v == 2) { uref_attr_set_unsigned(u, 42, UDICT_TYPE_UNSIGNED, "x.extra"); uref_clock_set_latency(u, 3 * TICK); }
}
static struct uref *def_pic(struct ctx *c, struct node *n, int v)
{
    int w, h; vsize(v, &w, &h);
    struct uref *u = def_pic_fmt(c, n->fmt, w, h);
    extra(u, v);
    return u;
}
static struct uref *def_sound_fmt(struct ctx *c, int sf)
{
    const struct sndfmt *f = &sndfmts[sf];
    struct uref *u = uref_sound_flow_alloc_def(UM(c), f->def, f->channels, f->sample_size);
    if (!u) return NULL;
    for (int p = 0; p < f->planes; p++) uref_sound_flow_add_plane(u, f->chan[p]);
    uref_sound_flow_set_rate(u, 48000);
    return u;
}
static struct uref *def_sound(struct ctx *c, struct node *n, int v)
{
    struct uref *u = def_sound_fmt(c, n->fmt);
    if (u && v == 1) uref_clock_set_latency(u, TICK / 2);
    extra(u, v);
    return u;
}
static struct uref *def_block(struct ctx *c, const char *sfx, int v)
{
    struct uref *u = uref_block_flow_alloc_def(UM(c), sfx);
    extra(u, v);
    return u;
}
static struct uref *def_void(struct ctx *c, int v)
{
    struct uref *u = uref_void_flow_alloc_def(UM(c));
    if (u && v == 1) uref_clock_set_latency(u, 1000);
    extra(u, v);
    return u;
}
/* generic definition of variant v (0..2 valid for the kind, 3 of another kind) */
static struct uref *def_generic(struct ctx *c, struct node *n, int v)
{
    int k = n->kind;
    if (v == 3) {
        if (k == K_BLOCK) { struct uref *u = uref_alloc_control(UM(c)); if (u) uref_flow_set_def(u, "pic."); return u; }
        return def_block(c, "foo.", 0);
    }
    switch (k) {
    case K_BLOCK: return def_block(c, v == 1 ? "bar." : "foo.", v);
    case K_PIC: return def_pic(c, n, v);
    case K_SOUND: return def_sound(c, n, v);
    default: return def_void(c, v);
    }
}

static struct ubuf_mgr *pic_mgr(struct ctx *c, int fmt)
{
    fmt &= 1;
    if (c->picmgr[fmt]) return c->picmgr[fmt];
    struct uref *fd = def_pic_fmt(c, fmt, 32, 16);
    if (!fd) return NULL;
    uref_pic_flow_set_vprepend(fd, 8); uref_pic_flow_set_vappend(fd, 2);
    if (c->pfx.cfg.prepend) { uref_pic_flow_set_hmprepend(fd, 2); uref_pic_flow_set_hmappend(fd, 2); }
    if (c->pfx.cfg.align) uref_pic_flow_set_align(fd, c->pfx.cfg.align);
    c->picmgr[fmt] = ubuf_mem_mgr_alloc_from_flow_def(c->pfx.cfg.pool_depth, c->pfx.cfg.pool_depth, c->pfx.fm.umem_mgr, fd);
    uref_free(fd);
    return c->picmgr[fmt];
}
static struct ubuf_mgr *snd_mgr(struct ctx *c, int sf)
{
    if (c->sndmgr[sf]) return c->sndmgr[sf];
    struct uref *fd = def_sound_fmt(c, sf);
    if (!fd) return NULL;
    if (c->pfx.cfg.align) uref_sound_flow_set_align(fd, c->pfx.cfg.align);
    c->sndmgr[sf] = ubuf_mem_mgr_alloc_from_flow_def(c->pfx.cfg.pool_depth, c->pfx.cfg.pool_depth, c->pfx.fm.umem_mgr, fd);
    uref_free(fd);
    return c->sndmgr[sf];
}

/* dates, sequence number and attributes common to every kind.
 * fl low nibble: 1 no system date, 2 no program date, 3 neither, 4 no duration, else fully dated; high nibble: attribute bits */
static void stamp(struct ctx *c, struct node *n, struct uref *u, struct inspec *s, uint64_t dur)
{
    uint64_t now = fake_upump_now(c->pfx.loop);
    uint64_t pts;
    struct node *m = &c->n[N_MAIN];
    if (n->sk >= 0 && m->sp && (m->sp->flags & F_PTSMATCH) && (s->sz & 0x20)) {
        /* the inputs of a pipe that picks buffers by date (videocont, audiocont) are mostly dated like the next buffers of the
         * reference flow, 0..3 periods ahead: otherwise nearly every buffer is too old when the reference arrives */
        if (m->pts < now + TICK) m->pts = now + TICK + TICK / 4;
        pts = m->pts + (s->sz >> 6) * (uint64_t)TICK;
    } else {
        if (n->pts < now + TICK) n->pts = now + TICK + TICK / 4;
        pts = n->pts;
        n->pts += dur ? dur : TICK;
    }
    int d = s->fl & 15;
    if (d != 1 && d != 3) uref_clock_set_cr_sys(u, pts);
    if (d != 2 && d != 3) uref_clock_set_cr_prog(u, pts + 1000);
    if (d == 5) uref_clock_set_cr_orig(u, pts + 7);
    uref_clock_set_cr_dts_delay(u, 0);
    uref_clock_set_dts_pts_delay(u, 0);
    if (d != 4) uref_clock_set_duration(u, dur ? dur : TICK);
    if (pfx_uref_seq(u) == UINT64_MAX) uref_attr_set_unsigned(u, s->seq, UDICT_TYPE_UNSIGNED, "x.seq");
    if (s->fl & 0x10) uref_flow_set_discontinuity(u);
    if (s->fl & 0x20) uref_attr_set_small_unsigned(u, s->seq & 0xff, UDICT_TYPE_SMALL_UNSIGNED, "x.small");
}

static const int blk_sizes[8] = { 16, 1, 8, 0, 3, 188, 255, 64 };
static struct uref *in_block(struct ctx *c, struct node *n, struct inspec *s)
{
    int size = blk_sizes[s->sz % 8], nseg = 1 + (s->sz >> 3) % 3;
    struct uref *u = pfx_uref_block(&c->pfx, s->seq, size, nseg);
    if (u) stamp(c, n, u, s, 0);
    return u;
}
static struct uref *mk_pic(struct ctx *c, int fmt, int w, int h, uint64_t seq)
{
    struct ubuf_mgr *m = pic_mgr(c, fmt);
    if (!m) return NULL;
    struct uref *u = uref_pic_alloc(UM(c), m, w, h);
    if (!u) return NULL;
    const char *chroma;
    uref_pic_foreach_plane(u, chroma) {
        size_t stride; uint8_t hs, vs, mps; uint8_t *buf;
        if (!ubase_check(uref_pic_plane_size(u, chroma, &stride, &hs, &vs, &mps)) ||
            !ubase_check(uref_pic_plane_write(u, chroma, 0, 0, -1, -1, &buf))) continue;
        for (int y = 0; y < h / vs; y++) memset(buf + y * stride, pfx_pattern(seq, y), (size_t)(w / hs) * mps);
        uref_pic_plane_unmap(u, chroma, 0, 0, -1, -1);
    }
    return u;
}
static struct uref *in_pic(struct ctx *c, struct node *n, struct inspec *s)
{
    int w = n->w ? n->w : 32, h = n->h ? n->h : 16;
    struct uref *u = mk_pic(c, n->fmt, w, h, s->seq);
    if (!u) return NULL;
    if (s->fl & 0x40) uref_pic_set_tff(u);
    if (s->fl & 0x80) uref_pic_set_progressive(u);
    stamp(c, n, u, s, TICK);
    return u;
}
static const int snd_samples[8] = { 48, 1, 16, 480, 1920, 2, 960, 100 };
static struct uref *mk_sound(struct ctx *c, int sf, int samples, uint64_t seq)
{
    struct ubuf_mgr *m = snd_mgr(c, sf);
    if (!m) return NULL;
    struct uref *u = uref_sound_alloc(UM(c), m, samples);
    if (!u) return NULL;
    const struct sndfmt *f = &sndfmts[sf];
    for (int p = 0; p < f->planes; p++) {
        uint8_t *buf;
        if (!ubase_check(uref_sound_plane_write_uint8_t(u, f->chan[p], 0, -1, &buf))) continue;
        if (sf == SF_F32PL2) { float *fb = (float *)buf; for (int i = 0; i < samples; i++) fb[i] = 0.25f + (seq & 3) * 0.125f; }
        else memset(buf, pfx_pattern(seq, p), (size_t)samples * f->sample_size);
        uref_sound_plane_unmap(u, f->chan[p], 0, -1);
    }
    return u;
}
static struct uref *in_sound(struct ctx *c, struct node *n, struct inspec *s)
{
    int samples = snd_samples[s->sz % 8];
    struct uref *u = mk_sound(c, n->fmt, samples, s->seq);
    if (!u) return NULL;
    stamp(c, n, u, s, (uint64_t)samples * UCLOCK_FREQ / 48000);
    return u;
}
static struct uref *in_void(struct ctx *c, struct node *n, struct inspec *s)
{
    struct uref *u = uref_alloc(UM(c));
    if (u) stamp(c, n, u, s, TICK);
    return u;
}
static struct uref *in_generic(struct ctx *c, struct node *n, struct inspec *s)
{
    switch (n->kind) {
    case K_BLOCK: return in_block(c, n, s);
    case K_PIC: return in_pic(c, n, s);
    case K_SOUND: return in_sound(c, n, s);
    default: return in_void(c, n, s);
    }
}

/* ---------------------------------------------------------------- per-type pieces (allocation, definitions, buffers, own commands) */
static struct upipe *main_pipe(struct ctx *c) { return c->n[N_MAIN].upipe; }
#define CTL(...) snprintf(what, wlen, __VA_ARGS__)

static struct uref *blk_from_bytes(struct ctx *c, const uint8_t *buf, int size, int nseg, uint64_t seq)
{
    if (nseg < 1 || size < 2) nseg = 1;
    int first = nseg > 1 ? size / 2 : size;
    struct uref *u = uref_alloc(UM(c));
    if (!u) return NULL;
    struct ubuf *b = ubuf_block_alloc_from_opaque(c->pfx.fm.block_mgr, buf, first);
    if (!b) { uref_free(u); return NULL; }
    if (nseg > 1) {
        struct ubuf *b2 = ubuf_block_alloc_from_opaque(c->pfx.fm.block_mgr, buf + first, size - first);
        if (b2) ubuf_block_append(b, b2);
    }
    uref_attach_ubuf(u, b);
    uref_attr_set_unsigned(u, seq, UDICT_TYPE_UNSIGNED, "x.seq");
    return u;
}

/* -- multicat_probe */
static void ctl_multicat_probe(struct ctx *c, struct node *n, uint8_t sel, char *what, size_t wlen)
{
    static const uint64_t rot[] = { UCLOCK_FREQ, 1, TICK, 0 };
    if (sel & 1) { uint64_t r = 0, o = 0; int e = upipe_multicat_probe_get_rotate(n->upipe, &r, &o); CTL("get_rotate -> %d (%llu,%llu)", e, (unsigned long long)r, (unsigned long long)o); }
    else { uint64_t r = rot[(sel >> 1) % 4], o = (sel >> 3) % 2 ? 5 : 0; int e = upipe_multicat_probe_set_rotate(n->upipe, r, o); CTL("set_rotate(%llu,%llu) -> %d", (unsigned long long)r, (unsigned long long)o, e); }
}
/* -- dump */
static void ctl_dump(struct ctx *c, struct node *n, uint8_t sel, char *what, size_t wlen)
{
    static const size_t ml[] = { 16, 0, 1, 17, (size_t)-1 };
    if (sel % 4 == 3) { int e = upipe_dump_set_text_mode(n->upipe); CTL("set_text_mode -> %d", e); }
    else { size_t m = ml[(sel >> 2) % 5]; int e = upipe_dump_set_max_len(n->upipe, m); CTL("set_max_len(%zd) -> %d", (ssize_t)m, e); }
}
/* -- rtp_h264 */
static struct uref *def_h264(struct ctx *c, struct node *n, int v)
{
    if (v == 3) return def_block(c, "foo.", 0);
    return def_block(c, v == 1 ? "h264.pic." : "h264.", v);
}
static struct uref *in_h264(struct ctx *c, struct node *n, struct inspec *s)
{
    if (s->sz % 8 == 7) return in_block(c, n, s);      /* not an Annex B buffer: documented to be dropped */
    static uint8_t buf[4096];
    static const int paylen[8] = { 5, 1, 40, 1500, 2, 0, 1399, 1401 };
    int nn = 1 + s->sz % 3, pos = 0;
    for (int k = 0; k < nn; k++) {
        int pl = paylen[(s->sz / 3 + k * 3) % 8];
        if ((s->sz >> 5) & 1) buf[pos++] = 0;
        buf[pos++] = 0; buf[pos++] = 0; buf[pos++] = 1;
        buf[pos++] = 0x65 - k;                              /* NAL header */
        for (int i = 0; i < pl; i++) buf[pos++] = 0x80 | (uint8_t)pfx_pattern(s->seq, i);   /* never forms a start code */
    }
    struct uref *u = blk_from_bytes(c, buf, pos, 1 + (s->sz >> 6) % 2, s->seq);
    if (u) stamp(c, n, u, s, 0);
    return u;
}
/* -- rtp_mpeg4 */
static struct uref *def_aac(struct ctx *c, struct node *n, int v)
{
    if (v == 3) return def_block(c, "foo.", 0);
    return def_block(c, v == 1 ? "aac.sound.x." : "aac.sound.", v);
}
/* -- block_to_sound */
static struct upipe *alloc_b2s(struct ctx *c, struct node *n, struct uprobe *probe, int v, bool *must_fail)
{
    struct uref *fd = def_sound_fmt(c, v == 1 ? SF_S32P1 : v == 2 ? SF_F32PL2 : SF_S32P2);
    if (v == 3) uref_sound_flow_delete_sample_size(fd);
    *must_fail = v >= 2;
    struct upipe *p = upipe_flow_alloc(table[n->type].mgr(), probe, fd);
    uref_free(fd);
    return p;
}
/* -- ntsc_prepend */
static struct uref *def_ntsc(struct ctx *c, struct node *n, int v)
{
    if (v == 3) return def_pic_fmt(c, 0, 32, 16);
    struct uref *u = def_pic_fmt(c, 0, 720, 480);
    if (!u) return NULL;
    uref_pic_flow_set_vprepend(u, 8); uref_pic_flow_set_vappend(u, 2);
    if (v == 1) uref_clock_set_latency(u, TICK);
    extra(u, v);
    return u;
}
static struct uref *in_ntsc(struct ctx *c, struct node *n, struct inspec *s)
{
    struct uref *u = mk_pic(c, 0, 720, 480, s->seq);
    if (!u) return NULL;
    if (s->fl & 0x40) uref_pic_set_tff(u);
    stamp(c, n, u, s, TICK);
    return u;
}
/* -- crop */
static void ctl_crop(struct ctx *c, struct node *n, uint8_t sel, char *what, size_t wlen)
{
    static const int64_t o[8] = { 0, 2, 4, -2, 8, 100, 1, -100 };
    if (sel & 1) { int64_t l, r, t, b; int e = upipe_crop_get_rect(n->upipe, &l, &r, &t, &b); CTL("get_rect -> %d", e); }
    else { int64_t l = o[(sel >> 1) % 8], r = o[(sel >> 4) % 8], t = o[(sel >> 2) % 8], b = o[(sel >> 5) % 8];
           int e = upipe_crop_set_rect(n->upipe, l, r, t, b); CTL("set_rect(%lld,%lld,%lld,%lld) -> %d", (long long)l, (long long)r, (long long)t, (long long)b, e); }
}
/* -- row_split */
static struct upipe *alloc_row_split(struct ctx *c, struct node *n, struct uprobe *probe, int v, bool *must_fail)
{
    static const int ch[2] = { 4, 8 };
    struct uref *fd = def_pic_fmt(c, n->fmt, 32, ch[v & 1]);
    if (v >= 2) uref_pic_flow_delete_vsize(fd);
    *must_fail = v >= 2;
    struct upipe *p = upipe_flow_alloc(table[n->type].mgr(), probe, fd);
    uref_free(fd);
    return p;
}
/* -- row_join */
static struct uref *in_row_join(struct ctx *c, struct node *n, struct inspec *s)
{
    /* st: whose position counts (the row_join itself when the chunk reaches it) */
    struct node *st = (n->idx == N_HEAD && n->out == 100 + N_MAIN) ? &c->n[N_MAIN] : n;
    int w = n->w ? n->w : 32, h = n->h ? n->h : 16, ch = (s->sz & 8) ? h / 4 : h / 2;
    /* a chunk other than the top one arriving first, or right after a complete picture (a stream joined in mid-picture):
     * row_join used to dereference a picture in progress it did not have (fixed, 77bf00d); the pattern is generated */
    bool open = st->vpos > 0 && st->vpos < h && st->name == h;      /* name: height of the picture in progress */
    int vpos = open ? st->vpos : 0;
    if (vpos + ch > h) vpos = 0;
    if (!open && (s->sz & 0x80)) {
        vpos = ch;
    }
    struct uref *u = mk_pic(c, n->fmt, w, ch, s->seq);
    if (!u) return NULL;
    uref_pic_set_vposition(u, vpos);
    st->vpos = vpos + ch == h ? 0 : vpos + ch;
    st->name = h;
    stamp(c, n, u, s, TICK / 4);
    return u;
}
/* -- video_blank / audio_blank */
static struct upipe *alloc_vblk(struct ctx *c, struct node *n, struct uprobe *probe, int v, bool *must_fail)
{
    struct uref *fd = v >= 2 ? def_block(c, "foo.", 0) : def_pic_fmt(c, n->fmt, v == 1 ? 16 : 32, v == 1 ? 8 : 16);
    *must_fail = v >= 2;
    struct upipe *p = upipe_flow_alloc(table[n->type].mgr(), probe, fd);
    uref_free(fd);
    return p;
}
static void ctl_vblk(struct ctx *c, struct node *n, uint8_t sel, char *what, size_t wlen)
{
    struct uref *u = (sel & 1) ? NULL : mk_pic(c, n->fmt, 32, 16, 1000 + sel);
    if (u && (sel & 2)) uref_pic_set_progressive(u);
    int e = upipe_vblk_set_pic(n->upipe, u);      /* the pipe takes the picture (as upipe_blank_source's input does) */
    CTL("set_pic(%s) -> %d", u ? "picture" : "NULL", e);
}
static struct uref *def_ablk_out(struct ctx *c, int sf, int samples)
{
    struct uref *fd = def_sound_fmt(c, sf);
    if (fd && samples >= 0) uref_sound_flow_set_samples(fd, samples);
    return fd;
}
static struct upipe *alloc_ablk(struct ctx *c, struct node *n, struct uprobe *probe, int v, bool *must_fail)
{
    struct uref *fd = def_ablk_out(c, n->fmt, v == 1 ? 480 : v >= 2 ? -1 : 48);
    if (v == 3) uref_sound_flow_delete_rate(fd);
    *must_fail = v >= 2;
    struct upipe *p = upipe_flow_alloc(table[n->type].mgr(), probe, fd);
    uref_free(fd);
    return p;
}
static struct uref *def_ablk_in(struct ctx *c, struct node *n, int v)
{
    if (n->kind != K_SOUND || v == 3) return def_generic(c, n, v);
    /* v == 2: another sample format / plane layout than the one the pipe was allocated with (the buffer manager it holds no longer fits) */
    struct uref *u = def_ablk_out(c, v == 2 ? (n->fmt + 1) % SF_NFMT : n->fmt, v == 1 ? 480 : 48);
    extra(u, v);
    return u;
}
static void ctl_ablk(struct ctx *c, struct node *n, uint8_t sel, char *what, size_t wlen)
{
    struct uref *u = mk_sound(c, n->fmt, 48, 1000 + sel);
    if (!u) return;
    int e = upipe_ablk_set_sound(n->upipe, u);
    CTL("set_sound(48 samples) -> %d", e);
}
/* -- videocont / audiocont */
static const char *const in_names[4] = { "in0", "in1", "in2", "nope" };
static struct uref *def_named_pic(struct ctx *c, struct node *n, int v)
{
    if (v == 3) return def_block(c, "foo.", 0);
    struct uref *u = def_pic(c, n, v);
    if (u) uref_flow_set_name(u, in_names[(n->idx - N_SUB0) & 3]);
    return u;
}
static void ctl_videocont(struct ctx *c, struct node *n, uint8_t sel, char *what, size_t wlen)
{
    static const uint64_t vals[4] = { 0, TICK, UCLOCK_FREQ, 1 };
    const char *s = NULL; uint64_t v = 0; int e;
    switch (sel % 8) {
    case 0: e = upipe_videocont_set_input(n->upipe, in_names[(sel >> 3) % 4]); CTL("set_input(%s) -> %d", in_names[(sel >> 3) % 4], e); break;
    case 1: e = upipe_videocont_set_input(n->upipe, NULL); CTL("set_input(NULL) -> %d", e); break;
    case 2: e = upipe_videocont_get_input(n->upipe, &s); CTL("get_input -> %d %s", e, s ? s : "(null)"); break;
    case 3: e = upipe_videocont_get_current_input(n->upipe, &s); CTL("get_current_input -> %d %s", e, s ? s : "(null)"); break;
    case 4: e = upipe_videocont_set_tolerance(n->upipe, vals[(sel >> 3) % 4]); CTL("set_tolerance -> %d", e); break;
    case 5: e = upipe_videocont_set_latency(n->upipe, vals[(sel >> 3) % 4]); CTL("set_latency -> %d", e); break;
    case 6: e = upipe_videocont_get_tolerance(n->upipe, &v); CTL("get_tolerance -> %d", e); break;
    default: e = upipe_videocont_get_latency(n->upipe, &v); CTL("get_latency -> %d", e); break;
    }
}
static void ctl_videocont_sub(struct ctx *c, struct node *n, uint8_t sel, char *what, size_t wlen)
{
    int e = upipe_videocont_sub_set_input(n->upipe); CTL("sub_set_input -> %d", e);
}
static struct upipe *alloc_audiocont(struct ctx *c, struct node *n, struct uprobe *probe, int v, bool *must_fail)
{
    struct uref *fd = def_sound_fmt(c, v == 2 ? SF_S16PL2 : SF_F32PL2);
    if (v == 3) uref_sound_flow_delete_rate(fd);
    if (v == 1) uref_clock_set_latency(fd, TICK);
    *must_fail = v >= 2;
    struct upipe *p = upipe_flow_alloc(table[n->type].mgr(), probe, fd);
    uref_free(fd);
    return p;
}
static struct uref *def_named_sound(struct ctx *c, struct node *n, int v)
{
    if (v == 3) return def_block(c, "foo.", 0);
    struct uref *u = def_sound(c, n, v);
    if (u) uref_flow_set_name(u, in_names[(n->idx - N_SUB0) & 3]);
    return u;
}
static void ctl_audiocont(struct ctx *c, struct node *n, uint8_t sel, char *what, size_t wlen)
{
    static const uint64_t vals[4] = { 0, TICK, UCLOCK_FREQ, 1 };
    const char *s = NULL; uint64_t v = 0; int e;
    switch (sel % 8) {
    case 0: e = upipe_audiocont_set_input(n->upipe, in_names[(sel >> 3) % 4]); CTL("set_input(%s) -> %d", in_names[(sel >> 3) % 4], e); break;
    case 1: e = upipe_audiocont_set_input(n->upipe, NULL); CTL("set_input(NULL) -> %d", e); break;
    case 2: e = upipe_audiocont_get_input(n->upipe, &s); CTL("get_input -> %d %s", e, s ? s : "(null)"); break;
    case 3: e = upipe_audiocont_get_current_input(n->upipe, &s); CTL("get_current_input -> %d %s", e, s ? s : "(null)"); break;
    case 4: e = upipe_audiocont_set_crossblend(n->upipe, vals[(sel >> 3) % 4]); CTL("set_crossblend -> %d", e); break;
    case 5: e = upipe_audiocont_set_latency(n->upipe, vals[(sel >> 3) % 4]); CTL("set_latency -> %d", e); break;
    case 6: e = upipe_audiocont_get_crossblend(n->upipe, &v); CTL("get_crossblend -> %d", e); break;
    default: e = upipe_audiocont_get_latency(n->upipe, &v); CTL("get_latency -> %d", e); break;
    }
}
static void ctl_audiocont_sub(struct ctx *c, struct node *n, uint8_t sel, char *what, size_t wlen)
{
    int e = upipe_audiocont_sub_set_input(n->upipe); CTL("sub_set_input -> %d", e);
}
/* -- blit */
static void ctl_blit(struct ctx *c, struct node *n, uint8_t sel, char *what, size_t wlen)
{
    int e = upipe_blit_prepare(n->upipe, NULL); CTL("prepare -> %d", e);
}
static struct uref *def_blit_sub(struct ctx *c, struct node *n, int v)
{
    if (v == 3) return def_block(c, "foo.", 0);
    struct uref *u = def_pic_fmt(c, n->fmt, 16, 8);
    if (!u) return NULL;
    uref_pic_set_hposition(u, v == 1 ? 8 : 0); uref_pic_set_vposition(u, v == 1 ? 4 : 0);
    extra(u, v);
    return u;
}
static struct uref *in_blit_sub(struct ctx *c, struct node *n, struct inspec *s)
{
    struct uref *u = mk_pic(c, n->fmt, 16, 8, s->seq);
    if (u) stamp(c, n, u, s, TICK);
    return u;
}
static void ctl_blit_sub(struct ctx *c, struct node *n, uint8_t sel, char *what, size_t wlen)
{
    static const uint64_t o[4] = { 0, 2, 8, 100 };
    int e, i = 0; uint64_t a, b, d, f;
    switch (sel % 8) {
    case 0: e = upipe_blit_sub_set_rect(n->upipe, o[(sel >> 3) % 4], o[(sel >> 5) % 4], o[(sel >> 4) % 4], o[(sel >> 6) % 4]); CTL("sub_set_rect -> %d", e); break;
    case 1: e = upipe_blit_sub_get_rect(n->upipe, &a, &b, &d, &f); CTL("sub_get_rect -> %d", e); break;
    case 2: e = upipe_blit_sub_set_alpha(n->upipe, (sel >> 3) * 8); CTL("sub_set_alpha(%d) -> %d", (sel >> 3) * 8, e); break;
    case 3: e = upipe_blit_sub_set_alpha_threshold(n->upipe, sel >> 3); CTL("sub_set_alpha_threshold -> %d", e); break;
    case 4: e = upipe_blit_sub_set_z_index(n->upipe, (int)(sel >> 3) - 8); CTL("sub_set_z_index(%d) -> %d", (int)(sel >> 3) - 8, e); break;
    case 5: e = upipe_blit_sub_get_z_index(n->upipe, &i); CTL("sub_get_z_index -> %d", e); break;
    case 6: e = upipe_blit_sub_get_alpha(n->upipe, &i); CTL("sub_get_alpha -> %d", e); break;
    default: { struct urational m = { 1, 4 }, z = { 0, 1 }; e = upipe_blit_sub_set_margin(n->upipe, m, z, m, z); CTL("sub_set_margin -> %d", e); break; }
    }
}
/* -- audio_split / audio_merge */
static struct upipe *alloc_split_sub(struct ctx *c, struct node *n, struct uprobe *probe, int v, bool *must_fail)
{
    struct uref *fd = v == 2 ? def_sound_fmt(c, SF_S16P2) : def_sound_fmt(c, SF_S16PL1);
    if (v != 3) uref_audio_split_set_bitfield(fd, v == 2 ? 3 : v == 1 ? 2 : 1);
    *must_fail = v == 3;
    struct upipe *p = upipe_flow_alloc_sub(main_pipe(c), probe, fd);
    uref_free(fd);
    return p;
}
static struct upipe *alloc_merge(struct ctx *c, struct node *n, struct uprobe *probe, int v, bool *must_fail)
{
    struct uref *fd = v >= 2 ? def_block(c, "foo.", 0) : def_sound_fmt(c, SF_S16PL2);
    if (v == 1) uref_clock_set_latency(fd, 1000);
    *must_fail = v >= 2;
    struct upipe *p = upipe_flow_alloc(table[n->type].mgr(), probe, fd);
    uref_free(fd);
    return p;
}
/* -- sources */
static struct upipe *alloc_voidsrc(struct ctx *c, struct node *n, struct uprobe *probe, int v, bool *must_fail)
{
    struct uref *fd = def_void(c, 0);
    if (v < 3) uref_clock_set_duration(fd, v == 1 ? TICK / 2 : v == 2 ? 2 * TICK : TICK);
    *must_fail = v == 3;
    struct upipe *p = upipe_flow_alloc(table[n->type].mgr(), probe, fd);
    uref_free(fd);
    return p;
}
static struct upipe *alloc_blksrc(struct ctx *c, struct node *n, struct uprobe *probe, int v, bool *must_fail)
{
    struct uref *fd;
    if (v == 1) { n->kind = K_SOUND; n->fmt = SF_S16PL2; fd = def_ablk_out(c, SF_S16PL2, 1920); }
    else if (v == 2) fd = def_block(c, "foo.", 0);
    else { n->kind = K_PIC; fd = def_pic_fmt(c, n->fmt, 32, 16); if (v == 3) uref_pic_flow_delete_fps(fd); }
    *must_fail = v >= 2;
    struct upipe *p = upipe_flow_alloc(table[n->type].mgr(), probe, fd);
    uref_free(fd);
    return p;
}
static void ctl_attach(struct ctx *c, struct node *n, uint8_t sel, char *what, size_t wlen)
{
    if (sel & 1) { int e = upipe_attach_uclock(n->upipe); CTL("attach_uclock -> %d", e); }
    else { int e = upipe_attach_upump_mgr(n->upipe); CTL("attach_upump_mgr -> %d", e); }
}

/* -- RTP family (driven through the stand-in headers of shim/bitstream/ietf) */
static struct uref *def_rtp_prepend(struct ctx *c, struct node *n, int v)
{
    if (v == 3) return def_generic(c, n, 3);
    return def_block(c, v == 1 ? "mp2.sound." : v == 2 ? "opus.sound." : "mpegts.", v);
}
static void ctl_rtp_prepend(struct ctx *c, struct node *n, uint8_t sel, char *what, size_t wlen)
{
    static const uint32_t rates[4] = { 90000, 0, 48000, 1 };
    int e; uint8_t t = 0; uint32_t r = 0; enum upipe_rtp_prepend_ts_sync sy = 0;
    switch (sel % 6) {
    case 0: e = upipe_rtp_prepend_set_type(n->upipe, sel >> 1); CTL("set_type(%u) -> %d", sel >> 1, e); break;
    case 1: e = upipe_rtp_prepend_get_type(n->upipe, &t); CTL("get_type -> %d (%u)", e, t); break;
    case 2: e = upipe_rtp_prepend_set_clockrate(n->upipe, rates[(sel >> 3) % 4]); CTL("set_clockrate(%u) -> %d", rates[(sel >> 3) % 4], e); break;
    case 3: e = upipe_rtp_prepend_get_clockrate(n->upipe, &r); CTL("get_clockrate -> %d (%u)", e, r); break;
    case 4: e = upipe_rtp_prepend_set_ts_sync(n->upipe, (sel >> 3) % 2 ? UPIPE_RTP_PREPEND_TS_SYNC_PTS : UPIPE_RTP_PREPEND_TS_SYNC_CR); CTL("set_ts_sync -> %d", e); break;
    default: e = upipe_rtp_prepend_get_ts_sync(n->upipe, &sy); CTL("get_ts_sync -> %d", e); break;
    }
}
static void ctl_rtcp(struct ctx *c, struct node *n, uint8_t sel, char *what, size_t wlen)
{
    static const uint64_t rates[4] = { 0, TICK, UCLOCK_FREQ / 10, 1 };
    static const char *const names[4] = { "x", NULL, "a-longer-canonical-name", "" };
    int e; uint32_t cr = 0; uint64_t r = 0; const char *nm = NULL;
    switch (sel % 6) {
    case 0: e = upipe_rtcp_set_rate(n->upipe, rates[(sel >> 3) % 4]); CTL("set_rate(%llu) -> %d", (unsigned long long)rates[(sel >> 3) % 4], e); break;
    case 1: e = upipe_rtcp_get_rate(n->upipe, &r); CTL("get_rate -> %d", e); break;
    case 2: e = upipe_rtcp_set_clockrate(n->upipe, (sel >> 3) % 2 ? 90000 : 0); CTL("set_clockrate -> %d", e); break;
    case 3: e = upipe_rtcp_get_clockrate(n->upipe, &cr); CTL("get_clockrate -> %d", e); break;
    case 4: e = upipe_rtcp_set_name(n->upipe, names[(sel >> 3) % 4]); CTL("set_name(%s) -> %d", names[(sel >> 3) % 4] ? names[(sel >> 3) % 4] : "NULL", e); break;
    default: e = upipe_rtcp_get_name(n->upipe, &nm); CTL("get_name -> %d", e); break;
    }
}
static struct uref *def_rtpd(struct ctx *c, struct node *n, int v)
{
    if (v == 3) return def_generic(c, n, 3);
    struct uref *u = def_block(c, v == 1 ? "rtp.h264.pic." : v == 2 ? "rtp.aac.sound." : "rtp.", 0);
    return u;
}
static struct uref *in_rtp(struct ctx *c, struct node *n, struct inspec *s)
{
    static uint8_t b[512];
    int mode = n->has_def ? n->defv : 0, shape = s->sz % 8, pos = 12;
    memset(b, 0, sizeof b);
    uint8_t type = (uint8_t[]){ 96, 33, 14, 32, 0, 10, 97, 72 }[(s->sz >> 3) % 8];
    if (mode) type = 96 + ((s->sz >> 3) % 8 == 7);
    bool pad = shape == 4, ext = shape == 5;
    int cc = shape == 5 ? 1 : 0;
    b[0] = (shape == 7 ? 0x40 : 0x80) | (pad ? 0x20 : 0) | (ext ? 0x10 : 0) | cc;
    b[1] = type | ((s->sz & 0x40) ? 0x80 : 0);
    /* sequence numbers: mostly consecutive, sometimes a gap or a step back */
    int step = (s->fl & 0xc0) == 0xc0 ? 3 : (s->fl & 0xc0) == 0x80 ? -1 : 1;
    n->name = (n->name + step) & 0xffff;
    b[2] = n->name >> 8; b[3] = n->name & 0xff;
    uint32_t ts = (uint32_t)(n->pts / 300) + ((s->sz & 0x80) ? 0 : 3000);
    b[4] = ts >> 24; b[5] = ts >> 16; b[6] = ts >> 8; b[7] = ts;
    b[8] = 1; b[9] = 2; b[10] = 3; b[11] = 4;
    pos += 4 * cc;
    if (ext) { b[pos + 2] = 0; b[pos + 3] = 1; pos += 8; }
    int pl = shape == 6 ? 0 : (int[]){ 20, 188, 40, 9, 3, 64, 0, 16 }[(s->fl >> 2) % 8];
    if (shape == 6) pos = 8;                                  /* shorter than an RTP header */
    else if (mode == 1) {                                     /* H.264: single NAL, STAP-A or FU-A */
        int k = (s->fl >> 2) % 4;
        if (k == 0) { b[pos++] = 0x65; for (int i = 0; i < pl; i++) b[pos++] = pfx_pattern(s->seq, i); }
        else if (k == 1) { b[pos++] = 24; for (int j = 0; j < 2; j++) { int l = 3 + j * 4; b[pos++] = 0; b[pos++] = l + ((s->fl & 0x20) && j ? 9 : 0); b[pos++] = 0x41; for (int i = 1; i < l; i++) b[pos++] = pfx_pattern(s->seq, i); } }
        else { b[pos++] = 0x60 | 28; b[pos++] = (k == 2 ? 0x80 : (s->fl & 0x20) ? 0x40 : 0) | 5; for (int i = 0; i < pl; i++) b[pos++] = pfx_pattern(s->seq, i); }
    } else if (mode == 2) {                                   /* MPEG-4 audio: AU headers section */
        int nau = 1 + ((s->fl >> 2) & 1), au = 6;
        if ((s->fl >> 3) % 4 == 3) { b[pos++] = 0; b[pos++] = 16; b[pos++] = (200 >> 5); b[pos++] = (200 << 3) & 0xff; au = 10; nau = 1; }   /* a fragment of a larger unit */
        else { b[pos++] = 0; b[pos++] = 16 * nau; for (int j = 0; j < nau; j++) { b[pos++] = au >> 5; b[pos++] = (au << 3) & 0xff; } }
        for (int i = 0; i < au * nau; i++) b[pos++] = pfx_pattern(s->seq, i);
    } else {
        if (type == 14) { pos += 4; }
        if (type == 32) { b[pos] = (s->fl & 0x20) ? 0x04 : 0; pos += 4; if (s->fl & 0x20) pos += 4; }
        for (int i = 0; i < pl && pos < 500; i++) b[pos++] = pfx_pattern(s->seq, i);
    }
    if (pad && pos < 500) { int np = 1 + (s->fl >> 5) % 4; if ((s->fl & 0x1c) == 0x1c) np = 200; for (int i = 0; i < np - 1 && i < 3; i++) b[pos++] = 0; b[pos++] = np; }
    struct uref *u = blk_from_bytes(c, b, pos, 1 + (s->sz >> 6) % 2, s->seq);
    if (u) stamp(c, n, u, s, 0);
    return u;
}
static void ctl_rtpd(struct ctx *c, struct node *n, uint8_t sel, char *what, size_t wlen)
{
    uint64_t lost = 0; int e = upipe_rtpd_get_packets_lost(n->upipe, &lost); CTL("get_packets_lost -> %d (%llu)", e, (unsigned long long)lost);
}
static void ctl_rtpr(struct ctx *c, struct node *n, uint8_t sel, char *what, size_t wlen)
{
    static const uint64_t d[4] = { 0, TICK, UCLOCK_FREQ / 10, 1 };
    uint64_t v = 0; int e;
    switch (sel % 4) {
    case 0: e = upipe_rtpr_set_delay(n->upipe, d[(sel >> 2) % 4]); CTL("set_delay(%llu) -> %d", (unsigned long long)d[(sel >> 2) % 4], e); break;
    case 1: e = upipe_rtpr_get_delay(n->upipe, &v); CTL("get_delay -> %d", e); break;
    default: ctl_attach(c, n, sel >> 2, what, wlen); break;
    }
}
static void ctl_rtpr_sub(struct ctx *c, struct node *n, uint8_t sel, char *what, size_t wlen)
{
    uint64_t v = 0; int e = upipe_rtpr_sub_get_max_delay(n->upipe, &v); CTL("sub_get_max_delay -> %d", e);
}

/* -- ID3v2 (driven through the stand-in header shim/bitstream/id3/id3v2.h) */
static int put_id3(uint8_t *b, int body, uint8_t flags, uint64_t seq, bool ff)
{
    b[0] = 'I'; b[1] = 'D'; b[2] = '3'; b[3] = 4; b[4] = 0; b[5] = flags;
    b[6] = 0; b[7] = 0; b[8] = (body >> 7) & 0x7f; b[9] = body & 0x7f;
    for (int i = 0; i < body; i++) b[10 + i] = 0x20 | (pfx_pattern(seq, i) & 0x1f);       /* never 'I', never 0xff */
    if (ff && body >= 4) { b[11] = 0xff; b[12] = (flags & 0x80) ? 0x00 : 0xe3; }
    return 10 + body;
}
static struct uref *in_id3d(struct ctx *c, struct node *n, struct inspec *s)
{
    static uint8_t b[512];
    int pos = 0, shape = s->sz % 8;
    memset(b, 0x2e, sizeof b);
    switch (shape) {
    case 0: pos = 20; break;
    case 1: pos = put_id3(b, 12, 0, s->seq, false); break;
    case 2: pos = 7; pos += put_id3(b + pos, 9, 0, s->seq, (s->sz & 8) != 0); pos += 5; break;
    /* a tag in two buffers; the 10-octet header is never split: upipe_id3v2d_parse sizes a stack array from the size field
     * before checking anything, so a header completed by foreign octets overflows the stack (outside C01/C04/C05) */
    case 3: put_id3(b, 20, 0, s->seq, false); pos = 12; break;                      /* the beginning of a tag */
    case 4: put_id3(b, 20, 0, s->seq, false); memmove(b, b + 12, 18); pos = 18; break;  /* ... and the rest */
    case 5: pos = put_id3(b, 16, 0x80, s->seq, true); pos += 3; break;               /* unsynchronised tag */
    case 6: b[0] = 'I'; b[1] = 'D'; b[5] = 'I'; pos = 12; break;                      /* false starts */
    default: put_id3(b, 300, 0, s->seq, false); pos = 40; break;                      /* announces more than there is */
    }
    struct uref *u = blk_from_bytes(c, b, pos, 1 + (s->sz >> 6) % 2, s->seq);
    if (u) stamp(c, n, u, s, 0);
    return u;
}
static struct uref *in_id3e_sub(struct ctx *c, struct node *n, struct inspec *s)
{
    static uint8_t b[256];
    int pos, shape = s->sz % 8;
    memset(b, 0x2e, sizeof b);
    switch (shape) {
    case 5: pos = 6; b[0] = 'I'; break;                                               /* shorter than a header */
    case 6: pos = put_id3(b, 12, 0, s->seq, false); b[9] = 40; break;                   /* size field beyond the buffer */
    case 7: pos = put_id3(b, 12, 0, s->seq, false); b[0] = 'X'; break;                  /* not a tag */
    case 4: pos = put_id3(b, 16, 0, s->seq, true); break;                              /* needs unsynchronisation */
    default: pos = put_id3(b, 4 + 3 * shape, 0, s->seq, false); break;
    }
    struct uref *u = blk_from_bytes(c, b, pos, 1 + (s->sz >> 6) % 2, s->seq);
    if (u) stamp(c, n, u, s, 0);
    return u;
}

/* ================================================================ second bank of types (indices 33..) */
/* -- grid: inputs hold pictures / sound, outputs pick from the selected input at the date of a reference uref */
static struct upipe *alloc_grid_in(struct ctx *c, struct node *n, struct uprobe *probe, int v, bool *must_fail)
{ return upipe_grid_alloc_input(main_pipe(c), probe); }
static struct upipe *alloc_grid_out(struct ctx *c, struct node *n, struct uprobe *probe, int v, bool *must_fail)
{ return upipe_grid_alloc_output(main_pipe(c), probe); }
static void ctl_grid(struct ctx *c, struct node *n, uint8_t sel, char *what, size_t wlen)
{
    static const uint64_t r[4] = { UCLOCK_FREQ, 0, TICK, 10 * (uint64_t)UCLOCK_FREQ };
    if (sel & 1) { ctl_attach(c, n, sel >> 1, what, wlen); return; }
    int e = upipe_grid_set_max_retention(n->upipe, r[(sel >> 1) % 4]); CTL("set_max_retention(%llu) -> %d", (unsigned long long)r[(sel >> 1) % 4], e);
}
static void ctl_grid_out(struct ctx *c, struct node *n, uint8_t sel, char *what, size_t wlen)
{
    struct upipe *in = NULL; int e;
    switch (sel % 4) {
    case 0: case 1: {
        struct node *t = &c->n[N_SUB0 + (sel >> 2) % NSUB];
        bool ok = node_alive(c, t) && t->held && t->sk == 0;      /* an input of this grid the caller holds */
        e = upipe_grid_out_set_input(n->upipe, ok ? t->upipe : NULL);
        CTL("out_set_input(%s) -> %d", ok ? node_name(c, t) : "NULL", e); break; }
    case 2: e = upipe_grid_out_get_input(n->upipe, &in); CTL("out_get_input -> %d", e); break;
    default: { int k = 0; upipe_grid_out_foreach_input(n->upipe, in) k++; CTL("out_iterate_input -> %d inputs", k); break; }
    }
}
/* -- rtp_pcm_pack / unpack */
static struct uref *def_pcm_pack(struct ctx *c, struct node *n, int v)
{
    if (v == 3) return def_sound_fmt(c, SF_F32PL2);
    return def_sound(c, n, v);
}
static void ctl_pcm_pack(struct ctx *c, struct node *n, uint8_t sel, char *what, size_t wlen)
{
    static const char *const opt[4] = { "output-samples", "output-time", "bogus", NULL };
    /* nothing below 48 samples per packet: one 1920-sample buffer would come out as hundreds of packets and flood the fixture's logs */
    static const char *const val[6] = { "48", "0", "1000", "abc", "-5", NULL };
    const char *o = opt[sel % 4], *v = val[(sel >> 2) % 6];
    if (sel % 4 == 1 && (sel >> 2) % 6 == 0) v = "20000";
    int e = upipe_set_option(n->upipe, o, v);
    CTL("set_option(%s, %s) -> %d", o ? o : "NULL", v ? v : "NULL", e);
}
static struct uref *def_pcm_unpack(struct ctx *c, struct node *n, int v)
{
    if (v == 3) return def_block(c, "foo.", 0);
    struct uref *u = def_block(c, "s24be.sound.", v);
    if (!u) return NULL;
    uref_sound_flow_set_rate(u, 48000);
    uref_sound_flow_set_channels(u, v == 1 ? 1 : 2);
    return u;
}
/* -- stream_switcher: inputs need original dates */
static struct uref *in_switcher(struct ctx *c, struct node *n, struct inspec *s)
{
    struct uref *u = in_block(c, n, s);
    if (!u) return NULL;
    uint64_t t = 0;
    if ((s->fl & 15) != 6 && ubase_check(uref_clock_get_cr_prog(u, &t))) uref_clock_set_cr_orig(u, t);
    return u;
}
static void ctl_switcher_sub(struct ctx *c, struct node *n, uint8_t sel, char *what, size_t wlen)
{
    static const unsigned ml[4] = { 0, 1, 8, 255 };
    if (sel & 1) { unsigned m = 0; int e = upipe_get_max_length(n->upipe, &m); CTL("get_max_length -> %d (%u)", e, m); }
    else { int e = upipe_set_max_length(n->upipe, ml[(sel >> 1) % 4]); CTL("set_max_length(%u) -> %d", ml[(sel >> 1) % 4], e); }
}
/* -- auto_inner: a bin that picks the first inner manager accepting the definition */
static struct upipe *alloc_autoin(struct ctx *c, struct node *n, struct uprobe *probe, int v, bool *must_fail)
{
    struct upipe_mgr *mgr = upipe_autoin_mgr_alloc();
    if (!mgr) return NULL;
    upipe_autoin_mgr_add_mgr(mgr, "mpeg4", upipe_rtp_mpeg4_mgr_alloc());
    upipe_autoin_mgr_add_mgr(mgr, "crop", upipe_crop_mgr_alloc());
    if (v != 1) upipe_autoin_mgr_add_mgr(mgr, "any", upipe_noclock_mgr_alloc());
    upipe_autoin_mgr_add_mgr(mgr, NULL, NULL);                       /* invalid: refused */
    upipe_autoin_mgr_add_mgr(mgr, "again", upipe_crop_mgr_alloc());  /* already there */
    if (v == 2) upipe_autoin_mgr_del_mgr(mgr, upipe_crop_mgr_alloc());
    struct uref *fd = def_block(c, "whatever.", 0);
    struct upipe *p = v == 3 ? upipe_void_alloc(mgr, probe) : upipe_flow_alloc(mgr, probe, fd);
    uref_free(fd);
    upipe_mgr_release(mgr);
    return p;
}
static struct uref *def_autoin(struct ctx *c, struct node *n, int v)
{
    /* every attempt allocates up to three inner pipes on the same probe: two definitions per case fit the fixture's track table */
    if (n->name >= 2) return NULL;
    n->name++;
    if (v == 3 && n->kind == K_BLOCK) return def_block(c, "aac.sound.", 0);     /* picks the first inner manager */
    return def_generic(c, n, v == 3 ? 1 : v);
}
/* -- rtp_demux: a refcounted manager; each sub-pipe is a bin rtp_decaps -> idem */
static struct upipe *alloc_rtp_demux(struct ctx *c, struct node *n, struct uprobe *probe, int v, bool *must_fail)
{
    struct upipe_mgr *mgr = upipe_rtp_demux_mgr_alloc();
    if (!mgr) return NULL;
    struct upipe *p = upipe_void_alloc(mgr, probe);
    upipe_mgr_release(mgr);
    return p;
}
/* -- vanc_decoder: bit-packed ancillary packets */
struct bitw { uint8_t *b; int pos; };
static void bw_put(struct bitw *w, unsigned v, int nb) { for (int i = nb - 1; i >= 0; i--) { if ((v >> i) & 1) w->b[w->pos >> 3] |= 0x80 >> (w->pos & 7); w->pos++; } }
static unsigned par10(unsigned v) { unsigned p = __builtin_parity(v & 0xff); return (v & 0xff) | (p << 8) | ((!p) << 9); }
static struct uref *def_vanc(struct ctx *c, struct node *n, int v)
{
    if (v == 3) return def_block(c, "foo.", 0);
    return def_block(c, "vanc.pic.", v);
}
static struct uref *in_vanc(struct ctx *c, struct node *n, struct inspec *s)
{
    static uint8_t b[256];
    memset(b, 0, sizeof b);
    struct bitw w = { b, 0 };
    int shape = s->sz % 8, npk = 1 + (s->sz >> 3) % 2;
    if (shape == 6) { w.pos = 8 * 5; }                              /* shorter than a packet header */
    else for (int k = 0; k < npk; k++) {
        unsigned dc = (unsigned[]){ 2, 0, 5, 9 }[(s->sz >> 4) % 4];
        bw_put(&w, shape == 5 ? 1 : 0, 6);
        bw_put(&w, (s->fl >> 4) & 1, 1);
        bw_put(&w, shape == 4 ? 0 : 9 + k, 11);
        bw_put(&w, 12, 12);
        uint16_t words[16]; int nw = 0;
        words[nw++] = par10(0x61); words[nw++] = par10(0x01 + k); words[nw++] = par10(shape == 3 ? 200 : dc);
        for (unsigned i = 0; i < dc; i++) words[nw++] = par10(pfx_pattern(s->seq, i));
        unsigned cs = 0; for (int i = 0; i < nw; i++) cs += words[i] & 0x1ff;
        cs &= 0x1ff; cs |= (~cs & 0x100) << 1;
        if (shape == 2) cs ^= 1;                                    /* wrong checksum */
        for (int i = 0; i < nw; i++) bw_put(&w, words[i], 10);
        bw_put(&w, cs, 10);
        /* alignment to the next octet: ones (the format), or zeros when the tape says so */
        while (w.pos & 7) bw_put(&w, shape == 1 ? 0 : 1, 1);
    }
    struct uref *u = blk_from_bytes(c, b, (w.pos + 7) / 8, 1, s->seq);
    if (u) stamp(c, n, u, s, 0);
    return u;
}
/* -- dtsdi: a 16-octet file header, then SDI frames of 1 801 800 octets (525i, the smallest) in quarters */
#define DTSDI_FRAME (2 * 2 * 525 * 858)
static struct uref *in_dtsdi(struct ctx *c, struct node *n, struct inspec *s)
{
    static uint8_t *big;
    if (!big) { hc_pause(1); big = malloc(DTSDI_FRAME / 4 + 64); hc_pause(-1); if (!big) return NULL; }
    int shape = s->sz % 8, size;
    if (n->vpos == 0 || shape == 7) {                       /* (re)start: header, valid or not */
        memset(big, 0, 64);
        memcpy(big, "DekTec.dtsdi", 12);
        big[12] = (s->sz >> 3) & 1; big[13] = (s->sz & 0x20) ? 0x7f : 0x02; big[14] = 0x01; big[15] = 0x01;
        if ((s->sz & 0xc0) == 0xc0) big[0] = 'X';
        int hs = 16 + 8 * big[12];
        memset(big + hs, pfx_pattern(s->seq, 0), DTSDI_FRAME / 4);
        size = hs + DTSDI_FRAME / 4;
        n->vpos = 1;
    } else if (shape == 6) { memset(big, 0x11, 64); size = 64; }
    else { memset(big, pfx_pattern(s->seq, 1), DTSDI_FRAME / 4); size = DTSDI_FRAME / 4; }
    struct uref *u = blk_from_bytes(c, big, size, 1, s->seq);
    if (u) stamp(c, n, u, s, 0);
    return u;
}
static void ctl_dtsdi(struct ctx *c, struct node *n, uint8_t sel, char *what, size_t wlen)
{
    unsigned v = 0;
    if (sel & 1) { int e = upipe_get_output_size(n->upipe, &v); CTL("get_output_size -> %d (%u)", e, v); }
    else { int e = upipe_set_output_size(n->upipe, (sel >> 1) * 1000); CTL("set_output_size(%u) -> %d", (sel >> 1) * 1000, e); }
}
/* -- s337_encaps */
static struct uref *def_s337(struct ctx *c, struct node *n, int v)
{
    if (v == 3) return def_block(c, "ac3.sound.", 0);      /* no rate: refused */
    struct uref *u = def_block(c, v == 1 ? "ac3.sound.x." : "ac3.sound.", v);
    if (u) uref_sound_flow_set_rate(u, 48000);
    return u;
}
/* -- graph */
static struct upipe *alloc_graph_sub(struct ctx *c, struct node *n, struct uprobe *probe, int v, bool *must_fail)
{
    struct uref *fd = uref_alloc_control(UM(c));
    if (!fd) return NULL;
    uref_flow_set_def(fd, v == 3 ? "block.foo." : UREF_GRAPH_FLOW_DEF);
    uref_graph_flow_set_name(fd, "g");
    if (v == 1) { uref_graph_flow_set_color(fd, "rgb(255, 0, 0)"); uref_graph_flow_set_filled(fd); uref_graph_flow_set_stacked(fd); }
    if (v == 2) { uref_graph_flow_set_color(fd, "not a colour"); uref_graph_flow_set_interpolated(fd); }
    *must_fail = v == 3;
    struct upipe *p = upipe_flow_alloc_sub(main_pipe(c), probe, fd);
    uref_free(fd);
    return p;
}
static struct uref *def_graph_sub(struct ctx *c, struct node *n, int v)
{
    struct uref *u = uref_alloc_control(UM(c));
    if (u) uref_flow_set_def(u, v == 3 ? "block.foo." : UREF_GRAPH_FLOW_DEF);
    extra(u, v);
    return u;
}
static struct uref *in_graph_sub(struct ctx *c, struct node *n, struct inspec *s)
{
    struct uref *u = in_void(c, n, s);
    if (u && s->sz % 4 != 3) uref_graph_set_value(u, (int64_t)(s->sz % 16) * 7 - 30);
    return u;
}
static void ctl_graph(struct ctx *c, struct node *n, uint8_t sel, char *what, size_t wlen)
{
    static const int64_t lim[4] = { 0, 100, -50, 7 };
    static const char *const col[3] = { "rgb(0, 128, 255)", "rgba(1, 2, 3, 4)", "blue?" };
    int e;
    switch (sel % 4) {
    case 0: e = upipe_graph_set_minimum(n->upipe, lim[(sel >> 2) % 4]); CTL("set_minimum(%lld) -> %d", (long long)lim[(sel >> 2) % 4], e); break;
    case 1: e = upipe_graph_set_maximum(n->upipe, lim[(sel >> 2) % 4]); CTL("set_maximum(%lld) -> %d", (long long)lim[(sel >> 2) % 4], e); break;
    case 2: e = upipe_graph_set_color(n->upipe, col[(sel >> 2) % 3]); CTL("set_color(%s) -> %d", col[(sel >> 2) % 3], e); break;
    default: {
        uint64_t h = (uint64_t[]){ 4, 60, 1, 300 }[(sel >> 2) % 4];
        e = upipe_graph_set_history(n->upipe, h); CTL("set_history(%llu) -> %d", (unsigned long long)h, e); break; }
    }
}
static void ctl_graph_sub(struct ctx *c, struct node *n, uint8_t sel, char *what, size_t wlen)
{
    static const char *const col[3] = { "rgb(9, 9, 9)", "rgba(1, 2, 3, 4)", "" };
    if (sel & 1) { int e = upipe_graph_sub_set_value(n->upipe, (int64_t)(sel >> 1) - 40); CTL("sub_set_value(%d) -> %d", (sel >> 1) - 40, e); }
    else { int e = upipe_graph_sub_set_color(n->upipe, col[(sel >> 1) % 3]); CTL("sub_set_color(%s) -> %d", col[(sel >> 1) % 3], e); }
}
/* -- id3v2 (bin around id3v2_decaps): tags with PRIV frames */
static struct uref *in_id3bin(struct ctx *c, struct node *n, struct inspec *s)
{
    if (s->sz % 4 != 1) return in_id3d(c, n, s);
    static uint8_t b[256];
    static const char apple[] = "com.apple.streaming.transportStreamTimestamp";
    const char *owner = (s->sz & 0x10) ? "x.other" : apple;
    int ol = strlen(owner) + 1, dl = 8, body = 10 + ol + dl + ((s->sz & 0x20) ? 6 : 0);
    memset(b, 0, sizeof b);
    put_id3(b, body, 0, s->seq, false);
    uint8_t *f = b + 10;
    memcpy(f, "PRIV", 4); f[7] = ol + dl;
    memcpy(f + 10, owner, ol);
    for (int i = 0; i < dl; i++) f[10 + ol + i] = i + 1;
    if (s->sz & 0x40) { f[10 + ol - 1] = 'y'; for (int i = 0; i < dl; i++) f[10 + ol + i] = 'z'; }     /* owner not terminated inside the frame */
    memset(f + 10 + ol + dl, 0, body - (10 + ol + dl));                                            /* padding */
    int pos = 10 + body;
    memset(b + pos, 0x2e, 9); pos += 9;
    struct uref *u = blk_from_bytes(c, b, pos, 1 + (s->sz >> 7), s->seq);
    if (u) stamp(c, n, u, s, 0);
    return u;
}

/* -- source bins over the stand-in source */
static const char *const uris[8] = { "stub://a", "alt://b", "stub://c", "nosuch://x", "plain-path", "stub://bad", "alt://d", "stub://e" };
static struct upipe *alloc_auto_src(struct ctx *c, struct node *n, struct uprobe *probe, int v, bool *must_fail)
{
    struct upipe_mgr *mgr = upipe_auto_src_mgr_alloc(), *got = NULL;
    if (!mgr) return NULL;
    upipe_auto_src_mgr_set_mgr(mgr, "stub", &wsrc_mgr);
    upipe_auto_src_mgr_set_mgr(mgr, "alt", &wsrc_mgr_b);
    upipe_auto_src_mgr_set_mgr(mgr, "alt", &wsrc_mgr_b);       /* replaces the entry */
    upipe_auto_src_mgr_set_mgr(mgr, NULL, &wsrc_mgr);          /* invalid: refused */
    upipe_auto_src_mgr_get_mgr(mgr, "stub", &got);
    upipe_auto_src_mgr_get_mgr(mgr, "nosuch", &got);
    struct upipe *p = upipe_void_alloc(mgr, probe);
    upipe_mgr_release(mgr);
    return p;
}
static void ctl_src_bin(struct ctx *c, struct node *n, uint8_t sel, char *what, size_t wlen)
{
    const char *u = NULL; unsigned sz = 0; uint64_t v = 0; int e;
    int limit = !strncmp(n->sp->name, "segment", 7) ? 2 : 5;         /* every new inner pipe takes a slot of the probe's track table */
    switch (sel % 8) {
    case 0: case 1: case 2:
        if (n->name >= limit) { e = upipe_get_uri(n->upipe, &u); CTL("get_uri -> %d", e); break; }
        n->name++;
        u = (sel % 8 == 2 && (sel & 0x80)) ? NULL : uris[(sel >> 3) % 8];
        e = upipe_set_uri(n->upipe, u); CTL("set_uri(%s) -> %d", u ? u : "NULL", e); break;
    case 3: e = upipe_get_uri(n->upipe, &u); CTL("get_uri -> %d (%s)", e, u ? u : "null"); break;
    case 4: if (!strncmp(n->sp->name, "segment", 7) && n->name >= limit) { e = upipe_get_output_size(n->upipe, &sz); CTL("get_output_size -> %d", e); break; }
            if (!strncmp(n->sp->name, "segment", 7)) n->name++;
            e = upipe_set_output_size(n->upipe, (sel >> 3) * 9); CTL("set_output_size(%u) -> %d", (sel >> 3) * 9, e); break;
    case 5: e = upipe_get_output_size(n->upipe, &sz); CTL("get_output_size -> %d (%u)", e, sz); break;
    case 6: if (!strncmp(n->sp->name, "segment", 7) && n->name >= limit) { ctl_attach(c, n, 1, what, wlen); break; }
            if (!strncmp(n->sp->name, "segment", 7)) n->name++;
            e = upipe_src_get_size(n->upipe, &v); CTL("src_get_size -> %d", e); break;
    default: ctl_attach(c, n, sel >> 3, what, wlen); break;
    }
}
static struct upipe_mgr *seq_mgr(struct ctx *c)
{
    if (!c->shared_mgr) { c->shared_mgr = upipe_seq_src_mgr_alloc(); if (c->shared_mgr) upipe_seq_src_mgr_set_source_mgr(c->shared_mgr, &wsrc_mgr); }
    return c->shared_mgr;
}
static struct upipe *alloc_seq_src(struct ctx *c, struct node *n, struct uprobe *probe, int v, bool *must_fail)
{
    struct upipe_mgr *mgr = seq_mgr(c);
    return mgr ? upipe_void_alloc(mgr, probe) : NULL;
}

/* ---------------------------------------------------------------- the table */
#define KM(a) (1u << (a))
static const struct wtype table[] = {
    { upipe_noclock_mgr_alloc,        { "noclock", NULL, true, true, true, K_ANY, F_ONE2ONE | F_ORDER }, 0 },
    { upipe_nodemux_mgr_alloc,        { "nodemux", NULL, true, true, true, K_ANY, F_ONE2ONE | F_ORDER }, 0 },
    { upipe_multicat_probe_mgr_alloc, { "multicat_probe", NULL, true, true, true, K_ANY, F_ONE2ONE | F_ORDER, NULL, NULL, ctl_multicat_probe }, 0 },
    { upipe_dejitter_mgr_alloc,       { "dejitter", NULL, true, true, true, K_ANY, F_ONE2ONE | F_ORDER }, 1,
                                      { { "dejitter.sub", NULL, true, true, true, K_ANY, F_ONE2ONE | F_ORDER } } },
    { upipe_dump_mgr_alloc,           { "dump", NULL, true, true, true, K_BLOCK, F_ONE2ONE | F_ORDER, NULL, NULL, ctl_dump }, 0 },
    { upipe_rtp_h264_mgr_alloc,       { "rtp_h264", NULL, true, true, true, K_BLOCK, F_MULTI | F_ORDER, def_h264, in_h264 }, 0 },
    { upipe_rtp_mpeg4_mgr_alloc,      { "rtp_mpeg4", NULL, true, true, true, K_BLOCK, F_ONE2ONE | F_ORDER, def_aac, NULL, NULL, 8 }, 0 },
    { upipe_burst_mgr_alloc,          { "burst", NULL, true, true, true, K_BLOCK, F_HOLD | F_PUMP | F_ORDER, NULL, NULL, ctl_attach }, 0 },
    { upipe_play_mgr_alloc,           { "play", NULL, false, false, false, K_NONE, 0 }, 1,
                                      { { "play.sub", NULL, true, true, true, K_ANY, F_ONE2ONE | F_ORDER } } },
    { upipe_block_to_sound_mgr_alloc, { "block_to_sound", alloc_b2s, true, true, true, K_BLOCK, F_ONE2ONE | F_ORDER }, 0 },
    { upipe_ntsc_prepend_mgr_alloc,   { "ntsc_prepend", NULL, true, true, true, K_PIC, F_ONE2ONE | F_ORDER | F_PICSIZE, def_ntsc, in_ntsc }, 0 },
    { upipe_crop_mgr_alloc,           { "crop", NULL, true, true, true, K_PIC, F_ORDER | F_PICSIZE, NULL, NULL, ctl_crop }, 0 },
    { upipe_separate_fields_mgr_alloc,{ "separate_fields", NULL, true, true, true, K_PIC, F_MULTI | F_ORDER  | F_PICSIZE}, 0 },
    { upipe_row_split_mgr_alloc,      { "row_split", alloc_row_split, true, true, true, K_PIC, F_MULTI | F_ORDER }, 0 },
    { upipe_row_join_mgr_alloc,       { "row_join", NULL, true, true, true, K_PIC, F_HOLD | F_SELFHOLD | F_ATTRMIX, NULL, in_row_join }, 0 },
    { upipe_vblk_mgr_alloc,           { "video_blank", alloc_vblk, true, true, true, K_ANY, F_HOLD | F_SELFHOLD | F_ORDER, NULL, NULL, ctl_vblk, 0, KM(K_VOID) | KM(K_PIC) }, 0 },
    { upipe_ablk_mgr_alloc,           { "audio_blank", alloc_ablk, true, true, true, K_ANY, F_ORDER, def_ablk_in, NULL, ctl_ablk, 0, KM(K_VOID) | KM(K_SOUND) }, 0 },
    { upipe_videocont_mgr_alloc,      { "videocont", NULL, true, true, true, K_PIC, F_ATTRMIX | F_PICSIZE | F_PTSMATCH, NULL, NULL, ctl_videocont }, 1,
                                      { { "videocont.sub", NULL, true, false, false, K_PIC, F_HOLD, def_named_pic, NULL, ctl_videocont_sub } } },
    { upipe_audiocont_mgr_alloc,      { "audiocont", alloc_audiocont, true, true, true, K_SOUND, F_ATTRMIX | F_PTSMATCH, NULL, NULL, ctl_audiocont }, 1,
                                      { { "audiocont.sub", NULL, true, false, false, K_SOUND, F_HOLD, def_named_sound, NULL, ctl_audiocont_sub } } },
    { upipe_subpic_schedule_mgr_alloc,{ "subpic_schedule", NULL, true, true, true, K_PIC, F_ORDER  | F_PICSIZE}, 1,
                                      { { "subpic_schedule.sub", NULL, true, true, true, K_PIC, F_HOLD | F_MULTI } } },
    { upipe_blit_mgr_alloc,           { "blit", NULL, true, true, true, K_PIC, F_HOLD | F_MULTI | F_PUMP | F_PICSIZE, NULL, NULL, ctl_blit }, 1,
                                      { { "blit.sub", NULL, true, false, false, K_PIC, F_HOLD | F_NOSEQ, def_blit_sub, in_blit_sub, ctl_blit_sub } } },
    { upipe_sync_mgr_alloc,           { "sync", NULL, true, true, true, K_PIC, F_HOLD | F_MULTI | F_PUMP | F_UCLOCK | F_PICSIZE, NULL, NULL, ctl_attach }, 1,
                                      { { "sync.sub", NULL, true, true, true, K_SOUND, F_HOLD | F_MULTI | F_NOSEQ } } },
    { upipe_audio_split_mgr_alloc,    { "audio_split", NULL, true, false, false, K_SOUND, 0 }, 1,
                                      { { "audio_split.sub", alloc_split_sub, false, true, true, K_NONE, F_MULTI } } },
    { upipe_audio_merge_mgr_alloc,    { "audio_merge", alloc_merge, false, true, true, K_NONE, F_ATTRMIX }, 1,
                                      { { "audio_merge.sub", NULL, true, false, false, K_SOUND, F_HOLD } } },
    { upipe_voidsrc_mgr_alloc,        { "void_source", alloc_voidsrc, false, true, true, K_NONE, F_SOURCE | F_PUMP, NULL, NULL, ctl_attach }, 0 },
    { upipe_blksrc_mgr_alloc,         { "blank_source", alloc_blksrc, true, true, true, K_PIC, F_SOURCE | F_PUMP | F_HOLD | F_ATTRMIX | F_MULTI, NULL, NULL, ctl_attach }, 0 },
    { upipe_sinesrc_mgr_alloc,        { "sine_wave_source", NULL, false, true, true, K_NONE, F_SOURCE | F_PUMP, NULL, NULL, ctl_attach }, 0 },
    { upipe_rtp_prepend_mgr_alloc,    { "rtp_prepend", NULL, true, true, true, K_BLOCK, F_ONE2ONE | F_ORDER, def_rtp_prepend, NULL, ctl_rtp_prepend }, 0 },
    { upipe_rtcp_mgr_alloc,           { "rtcp", NULL, true, true, true, K_BLOCK, F_SOURCE | F_NOSEQ, NULL, NULL, ctl_rtcp }, 0 },
    { upipe_rtpd_mgr_alloc,           { "rtp_decaps", NULL, true, true, true, K_BLOCK, F_HOLD | F_MULTI, def_rtpd, in_rtp, ctl_rtpd }, 0 },
    { upipe_rtpr_mgr_alloc,           { "rtp_reorder", NULL, false, true, true, K_NONE, F_HOLD | F_PUMP | F_UCLOCK, NULL, NULL, ctl_rtpr }, 1,
                                      { { "rtp_reorder.sub", NULL, true, false, true, K_BLOCK, F_HOLD, def_rtpd, in_rtp, ctl_rtpr_sub } } },
    { upipe_id3v2d_mgr_alloc,         { "id3v2_decaps", NULL, true, true, true, K_BLOCK, F_HOLD | F_MULTI | F_ATTRMIX, NULL, in_id3d }, 0 },
    /* index 32: reached through type 31 with bit 7 of the shape byte (type decoding and the C05 classes have 32 slots) */
    { upipe_id3v2e_mgr_alloc,         { "id3v2_encaps", NULL, true, true, true, K_BLOCK, F_ORDER | F_ATTRMIX }, 1,
                                      { { "id3v2_encaps.sub", NULL, true, false, false, K_BLOCK, F_HOLD, NULL, in_id3e_sub } } },    /* ---- second bank (selected when the two top bits of the configuration byte are set): index 33 + ((type byte * 11) & 15) ---- */
    { upipe_grid_mgr_alloc,           { "grid", NULL, false, false, false, K_NONE, F_UCLOCK, NULL, NULL, ctl_grid }, 2,
                                      { { "grid.in", alloc_grid_in, true, false, true, K_ANY, F_HOLD | F_PUMP, NULL, NULL, ctl_attach, 0, KM(K_PIC) | KM(K_SOUND) },
                                        { "grid.out", alloc_grid_out, true, true, true, K_VOID, F_ATTRMIX | F_MULTI | F_PICSIZE, NULL, NULL, ctl_grid_out } } },
    { upipe_rtp_pcm_pack_mgr_alloc,   { "rtp_pcm_pack", NULL, true, true, true, K_SOUND, F_HOLD | F_SELFHOLD | F_MULTI | F_ATTRMIX, def_pcm_pack, NULL, ctl_pcm_pack }, 0 },
    { upipe_rtp_pcm_unpack_mgr_alloc, { "rtp_pcm_unpack", NULL, true, true, true, K_BLOCK, F_HOLD | F_SELFHOLD | F_ORDER, def_pcm_unpack }, 0 },
    { upipe_stream_switcher_mgr_alloc,{ "stream_switcher", NULL, false, true, true, K_NONE, 0 }, 1,
                                      { { "stream_switcher.sub", NULL, true, false, false, K_BLOCK, F_HOLD, NULL, in_switcher, ctl_switcher_sub } } },
    { NULL,                           { "auto_inner", alloc_autoin, true, true, true, K_ANY, F_ORDER, def_autoin }, 0 },
    { NULL,                           { "rtp_demux", alloc_rtp_demux, false, false, false, K_NONE, 0 }, 1,
                                      { { "rtp_demux.sub", NULL, true, true, true, K_BLOCK, F_HOLD | F_MULTI, def_rtpd, in_rtp } } },
    { upipe_id3v2_mgr_alloc,          { "id3v2", NULL, true, true, true, K_BLOCK, F_HOLD | F_MULTI | F_ATTRMIX, NULL, in_id3bin }, 0 },
    { upipe_vancd_mgr_alloc,          { "vanc_decoder", NULL, true, true, true, K_BLOCK, F_MULTI, def_vanc, in_vanc }, 0 },
    { upipe_dtsdi_mgr_alloc,          { "dtsdi", NULL, true, true, true, K_BLOCK, F_HOLD | F_ORDER, NULL, in_dtsdi, ctl_dtsdi }, 0 },
    { upipe_s337_encaps_mgr_alloc,    { "s337_encaps", NULL, true, true, true, K_BLOCK, F_ONE2ONE | F_ORDER | F_SELFHOLD, def_s337 }, 0 },
    { upipe_graph_mgr_alloc,          { "graph", NULL, true, true, true, K_PIC, F_ONE2ONE | F_ORDER | F_PICSIZE, NULL, NULL, ctl_graph }, 1,
                                      { { "graph.sub", alloc_graph_sub, true, false, false, K_VOID, F_NOSEQ, def_graph_sub, in_graph_sub, ctl_graph_sub } } },    { NULL,                           { "auto_source", alloc_auto_src, false, true, true, K_NONE, F_SOURCE | F_PUMP, NULL, NULL, ctl_src_bin }, 0 },
    { NULL,                           { "sequential_source", alloc_seq_src, false, true, true, K_NONE, F_SOURCE | F_PUMP, NULL, NULL, ctl_src_bin }, 1,
                                      { { "sequential_source.peer", alloc_seq_src, false, true, true, K_NONE, F_SOURCE | F_PUMP, NULL, NULL, ctl_src_bin } } },
    { upipe_seg_src_mgr_alloc,        { "segment_source", NULL, false, true, true, K_NONE, F_SOURCE | F_PUMP | F_HOLD, NULL, NULL, ctl_src_bin }, 0 },
};
#define BANK1 33

static const int ntypes = sizeof(table) / sizeof(table[0]);
enum { T_NOCLOCK = 0, T_NODEMUX, T_MULTICAT_PROBE, T_DEJITTER };   /* the first four are also used as head / tail pipes */

/* ---------------------------------------------------------------- statistics (WIDE_STATS=<file>: one line per process at exit) */
static struct { unsigned long cases, data, inputs, delivered; } stats[64];
static bool stats_hooked;
static void stats_dump(void)
{
    const char *p = getenv("WIDE_STATS");
    if (!p) return;
    FILE *f = fopen(p, "a");
    if (!f) return;
    for (int i = 0; i < ntypes; i++) fprintf(f, "%s %lu %lu %lu %lu\n", table[i].main.name, stats[i].cases, stats[i].data, stats[i].inputs, stats[i].delivered);
    fclose(f);
}

/* ---------------------------------------------------------------- nodes */
static const char *node_name(struct ctx *c, struct node *n)
{
    static char buf[4][48]; static int k;
    char *b = buf[k++ & 3];
    snprintf(b, 48, "n%d:%s", n->idx, n->sp ? n->sp->name : "?");
    return b;
}

static int default_sfmt(const struct nspec *sp)
{
    if (!strcmp(sp->name, "audio_split")) return SF_S16P2;
    if (!strcmp(sp->name, "audio_merge.sub")) return SF_S16PL1;
    if (!strncmp(sp->name, "audiocont", 9)) return SF_F32PL2;
    if (!strcmp(sp->name, "sync.sub") || !strcmp(sp->name, "rtp_pcm_pack")) return SF_S32P2;
    return SF_S16PL2;
}

static void node_setup(struct ctx *c, int idx, int type, int sk, int kind_hint, int fmt_hint)
{
    struct node *n = &c->n[idx];
    memset(n, 0, sizeof(*n));
    n->used = true; n->idx = idx; n->type = type; n->sk = sk;
    n->sp = sk < 0 ? &table[type].main : &table[type].sub[sk];
    n->out = -1; n->probe = -1;
    c->seen_flags |= n->sp->flags;
    n->kind = n->sp->in_kind;
    if (n->kind == K_ANY) {
        unsigned km = n->sp->kinds ? n->sp->kinds : 15;
        int k = kind_hint & 3;
        while (!(km & (1u << k))) k = (k + 1) & 3;
        n->kind = k;
    }
    n->fmt = n->kind == K_SOUND ? default_sfmt(n->sp) : (fmt_hint & 1);
    if (!strcmp(n->sp->name, "ntsc_prepend")) n->fmt = 0;
    if (!strcmp(n->sp->name, "graph")) n->fmt = 1;                 /* planar YUV is all it draws on */
    if (!strcmp(n->sp->name, "audio_blank") || !strcmp(n->sp->name, "blank_source")) { if (n->kind != K_SOUND) n->fmt = SF_S16PL2; }
}

static bool node_alive(struct ctx *c, struct node *n) { return n->used && n->upipe != NULL && !n->gone; }

/* allocates the pipe of a prepared node; returns false if there is no pipe afterwards */
static bool node_alloc(struct ctx *c, struct node *n, int variant)
{
    struct uprobe *probe = pfx_probe_alloc(&c->pfx, &n->probe);
    bool must_fail = false;
    if (!probe) return false;
    if (n->sp->alloc) n->upipe = n->sp->alloc(c, n, probe, variant, &must_fail);
    else if (n->sk < 0) n->upipe = upipe_void_alloc(table[n->type].mgr(), probe);
    else n->upipe = upipe_void_alloc_sub(main_pipe(c), probe);
    n->subv = variant;
    R("  %s = alloc(variant %d)%s (probe %d) -> %s\n", node_name(c, n), variant, must_fail ? " [argument outside the documented domain]" : "", n->probe, n->upipe ? "ok" : "NULL");
    if (must_fail && n->upipe == NULL) c->classes |= 1u << CL_ALLOC_REFUSED;
    if (n->upipe == NULL) { n->used = n->sk < 0; n->gone = true; return false; }
    n->held = true;
    if (n->sp->flags & F_UCLOCK) upipe_attach_uclock(n->upipe);
    return true;
}

/* who keeps node n alive */
static void holders(struct ctx *c, struct node *n, bool *strong, bool *weak)
{
    *strong = n->held; *weak = false;
    for (int i = 0; i < NNODE; i++) {
        struct node *y = &c->n[i];
        if (y == n || !y->used || y->upipe == NULL) continue;
        /* a pipe keeps its output until its structure is freed (it lets go of its probe then), which for a super-pipe that
         * announces DEAD when the application lets go (id3v2_encaps) is later than DEAD */
        if (y->out == 100 + n->idx && !pfx_probe_released(&c->pfx, y->probe)) *strong = true;
        if (!node_alive(c, y)) continue;
        if (n->idx == N_MAIN && y->sk >= 0) *weak = true;      /* a sub-pipe holds its super-pipe */
    }
}

static void check_liveness(struct ctx *c, const char *after)
{
    for (int i = 0; i < NNODE && !c->ret; i++) {
        struct node *n = &c->n[i];
        if (!n->used || n->upipe == NULL || n->gone) continue;
        bool dead = node_dead(c, n), strong, weak;
        holders(c, n, &strong, &weak);
        if (strong && dead)
            FAILP(ORACLE_LIFE, "dead/premature", "after %s: %s threw DEAD while %s", after, node_name(c, n), n->held ? "the application still holds a reference" : "the previous pipe still outputs to it");
        if (!strong && !weak && !dead && !(n->sp->flags & F_SELFHOLD))
            FAILP(ORACLE_LIFE, "release/not-dead", "after %s: the last reference on %s is gone but the pipe did not die", after, node_name(c, n));
        if (dead) n->gone = true;
    }
}

static void check_events(struct ctx *c, const char *after)
{
    struct pfx *pfx = &c->pfx;
    for (int i = 0; i < pfx->nprobes && !c->ret; i++) {
        struct pfx_probe *p = pfx->probes[i];
        for (int k = 0; k < p->ntracks; k++) {
            struct pfx_track *t = &p->tracks[k];
            if (t->saw_nonlog && !t->first_nonlog_is_ready)
                FAILP(ORACLE_PROTO, "ready/first", "after %s: the first event of the pipe on probe %d (incarnation %d) other than a log is not READY", after, i, k);
            if (t->dead_count > 1)
                FAILP(ORACLE_PROTO, "dead/once", "after %s: the pipe on probe %d (incarnation %d) threw DEAD %d times", after, i, k, t->dead_count);
            if (t->events_after_dead > 0) {
                const char *txt = ""; int ev = -1;
                for (int e = 0; e < pfx->nevents; e++) if (pfx->events[e].probe == i && pfx->events[e].track == k && pfx->events[e].after_dead) { txt = pfx->events[e].text; ev = pfx->events[e].event; break; }
                FAILP(ORACLE_PROTO, "dead/last", "after %s: the pipe on probe %d (incarnation %d) threw %s%s%s after DEAD", after, i, k, pfx_event_name(ev), txt[0] ? ": " : "", txt);
            }
        }
    }
}

static unsigned case_flags(struct ctx *c)
{
    unsigned f = c->seen_flags;
    for (int i = 0; i < NNODE; i++) if (c->n[i].used && c->n[i].sp) f |= c->n[i].sp->flags;
    c->seen_flags = f;
    return f;
}

static int tap_of_sink(struct ctx *c, int sinkid)
{
    for (int i = 0; i < NTAP; i++) if (c->tap[i] && c->tap[i]->sinkid == sinkid) return i;
    return -1;
}

static uint64_t last_seq[NTAP][NNODE];

/* accounting after every operation: where is every sequence-numbered buffer now? */
static void account(struct ctx *c, const char *what)
{
    struct pfx *pfx = &c->pfx;
    unsigned cf = case_flags(c);
    bool exact = !(cf & (F_MULTI | F_ATTRMIX));
    for (int i = c->rec_mark; i < pfx->nrecs; i++) {
        struct pfx_rec *r = &pfx->recs[i];
        if (r->kind != PFX_INPUT) continue;
        int ti = tap_of_sink(c, r->sink);
        c->delivered++;
        if (ti < 0) continue;
        struct tap *t = c->tap[ti];
        if (t->from >= 0) {
            struct node *fn = &c->n[t->from];
            stats[fn->type].delivered++;
            if (fn->idx >= N_MAIN && fn->idx < N_TAIL) c->delivered_main++;
            if (fn->sk >= 0) c->classes |= 1u << CL_SUBDATA;
        }
        if (r->useq >= MAXSEQ) continue;
        int src = c->seq_node[r->useq];
        if (++c->seq_deliv[r->useq][ti] > 1 && exact)
            FAILP(ORACLE_DATA, "accounting/duplicate", "%s: the buffer seq=%llu reached the same output %d times (no pipe of this case is documented to duplicate)", what, (unsigned long long)r->useq, c->seq_deliv[r->useq][ti]);
        if (!(cf & F_ATTRMIX) && c->n[src].sp && (c->n[src].sp->flags & F_ORDER) && (t->from < 0 || (c->n[t->from].sp->flags & F_ORDER))) {
            if (last_seq[ti][src] != UINT64_MAX && r->useq < last_seq[ti][src])
                FAILP(ORACLE_DATA, "accounting/order", "%s: buffer seq=%llu given to %s comes out after seq=%llu given to the same pipe earlier... later (order-preserving pipes)", what, (unsigned long long)r->useq, node_name(c, &c->n[src]), (unsigned long long)last_seq[ti][src]);
            last_seq[ti][src] = r->useq;
        }
    }
    pfx_sink_drop_kept(pfx, -1);
    /* what is still allocated and carries a sequence number is held by a pipe */
    int held = 0;
    for (int i = 0; i < c->nlive && !c->ret; i++) {
        uint64_t s = pfx_uref_seq(c->live[i]);
        if (s == UINT64_MAX) continue;
        held++;
        if (s >= MAXSEQ || !exact) continue;
        int nd = 0;
        for (int k = 0; k < NTAP; k++) nd += c->seq_deliv[s][k];
        if (nd > 0)
            FAILP(ORACLE_DATA, "accounting/duplicate", "%s: the buffer seq=%llu was delivered and is also still held by a pipe (no pipe of this case is documented to duplicate)", what, (unsigned long long)s);
    }
    if (held) c->classes |= 1u << CL_HELD;
    if (c->bad_free) FAILP(ORACLE_DATA || ORACLE_LIFE, "accounting/double-free", "%s: a uref that is not allocated was freed", what);
}

static void end_op(struct ctx *c, const char *what)
{
    if (c->render) pfx_render_since(&c->pfx, c->rep, c->ev_mark, c->rec_mark);
    check_events(c, what);
    check_liveness(c, what);
    account(c, what);
    c->ev_mark = c->pfx.nevents;
    c->rec_mark = c->pfx.nrecs;
}

/* ---------------------------------------------------------------- operations */
static void do_loop(struct ctx *c, uint8_t sel);
static struct node *pick_node(struct ctx *c, bool need_in, bool need_out)
{
    int cand[NNODE], nc = 0;
    for (int i = 0; i < NNODE; i++) {
        struct node *n = &c->n[i];
        if (!node_alive(c, n) || !n->held) continue;
        if (need_in && !n->sp->has_in) continue;
        if (need_in && i == N_TAIL) continue;            /* the tail only sees what the pipe before it sends */
        if (need_in && i == N_MAIN && node_alive(c, &c->n[N_HEAD]) && c->n[N_HEAD].out == 100 + N_MAIN) continue;   /* one feeder at a time */
        if (need_out && !n->sp->has_out) continue;
        cand[nc++] = i;
    }
    uint8_t b = tp_u8(&c->t);
    if (!nc) return NULL;
    /* byte 0 = the pipe under test when it qualifies */
    for (int i = 0; i < nc; i++) if (cand[i] == N_MAIN) { int t = cand[0]; cand[0] = N_MAIN; cand[i] = t; break; }
    return &c->n[cand[b % nc]];
}

/* the head pipe is fed with what the pipe under test takes */
static const struct nspec *feed_spec(struct ctx *c, struct node *n) { return n->idx == N_HEAD ? c->n[N_MAIN].sp : n->sp; }
static struct uref *node_def(struct ctx *c, struct node *n, int v)
{
    const struct nspec *sp = feed_spec(c, n);
    if (sp->mk_def) return sp->mk_def(c, n, v);
    return def_generic(c, n, v);
}

static bool do_set_flow_def(struct ctx *c, struct node *n, int v, const char *why)
{
    struct uref *fd = node_def(c, n, v);
    if (!fd) return false;
    int err = upipe_set_flow_def(n->upipe, fd);
    uref_free(fd);
    char what[96];
    snprintf(what, sizeof what, "set_flow_def(%s, v%d)", node_name(c, n), v);
    R("  %s -> %d%s\n", what, err, why);
    if (ubase_check(err)) {
        if (n->has_def && n->defv != v && n->fed) c->classes |= 1u << CL_FLOWDEF_CHANGE;
        n->has_def = true; n->defv = v; n->def_unconfirmed = false;
        if (!strcmp(n->sp->name, "dtsdi")) n->vpos = 0;               /* the pipe expects a file header again */
        if (n->kind == K_PIC) { vsize(v, &n->w, &n->h); if (!strcmp(n->sp->name, "blit.sub")) { n->w = 16; n->h = 8; } }
    }
    end_op(c, what);
    return ubase_check(err);
}

static bool oob_flowdef_type(const char *name)
{
    static const char *const t[] = { "sync", "blit", NULL };
    for (int i = 0; t[i]; i++) if (!strcmp(name, t[i])) return true;
    return false;
}

static void op_set_flow_def(struct ctx *c)
{
    struct node *n = pick_node(c, true, false);
    int v = tp_u8(&c->t) % 4;
    if (!n) return;
    if (v == 3 && n->sp->in_kind == K_ANY && !n->sp->kinds) v = 1;     /* nothing is invalid for a pipe that takes any flow */
    c->hash = vp_hash_mix(c->hash, 0x200 + n->idx * 8 + v);
    /* named exclusion flowdef-change-out-of-band (open finding of C04, known_findings.json; the same defect as in the holding
     * pipes of the `hold` executor): upipe_sync and upipe_blit store a new input definition at once while they still hold
     * pictures of the previous flow, which then leave under (and after) the new definition. The generator does not change
     * the picture size of such a pipe while it holds pictures. */
    if (!(c->flags & VP_NO_EXCLUDE) && c->n[N_MAIN].sp && oob_flowdef_type(c->n[N_MAIN].sp->name) && (n->idx == N_MAIN || n->idx == N_HEAD) &&
        n->has_def && n->kind == K_PIC && v < 3) {
        int w, h; vsize(v, &w, &h);
        bool holds = false;     /* (a picture given to the head pipe sits in the sync pipe as well) */
        for (int i = 0; i < c->nlive; i++) { uint64_t q = pfx_uref_seq(c->live[i]); if (q < MAXSEQ && (c->seq_node[q] == N_MAIN || c->seq_node[q] == N_HEAD)) holds = true; }
        if (holds && (w != n->w || h != n->h)) { c->excluded++; c->classes |= 1u << CL_EXCLUDED; R("  (set_flow_def(%s, v%d) left out: exclusion flowdef-change-out-of-band)\n", node_name(c, n), v); return; }
    }
    do_set_flow_def(c, n, v, "");
}

static void do_input(struct ctx *c, struct node *n, uint8_t sz, uint8_t fl);
static void op_input(struct ctx *c)
{
    struct node *n = pick_node(c, true, false);
    uint8_t sz = tp_u8(&c->t), fl = tp_u8(&c->t);
    if (!n) { do_loop(c, sz); return; }          /* a pure source is driven by the event loop */
    do_input(c, n, sz, fl);
}

static void do_input(struct ctx *c, struct node *n, uint8_t sz, uint8_t fl)
{
    if (c->next_seq >= MAXSEQ) return;
    /* legal histories only: whoever feeds a pipe sends it a flow definition it accepts first (doc/rules) */
    if (!n->has_def) {
        if (!do_set_flow_def(c, n, 0, "   [implied before the first buffer]") || c->ret) return;
    } else if (n->def_unconfirmed) {
        /* the definition came through the head pipe, which does not tell whether this pipe accepted it: the application
         * sends it itself before it feeds the pipe directly, and feeds only what was accepted */
        n->def_unconfirmed = false;
        int v = n->defv;
        n->has_def = false;
        if (!do_set_flow_def(c, n, v, "   [sent again before feeding the pipe directly]") || c->ret) return;
    }
    struct inspec s = { .seq = c->next_seq, .sz = sz, .fl = fl };
    const struct nspec *fsp = feed_spec(c, n);
    struct uref *in = fsp->mk_in ? fsp->mk_in(c, n, &s) : in_generic(c, n, &s);
    if (!in) { c->ret = vp_internal(c->rep, "cannot build an input for %s", node_name(c, n)); return; }
    c->next_seq++;
    c->seq_node[s.seq] = n->idx;
    size_t bsize = 0;
    if (n->kind == K_BLOCK) uref_block_size(in, &bsize);
    char what[112];
    snprintf(what, sizeof what, "input(%s, seq=%llu %s sz=%u fl=%02x)", node_name(c, n), (unsigned long long)s.seq, kind_names[n->kind], sz, fl);
    R("  %s\n", what);
    c->hash = vp_hash_mix(c->hash, 0x100 + n->idx * 65536 + sz * 256 + fl);
    n->fed = true; n->nin++; c->any_data = true;
    stats[n->type].inputs++;
    upipe_input(n->upipe, in, NULL);
    if (n->idx == N_HEAD && n->out == 100 + N_MAIN) {      /* the head has passed its definition on */
        struct node *m = &c->n[N_MAIN];
        m->has_def = true; m->defv = n->defv; m->w = n->w; m->h = n->h; m->nin += 1; m->fed = true; m->def_unconfirmed = true;
        if (m->pts < n->pts) m->pts = n->pts;
    }
    /* strict check for pipes documented one-to-one and synchronous: this very buffer must now be at the output */
    if (ORACLE_DATA && !c->ret && (n->sp->flags & F_ONE2ONE) && !(n->kind == K_BLOCK && (int)bsize < n->sp->min_size) && !(case_flags(c) & F_ATTRMIX)) {
        struct node *x = n;
        bool ok = true;
        while (x->out >= 100) {
            struct node *y = &c->n[x->out - 100];
            if (!node_alive(c, y) || !(y->sp->flags & F_ONE2ONE) || y->type > T_DEJITTER || y->sk >= 0) { ok = false; break; }
            x = y;
        }
        if (ok && x->out >= 0 && x->out < NTAP && node_alive(c, x)) {
            struct tap *t = c->tap[x->out];
            int cnt = 0;
            for (int i = c->rec_mark; i < c->pfx.nrecs; i++)
                if (c->pfx.recs[i].kind == PFX_INPUT && c->pfx.recs[i].sink == t->sinkid && c->pfx.recs[i].useq == s.seq) cnt++;
            if (t->state == 1 && cnt == 0)
                FAILP(true, "delivery/lost", "%s: the pipe is one-to-one and its output accepted the flow definition, but the buffer did not come out", what);
            else if (cnt > 1)
                FAILP(true, "delivery/duplicate", "%s: the buffer came out %d times of a one-to-one pipe", what, cnt);
        }
    }
    end_op(c, what);
}

static void connect_out(struct ctx *c, struct node *n, int target, const char *why)
{
    struct upipe *tp = NULL;
    char tn[32] = "NULL";
    if (target >= 100) { tp = c->n[target - 100].upipe; snprintf(tn, sizeof tn, "%s", node_name(c, &c->n[target - 100])); }
    else if (target >= 0) { tp = &c->tap[target]->upipe; snprintf(tn, sizeof tn, "tap%c", 'A' + target); }
    /* what the pipe does to its previous output while switching is attributed to the old link; the new link starts now */
    if (target >= 0 && target < NTAP) {
        for (int i = 0; i < NNODE; i++) if (c->n[i].used && c->n[i].out == target && &c->n[i] != n) c->n[i].out = -1;
        c->tap[target]->from = n->idx; c->tap[target]->state = 0;
        for (int k = 0; k < NNODE; k++) last_seq[target][k] = UINT64_MAX;
    }
    int prev = n->out;
    n->out = target;
    int err = upipe_set_output(n->upipe, tp);
    char what[96];
    snprintf(what, sizeof what, "set_output(%s, %s)", node_name(c, n), tn);
    R("  %s -> %d%s\n", what, err, why);
    if (!ubase_check(err)) { FAILP(ORACLE_PROTO, "output/set", "%s fails (%d)", what, err); n->out = prev; }
    if (n->fed && prev != target) c->classes |= 1u << CL_SWAP_AFTER_DATA;
    end_op(c, what);
}

static bool tap_free_for(struct ctx *c, int ti, struct node *n)
{
    for (int i = 0; i < NNODE; i++) if (node_alive(c, &c->n[i]) && &c->n[i] != n && c->n[i].out == ti) return false;
    return true;
}

static void op_set_output(struct ctx *c)
{
    struct node *n = pick_node(c, false, true);
    uint8_t sel = tp_u8(&c->t);
    if (!n) return;
    int target;
    int home = n->sk >= 0 ? 2 + (n->idx - N_SUB0) : 0, alt = n->sk >= 0 ? home : 1;
    switch (sel % 4) {
    case 0: target = home; break;
    case 1: target = alt; break;
    case 2: target = -1; break;
    default:
        target = -2;
        if (n->idx == N_HEAD && node_alive(c, &c->n[N_MAIN]) && c->n[N_MAIN].held && c->n[N_MAIN].sp->has_in) target = 100 + N_MAIN;
        if (n->idx == N_MAIN && node_alive(c, &c->n[N_TAIL]) && c->n[N_TAIL].held) target = 100 + N_TAIL;     /* the caller owns a reference on the pipe it passes */
        if (target == -2) target = home;
    }
    if (target >= 0 && target < NTAP && !tap_free_for(c, target, n)) {
        target = target == home ? alt : home;
        if (!tap_free_for(c, target, n)) return;
    }
    c->hash = vp_hash_mix(c->hash, 0x300 + n->idx * 8 + (target & 0xff));
    connect_out(c, n, target, "");
}

/* applications commonly drop their handle on a pipe inside its source_end event (sub-pipes get it when their super-pipe goes) */
static void wide_release_on_source_end(struct pfx *pfx, int probe_id, struct upipe *upipe, int event, void *opaque)
{
    struct ctx *c = opaque;
    if (event != UPROBE_SOURCE_END) return;
    for (int i = 0; i < NNODE; i++) {
        struct node *n = &c->n[i];
        if (!n->used || n->upipe != upipe || n->probe != probe_id || !n->held || n->gone || n->sk < 0) continue;
        R("      (source_end on %s: the application releases its handle inside the event)\n", node_name(c, n));
        n->held = false;
        c->classes |= 1u << CL_SUBCHURN;
        upipe_release(upipe);
        return;
    }
}

static void op_release(struct ctx *c)
{
    struct node *n = pick_node(c, false, false);
    if (!n) return;
    char what[64];
    snprintf(what, sizeof what, "release(%s)", node_name(c, n));
    R("  %s\n", what);
    c->hash = vp_hash_mix(c->hash, 0x500 + n->idx);
    if (c->any_data) c->classes |= 1u << CL_RELEASE_MID;
    if (n->sk >= 0) c->classes |= 1u << CL_SUBCHURN;
    n->held = false;
    upipe_release(n->upipe);
    end_op(c, what);
}

static void op_sink_cfg(struct ctx *c)
{
    int ti = tp_u8(&c->t) % NTAP;
    uint8_t v = tp_u8(&c->t) % 4;
    if (!c->tap[ti]) ti = 0;
    struct pfx_sink *s = pfx_sink(&c->pfx, c->tap[ti]->sinkid);
    s->reject_first = v == 1 ? 1 : v == 2 ? 2 : 0;
    s->reject_all = v == 3;
    if (v) c->classes |= 1u << CL_REJECT;
    R("  tap%c policy: %s\n", 'A' + ti, v == 0 ? "accept" : v == 3 ? "reject all" : v == 1 ? "reject next 1" : "reject next 2");
    c->hash = vp_hash_mix(c->hash, 0x600 + ti * 4 + v);
}

static void do_sub(struct ctx *c, uint8_t k, uint8_t sel)
{
    struct node *m = &c->n[N_MAIN];
    const struct wtype *wt = &table[m->type];
    struct node *n = &c->n[N_SUB0 + k];
    if (!wt->nsub) return;
    c->hash = vp_hash_mix(c->hash, 0x700 + k * 256 + sel);
    if (n->used && n->upipe && n->held && !n->gone) {
        char what[64];
        snprintf(what, sizeof what, "release(%s)", node_name(c, n));
        R("  %s\n", what);
        n->held = false; c->classes |= 1u << CL_SUBCHURN;
        upipe_release(n->upipe);
        end_op(c, what);
        return;
    }
    if (n->used && node_alive(c, n)) return;                     /* still referenced by someone else */
    if (!node_alive(c, m) || !m->held) return;                   /* the caller owns the super-pipe it allocates from */
    int sk = (sel >> 6) % wt->nsub;
    /* variant: mostly the valid ones */
    int variant = (sel & 7) < 5 ? 0 : (sel & 7) - 4;
    node_setup(c, N_SUB0 + k, m->type, sk, m->kind == K_NONE ? (sel >> 3) : m->kind, m->fmt);
    char what[64];
    snprintf(what, sizeof what, "alloc_sub(%s)", n->sp->name);
    if (node_alloc(c, n, n->sp->alloc ? variant : 0)) {
        c->classes |= 1u << CL_SUBCHURN;
        if (n->sp->has_out) {
            int ti = 2 + k;
            if (!c->tap[ti]) c->tap[ti] = tap_alloc(c, ti);
            connect_out(c, n, ti, "   [own tap of the sub-pipe]");
            return;
        }
    } else n->used = false;
    end_op(c, what);
}

static void op_sub(struct ctx *c)
{
    uint8_t k = tp_u8(&c->t) % NSUB, sel = tp_u8(&c->t);
    do_sub(c, k, sel);
}

static void do_loop(struct ctx *c, uint8_t sel)
{
    char what[64];
    int fired = 0;
    switch (sel % 4) {
    case 0: fired = fake_upump_step(c->pfx.loop, sel >> 2) ? 1 : 0; snprintf(what, sizeof what, "loop step -> %d", fired); break;
    case 1: { bool adv = fake_upump_advance(c->pfx.loop); fired = fake_upump_step(c->pfx.loop, sel >> 2) ? 1 : 0; snprintf(what, sizeof what, "advance to next timer (%d), step -> %d", adv, fired); break; }
    case 2: { uint64_t d = (sel >> 2) % 3 == 0 ? TICK / 4 : (sel >> 2) % 3 == 1 ? TICK : 3 * TICK; fake_upump_sleep(c->pfx.loop, d);
              for (int i = 0; i < 4; i++) { if (!fake_upump_step(c->pfx.loop, 0)) break; fired++; }
              snprintf(what, sizeof what, "sleep %llu, loop run -> %d steps", (unsigned long long)d, fired); break; }
    default: for (int i = 0; i < 6; i++) { if (!fake_upump_step(c->pfx.loop, 0)) break; fired++; } snprintf(what, sizeof what, "loop run -> %d steps", fired); break;
    }
    if (fired) c->classes |= 1u << CL_LOOP;
    R("  %s\n", what);
    c->hash = vp_hash_mix(c->hash, 0x900 + sel);
    end_op(c, what);
}

static void op_loop(struct ctx *c) { do_loop(c, tp_u8(&c->t)); }

static void op_flush(struct ctx *c)
{
    struct node *n = pick_node(c, false, false);
    if (!n) return;
    int err = upipe_flush(n->upipe);
    char what[64];
    snprintf(what, sizeof what, "flush(%s)", node_name(c, n));
    R("  %s -> %d\n", what, err);
    c->hash = vp_hash_mix(c->hash, 0x400 + n->idx);
    end_op(c, what);
    if (ubase_check(err) && !c->ret && !(case_flags(c) & F_ATTRMIX)) {
        for (int i = 0; i < c->nlive && !c->ret; i++) {
            uint64_t s = pfx_uref_seq(c->live[i]);
            if (s < MAXSEQ && c->seq_node[s] == n->idx)
                FAILP(ORACLE_DATA, "accounting/flush", "%s succeeded but the buffer seq=%llu given to that pipe is still allocated", what, (unsigned long long)s);
        }
    }
}

static void op_ctl(struct ctx *c)
{
    struct node *n = pick_node(c, false, false);
    uint8_t sel = tp_u8(&c->t);
    if (!n) return;
    char what[128] = "";
    c->hash = vp_hash_mix(c->hash, 0x800 + n->idx * 256 + sel);
    if (n->sp->ctl) n->sp->ctl(c, n, sel, what, sizeof what);
    else if (n->sp->getfd) { struct uref *fd = NULL; int e = upipe_get_flow_def(n->upipe, &fd); snprintf(what, sizeof what, "get_flow_def -> %d", e); }
    if (!what[0]) return;
    c->classes |= 1u << CL_CTL;
    char w2[192];
    snprintf(w2, sizeof w2, "%s.%s", node_name(c, n), what);
    R("  %s\n", w2);
    end_op(c, w2);
}

/* ---------------------------------------------------------------- main */
static const char *class_names[33];
static char class_name_buf[32][48];

static int run_once(const uint8_t *tp_, size_t len, struct vp_report *rep, unsigned flags, int force_pool)
{
    struct ctx *c = &ctx;
    memset(c, 0, sizeof(*c));
    tp_init(&c->t, tp_, len);
    c->rep = rep; c->render = flags & VP_RENDER; c->flags = flags; c->hash = VP_HASH_INIT; c->force_pool = force_pool;
    if (!stats_hooked) { stats_hooked = true; atexit(stats_dump); }

    uint8_t cfgb = tp_u8(&c->t);
    { static int force = -1; if (force < 0) force = getenv("WIDE_BANK1") != NULL; if (force) cfgb |= 0xc0; }    /* debugging aid: second bank only */
    struct pfx_cfg cfg = { .pool_depth = force_pool >= 0 ? force_pool : (int[]){ 0, 1, 4 }[cfgb % 3], .prepend = (cfgb / 3) % 2 ? 8 : 0, .append = 0, .align = (cfgb / 6) % 2 ? 16 : 0,
                           .with_uref_mgr = false, .with_ubuf_mem = true, .with_upump_mgr = true, .with_uclock = true };
    if (pfx_init(&c->pfx, &cfg) != 0) return vp_internal(rep, "pfx_init");
    wmgr_init(c);
    if (ORACLE_LIFE && (cfgb / 12) % 2 == 1) { c->pfx.event_hook = wide_release_on_source_end; c->pfx.event_opaque = c; }
    /* every uref of the case, also those the pipes allocate themselves, comes from the tracking manager */
    c->pfx.services = uprobe_uref_mgr_alloc(c->pfx.services, &c->wmgr);
    c->pfx.services = uprobe_source_mgr_alloc(c->pfx.services, &wsrc_mgr);      /* answers need_source_mgr (segment_source) */
    if (cfg.pool_depth) c->classes |= 1u << CL_POOL;
    c->hash = vp_hash_mix(c->hash, cfgb);
    for (int i = 0; i < NTAP; i++) for (int k = 0; k < NNODE; k++) last_seq[i][k] = UINT64_MAX;
    fake_upump_sleep(c->pfx.loop, 3600 * (uint64_t)UCLOCK_FREQ + 10 * TICK);      /* the clock starts an hour after its epoch: real system clocks are never within the first second, and date arithmetic such as "pts - one second" (videocont, audiocont) assumes so */

    uint8_t typeb = tp_u8(&c->t);
    int type = (typeb * 11) & 31;                  /* stable decoding: adding a type at the end of the table does not change existing tapes */
    if (type >= BANK1) type %= BANK1;
    uint8_t shape = tp_u8(&c->t), hint = tp_u8(&c->t);
    if (type == 31 && (shape & 0x80)) type = 32;
    /* second bank: configuration bytes c0..ff (the configuration itself is decoded from the whole byte as before) */
    if ((cfgb >> 6) == 3) { type = (typeb * 11) & 15; if (type >= ntypes - BANK1) type %= ntypes - BANK1; type += BANK1; }
    { static int forced = -2;          /* debugging aid: WIDE_TYPE=<name> drives one type only */
      if (forced == -2) { forced = -1; const char *w = getenv("WIDE_TYPE"); if (w) for (int i = 0; i < ntypes; i++) if (!strcmp(table[i].main.name, w)) forced = i; }
      if (forced >= 0) type = forced; }
    R(PID " wide: pool_depth=%d prepend=%d align=%d type=%s\n", cfg.pool_depth, cfg.prepend, cfg.align, table[type].main.name);
    c->hash = vp_hash_mix(vp_hash_mix(c->hash, type), shape * 256 + hint);
    stats[type].cases++;
    c->tap[0] = tap_alloc(c, 0);
    c->tap[1] = tap_alloc(c, 1);

    struct node *m = &c->n[N_MAIN];
    node_setup(c, N_MAIN, type, -1, hint, hint >> 2);
    int mv = (hint >> 4) < 12 ? (hint >> 4) % 2 : (hint >> 4) - 10;       /* mostly valid allocation arguments */
    if (!m->sp->alloc) mv = 0;
    if (mv >= 2 && (shape % 3)) mv = 0;
    bool have_main = node_alloc(c, m, mv);
    if (!have_main && mv < 2) c->ret = vp_internal(rep, "alloc %s", m->sp->name);
    if (have_main) {
        int sh = shape % 3;
        if (sh == 1 && m->sp->has_out) {
            node_setup(c, N_TAIL, (shape / 3) % 4, -1, 0, m->fmt);
            c->n[N_TAIL].sp = &table[c->n[N_TAIL].type].main;
            c->n[N_TAIL].kind = K_VOID;      /* takes whatever the pipe before it announces; not fed directly with buffers of its own kind */
            if (node_alloc(c, &c->n[N_TAIL], 0)) c->classes |= 1u << CL_CHAIN; else c->n[N_TAIL].used = false;
        } else if (sh == 2 && m->sp->has_in) {
            node_setup(c, N_HEAD, (shape / 3) % 4, -1, 0, m->fmt);
            struct node *h = &c->n[N_HEAD];
            h->kind = m->kind; h->fmt = m->fmt;
            if (node_alloc(c, h, 0)) c->classes |= 1u << CL_CHAIN; else h->used = false;
        }
    }
    end_op(c, "alloc");
    /* initial plumbing */
    if (have_main && !c->ret) {
        struct node *h = &c->n[N_HEAD], *t = &c->n[N_TAIL];
        if (node_alive(c, t)) { connect_out(c, t, 0, "   [plumbing]"); if (!c->ret) connect_out(c, m, 100 + N_TAIL, "   [plumbing]"); }
        else if (m->sp->has_out) connect_out(c, m, 0, "   [plumbing]");
        if (node_alive(c, h) && !c->ret) connect_out(c, h, 100 + N_MAIN, "   [plumbing]");
    }
    /* sub-pipes allocated up front (types whose data only flows through sub-pipes get at least one) */
    if (have_main && !c->ret && table[type].nsub) {
        uint8_t ps = tp_u8(&c->t);
        int want = ps % 4;
        if (!m->sp->has_in || !m->sp->has_out) want = 1 + ps % 3;
        for (int k = 0; k < want && !c->ret; k++) do_sub(c, k, (ps >> 2) * (k + 1));
        /* pipes that pick input buffers by date against a reference flow: in three quarters of the cases the first input is defined and
         * selected and the reference flow defined up front, so that the 40 operations are spent on data and changes */
        struct node *s0 = &c->n[N_SUB0];
        if ((m->sp->flags & F_PTSMATCH) && want >= 1 && (ps & 0xc0) && !c->ret && node_alive(c, s0) && s0->held && s0->sp->ctl) {
            if (do_set_flow_def(c, s0, 0, "   [prelude]") && !c->ret) {
                char what[128] = "", w2[192];
                s0->sp->ctl(c, s0, 0, what, sizeof what);
                snprintf(w2, sizeof w2, "%s.%s   [prelude]", node_name(c, s0), what);
                R("  %s\n", w2);
                end_op(c, w2);
                if (!c->ret && node_alive(c, m)) do_set_flow_def(c, m, 0, "   [prelude]");
                /* ... and in half of those a first buffer of the input has already been picked by the reference flow */
                if (!c->ret && (ps & 0x40) && node_alive(c, m) && node_alive(c, s0)) {
                    do_input(c, s0, 0x20, 0);
                    if (!c->ret && node_alive(c, m)) do_input(c, m, 0, 0);
                }
            }
        }
    }

    /* grid: in three quarters of the cases an output is pointed at an input and both are defined up front (the operations are then spent
     * on pictures, reference buffers and definition changes of an input that holds pictures) */
    if (have_main && !c->ret && !strcmp(m->sp->name, "grid")) {
        uint8_t ps2 = (uint8_t)(cfgb * 29 + 7);
        struct node *gin = NULL, *gout = NULL; int gi = 0;
        for (int k = 0; k < NSUB; k++) {
            struct node *s = &c->n[N_SUB0 + k];
            if (!node_alive(c, s) || !s->held) continue;
            if (s->sk == 0 && !gin) { gin = s; gi = k; }
            if (s->sk == 1 && !gout) gout = s;
        }
        if (gin && gout && (ps2 & 0x30)) {
            char what[128] = "", w2[192];
            ctl_grid_out(c, gout, (uint8_t)(gi << 2), what, sizeof what);
            snprintf(w2, sizeof w2, "%s.%s   [prelude]", node_name(c, gout), what);
            R("  %s\n", w2);
            end_op(c, w2);
            if (!c->ret && node_alive(c, gin)) do_set_flow_def(c, gin, 0, "   [prelude]");
            if (!c->ret && node_alive(c, gout)) do_set_flow_def(c, gout, 0, "   [prelude]");
        }
    }

    int nops = 0;
    while (have_main && !tp_done(&c->t) && nops < MAXOPS && !c->ret && pfx_log_room(&c->pfx)) {      /* the tail of the case must fit the fixture's logs */
        nops++;
        uint8_t op = tp_u8(&c->t) % 16;
        switch (op) {
        case 0: case 1: case 2: case 3: op_input(c); break;
        case 4: if (case_flags(c) & F_PUMP) op_loop(c); else op_input(c); break;
        case 5: if (c->n[N_MAIN].sp->ctl || table[c->n[N_MAIN].type].sub[0].ctl) op_ctl(c); else op_input(c); break;
        case 6: op_set_flow_def(c); break;
        case 7: op_set_output(c); break;
        case 8: op_sub(c); break;
        case 9: op_release(c); break;
        case 10: op_sink_cfg(c); break;
        case 11: case 12: op_loop(c); break;
        case 13: op_flush(c); break;
        default: op_ctl(c); break;
        }
    }
    /* tail: release everything the application still holds */
    R("  -- tail: release all\n");
    for (int i = NNODE - 1; i >= 0; i--) {
        struct node *n = &c->n[(i + N_SUB0) % NNODE];          /* sub-pipes first, then tail, head, main */
        if (n->used && n->upipe && n->held) { n->held = false; upipe_release(n->upipe); }
    }
    if (!c->ret) end_op(c, "final release");
    /* pipes that only die from the event loop get their chance */
    for (int i = 0; i < 8 && fake_upump_step(c->pfx.loop, 0); i++) ;
    if (c->shared_mgr) { upipe_mgr_release(c->shared_mgr); c->shared_mgr = NULL; }
    for (int i = 0; i < NTAP; i++) if (c->tap[i]) upipe_release(&c->tap[i]->upipe);
    if (!c->ret) end_op(c, "final release");
    for (int i = 0; i < c->pfx.nprobes && !c->ret; i++) {
        struct pfx_probe *p = c->pfx.probes[i];
        for (int k = 0; k < p->ntracks; k++)
            if (p->tracks[k].ready && p->tracks[k].dead_count != 1)
                FAILP(ORACLE_LIFE || ORACLE_PROTO, "dead/count", "the pipe on probe %d (incarnation %d) threw READY but DEAD %d times by the end of the history", i, k, p->tracks[k].dead_count);
    }
    /* every sequence-numbered buffer must be gone now */
    for (int i = 0; i < c->nlive && !c->ret; i++) {
        uint64_t s = pfx_uref_seq(c->live[i]);
        if (s != UINT64_MAX)
            FAILP(ORACLE_DATA, "accounting/leak", "the buffer seq=%llu (given to %s) is still allocated after every pipe was released: neither delivered, nor freed", (unsigned long long)s,
                  s < MAXSEQ ? node_name(c, &c->n[c->seq_node[s]]) : "?");
    }
    /* managers of the harness */
    const char *audit = NULL;
    for (int i = 0; i < 4; i++) if (c->picmgr[i]) { if (!audit && !urefcount_single(c->picmgr[i]->refcount)) audit = "picture manager still referenced (leaked picture ubuf)"; ubuf_mgr_vacuum(c->picmgr[i]); ubuf_mgr_release(c->picmgr[i]); }
    for (int i = 0; i < 6; i++) if (c->sndmgr[i]) { if (!audit && !urefcount_single(c->sndmgr[i]->refcount)) audit = "sound manager still referenced (leaked sound ubuf)"; ubuf_mgr_vacuum(c->sndmgr[i]); ubuf_mgr_release(c->sndmgr[i]); }
    for (int i = 0; i < NTAP; i++) if (c->tap[i] && c->tap[i]->live && !audit) audit = "an output (tap) is still referenced after everything was released";
    c->pfx.fm.uref_mgr = c->inner;
    const char *a2 = pfx_clean(&c->pfx);
    if (!audit) audit = a2;
    if (!audit && c->nlive) audit = "urefs still allocated after everything was released";
    if (!audit && !urefcount_single(&c->wref)) audit = "uref manager still referenced after everything was released";
    for (int i = 0; i < NTAP; i++) free(c->tap[i]);
    if (audit) {
        if (!strncmp(audit, "INTERNAL", 8) || c->live_overflow) { if (!c->ret) c->ret = vp_internal(rep, "%s", audit); }
        else FAILP(ORACLE_LIFE, "audit", "%s", audit);
    }
    if (c->delivered >= 1) c->classes |= 1u << CL_DELIVERED;
    if (c->delivered >= 8) c->classes |= 1u << CL_DELIVERED8;
    if (c->delivered_main) stats[type].data++;
    rep->case_hash = c->hash;
    rep->excluded += c->excluded;
#if PIPES_PROP != 5
    if (c->delivered_main && type >= BANK1 && CL_NCLASSES + type - BANK1 < 32) c->classes |= 1u << (CL_NCLASSES + type - BANK1);
#endif
#if PIPES_PROP == 1
    rep->classes |= c->classes;
    rep->nontrivial = (c->classes & ((1u << CL_SWAP_AFTER_DATA) | (1u << CL_RELEASE_MID) | (1u << CL_SUBCHURN))) && c->any_data;
#elif PIPES_PROP == 4
    rep->classes |= c->classes;
    rep->nontrivial = (c->classes & ((1u << CL_SWAP_AFTER_DATA) | (1u << CL_FLOWDEF_CHANGE) | (1u << CL_REJECT))) && (c->classes & (1u << CL_DELIVERED));
#else
    if (c->delivered_main && type < BANK1) rep->classes |= 1u << (type > 31 ? 31 : type);     /* the second bank has its classes in C01 / C04 */
    rep->nontrivial = c->delivered >= 4 && c->delivered_main;
#endif
    return c->ret;
}

static int run(const uint8_t *tape, size_t len, struct vp_report *rep, unsigned flags)
{
    if (getenv("WIDE_NO_EXCLUDE")) flags |= VP_NO_EXCLUDE;      /* debugging aid: search with the exclusions off */
#if PIPES_PROP == 1
    pool_track_reset();
    int r = run_once(tape, len, rep, flags, 0);
    if (r) return r;
    if (flags & VP_RENDER) vp_render(rep, "---- second pass: pool depth 4\n");
    pool_track_reset();
    uint32_t ex = rep->excluded;
    r = run_once(tape, len, rep, flags, 4);
    rep->excluded = ex;
    rep->classes |= 1u << CL_POOL;
    return r;
#else
    return run_once(tape, len, rep, flags, -1);
#endif
}

__attribute__((constructor)) static void init_class_names(void)
{
#if PIPES_PROP == 5
    for (int i = 0; i < BANK1 && i < 32; i++) { snprintf(class_name_buf[i], sizeof class_name_buf[i], "%s_delivered_data", i == 31 ? "id3v2_decaps_or_encaps" : table[i].main.name); class_names[i] = class_name_buf[i]; }
#else
    int i;
    for (i = 0; i < CL_NCLASSES; i++) class_names[i] = class_names_gen[i];
    for (int k = BANK1; k < ntypes && i < 32; k++, i++) { snprintf(class_name_buf[i], sizeof class_name_buf[i], "%s_delivered_data", table[k].main.name); class_names[i] = class_name_buf[i]; }
#endif
}

const struct vp_executor vp_executor = { PID, "wide", 160, class_names, run, NULL };

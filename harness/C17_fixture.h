/* C17 pipeline fixture for the H.264 / H.265 framers: counting memory managers, a
 * recording probe (answers the ubuf manager request, counts events), a recording sink
 * (answers the flow format request with the wanted output encapsulation, copies every
 * output access unit with the attributes that describe it, then frees it).
 * No clock, no pump: the framers are synchronous. */
#ifndef C17_FIXTURE_H_
#define C17_FIXTURE_H_

#include "fix_mem.h"
#include "upipe/uprobe.h"
#include "upipe/upipe.h"
#include "upipe/urequest.h"
#include "upipe/uref_flow.h"
#include "upipe/uref_block.h"
#include "upipe/uref_block_flow.h"
#include "upipe/uref_pic.h"
#include "upipe-framers/uref_h26x.h"
#include "upipe-framers/uref_h26x_flow.h"
#include "upipe-framers/uref_h264.h"
#include "upipe-framers/uref_h265.h"
#include "upipe-framers/upipe_h264_framer.h"
#include "upipe-framers/upipe_h265_framer.h"

#include <stdlib.h>

#define FX_MAXOFF 40

struct fx_out {
    size_t size;
    uint8_t *bytes;
    int noff;                   /* NAL offset attributes h26x.n[0..noff-1] (consecutive indices from 0) */
    uint64_t off[FX_MAXOFF];
    bool has_hdr; uint64_t hdr;
    bool key, random, error;
    bool has_num; uint64_t num;
    bool has_type; uint8_t type;
};

/* a flow definition the sink received */
#define FX_MAXFD 24
struct fx_flowdef {
    int at_nout;                /* number of access units received before it */
    bool global;                /* f.global present */
    bool has_headers; size_t hlen; uint8_t *h;  /* f.headers */
    bool has_encaps; uint8_t encaps;
};

struct fx {
    struct fix_mem fm;
    struct uprobe probe;
    struct upipe_mgr sink_mgr;
    struct upipe sink;
    struct upipe *framer;
    bool h265;
    uint8_t out_encaps;
    bool want_global;           /* the sink asks for global headers in the flow definition (as upipe_avformat_sink does) */
    struct fx_flowdef fd[FX_MAXFD];
    int nfd; bool fd_truncated;
    /* events */
    int n_ready, n_dead, n_sync_acq, n_sync_lost, n_fatal, n_error, n_new_flow_def, n_other;
    int n_set_flow_def;
    bool bad_flow_def;
    /* outputs */
    struct fx_out *out;
    int nout, capout;
    size_t out_bytes;
    bool out_truncated;         /* more NAL offsets than FX_MAXOFF */
};

static struct fx *fx_from_probe(struct uprobe *p) { return container_of(p, struct fx, probe); }
static struct fx *fx_from_sink(struct upipe *u) { return container_of(u, struct fx, sink); }

static int fx_catch(struct uprobe *uprobe, struct upipe *upipe, int event, va_list args)
{
    struct fx *fx = fx_from_probe(uprobe);
    switch (event) {
    case UPROBE_LOG: return UBASE_ERR_NONE;
    case UPROBE_READY: fx->n_ready++; return UBASE_ERR_NONE;
    case UPROBE_DEAD: fx->n_dead++; return UBASE_ERR_NONE;
    case UPROBE_SYNC_ACQUIRED: fx->n_sync_acq++; return UBASE_ERR_NONE;
    case UPROBE_SYNC_LOST: fx->n_sync_lost++; return UBASE_ERR_NONE;
    case UPROBE_FATAL: fx->n_fatal++; return UBASE_ERR_NONE;
    case UPROBE_ERROR: fx->n_error++; return UBASE_ERR_NONE;
    case UPROBE_NEW_FLOW_DEF: fx->n_new_flow_def++; return UBASE_ERR_NONE;
    case UPROBE_PROVIDE_REQUEST: {
        va_list ac;
        va_copy(ac, args);
        struct urequest *urequest = va_arg(ac, struct urequest *);
        va_end(ac);
        if (urequest->type == UREQUEST_UBUF_MGR) {
            struct uref *ff = uref_dup(urequest->uref);
            if (!ff) return UBASE_ERR_ALLOC;
            return urequest_provide_ubuf_mgr(urequest, ubuf_mgr_use(fx->fm.block_mgr), ff);
        }
        if (urequest->type == UREQUEST_UREF_MGR)
            return urequest_provide_uref_mgr(urequest, uref_mgr_use(fx->fm.uref_mgr));
        if (urequest->type == UREQUEST_FLOW_FORMAT) {
            struct uref *ff = uref_dup(urequest->uref);
            if (!ff) return UBASE_ERR_ALLOC;
            return urequest_provide_flow_format(urequest, ff);
        }
        return UBASE_ERR_UNHANDLED;
    }
    default: fx->n_other++; return UBASE_ERR_UNHANDLED;
    }
}

static void fx_sink_input(struct upipe *upipe, struct uref *uref, struct upump **upump_p)
{
    struct fx *fx = fx_from_sink(upipe);
    if (fx->nout == fx->capout) {
        fx->capout = fx->capout ? fx->capout * 2 : 16;
        fx->out = realloc(fx->out, fx->capout * sizeof(*fx->out));
    }
    struct fx_out *o = &fx->out[fx->nout++];
    memset(o, 0, sizeof(*o));
    size_t sz = 0;
    if (uref->ubuf && ubase_check(uref_block_size(uref, &sz))) {
        o->size = sz;
        o->bytes = malloc(sz ? sz : 1);
        if (sz && !ubase_check(uref_block_extract(uref, 0, -1, o->bytes))) { o->size = (size_t)-1; }
    } else o->size = (size_t)-1;
    if (o->size != (size_t)-1) fx->out_bytes += o->size;
    uint64_t v;
    while (ubase_check(uref_h26x_get_nal_offset(uref, &v, o->noff))) {
        if (o->noff == FX_MAXOFF) { fx->out_truncated = true; break; }
        o->off[o->noff++] = v;
    }
    o->has_hdr = ubase_check(uref_block_get_header_size(uref, &o->hdr));
    o->key = ubase_check(uref_pic_get_key(uref));
    o->random = ubase_check(uref_flow_get_random(uref));
    o->error = ubase_check(uref_flow_get_error(uref));
    o->has_num = ubase_check(uref_pic_get_number(uref, &o->num));
    o->has_type = ubase_check(fx->h265 ? uref_h265_get_type(uref, &o->type) : uref_h264_get_type(uref, &o->type));
    uref_free(uref);
}

static int fx_sink_control(struct upipe *upipe, int command, va_list args)
{
    struct fx *fx = fx_from_sink(upipe);
    switch (command) {
    case UPIPE_SET_FLOW_DEF: {
        struct uref *flow_def = va_arg(args, struct uref *);
        const char *def = NULL;
        fx->n_set_flow_def++;
        if (!flow_def || !ubase_check(uref_flow_get_def(flow_def, &def)) || ubase_ncmp(def, "block."))
            fx->bad_flow_def = true;
        else if (fx->nfd == FX_MAXFD) fx->fd_truncated = true;
        else {
            struct fx_flowdef *d = &fx->fd[fx->nfd++];
            memset(d, 0, sizeof(*d));
            d->at_nout = fx->nout;
            d->global = ubase_check(uref_flow_get_global(flow_def));
            const uint8_t *h; size_t hl;
            if (ubase_check(uref_flow_get_headers(flow_def, &h, &hl))) {
                d->has_headers = true; d->hlen = hl;
                d->h = malloc(hl ? hl : 1); memcpy(d->h, h, hl);
            }
            d->has_encaps = ubase_check(uref_h26x_flow_get_encaps(flow_def, &d->encaps));
        }
        return UBASE_ERR_NONE;
    }
    case UPIPE_REGISTER_REQUEST: {
        struct urequest *urequest = va_arg(args, struct urequest *);
        if (urequest->type == UREQUEST_FLOW_FORMAT) {
            struct uref *ff = uref_dup(urequest->uref);
            if (!ff) return UBASE_ERR_ALLOC;
            if (fx->want_global) uref_flow_set_global(ff); else uref_flow_delete_global(ff);
            uref_h26x_flow_set_encaps(ff, fx->out_encaps);
            return urequest_provide_flow_format(urequest, ff);
        }
        return upipe_throw_provide_request(upipe, urequest);
    }
    case UPIPE_UNREGISTER_REQUEST:
        return UBASE_ERR_NONE;
    default:
        return UBASE_ERR_UNHANDLED;
    }
}

/* how the input is announced: encapsulation attribute (in_encaps < 0: absent, the framer infers it from the global
 * headers), global headers (f.headers; with f.global as upipe_avformat_source sets it), complete access units */
struct fx_input { int in_encaps; const uint8_t *headers; size_t hlen; bool complete; };

/* returns 0 or a message */
static const char *fx_open_ex(struct fx *fx, bool h265, uint8_t out_encaps, bool want_global, const struct fx_input *in)
{
    memset(fx, 0, sizeof(*fx));
    fx->h265 = h265;
    fx->out_encaps = out_encaps;
    fx->want_global = want_global;
    if (fix_mem_init(&fx->fm, 0, 0, 0) != 0) return "fix_mem_init";
    uprobe_init(&fx->probe, fx_catch, NULL);
    memset(&fx->sink_mgr, 0, sizeof(fx->sink_mgr));
    fx->sink_mgr.refcount = NULL;
    fx->sink_mgr.upipe_input = fx_sink_input;
    fx->sink_mgr.upipe_control = fx_sink_control;
    upipe_init(&fx->sink, &fx->sink_mgr, &fx->probe);

    struct upipe_mgr *mgr = h265 ? upipe_h265f_mgr_alloc() : upipe_h264f_mgr_alloc();
    if (!mgr) return "framer manager";
    fx->framer = upipe_void_alloc(mgr, &fx->probe);
    upipe_mgr_release(mgr);
    if (!fx->framer) return "upipe_void_alloc(framer)";
    if (!ubase_check(upipe_set_output(fx->framer, &fx->sink))) return "upipe_set_output";
    struct uref *flow_def = uref_block_flow_alloc_def(fx->fm.uref_mgr, h265 ? "hevc.pic." : "h264.pic.");
    if (!flow_def) return "flow def alloc";
    if (in->in_encaps >= 0) uref_h26x_flow_set_encaps(flow_def, (uint8_t)in->in_encaps);
    if (in->headers) {
        if (!ubase_check(uref_flow_set_global(flow_def)) || !ubase_check(uref_flow_set_headers(flow_def, in->headers, in->hlen))) { uref_free(flow_def); return "flow def headers"; }
    }
    if (in->complete) uref_flow_set_complete(flow_def);
    int e = upipe_set_flow_def(fx->framer, flow_def);
    uref_free(flow_def);
    if (!ubase_check(e)) return "upipe_set_flow_def refused block.h264.pic. / block.hevc.pic.";
    return NULL;
}

static const char *fx_open(struct fx *fx, bool h265, uint8_t out_encaps)
{
    struct fx_input in = { UREF_H26X_ENCAPS_ANNEXB, NULL, 0, false };
    return fx_open_ex(fx, h265, out_encaps, false, &in);
}

static bool fx_flag_discontinuity;   /* the next buffer of fx_feed carries the discontinuity attribute */
/* one input buffer made of nseg segments: seglen[0..nseg-1] sum to n */
static const char *fx_feed(struct fx *fx, const uint8_t *p, const size_t *seglen, int nseg)
{
    struct ubuf *ubuf = NULL;
    size_t pos = 0;
    for (int i = 0; i < nseg; i++) {
        struct ubuf *piece = ubuf_block_alloc_from_opaque(fx->fm.block_mgr, p + pos, seglen[i]);
        if (!piece) { if (ubuf) ubuf_free(ubuf); return "ubuf alloc"; }
        if (!ubuf) ubuf = piece;
        else if (!ubase_check(ubuf_block_append(ubuf, piece))) { ubuf_free(piece); ubuf_free(ubuf); return "ubuf append"; }
        pos += seglen[i];
    }
    struct uref *uref = uref_alloc(fx->fm.uref_mgr);
    if (!uref) { ubuf_free(ubuf); return "uref alloc"; }
    uref_attach_ubuf(uref, ubuf);
    if (fx_flag_discontinuity) uref_flow_set_discontinuity(uref);
    upipe_input(fx->framer, uref, NULL);
    return NULL;
}

/* one input buffer holding one access unit: nseg segments, NAL offset attributes h26x.n[0..noff-1] */
static const char *fx_feed_frame(struct fx *fx, const uint8_t *p, const size_t *seglen, int nseg, const size_t *off, int noff)
{
    struct ubuf *ubuf = NULL;
    size_t pos = 0;
    for (int i = 0; i < nseg; i++) {
        struct ubuf *piece = ubuf_block_alloc_from_opaque(fx->fm.block_mgr, p + pos, seglen[i]);
        if (!piece) { if (ubuf) ubuf_free(ubuf); return "ubuf alloc"; }
        if (!ubuf) ubuf = piece;
        else if (!ubase_check(ubuf_block_append(ubuf, piece))) { ubuf_free(piece); ubuf_free(ubuf); return "ubuf append"; }
        pos += seglen[i];
    }
    struct uref *uref = uref_alloc(fx->fm.uref_mgr);
    if (!uref) { ubuf_free(ubuf); return "uref alloc"; }
    uref_attach_ubuf(uref, ubuf);
    for (int i = 0; i < noff; i++)
        if (!ubase_check(uref_h26x_set_nal_offset(uref, off[i], i))) { uref_free(uref); return "nal offset attribute"; }
    upipe_input(fx->framer, uref, NULL);
    return NULL;
}

/* releases the framer (which flushes the pending access unit) */
static void fx_release_framer(struct fx *fx)
{
    if (fx->framer) { upipe_release(fx->framer); fx->framer = NULL; }
}

static void fx_free_outputs(struct fx *fx)
{
    for (int i = 0; i < fx->nout; i++) free(fx->out[i].bytes);
    free(fx->out);
    fx->out = NULL; fx->nout = fx->capout = 0;
    for (int i = 0; i < fx->nfd; i++) free(fx->fd[i].h);
    fx->nfd = 0;
}

/* tears down; returns the audit message or NULL */
static const char *fx_close(struct fx *fx)
{
    fx_release_framer(fx);
    /* sink and probe are static parts of the fixture (no refcount): nothing to release */
    return fix_mem_clean(&fx->fm);
}

#endif

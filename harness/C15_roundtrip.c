/* C15 / roundtrip — generated access units through the encapsulation pipes, every emitted
 * packet parsed by the independent reference (C15_ref.h, no shim), then through
 * ts_decaps -> ts_pes_decaps and compared with what was generated.
 *
 * path E: access units -> upipe_ts_encaps (PES + TS), driven the way upipe_ts_mux drives it:
 *         set_flow_def (octetrate, tb_rate, PID, PES id, alignment, minimal PES header, minimal
 *         PES duration), set_tb_size, set_pcr_interval, set_cc; input; the STATUS event gives
 *         (cr_sys, dts_sys, pcr_sys, ready); upipe_ts_encaps_splice(T, T + interval) at a
 *         non-decreasing mux date T >= min(cr_sys, pcr_sys) while ready ("file" mode) or while
 *         data is held ("live" mode); finally upipe_ts_encaps_eos and drain.
 * path P: access units -> upipe_ts_pes_encaps -> recording sink; the PES packets are cut into
 *         TS packets by the reference packetiser.
 *
 * Oracles:
 *  (1) every packet: 188 octets, sync 0x47, configured PID, no error/scrambling bits,
 *      continuity counter +1 per payload-carrying packet and unchanged otherwise, adaptation
 *      field well-formed with 0xff stuffing, PCR = program clock at the mux date;
 *  (2) reference view of the PES stream: header well-formed, stream id, PES_packet_length =
 *      size - 6 (0 only for video), PTS/DTS fields = dates of the first access unit commencing
 *      in the packet at 90 kHz mod 2^33, data_alignment only at an access unit start, payload
 *      octets = concatenation of the access units;
 *  (3) upipe view (ts_decaps -> ts_pes_decaps): same octets, unit starts, dts_orig/pts_orig,
 *      random flag, no discontinuity besides the announced ones.
 *
 * path S: PSI sections (3..4098 octets) -> upipe_ts_encaps with the flow definition
 *         "block.mpegtspsi." the way upipe_ts_mux's psi_pid drives it (cr_sys only, no dts, no
 *         PCR); or, sub-mode R, -> the reference section packetiser (several sections per
 *         packet, pointer_field != 0, sections spanning packets) -> ts_decaps ("mpegts.mpegtspsi.").
 *         Oracle: packet invariants of (1); the reference section reassembler (C15_ref.h, ISO/IEC
 *         13818-1 2.4.4: pointer_field, back-to-back sections, 0xff stuffing only after the last
 *         section of a packet) recovers exactly the input sections in order, both from the
 *         emitted packets and from what ts_decaps outputs for them.
 *
 * Extension block (decoded after the access units; an exhausted tape gives none): buffer
 * manager provided late, output pipe, set_cr_prog, max_delay, getters, mid-stream flow
 * definition (PID / stream id / header size / rates), refused flow definitions, and a script of
 * control commands between access units (set_pcr_interval, set_tb_size, splice(NULL) = drop
 * late units, UPIPE_FLUSH, set_max_length). Their oracles:
 *  - a PCR is carried by the first packet muxed at or after (date of the last PCR + interval),
 *    none while the interval is 0, its value is the program clock at the mux date;
 *  - after set_cr_prog(v) every coded date (PCR, PTS, DTS) is shifted by ONE common offset, which
 *    places the first access unit's program clock at v (within its transmission time);
 *  - getters return what was set; a refused flow definition leaves the pipe usable;
 *  - splice(T, NULL) drops exactly the leading held units whose DTS is before T, whole;
 *  - UPIPE_FLUSH succeeds and drops whole, not yet started units only;
 *  - packets carry the PID configured by the flow definition in force for their access unit. */
#define C15_NEED_MUX_STUBS
#include "C15_fixture.h"
#include "C15_ref.h"

enum {
    CL_PATH_E, CL_PATH_P, CL_AU3AF, CL_PCR, CL_PCR_ONLY_PKT, CL_WRAP, CL_UNBOUNDED, CL_NEAR64K, CL_MULT184,
    CL_NOALIGN, CL_OVERLAP, CL_AGGREGATE, CL_MINHDR, CL_PRIV2, CL_NOPTS, CL_PTSONLY, CL_PTSDTS, CL_RANDOM,
    CL_DISC, CL_LIVE, CL_SEGMENTED, CL_HDRSPLIT, CL_BIGDELAY, CL_SETCC, CL_TINY,
    CL_PSI_E, CL_PSI_R, CL_PSI_SPAN, CL_PSI_PAD, CL_PSI_EXACT, CL_PSI_MULTI, CL_PSI_PTR, CL_PSI_BIG, CL_PSI_MIN,
    CL_X_DEFER, CL_X_OUTSINK, CL_X_SETCR, CL_X_SETCR_REFUSED, CL_X_MAXDELAY, CL_X_GETTERS, CL_X_FDCHANGE, CL_X_BADFD,
    CL_X_PCRIV, CL_X_PCROFF, CL_X_TBSIZE, CL_X_SPLICE_FLUSH, CL_X_UPIPE_FLUSH, CL_X_MAXLEN, CL_X_PCR_MUST, CL_X_EARLY_RELEASE
};
static const char *const class_names[] = {
    "path_ts_encaps", "path_ts_pes_encaps", "au_ge3_packets_af_in_last", "pcr_present", "pcr_only_packet",
    "pts_dts_33bit_wrap", "pes_unbounded_gt_65535", "au_near_65535", "au_fills_packets_exactly",
    "no_pes_alignment", "au_overlap_into_next_pes", "aus_aggregated_in_one_pes", "minimal_pes_header",
    "private_stream_2", "no_pts", "pts_only", "pts_and_dts", "random_access", "discontinuity",
    "live_mode_splice_when_not_ready", "segmented_input_block", "pes_header_split_over_packets",
    "pts_dts_delay_gt_60s", "set_cc", "au_of_1_octet",
    "psi_ts_encaps", "psi_reference_packetiser", "psi_section_spans_packets", "psi_stuffing_after_section",
    "psi_section_ends_with_packet", "psi_several_sections_in_packet", "psi_pointer_field_nonzero", "psi_section_gt_1024",
    "psi_section_of_3_octets",
    "x_ubuf_mgr_provided_late", "x_output_pipe_set", "x_set_cr_prog", "x_set_cr_prog_refused", "x_max_delay", "x_getters",
    "x_flow_def_changed_midstream", "x_refused_flow_defs", "x_set_pcr_interval_midstream", "x_pcr_cancelled_midstream",
    "x_set_tb_size_midstream", "x_splice_null_drops_late_units", "x_upipe_flush_drops_units", "x_set_max_length",
    "x_pcr_due_and_present", "x_pese_released_while_buffering", NULL };

#define P_ENC 0
#define P_SINKA 1
#define P_DECAPS 2
#define P_TEE 3
#define P_PESD 4
#define P_SINK 5
#define P_OUT 6

#define MAXAU 24
#define F27 UINT64_C(27000000)

struct au {
    size_t off, size;
    bool has_pts, has_dts_field, random, disc, bigdelay;
    uint64_t pts33, dts33;        /* 90 kHz fields */
    uint64_t dts_dec;             /* what a decoder reads as DTS: dts33, or pts33 when there is no DTS field */
    /* 27 MHz program dates as carried by the uref (for the common-offset oracle of set_cr_prog) and system dates */
    bool has_dts27, has_cr27, has_dts_sys;
    uint64_t pts27, dts27, cr27, dts_sys;
    bool dropped;                 /* dropped by a flush (model) */
    int cfg;                      /* 0: first flow definition, 1: the one set in mid-stream */
};

/* common offset of the coded dates after set_cr_prog: coded = (date + base + d) mod 2^33*300 with ONE d in [lo, hi] */
#define M33 (R_POW33 * 300)
struct offs { bool on; uint64_t base; int64_t lo, hi; int64_t shift; /* v - cr_prog of the first unit, not reduced */ };
/* the coded value lies in [coded_lo27, coded_lo27 + width] (width 0 for a PCR, 299 for a 90 kHz field) */
static bool offs_observe(struct offs *o, int64_t date27, uint64_t coded_lo27, unsigned width)
{
    /* the date itself may be negative (a program clock starting at 0 with a packet muxed before the first unit's date); a
     * coded date that would be negative has no representation: no expectation (outside the domain of set_cr_prog) */
    if (date27 + o->shift + o->lo < 0) return o->lo <= o->hi;
    uint64_t y = ((uint64_t)((date27 % (int64_t)M33 + (int64_t)M33) % (int64_t)M33) + o->base) % M33;
    int64_t d = (int64_t)((coded_lo27 % M33 + M33 - y) % M33);
    if (d > (int64_t)(M33 / 2)) d -= (int64_t)M33;
    if (d > o->lo) o->lo = d;
    if (d + (int64_t)width < o->hi) o->hi = d + (int64_t)width;
    return o->lo <= o->hi;
}

struct cfg { unsigned pid, pes_id, min_hdr; };

struct extop { int kind, at; uint64_t v; bool done; };
enum { XO_PCRIV, XO_TBSIZE, XO_SPLICE_FLUSH, XO_UPIPE_FLUSH, XO_MAXLEN, XO_PCROFF, XO_N };
struct ext {
    bool any, defer, outsink, setcr, maxdelay, getters, fdchange, badfd, early_release;
    int defer_k, fd_at;
    uint64_t cr_v, max_delay, octetrate2, tb_rate2;
    int nops; struct extop op[4];
};

struct pesv {                     /* one PES as seen by an observer */
    size_t off, size;             /* position of its payload in the concatenated elementary stream */
    bool has_pts, has_dts, align, align_known, random, disc;
    uint64_t pts, dts;            /* 90 kHz */
    uint64_t dts_orig, pts_orig;  /* upipe view */
    bool has_pts_orig;
};

struct ctx {
    struct fx fx;
    struct fx_rec sinka, tee, sink;
    struct au au[MAXAU];
    int nau;
    uint8_t *cat; size_t ncat;          /* concatenated access units */
    uint8_t *es; size_t nes, capes;     /* reference view: concatenated TS payload (PES headers included) */
    size_t *pstart; bool *prai, *pdi; size_t npstart, cappstart;
    struct pesv *va; size_t nva;        /* reference view */
    struct pesv *vb; size_t nvb;        /* upipe view */
    struct offs offs;
    struct cfg cfg[2];
    struct fx_rec outsink;
    struct rpsi rpsi, rpsi2;            /* sections recovered from the emitted packets / from the ts_decaps output */
    uint8_t *secbuf, *secbuf2;
};
static struct ctx C;

static uint32_t xs(uint32_t *s) { uint32_t x = *s; x ^= x << 13; x ^= x >> 17; x ^= x << 5; return *s = x ? x : 0x9e3779b9; }

#define R(...) do { if (render) vp_render(rep, __VA_ARGS__); } while (0)
#define FAIL(key, ...) do { if (!ret) ret = vp_fail(rep, key, __VA_ARGS__); } while (0)

static bool es_push(struct ctx *c, const uint8_t *p, size_t n)
{
    if (c->nes + n > c->capes) {
        size_t nc = c->capes ? c->capes : 8192;
        while (nc < c->nes + n) nc *= 2;
        uint8_t *b = realloc(c->es, nc);
        if (!b) return false;
        c->es = b; c->capes = nc;
    }
    memcpy(c->es + c->nes, p, n);
    c->nes += n;
    return true;
}
static bool pstart_push(struct ctx *c, size_t off, bool rai, bool di)
{
    if (c->npstart == c->cappstart) {
        size_t nc = c->cappstart ? c->cappstart * 2 : 32;
        size_t *a = realloc(c->pstart, nc * sizeof(*a));
        if (a) c->pstart = a;
        bool *b = realloc(c->prai, nc * sizeof(*b));
        if (b) c->prai = b;
        bool *d = realloc(c->pdi, nc * sizeof(*d));
        if (d) c->pdi = d;
        if (!a || !b || !d) return false;
        c->cappstart = nc;
    }
    c->pstart[c->npstart] = off; c->prai[c->npstart] = rai; c->pdi[c->npstart] = di;
    c->npstart++;
    return true;
}

/* the access unit that commences first in [off, off + size) (size 0: exactly at off) */
static int first_au_in(const struct ctx *c, size_t off, size_t size)
{
    for (int i = 0; i < c->nau; i++)
        if (c->au[i].off >= off && (c->au[i].off < off + size || (size == 0 && c->au[i].off == off))) return i;
    return -1;
}
static int au_at(const struct ctx *c, size_t off)
{
    for (int i = 0; i < c->nau; i++) if (c->au[i].off == off) return i;
    return -1;
}

/* Checks one observer's list of PES against the generated access units. `who` names the
 * observer in the failure key ("ref" = independent parser of the emitted packets, "upipe" =
 * ts_decaps + ts_pes_decaps). */
static int check_views(struct ctx *c, struct vp_report *rep, const char *who, const struct pesv *v, size_t nv,
                       bool upipe_view, bool aligned, bool one_pes_per_au, bool check_markers)
{
    int ret = 0;
    char key[96];
#define VFAIL(what, ...) do { if (!ret) { snprintf(key, sizeof key, "C15/%s/%s", who, what); ret = vp_fail(rep, key, __VA_ARGS__); } } while (0)
    size_t pos = 0;
    for (size_t k = 0; k < nv && !ret; k++) {
        const struct pesv *p = &v[k];
        if (p->off != pos) { VFAIL("order", "PES %zu starts at elementary-stream offset %zu, expected %zu", k, p->off, pos); break; }
        pos += p->size;
        int a0 = au_at(c, p->off);
        if (aligned && a0 < 0) VFAIL("alignment", "PES %zu starts at offset %zu which is not the start of an access unit (PES alignment requested)", k, p->off);
        if (p->align_known && p->align && a0 < 0) VFAIL("data-alignment-flag", "PES %zu has data_alignment_indicator but starts at offset %zu inside an access unit", k, p->off);
        int a = first_au_in(c, p->off, p->size);
        if (a < 0) {
            if (p->has_pts) VFAIL("pts-without-au", "PES %zu (offset %zu, %zu octets) carries a PTS but no access unit commences in it", k, p->off, p->size);
            continue;
        }
        struct au *u = &c->au[a];
        if (p->has_pts != u->has_pts) { VFAIL("pts-presence", "PES %zu: first access unit commencing in it is au%d with%s PTS, the PES has %s", k, a, u->has_pts ? "" : "out", p->has_pts ? "one" : "none"); break; }
        if (!upipe_view && u->has_pts && c->offs.on) {
            /* set_cr_prog in force: every coded date is the unit's date plus one common offset; a DTS within one 90 kHz
             * tick of the PTS may or may not get its own field */
            bool near = u->has_dts27 && u->pts27 - u->dts27 < 300;
            if (!offs_observe(&c->offs, (int64_t)u->pts27, p->pts * 300, 299))
                VFAIL("pts-offset", "PES %zu (au%d): PTS field 0x%llx is not the unit's pts_prog %llu shifted by the offset common to the other coded dates (set_cr_prog)", k, a, (unsigned long long)p->pts, (unsigned long long)u->pts27);
            else if (p->has_dts && !u->has_dts27) VFAIL("dts-presence", "PES %zu (au%d): DTS field present, the unit has no DTS", k, a);
            else if (!near && p->has_dts != u->has_dts_field) VFAIL("dts-presence", "PES %zu (au%d): DTS field %s, expected %s", k, a, p->has_dts ? "present" : "absent", u->has_dts_field ? "present" : "absent");
            else if (p->has_dts && !offs_observe(&c->offs, (int64_t)u->dts27, p->dts * 300, 299))
                VFAIL("dts-offset", "PES %zu (au%d): DTS field 0x%llx is not the unit's dts_prog %llu shifted by the common offset (set_cr_prog)", k, a, (unsigned long long)p->dts, (unsigned long long)u->dts27);
            if (!ret) {
                /* from here on the unit is known by the dates it carries in the stream (what the decapsulation must return) */
                u->pts33 = p->pts; u->has_dts_field = p->has_dts; u->dts33 = p->has_dts ? p->dts : 0;
                u->dts_dec = p->has_dts ? p->dts : p->pts;
                u->bigdelay = ((u->pts33 + R_POW33 - u->dts_dec) & (R_POW33 - 1)) * 300 > F27 * 60;
            }
        } else if (!upipe_view && u->has_pts) {
            if (p->pts != u->pts33) VFAIL("pts", "PES %zu (au%d): PTS field 0x%llx, expected 0x%llx", k, a, (unsigned long long)p->pts, (unsigned long long)u->pts33);
            else if (p->has_dts != u->has_dts_field) VFAIL("dts-presence", "PES %zu (au%d): DTS field %s, expected %s", k, a, p->has_dts ? "present" : "absent", u->has_dts_field ? "present" : "absent");
            else if (p->has_dts && p->dts != u->dts33) VFAIL("dts", "PES %zu (au%d): DTS field 0x%llx, expected 0x%llx", k, a, (unsigned long long)p->dts, (unsigned long long)u->dts33);
        }
        if (upipe_view && u->has_pts) {
            uint64_t delta = (u->pts33 + R_POW33 - u->dts_dec) & (R_POW33 - 1);
            if (p->dts_orig != u->dts_dec * 300)
                VFAIL("dts", "PES %zu (au%d): dts_orig %llu (0x%llx at 90 kHz), expected 0x%llx", k, a, (unsigned long long)p->dts_orig, (unsigned long long)(p->dts_orig / 300), (unsigned long long)u->dts_dec);
            else if (!u->bigdelay && (!p->has_pts_orig || p->pts_orig != (u->dts_dec + delta) * 300))
                VFAIL("pts", "PES %zu (au%d): pts_orig %llu (0x%llx at 90 kHz), expected DTS 0x%llx + %llu ticks", k, a, (unsigned long long)p->pts_orig,
                      (unsigned long long)(p->pts_orig / 300), (unsigned long long)u->dts_dec, (unsigned long long)delta);
        }
        if (check_markers && a0 >= 0) {
            const struct au *s = &c->au[a0];
            if (p->random != s->random) VFAIL("random", "PES %zu starts au%d (random=%d) but its first packet has random access=%d", k, a0, s->random, p->random);
            if (s->disc && !p->disc) VFAIL("discontinuity", "PES %zu starts au%d flagged discontinuity but the flag is not carried", k, a0);
            if (!s->disc && p->disc && !(upipe_view && k == 0)) VFAIL("spurious-discontinuity", "PES %zu (au%d): discontinuity flagged, the access unit was not", k, a0);
        } else if (check_markers && (p->random || (p->disc && !(upipe_view && k == 0))))
            VFAIL("marker-inside-au", "PES %zu at offset %zu (inside an access unit) carries random=%d discontinuity=%d", k, p->off, p->random, p->disc);
    }
    if (!ret && pos != c->ncat) VFAIL("total", "PES payloads sum to %zu octets, access units to %zu", pos, c->ncat);
    /* every access unit that must open a PES does */
    for (int i = 0; i < c->nau && !ret; i++) {
        const struct au *u = &c->au[i];
        bool must_open = one_pes_per_au || (check_markers && (u->random || u->disc));
        if (!must_open) continue;
        bool found = false;
        for (size_t k = 0; k < nv; k++) if (v[k].off == u->off) found = true;
        if (!found) VFAIL("unit-start", "au%d (offset %zu%s%s) does not start a PES / has no unit start", i, u->off, u->random ? ", random" : "", u->disc ? ", discontinuity" : "");
    }
    if (!ret && one_pes_per_au && nv != (size_t)c->nau) VFAIL("unit-count", "%zu PES for %d access units", nv, c->nau);
    return ret;
#undef VFAIL
}


struct pkmeta { bool pusi, has_payload, has_af, pcr; unsigned pid; };

struct rstate {
    unsigned cc;                  /* model of the continuity counter */
    size_t npkt;
    struct pkmeta *meta; size_t capmeta;
    unsigned pid, pid2;           /* the configured PID(s): pid2 after a mid-stream flow definition */
    bool pcr_forbidden;           /* path E, PCR interval 0: no packet may carry a PCR */
    bool pcr_must;                /* path E: a PCR is due at this mux date */
    bool psi;                     /* PSI mode: the payload goes to the section reassembler, not to the PES view */
    bool check_pcr;               /* path E: PCR must equal the program clock at the mux date */
    int64_t prog_minus_sys;
    struct upipe *decaps;
};

/* One emitted packet: oracle (1) through the independent parser, bookkeeping of the reference
 * view, then into ts_decaps (exact-size area). */
static int on_packet(struct ctx *c, struct vp_report *rep, struct rstate *st, const uint8_t *pk, uint64_t T, bool render)
{
    int ret = 0;
    struct rts r;
    size_t n = st->npkt;
    rts_parse(pk, &r);
    if (render) {
        char afs[16];
        if (r.has_af) snprintf(afs, sizeof afs, "%u", r.afl); else snprintf(afs, sizeof afs, "none");
        R("  pkt%zu T=%llu %s pid=%u cc=%u %s%saf=%s%s%s%s payload=%u\n", n, (unsigned long long)T, r.bad ? r.bad : "ok", r.pid, r.cc,
          r.pusi ? "PUSI " : "", r.has_payload ? "" : "(no payload) ", afs, r.rai ? " RAI" : "", r.di ? " DI" : "", r.pcr_f ? " PCR" : "", r.pay_len);
    }
    if (r.bad) FAIL("C15/ts/malformed", "packet %zu: %s (header %02x %02x %02x %02x %02x)", n, r.bad, pk[0], pk[1], pk[2], pk[3], pk[4]);
    else if (r.pid != st->pid && r.pid != st->pid2) FAIL("C15/ts/pid", "packet %zu carries PID %u, configured %u", n, r.pid, st->pid);
    else if (r.tei || r.tsc || r.prio) FAIL("C15/ts/header-bits", "packet %zu: transport_error=%d scrambling=%u priority=%d", n, r.tei, r.tsc, r.prio);
    else if (r.has_payload && r.cc != ((st->cc + 1) & 15)) FAIL("C15/ts/continuity", "packet %zu carries a payload: continuity counter %u after %u", n, r.cc, st->cc);
    else if (!r.has_payload && r.cc != st->cc) FAIL("C15/ts/continuity-no-payload", "packet %zu has no payload: continuity counter %u after %u (must not be incremented)", n, r.cc, st->cc);
    else if (!r.stuffing_ok) FAIL("C15/ts/stuffing", "packet %zu: adaptation field (length %u) stuffing is not 0xff", n, r.afl);
    else if (r.has_af && r.afl && (r.espi || r.opcr_f || r.sp_f || r.priv_f || r.ext_f)) FAIL("C15/ts/af-flags", "packet %zu: unexpected adaptation field flags (byte %02x)", n, pk[5]);
    else if (r.pusi && !r.has_payload) FAIL("C15/ts/pusi-without-payload", "packet %zu: payload_unit_start without payload", n);
    else if (r.pcr_f && (r.pcr_ext >= 300 || r.pcr_reserved != 0x3f)) FAIL("C15/ts/pcr-syntax", "packet %zu: PCR extension %u reserved bits %02x", n, r.pcr_ext, r.pcr_reserved);
    else if (r.pcr_f && st->pcr_forbidden) FAIL("C15/ts/pcr-unexpected", "packet %zu muxed at %llu carries a PCR although the PCR interval is 0 (no PCR insertion)", n, (unsigned long long)T);
    else if (!r.pcr_f && st->pcr_must) FAIL("C15/ts/pcr-missing", "packet %zu muxed at %llu carries no PCR although the PCR interval has elapsed since the last PCR", n, (unsigned long long)T);
    else if (r.pcr_f && st->check_pcr && c->offs.on) {
        int64_t prog = (int64_t)T + st->prog_minus_sys;
        if (!offs_observe(&c->offs, prog, r.pcr27, 0))
            FAIL("C15/ts/pcr-offset", "packet %zu muxed at %llu: PCR %llu is not the program clock there (%lld) shifted by the offset common to the other coded dates (set_cr_prog: base %llu, window %lld..%lld)", n,
                 (unsigned long long)T, (unsigned long long)r.pcr27, (long long)prog, (unsigned long long)c->offs.base, (long long)c->offs.lo, (long long)c->offs.hi);
    } else if (r.pcr_f && st->check_pcr) {
        uint64_t prog = T + (uint64_t)st->prog_minus_sys;
        uint64_t want = ((prog / 300) % R_POW33) * 300 + prog % 300;
        if (r.pcr27 != want) FAIL("C15/ts/pcr-value", "packet %zu muxed at %llu: PCR %llu (base %llu ext %u), program clock there is %llu -> %llu", n,
                                  (unsigned long long)T, (unsigned long long)r.pcr27, (unsigned long long)r.pcr_base, r.pcr_ext, (unsigned long long)prog, (unsigned long long)want);
    }
    if (ret) return ret;
    if (r.has_payload) st->cc = r.cc;
    if (n == st->capmeta) {
        size_t nc = st->capmeta ? st->capmeta * 2 : 256;
        struct pkmeta *m = realloc(st->meta, nc * sizeof(*m));
        if (!m) return vp_internal(rep, "malloc");
        st->meta = m; st->capmeta = nc;
    }
    st->meta[n].pusi = r.pusi; st->meta[n].has_payload = r.has_payload; st->meta[n].has_af = r.has_af; st->meta[n].pcr = r.pcr_f; st->meta[n].pid = r.pid;
    if (st->psi) {
        if (r.has_af && r.afl && (r.rai || r.di)) return vp_fail(rep, "C15/ts/marker-on-psi", "packet %zu of a PSI PID carries random_access=%d discontinuity=%d", n, r.rai, r.di);
        if (r.has_payload) {
            if (!es_push(c, pk + r.pay_off, r.pay_len)) return vp_internal(rep, "malloc");
            rpsi_packet(&c->rpsi, pk + r.pay_off, r.pay_len, r.pusi);
            if (c->rpsi.bad) return vp_fail(rep, "C15/psi/packet-syntax", "packet %zu (payload_unit_start=%d, pointer_field/first octet 0x%02x): %s", n, r.pusi, pk[r.pay_off], c->rpsi.bad);
        }
    } else if (r.has_payload) {
        if (r.pusi && !pstart_push(c, c->nes, r.has_af && r.afl && r.rai, r.has_af && r.afl && r.di)) return vp_internal(rep, "malloc");
        if (!r.pusi && r.has_af && r.afl && (r.rai || r.di)) return vp_fail(rep, "C15/ts/marker-not-on-unit-start", "packet %zu: random_access=%d discontinuity=%d on a packet that does not start a unit", n, r.rai, r.di);
        if (!es_push(c, pk + r.pay_off, r.pay_len)) return vp_internal(rep, "malloc");
    } else if (r.has_af && r.afl && (r.rai || r.di))
        return vp_fail(rep, "C15/ts/marker-not-on-unit-start", "packet %zu without payload carries random_access=%d discontinuity=%d", n, r.rai, r.di);
    bool exact;
    struct uref *uref = fx_uref_exact(&c->fx, pk, R_TS, &exact);
    if (!uref || !exact) { if (uref) uref_free(uref); return vp_internal(rep, "packet uref"); }
    c->fx.tag = n;
    upipe_input(st->decaps, uref, NULL);
    c->fx.tag = -1;
    st->npkt++;
    return 0;
}

/* One spliced ubuf -> 188 octets -> on_packet. */
static int take_packet(struct ctx *c, struct vp_report *rep, struct rstate *st, struct ubuf *ubuf, uint64_t T, bool render)
{
    size_t usz = 0; uint8_t pk[R_TS];
    ubuf_block_size(ubuf, &usz);
    if (usz != R_TS) { ubuf_free(ubuf); return vp_fail(rep, "C15/ts/size", "packet %zu has %zu octets", st->npkt, usz); }
    if (!ubase_check(ubuf_block_extract(ubuf, 0, R_TS, pk))) { ubuf_free(ubuf); return vp_internal(rep, "extract"); }
    ubuf_free(ubuf);
    return on_packet(c, rep, st, pk, T, render);
}

static const uint16_t pid_table[] = { 68, 0x100, 0x1ffe, 16, 0x1000, 0x0fff, 32, 0x1abc };

/* ------------------------------------------------------------------------------------------------ PSI sections */
#define MAXSEC 24
#define PSI_MAXOCT (MAXSEC * 4100)
struct secd { size_t off, size; uint64_t gap; bool pump; int nseg; size_t seg[2]; };

static int psi_compare(struct ctx *c, struct vp_report *rep, const struct rpsi *r, const char *who, const struct secd *sd, int nsec, const uint8_t *cat)
{
    char key[64];
    snprintf(key, sizeof key, "C15/psi/%s", who);
    if (r->bad) return vp_fail(rep, key, "section syntax in the %s: %s", who, r->bad);
    for (int i = 0; i < nsec; i++) {
        if ((unsigned)i >= r->nsec) return vp_fail(rep, key, "%d sections were sent, %u recovered from the %s", nsec, r->nsec, who);
        size_t got = r->off[i + 1] - r->off[i];
        if (got != sd[i].size || memcmp(r->buf + r->off[i], cat + sd[i].off, got)) {
            size_t d = 0; while (d < got && d < sd[i].size && r->buf[r->off[i] + d] == cat[sd[i].off + d]) d++;
            return vp_fail(rep, key, "section %d: sent %zu octets, recovered %zu from the %s; first difference at octet %zu", i, sd[i].size, got, who, d);
        }
    }
    if (r->nsec != (unsigned)nsec) return vp_fail(rep, key, "%d sections were sent, %u recovered from the %s", nsec, r->nsec, who);
    (void)c;
    return 0;
}

static int run_psi(struct ctx *c, struct tape *tp, struct vp_report *rep, unsigned flags, bool subR)
{
    struct tape t = *tp;
    struct fx *fx = &c->fx;
    bool render = flags & VP_RENDER, thorough = flags & VP_THOROUGH;
    int ret = 0;
    uint64_t cls = 0, h = VP_HASH_INIT;
    static struct secd sd[MAXSEC];

    uint8_t psel = tp_u8(&t);
    unsigned pid = (psel & 0x80) ? (tp_u16(&t) % 0x1fff) : (psel & 8) ? 0 : pid_table[psel % 8];   /* PAT PID 0 included */
    uint8_t csel = tp_u8(&t);
    bool do_setcc = csel & 16;
    unsigned cc0 = do_setcc ? (csel >> 5) + 8 * (csel & 1) : 0;
    uint8_t osel = tp_u8(&t);
    uint64_t octetrate = osel < 128 ? 1024 + 50 * (uint64_t)osel : 12500 * (uint64_t)(osel - 127);
    uint64_t tb_rate = (osel & 1) ? 125000 : octetrate * (1 + tp_u8(&t) % 3);          /* upipe_ts_mux: TB_RATE_PSI = 125000 */
    uint8_t msel = tp_u8(&t);
    unsigned tb_size = (msel & 3) == 1 ? 512 : (msel & 3) == 2 ? 1640 : (msel & 3) == 3 ? 4096 : 0;
    uint64_t mux_interval = (msel & 4) ? F27 / 1000 : 0;
    bool defer = (msel & 0x18) == 0x18;
    bool outsink = msel & 0x20;
    int nsec = 1 + tp_u8(&t) % (thorough ? MAXSEC : 8);
    uint64_t sys0 = (UINT64_C(1) << 44) + tp_u16(&t);
    int defer_k = defer ? tp_u8(&t) % (nsec + 1) : 0;
    h = vp_hash_mix(h, 0x5051 | (uint64_t)subR << 16 | (uint64_t)pid << 17 | (uint64_t)cc0 << 32 | (uint64_t)nsec << 40 | (uint64_t)defer << 48 | (uint64_t)outsink << 49);
    h = vp_hash_mix(h, octetrate ^ tb_rate << 24 ^ (uint64_t)tb_size << 48);
    cls |= UINT64_C(1) << (subR ? CL_PSI_R : CL_PSI_E);
    if (do_setcc && !subR) cls |= UINT64_C(1) << CL_SETCC;
    if (defer && !subR) cls |= UINT64_C(1) << CL_X_DEFER;
    if (outsink && !subR) cls |= UINT64_C(1) << CL_X_OUTSINK;
    R("C15/roundtrip path=%s pid=%u octetrate=%llu tb_rate=%llu tb_size=%u mux_interval=%llu first_cc=%u sections=%d sys0=%llu%s%s\n",
      subR ? "psi sections -> reference packetiser -> ts_decaps" : "psi sections -> ts_encaps (block.mpegtspsi.)", pid,
      (unsigned long long)octetrate, (unsigned long long)tb_rate, tb_size, (unsigned long long)mux_interval, (cc0 + 1) & 15, nsec, (unsigned long long)sys0,
      defer && !subR ? " [ubuf manager provided late]" : "", outsink && !subR ? " [output pipe set]" : "");

    /* ---------------- sections ---------------- */
    size_t total = 0;
    for (int i = 0; i < nsec; i++) {
        struct secd *d = &sd[i];
        memset(d, 0, sizeof *d);
        uint8_t z = tp_u8(&t);
        size_t sz;
        if (z < 12) sz = 3;
        else if (z < 40) sz = 3 + tp_u8(&t) % 200;
        else if (z < 110) { int k = 1 + (z - 40) / 10; long v = 184L * k - 1 + (int)(tp_u8(&t) % 5) - 2; sz = v < 3 ? 3 : v; }   /* section + pointer_field around k packets */
        else if (z < 160) sz = 3 + tp_u16(&t) % 1022;                                   /* up to 1024: PSI proper */
        else if (z < 210) sz = 3 + tp_u16(&t) % 4096;                                   /* up to 4098: 12-bit section_length */
        else if (z < 230) sz = (z & 1) ? 4098 : (z & 2) ? 1024 : 4096;
        else sz = 183 + 184 * (size_t)(z % 4);                                          /* ends exactly with a packet */
        if (sz > 4098) sz = 4098;
        d->size = sz; d->off = total; total += sz;
        uint8_t g = tp_u8(&t);
        d->pump = g & 1;
        d->gap = (g & 2) ? tp_u32(&t) % (F27 / 5) : (uint64_t)sz * F27 / octetrate;
        d->nseg = (g & 12) == 12 ? 1 + ((g >> 4) & 1) : 0;
        d->seg[0] = 1 + (g >> 5); d->seg[1] = 1 + tp_u8(&t);
        if (sz > 1024) cls |= UINT64_C(1) << CL_PSI_BIG;
        if (sz == 3) cls |= UINT64_C(1) << CL_PSI_MIN;
        if (d->nseg) cls |= UINT64_C(1) << CL_SEGMENTED;
    }
    c->cat = malloc(total);
    c->secbuf = malloc(total + 16); c->secbuf2 = malloc(total + 16);
    if (!c->cat || !c->secbuf || !c->secbuf2) { free(c->cat); free(c->secbuf); free(c->secbuf2); c->cat = c->secbuf = c->secbuf2 = NULL; fx_clean(fx); return vp_internal(rep, "malloc"); }
    c->ncat = total;
    for (int i = 0; i < nsec; i++) {
        struct secd *d = &sd[i];
        uint8_t fsel = tp_u8(&t), tid = tp_u8(&t);
        uint32_t seed = 0x51ed27u + 977u * i + fsel;
        uint8_t *p = c->cat + d->off;
        for (size_t k = 0; k < d->size; k++)
            p[k] = (fsel & 3) == 3 ? ((fsel & 4) ? 0xff : (fsel & 8) ? 0x47 : (uint8_t)(fsel >> 4)) : (uint8_t)(xs(&seed) >> 9);
        /* header through the reference bit writer: table_id (never 0xff: that is stuffing), section_syntax_indicator,
         * private_indicator, reserved, 12-bit section_length */
        uint8_t hd[3]; struct wbits b; wb_init(&b, hd, 3);
        wb_put(&b, 8, tid == 0xff ? 0x42 : tid);
        wb_put(&b, 1, fsel >> 7); wb_put(&b, 1, (fsel >> 6) & 1); wb_put(&b, 2, 3);
        wb_put(&b, 12, d->size - 3);
        memcpy(p, hd, 3);
        h = vp_hash_mix(h, (uint64_t)d->size << 24 | (uint64_t)p[0] << 16 | d->pump << 8 | d->nseg << 4 | (fsel & 15));
        R(" sec%d size=%zu table_id=0x%02x%s segs=%d%s\n", i, d->size, p[0], (fsel & 3) == 3 ? " constant fill" : "", d->nseg + 1, d->pump ? " then pump" : "");
    }
    rpsi_init(&c->rpsi, c->secbuf, total + 16);
    rpsi_init(&c->rpsi2, c->secbuf2, total + 16);

    /* ---------------- pipes ---------------- */
    struct upipe *enc = NULL, *decaps = NULL;
    decaps = upipe_void_alloc(upipe_ts_decaps_mgr_alloc(), fx_probe(fx, P_DECAPS));
    if (!decaps) ret = vp_internal(rep, "pipe allocation");
    fx_rec_init(fx, &c->tee, P_TEE, NULL);
    if (!ret && !ubase_check(upipe_set_output(decaps, &c->tee.upipe))) ret = vp_internal(rep, "set_output");
    if (!ret) {
        struct uref *dfd = uref_block_flow_alloc_def(fx->fm.uref_mgr, "mpegts.mpegtspsi.");
        if (!dfd || !ubase_check(upipe_set_flow_def(decaps, dfd))) ret = vp_internal(rep, "ts_decaps refused the flow definition block.mpegts.mpegtspsi.");
        if (dfd) uref_free(dfd);
    }
    if (!ret && !subR) {
        struct uref *fd = uref_block_flow_alloc_def(fx->fm.uref_mgr, "mpegtspsi.");
        enc = upipe_void_alloc(upipe_ts_encaps_mgr_alloc(), fx_probe(fx, P_ENC));
        if (!fd || !enc) ret = vp_internal(rep, "ts_encaps allocation");
        if (!ret && outsink) {
            fx_rec_init(fx, &c->outsink, P_OUT, NULL);
            if (!ubase_check(upipe_set_output(enc, &c->outsink.upipe))) ret = vp_internal(rep, "ts_encaps set_output");
        }
        if (!ret) {
            /* what upipe_ts_mux's psi_pid sets (PID, TB rate) plus the octetrate ts_psi_join computes; no PES attribute */
            if (defer) fx->defer_mask = 1u << P_ENC | 1u << P_OUT;
            bool ok = ubase_check(uref_block_flow_set_octetrate(fd, octetrate)) && ubase_check(uref_ts_flow_set_tb_rate(fd, tb_rate)) &&
                      ubase_check(uref_ts_flow_set_pid(fd, pid));
            if (!ok) ret = vp_internal(rep, "flow def attributes");
            else if (!ubase_check(upipe_set_flow_def(enc, fd))) ret = vp_fail(rep, "C15/encaps/psi-flow-def", "ts_encaps refused block.mpegtspsi. with octetrate, tb_rate and PID");
        }
        if (fd) uref_free(fd);
        if (!ret) {
            upipe_set_max_length(enc, UINT_MAX);
            if (tb_size) upipe_ts_encaps_set_tb_size(enc, tb_size);
            if (do_setcc && !ubase_check(upipe_ts_mux_set_cc(enc, cc0))) ret = vp_internal(rep, "set_cc");
            unsigned got = 99;
            if (!ret && do_setcc && (!ubase_check(upipe_ts_mux_get_cc(enc, &got)) || got != cc0))
                ret = vp_fail(rep, "C15/encaps/get-cc", "set_cc(%u) then get_cc gives %u", cc0, got);
        }
    }

    /* ---------------- run ---------------- */
    struct rstate st;
    memset(&st, 0, sizeof st);
    st.cc = cc0; st.pid = st.pid2 = pid; st.decaps = decaps; st.psi = true; st.pcr_forbidden = true;
    uint64_t T = 0, cr_sys = sys0;
    size_t maxpk = total / 100 + 30 * (size_t)nsec + 64;
    if (!subR) {
        for (int i = 0; i <= nsec && !ret; i++) {
            if (defer && i == defer_k) { R(" ubuf manager provided\n"); fx_provide_deferred(fx); }
            bool pump_now = true;
            if (i < nsec) {
                struct secd *d = &sd[i];
                struct uref *uref = fx_uref_segs(fx, c->cat + d->off, d->size, d->seg, d->nseg);
                if (!uref) { ret = vp_internal(rep, "section uref"); break; }
                cr_sys += d->gap;
                uref_clock_set_cr_sys(uref, cr_sys);
                uref_block_set_start(uref);
                upipe_input(enc, uref, NULL);
                pump_now = d->pump || i == nsec - 1;
            } else {
                if (!ubase_check(upipe_ts_encaps_eos(enc))) { ret = vp_internal(rep, "eos"); break; }
            }
            if (!pump_now) continue;
            while (!ret && fx->st_cr_sys != UINT64_MAX) {
                if (!fx->st_ready) { FAIL("C15/encaps/psi-not-ready", "ts_encaps holds a PSI section (status cr_sys=%llu) but does not report it ready", (unsigned long long)fx->st_cr_sys); break; }
                if (fx->st_cr_sys > T) T = fx->st_cr_sys;
                struct ubuf *ubuf = NULL; uint64_t dts_sys = 0;
                if (!ubase_check(upipe_ts_encaps_splice(enc, T, T + mux_interval, &ubuf, &dts_sys)) || !ubuf) {
                    FAIL("C15/encaps/splice", "upipe_ts_encaps_splice(%llu) failed or returned no packet (status cr_sys=%llu ready=%d)", (unsigned long long)T, (unsigned long long)fx->st_cr_sys, fx->st_ready);
                    break;
                }
                ret = take_packet(c, rep, &st, ubuf, T, render);
                if (!ret && st.npkt > maxpk) FAIL("C15/encaps/no-progress", "%zu packets emitted for %zu octets in %d sections", st.npkt, total, nsec);
            }
        }
        if (!ret && enc) {
            unsigned got = 99;
            if (st.npkt && (!ubase_check(upipe_ts_mux_get_cc(enc, &got)) || got != st.cc))
                FAIL("C15/encaps/get-cc", "get_cc gives %u, the last packet with payload carried %u", got, st.cc);
            struct upipe *o = NULL;
            if (!ret && outsink && (!ubase_check(upipe_get_output(enc, &o)) || o != &c->outsink.upipe)) FAIL("C15/encaps/get-output", "get_output does not return the pipe given to set_output");
        }
        fx->ndeferred = 0;
        if (enc) { upipe_release(enc); enc = NULL; }
        if (!ret && fx->st_cr_sys != UINT64_MAX)
            FAIL("C15/encaps/data-left", "after eos and draining, ts_encaps still reports data (cr_sys=%llu ready=%d)", (unsigned long long)fx->st_cr_sys, fx->st_ready);
        if (!ret && (!fx->got_last_cc || fx->last_cc_event != st.cc))
            FAIL("C15/encaps/last-cc", "last_cc event says %u (thrown=%d), last packet with payload carried %u", fx->last_cc_event, fx->got_last_cc, st.cc);
        if (!ret && outsink && c->outsink.nchunks)
            FAIL("C15/encaps/output-data", "the output pipe of ts_encaps received %zu buffers (packets leave through splice only)", c->outsink.nchunks);
    } else {
        /* reference section packetiser (ISO/IEC 13818-1 2.4.4): sections back to back; the first payload octet of a packet
         * in which a section starts is the pointer_field (octets of the previous section's tail before that start); after
         * a section, at the generator's choice, 0xff stuffing to the end of the packet or the next section at once */
        uint8_t pay[184]; unsigned pn = 0; bool pusi = false;
#define PSI_EMIT() do { \
            struct wts w; memset(&w, 0, sizeof w); uint8_t pk[R_TS]; \
            if (pn < 184) memset(pay + pn, 0xff, 184 - pn); \
            w.pid = pid; w.pusi = pusi; w.has_payload = true; w.cc = (st.cc + 1) & 15; w.payload = pay; w.pay_len = 184; \
            if (!wts_build(&w, pk)) ret = vp_internal(rep, "reference section packetiser"); \
            else ret = on_packet(c, rep, &st, pk, 0, render); \
            pn = 0; pusi = false; } while (0)
        for (int si = 0; si < nsec && !ret; si++) {
            /* room for the pointer_field (if this packet has none yet) and at least the first octet of the section? */
            if (pn && (pusi ? pn >= 184 : pn >= 183)) PSI_EMIT();
            if (ret) break;
            if (!pusi) {
                if (pn) memmove(pay + 1, pay, pn);
                pay[0] = pn; pn++; pusi = true;
            }
            size_t spos = 0;
            while (spos < sd[si].size && !ret) {
                if (pn == 184) PSI_EMIT();
                size_t room = 184 - pn, rest = sd[si].size - spos, n = rest < room ? rest : room;
                memcpy(pay + pn, c->cat + sd[si].off + spos, n);
                pn += n; spos += n;
            }
            uint8_t sh = tp_u8(&t);
            if (!ret && (pn == 184 || (sh & 3) == 1 || si == nsec - 1)) PSI_EMIT();
        }
#undef PSI_EMIT
    }
    if (decaps) upipe_release(decaps);
    if (!ret && (fx->harness_oom || fx->ev_overflow)) ret = vp_internal(rep, "harness recorder overflow");

    /* ---------------- oracles ---------------- */
    if (!ret && c->tee.nchunks && strcmp(c->tee.flowdef, "block.mpegtspsi."))
        ret = vp_fail(rep, "C15/decaps/flow-def", "ts_decaps given block.mpegts.mpegtspsi. announces '%s' downstream, expected block.mpegtspsi.", c->tee.flowdef);
    if (!ret) { rpsi_end(&c->rpsi); ret = psi_compare(c, rep, &c->rpsi, subR ? "reference-packets" : "emitted-packets", sd, nsec, c->cat); }
    if (!ret) {
        struct fx_rec *Tt = &c->tee;
        if (Tt->nbytes != c->nes || memcmp(Tt->bytes, c->es, c->nes)) {
            size_t d = 0; while (d < Tt->nbytes && d < c->nes && Tt->bytes[d] == c->es[d]) d++;
            FAIL("C15/upipe/ts-payload", "ts_decaps output %zu payload octets, the reference parser %zu; first difference at %zu", Tt->nbytes, c->nes, d);
        }
        for (size_t q = 0; q < Tt->nchunks && !ret; q++) {
            struct fx_chunk *ch = &Tt->chunks[q];
            if (ch->tag < 0 || (size_t)ch->tag >= st.npkt) { FAIL("C15/upipe/untagged", "ts_decaps output outside any packet"); break; }
            if (!!(ch->flags & FXC_START) != st.meta[ch->tag].pusi) FAIL("C15/upipe/unit-start", "packet %d: payload_unit_start=%d, ts_decaps start flag=%d", ch->tag, st.meta[ch->tag].pusi, !!(ch->flags & FXC_START));
            if ((ch->flags & FXC_DISC) && q > 0) FAIL("C15/upipe/spurious-discontinuity", "packet %d: ts_decaps flags a discontinuity in a gap-free stream", ch->tag);
            if (ch->flags & (FXC_ERROR | FXC_RAND)) FAIL("C15/upipe/error-flag", "packet %d: error or random flag", ch->tag);
            if (!ret && ch->len) rpsi_packet(&c->rpsi2, Tt->bytes + ch->off, ch->len, ch->flags & FXC_START);
        }
        if (!ret) { rpsi_end(&c->rpsi2); ret = psi_compare(c, rep, &c->rpsi2, "ts_decaps-output", sd, nsec, c->cat); }
    }
    if (c->rpsi.saw_span) cls |= UINT64_C(1) << CL_PSI_SPAN;
    if (c->rpsi.saw_pad) cls |= UINT64_C(1) << CL_PSI_PAD;
    if (c->rpsi.saw_exact) cls |= UINT64_C(1) << CL_PSI_EXACT;
    if (c->rpsi.saw_multi) cls |= UINT64_C(1) << CL_PSI_MULTI;
    if (c->rpsi.saw_pointer_nz) cls |= UINT64_C(1) << CL_PSI_PTR;

    fx_rec_clean(&c->tee); fx_rec_clean(&c->outsink);
    free(st.meta); free(c->cat); free(c->secbuf); free(c->secbuf2);
    c->cat = c->secbuf = c->secbuf2 = NULL;
    const char *leak = fx_clean(fx);
    if (leak && !ret) ret = vp_fail(rep, "C15/leak/roundtrip", "after releasing every pipe: %s", leak);
    rep->case_hash = h;
    rep->classes = cls;
    /* NT for sections: one spanning >= 3 packets with stuffing after it, or several sections in one packet */
    rep->nontrivial = (c->rpsi.saw_span && c->rpsi.saw_pad && st.npkt >= 3) || c->rpsi.saw_multi;
    return ret;
}

/* ------------------------------------------------------------------------------------------------ access units */

/* flow definition for the encapsulation pipe under configuration k */
static struct uref *make_flow_def(struct fx *fx, bool video, bool pathP, const struct cfg *cf, uint64_t min_dur, uint64_t octetrate,
                                  uint64_t tb_rate, bool aligned, bool maxdelay, uint64_t max_delay)
{
    struct uref *fd = uref_block_flow_alloc_def(fx->fm.uref_mgr, video ? "h264.pic." : "mp2.sound.");
    if (!fd) return NULL;
    bool ok = ubase_check(uref_ts_flow_set_pes_id(fd, cf->pes_id));
    if (cf->min_hdr) ok = ok && ubase_check(uref_ts_flow_set_pes_header(fd, cf->min_hdr));
    if (min_dur) ok = ok && ubase_check(uref_ts_flow_set_pes_min_duration(fd, min_dur));
    if (!pathP) {
        ok = ok && ubase_check(uref_block_flow_set_octetrate(fd, octetrate)) && ubase_check(uref_ts_flow_set_tb_rate(fd, tb_rate)) &&
             ubase_check(uref_ts_flow_set_pid(fd, cf->pid));
        if (aligned) ok = ok && ubase_check(uref_ts_flow_set_pes_alignment(fd));
        if (maxdelay) ok = ok && ubase_check(uref_ts_flow_set_max_delay(fd, max_delay));
    }
    if (!ok) { uref_free(fd); return NULL; }
    return fd;
}

/* flow definitions the pipe must refuse (documented input: block., and for ts_encaps octetrate != 0, TB rate, PID, and a PES
 * stream id unless PSI); the pipe stays usable. Returns the number accepted. */
static int try_bad_flow_defs(struct fx *fx, struct upipe *enc, bool pathP, const struct uref *good, char *what, size_t whatsz)
{
    int accepted = 0;
    what[0] = 0;
    if (ubase_check(upipe_set_flow_def(enc, NULL))) { accepted++; snprintf(what, whatsz, "NULL"); }
    for (int v = 0; v < (pathP ? 2 : 6); v++) {
        struct uref *fd = uref_dup((struct uref *)good);
        if (!fd) return -1;
        const char *name;
        switch (v) {
        case 0: uref_flow_set_def(fd, "pic."); name = "def pic. (not block.)"; break;
        case 1: uref_ts_flow_delete_pes_id(fd); name = "no PES stream id"; break;
        case 2: uref_block_flow_delete_octetrate(fd); name = "no octetrate"; break;
        case 3: uref_block_flow_set_octetrate(fd, 0); name = "octetrate 0"; break;
        case 4: uref_ts_flow_delete_tb_rate(fd); name = "no TB rate"; break;
        default: uref_ts_flow_delete_pid(fd); name = "no PID"; break;
        }
        if (ubase_check(upipe_set_flow_def(enc, fd))) { accepted++; snprintf(what, whatsz, "%s", name); }
        uref_free(fd);
    }
    return accepted;
}

static int au_containing(const struct ctx *c, size_t off)
{
    for (int i = 0; i < c->nau; i++) if (off >= c->au[i].off && off < c->au[i].off + c->au[i].size) return i;
    return -1;
}

static int run(const uint8_t *tape_, size_t len, struct vp_report *rep, unsigned flags)
{
    struct ctx *c = &C;
    struct tape t;
    tp_init(&t, tape_, len);
    bool render = flags & VP_RENDER;
    bool thorough = flags & VP_THOROUGH;
    int ret = 0;
    uint64_t cls = 0;
    uint64_t h = VP_HASH_INIT;
    struct fx *fx = &c->fx;

    c->nau = 0; c->ncat = 0; c->nes = 0; c->npstart = 0; c->nva = c->nvb = 0;
    c->cat = NULL; c->va = c->vb = NULL;
    memset(&c->offs, 0, sizeof c->offs);
    if (fx_init(fx) != 0) return vp_internal(rep, "fx_init");

    /* ---------------- configuration ---------------- */
    uint8_t b0 = tp_u8(&t);
    if (((b0 >> 2) & 7) == 5 || ((b0 >> 2) & 7) == 6) return run_psi(c, &t, rep, flags, (b0 % 4) == 3);
    bool pathP = (b0 % 4) == 3;
    uint8_t ssel = tp_u8(&t);
    unsigned pes_id;
    switch (ssel % 8) {
    case 0: case 1: case 2: pes_id = 0xe0; break;
    case 3: pes_id = 0xc0; break;
    case 4: pes_id = 0xbd; break;
    case 5: pes_id = 0xbf; break;
    case 6: pes_id = 0xe0 + (ssel >> 3) % 16; break;
    default: pes_id = 0xc0 + (ssel >> 3) % 32; break;
    }
    bool video = (pes_id & 0xf0) == 0xe0;
    bool priv2 = pes_id == 0xbf;
    uint8_t psel = tp_u8(&t);
    unsigned pid = (psel & 0x80) ? 16 + (tp_u16(&t) % (0x1fff - 16)) : pid_table[psel % 8];
    uint8_t csel = tp_u8(&t);
    bool aligned = pathP || (csel & 3) != 3;
    bool live = (csel & 12) == 12;
    bool do_setcc = csel & 16;
    unsigned cc0 = do_setcc ? (csel >> 5) + 8 * (tp_u8(&t) & 1) : 0;
    uint8_t hsel = tp_u8(&t);
    unsigned min_hdr = 0;
    if (hsel >= 128) {
        if (priv2) min_hdr = hsel % 7;                       /* a header-less stream cannot be padded: <= 6 */
        else switch ((hsel >> 4) & 7) { case 0: min_hdr = 9; break; case 1: min_hdr = 14; break; case 2: min_hdr = 19; break;
                                        case 3: min_hdr = 45; break; case 4: min_hdr = 20 + hsel % 16; break; case 5: min_hdr = 184; break;
                                        case 6: min_hdr = 255; break; default: min_hdr = 9 + hsel % 200; break; }
    }
    uint8_t dsel = tp_u8(&t);
    uint64_t min_dur = (dsel & 7) == 7 ? F27 / 25 * (1 + (dsel >> 3) % 4) : 0;   /* 40..160 ms */
    uint8_t osel = tp_u8(&t);
    uint64_t octetrate = osel < 64 ? 2206 * (1 + osel) : osel < 192 ? 125000 * (uint64_t)(osel - 63) : 1000000 * (uint64_t)(osel - 191);
    uint64_t tb_rate = octetrate + octetrate * (tp_u8(&t) % 4) / 5;
    uint8_t msel = tp_u8(&t);
    unsigned tb_size = (msel & 3) == 1 ? 512 : (msel & 3) == 2 ? 1640 : 0;
    uint64_t mux_interval = (msel & 4) ? F27 / 1000 : 0;
    uint64_t pcr_interval = 0;
    if (!pathP && (msel & 0x30)) pcr_interval = (msel & 0x30) == 0x10 ? F27 / 10 : (msel & 0x30) == 0x20 ? F27 / 25 : 1000 + 37 * (msel >> 6);
    int nau = 1 + tp_u8(&t) % (thorough ? MAXAU : 6);
    uint64_t sys0 = (UINT64_C(1) << 44) + tp_u16(&t);
    uint64_t prog0;
    switch (tp_u8(&t) % 6) {
    case 0: prog0 = F27; break;
    case 1: prog0 = 0; break;
    case 2: prog0 = R_POW33 * 300 - F27 / 2 - tp_u16(&t); break;        /* the 33-bit fields wrap during the case */
    case 3: prog0 = R_POW33 * 300 - 1 - tp_u8(&t); break;
    case 4: prog0 = (uint64_t)tp_u32(&t) * 300 + tp_u8(&t); break;
    default: prog0 = R_POW33 * 300 * 3 + tp_u32(&t); break;             /* program clock beyond 2^33 ticks */
    }
    h = vp_hash_mix(h, pathP | pes_id << 1 | pid << 9 | aligned << 22 | live << 23 | (uint64_t)min_hdr << 24 | (uint64_t)cc0 << 32 | (uint64_t)nau << 40);
    h = vp_hash_mix(h, min_dur ^ pcr_interval << 20 ^ octetrate << 40);
    h = vp_hash_mix(h, prog0);
    cls |= UINT64_C(1) << (pathP ? CL_PATH_P : CL_PATH_E);
    if (!aligned) cls |= UINT64_C(1) << CL_NOALIGN;
    if (min_hdr > (priv2 ? 6u : 9u)) cls |= UINT64_C(1) << CL_MINHDR;
    if (priv2) cls |= UINT64_C(1) << CL_PRIV2;
    if (live && !pathP) cls |= UINT64_C(1) << CL_LIVE;
    if (do_setcc && !pathP) cls |= UINT64_C(1) << CL_SETCC;
    R("C15/roundtrip path=%s pes_id=0x%02x pid=%u %s min_pes_header=%u min_pes_duration=%llu octetrate=%llu tb_rate=%llu tb_size=%u pcr_interval=%llu mux_interval=%llu mode=%s first_cc=%u aus=%d sys0=%llu prog0=%llu\n",
      pathP ? "ts_pes_encaps" : "ts_encaps", pes_id, pid, aligned ? "aligned" : "not-aligned", min_hdr, (unsigned long long)min_dur,
      (unsigned long long)octetrate, (unsigned long long)tb_rate, tb_size, (unsigned long long)pcr_interval, (unsigned long long)mux_interval,
      live ? "live" : "file", (cc0 + 1) & 15, nau, (unsigned long long)sys0, (unsigned long long)prog0);

    /* ---------------- access units ---------------- */
    struct audesc { size_t size; uint8_t fill; int mode; uint64_t gap, cr_dts, dts_pts, dur; int nseg; size_t seg[2]; bool pump, force_delay; } ad[MAXAU];
    size_t max_hdr = min_hdr > 19 ? min_hdr : 19;
    size_t cap_nonvideo = 65535 + 6 - max_hdr;
    if (!aligned) cap_nonvideo -= 184;        /* the tail of the previous unit may be moved into this PES */
    if (min_dur) cap_nonvideo /= nau;
    size_t total = 0;
    for (int i = 0; i < nau; i++) {
        struct audesc *d = &ad[i];
        memset(d, 0, sizeof *d);
        uint8_t z = tp_u8(&t);
        size_t sz;
        if (z < 12) sz = 1;
        else if (z < 40) sz = 1 + tp_u8(&t);
        else if (z < 110) { static const int hd[] = { 14, 19, 9, 6, 0, 22, 27 }; int k = 1 + (z - 40) / 10; long v = 184L * k - hd[z % 7] + (int)(tp_u8(&t) % 5) - 2; sz = v < 1 ? 1 : v; }
        else if (z < 150) sz = 1 + tp_u16(&t) % 3000;
        else if (z < 190) { int k = 7 + (z - 150); long v = 184L * k - (z & 1 ? 19 : 14) + (int)(tp_u8(&t) % 5) - 2; sz = v; }
        else if (z < 226) sz = 1 + (thorough ? tp_u32(&t) % 70000 : tp_u16(&t) % 9000);
        else sz = 65535 + 6 - (z & 1 ? 19 : z & 2 ? 14 : 9) + (int)(tp_u8(&t) % 13) - 6;      /* around the 16-bit PES length limit */
        if (!video && sz > cap_nonvideo) sz = cap_nonvideo ? cap_nonvideo : 1;      /* PES_packet_length 0 is reserved to video */
        if (total + sz > (thorough ? 400000u : 160000u)) sz = 1 + sz % 1500;        /* bound the case */
        d->size = sz;
        d->fill = tp_u8(&t);
        uint8_t a = tp_u8(&t);
        /* date mode: 0 cr_prog + cr_dts_delay + dts_pts_delay; 1 cr_prog + cr_dts_delay (no PTS);
         * 2 no program date; 3 dts_prog + dts_pts_delay; 4 pts_prog only */
        d->mode = (a & 7) < 4 ? 0 : (a & 7) - 3;
        if (!pathP && pcr_interval && d->mode >= 2) d->mode = 0;      /* a PCR PID needs cr_prog on every unit (mux) */
        /* without PES alignment ts_encaps moves the tail of a unit into the next PES and re-derives that PES's dates from
         * dts_prog + dts_pts_delay of the next unit: units dated by a PTS only lose it, units with a DTS but no
         * dts_pts_delay get PTS = DTS. Framers always give both, so such units are generated for the aligned mode only. */
        if (!pathP && !aligned && (d->mode == 4 || d->mode == 1)) d->mode = d->mode == 4 ? 3 : 0;
        if (pathP && d->mode == 1) d->mode = 0;
        bool rnd = (a & 0x18) == 0x18, dsc = (a & 0x60) == 0x60;
        d->pump = a & 0x80;
        uint8_t ts = tp_u8(&t);
        switch (ts % 8) {
        case 0: d->dts_pts = F27 / 25; break;
        case 1: d->dts_pts = 0; break;
        case 2: d->dts_pts = 299; break;                       /* same 90 kHz tick or the next one */
        case 3: d->dts_pts = 300; break;
        case 4: d->dts_pts = F27 * 60; break;
        case 5: d->dts_pts = F27 * 60 + 300 + tp_u16(&t); break;
        case 6: d->dts_pts = tp_u32(&t) % (F27 * 60); break;
        default: d->dts_pts = 3003 * 300 * (1 + (ts >> 3) % 4); break;
        }
        d->cr_dts = (ts & 0x80) ? F27 / 5 + tp_u16(&t) : F27;
        d->gap = (ts & 0x40) ? tp_u32(&t) % (F27 / 5) : (uint64_t)sz * F27 / octetrate;
        d->dur = min_dur ? (((ts >> 3) & 3) == 3 ? 0 : F27 / 50) : 0;       /* 0 = no duration attribute */
        uint8_t g = tp_u8(&t);
        d->nseg = g % 4 == 3 ? 1 + (g >> 2) % 2 : 0;
        d->seg[0] = 1 + (g >> 3) % 24; d->seg[1] = 1 + tp_u8(&t);
        struct au *u = &c->au[i];
        memset(u, 0, sizeof *u);
        u->off = total; u->size = sz; u->random = rnd; u->disc = dsc;
        total += sz;
        h = vp_hash_mix(h, (uint64_t)sz << 20 | d->mode << 16 | rnd << 15 | dsc << 14 | d->nseg << 12 | d->pump << 11 | (d->fill & 3));
        h = vp_hash_mix(h, d->dts_pts ^ d->gap << 24);
        if (sz == 1) cls |= UINT64_C(1) << CL_TINY;
        if (sz + 32 > 65535 && sz < 65535 + 32) cls |= UINT64_C(1) << CL_NEAR64K;
        if (rnd) cls |= UINT64_C(1) << CL_RANDOM;
        if (dsc) cls |= UINT64_C(1) << CL_DISC;
        if (d->nseg) cls |= UINT64_C(1) << CL_SEGMENTED;
    }

    /* ---------------- extension block (an exhausted tape gives none) ---------------- */
    struct ext X;
    memset(&X, 0, sizeof X);
    c->cfg[0].pid = c->cfg[1].pid = pid; c->cfg[0].pes_id = c->cfg[1].pes_id = pes_id; c->cfg[0].min_hdr = c->cfg[1].min_hdr = min_hdr;
    uint8_t x0 = tp_u8(&t);
    if (x0) {
        X.any = true;
        if (x0 & 1) { X.defer = true; X.defer_k = tp_u8(&t) % (nau + 1); }
        if ((x0 & 2) && !pathP) X.outsink = true;
        /* ts_pes_encaps keeps itself alive while it buffers: its owner may release it before the manager arrives */
        if ((x0 & 3) == 3 && pathP) { X.early_release = true; X.defer_k = nau; }
        if ((x0 & 4) && !pathP) {
            X.setcr = true;
            uint8_t v = tp_u8(&t);
            switch (v % 6) {
            case 0: X.cr_v = F27 * 3600; break;
            case 1: X.cr_v = 0; break;
            case 2: X.cr_v = M33 - F27 / 2 - tp_u16(&t); break;           /* the coded dates wrap during the case */
            case 3: X.cr_v = prog0; break;
            case 4: X.cr_v = (uint64_t)tp_u32(&t) * 300 + (v >> 3); break;
            default: X.cr_v = M33 * 2 + tp_u32(&t); break;
            }
        }
        if ((x0 & 8) && !pathP) {
            X.nops = 1 + tp_u8(&t) % 4;
            for (int k = 0; k < X.nops; k++) {
                struct extop *o = &X.op[k];
                uint8_t kd = tp_u8(&t), vv = tp_u8(&t);
                { static const uint8_t kmap[8] = { XO_PCRIV, XO_TBSIZE, XO_SPLICE_FLUSH, XO_UPIPE_FLUSH, XO_MAXLEN, XO_PCROFF, XO_SPLICE_FLUSH, XO_UPIPE_FLUSH };
                  o->kind = kmap[kd % 8]; }
                o->at = (kd / 8) % (nau + 1); o->done = false;
                switch (o->kind) {
                case XO_PCRIV: { static const uint64_t iv[] = { F27 / 10, F27 / 25, F27 / 1000, F27 * 10, 1037, F27 / 50 }; o->v = iv[vv % 6]; break; }
                case XO_TBSIZE: { static const unsigned tb[] = { 512, 1640, 4096, 188, 1316 }; o->v = tb[vv % 5]; break; }
                case XO_MAXLEN: { static const unsigned ml[] = { UINT_MAX, 1000, 255, 64 }; o->v = ml[vv % 4]; break; }
                default: o->v = vv; break;
                }
            }
        }
        if ((x0 & 16) && !pathP) {
            static const uint64_t md[] = { F27 / 10, F27 * 2, F27 / 2, F27 * 10, 1 };
            X.maxdelay = true; X.max_delay = md[tp_u8(&t) % 5];
        }
        if (x0 & 32) X.getters = true;
        if ((x0 & 64) && nau >= 2) {
            X.fdchange = true;
            uint8_t f0 = tp_u8(&t), f1 = tp_u8(&t);
            X.fd_at = 1 + f0 % (nau - 1);
            c->cfg[1].pid = (f1 & 8) ? pid : pid_table[f1 % 8];
            if (video) c->cfg[1].pes_id = 0xe0 + (f0 >> 4) % 16;
            else if ((pes_id & 0xe0) == 0xc0) c->cfg[1].pes_id = 0xc0 + (f0 >> 3) % 32;
            if (priv2) c->cfg[1].min_hdr = f1 >> 5 > 6 ? 0 : f1 >> 5;
            else { unsigned mh[] = { 0, 9, 14, 19, min_hdr }; c->cfg[1].min_hdr = mh[(f1 >> 4) % 5]; }
            X.octetrate2 = (f0 & 4) ? octetrate * 2 : (f0 & 8) ? (octetrate / 2 ? octetrate / 2 : 1) : octetrate;
            X.tb_rate2 = X.octetrate2 + X.octetrate2 * (f1 & 3) / 5;
        }
        if (x0 & 128) X.badfd = true;
    }
    /* preconditions of the commands of the script (what upipe_ts_mux guarantees when it issues them) */
    for (int k = 0; k < X.nops; k++)
        if ((X.op[k].kind == XO_SPLICE_FLUSH || X.op[k].kind == XO_UPIPE_FLUSH) && aligned && !pathP) {
            /* the flushes are modelled for the plain mode only (file mode, no aggregation): take it when one is scripted */
            if (live) { live = false; cls &= ~(UINT64_C(1) << CL_LIVE); }
            min_dur = 0;
        }
    bool simple_mode = !pathP && aligned && !min_dur && !live;      /* one PES per unit, every held unit is unstarted after a drain */
    bool any_pcr = pcr_interval != 0, any_flush = false;
    for (int k = 0; k < X.nops; k++) {
        if (X.op[k].kind == XO_PCRIV) any_pcr = true;
        if ((X.op[k].kind == XO_SPLICE_FLUSH || X.op[k].kind == XO_UPIPE_FLUSH) && !simple_mode) X.op[k].done = true;     /* not issued */
        if (X.op[k].kind == XO_SPLICE_FLUSH && !X.op[k].done) any_flush = true;
        if ((X.op[k].kind == XO_SPLICE_FLUSH || X.op[k].kind == XO_UPIPE_FLUSH) && !X.op[k].done) {
            /* let units accumulate before the flush: no pump after the two units before it, one after its own */
            int at = X.op[k].at < nau ? X.op[k].at : nau - 1;
            ad[at].pump = true;
            if (at >= 1) ad[at - 1].pump = false;
            if (at >= 2) ad[at - 2].pump = false;
        }
    }
    for (int i = 0; i < nau; i++) {
        if (!pathP && any_pcr && ad[i].mode >= 2) ad[i].mode = 0;                    /* a PCR PID needs cr_prog on every unit */
        if (any_flush) { if (ad[i].mode >= 3) ad[i].mode = 0; ad[i].force_delay = true; }    /* every unit has a dts_sys (upipe_ts_tstd) */
        c->au[i].cfg = X.fdchange && i >= X.fd_at;
    }
    h = vp_hash_mix(h, x0 | (uint64_t)X.defer_k << 8 | (uint64_t)X.fd_at << 16 | (uint64_t)X.nops << 24 | (uint64_t)c->cfg[1].pid << 32 | (uint64_t)c->cfg[1].pes_id << 48);
    for (int k = 0; k < X.nops; k++) h = vp_hash_mix(h, X.op[k].kind | X.op[k].at << 8 | X.op[k].v << 16);
    if (X.setcr) h = vp_hash_mix(h, X.cr_v);
    if (X.any) {
        R(" extension:%s%s%s%s%s%s%s\n", X.defer ? " ubuf-manager-late" : "", X.outsink ? " output-pipe" : "", X.setcr ? " set_cr_prog" : "",
          X.maxdelay ? " max_delay" : "", X.getters ? " getters" : "", X.fdchange ? " flow-def-change" : "", X.badfd ? " refused-flow-defs" : "");
        if (X.defer) R("  ubuf manager provided before unit %d%s\n", X.defer_k, X.early_release ? ", after the pipe was released by its owner" : "");
        if (X.setcr) R("  set_cr_prog(%llu) before the first splice\n", (unsigned long long)X.cr_v);
        if (X.maxdelay) R("  max_delay=%llu\n", (unsigned long long)X.max_delay);
        if (X.fdchange) R("  before au%d: flow definition pid=%u pes_id=0x%02x min_pes_header=%u octetrate=%llu tb_rate=%llu\n", X.fd_at, c->cfg[1].pid, c->cfg[1].pes_id,
                          c->cfg[1].min_hdr, (unsigned long long)X.octetrate2, (unsigned long long)X.tb_rate2);
        for (int k = 0; k < X.nops; k++) {
            static const char *const kn[] = { "set_pcr_interval", "set_tb_size", "splice(NULL): drop late units", "UPIPE_FLUSH", "set_max_length", "set_pcr_interval(0)" };
            R("  at %d: %s %llu%s\n", X.op[k].at, kn[X.op[k].kind], (unsigned long long)X.op[k].v, X.op[k].done ? " (not issued in this mode)" : "");
        }
    }
    if (X.defer) cls |= UINT64_C(1) << CL_X_DEFER;
    if (X.early_release) cls |= UINT64_C(1) << CL_X_EARLY_RELEASE;
    if (X.outsink) cls |= UINT64_C(1) << CL_X_OUTSINK;
    if (X.maxdelay) cls |= UINT64_C(1) << CL_X_MAXDELAY;
    if (X.getters) cls |= UINT64_C(1) << CL_X_GETTERS;
    if (X.fdchange) cls |= UINT64_C(1) << CL_X_FDCHANGE;
    if (X.badfd) cls |= UINT64_C(1) << CL_X_BADFD;

    c->nau = nau;
    c->ncat = total;
    c->cat = malloc(total ? total : 1);
    if (!c->cat) { fx_clean(fx); return vp_internal(rep, "malloc"); }
    for (int i = 0; i < nau; i++) {
        uint32_t seed = 0xabcdef01u + 31337u * i + ad[i].fill;
        for (size_t k = 0; k < ad[i].size; k++)
            c->cat[c->au[i].off + k] = (ad[i].fill & 3) == 3 ? (uint8_t)(ad[i].fill >> 2) : (uint8_t)(xs(&seed) >> 9);
    }

    /* ---------------- pipes ---------------- */
    struct upipe *enc = NULL, *decaps = NULL, *pesd = NULL;
    fx_rec_init(fx, &c->sink, P_SINK, NULL);
    pesd = upipe_void_alloc(upipe_ts_pesd_mgr_alloc(), fx_probe(fx, P_PESD));
    decaps = upipe_void_alloc(upipe_ts_decaps_mgr_alloc(), fx_probe(fx, P_DECAPS));
    if (!pesd || !decaps) ret = vp_internal(rep, "pipe allocation");
    if (!ret) {
        fx_rec_init(fx, &c->tee, P_TEE, pesd);
        if (!ubase_check(upipe_set_output(pesd, &c->sink.upipe)) || !ubase_check(upipe_set_output(decaps, &c->tee.upipe)))
            ret = vp_internal(rep, "set_output");
    }
    struct uref *fd = NULL, *fd2 = NULL;
    if (!ret) {
        fd = make_flow_def(fx, video, pathP, &c->cfg[0], min_dur, octetrate, tb_rate, aligned, X.maxdelay, X.max_delay);
        if (X.fdchange) fd2 = make_flow_def(fx, video, pathP, &c->cfg[1], min_dur, X.octetrate2, X.tb_rate2, aligned, X.maxdelay, X.max_delay);
        if (!fd || (X.fdchange && !fd2)) ret = vp_internal(rep, "flow def");
    }
    uint64_t pcr_iv = pcr_interval;          /* the PCR interval in force (model) */
    bool pcr_continuous = true;              /* it has been non-zero since before the first unit */
    unsigned tb_size_now = tb_size ? tb_size : 512;
    if (!ret) {
        if (pathP) {
            fx_rec_init(fx, &c->sinka, P_SINKA, NULL);
            enc = upipe_void_alloc(upipe_ts_pese_mgr_alloc(), fx_probe(fx, P_ENC));
            if (!enc || !ubase_check(upipe_set_output(enc, &c->sinka.upipe))) ret = vp_internal(rep, "ts_pes_encaps setup");
        } else {
            enc = upipe_void_alloc(upipe_ts_encaps_mgr_alloc(), fx_probe(fx, P_ENC));
            if (!enc) ret = vp_internal(rep, "ts_encaps setup");
            if (!ret && X.outsink) {
                fx_rec_init(fx, &c->outsink, P_OUT, NULL);
                if (!ubase_check(upipe_set_output(enc, &c->outsink.upipe))) ret = vp_internal(rep, "ts_encaps set_output");
            }
        }
        if (!ret && X.badfd) {
            char what[48];
            int acc = try_bad_flow_defs(fx, enc, pathP, fd, what, sizeof what);
            if (acc < 0) ret = vp_internal(rep, "uref_dup");
            else if (acc) FAIL("C15/encaps/bad-flow-def-accepted", "%s accepted a flow definition it documents as invalid: %s", pathP ? "ts_pes_encaps" : "ts_encaps", what);
            if (!ret && fx->st_cr_sys != UINT64_MAX) FAIL("C15/encaps/bad-flow-def-accepted", "a refused flow definition left data in ts_encaps");
        }
        if (!ret) {
            if (X.defer) fx->defer_mask = 1u << P_ENC | 1u << P_OUT | 1u << P_SINKA;
            if (!ubase_check(upipe_set_flow_def(enc, fd))) ret = vp_internal(rep, "%s setup (flow def refused)", pathP ? "ts_pes_encaps" : "ts_encaps");
        }
        if (!ret && !pathP) {
            upipe_set_max_length(enc, UINT_MAX);
            if (tb_size) upipe_ts_encaps_set_tb_size(enc, tb_size);
            if (pcr_interval && !ubase_check(upipe_ts_mux_set_pcr_interval(enc, pcr_interval))) ret = vp_internal(rep, "set_pcr_interval");
            if (do_setcc && !ubase_check(upipe_ts_mux_set_cc(enc, cc0))) ret = vp_internal(rep, "set_cc");
        }
        if (!ret && X.getters) {
            if (!pathP) {
                uint64_t iv = 12345; unsigned cc = 99, ml = 0; struct upipe *o = (struct upipe *)&C;
                if (!ubase_check(upipe_ts_mux_get_pcr_interval(enc, &iv)) || iv != pcr_interval) FAIL("C15/encaps/get-pcr-interval", "set_pcr_interval(%llu) then get_pcr_interval gives %llu", (unsigned long long)pcr_interval, (unsigned long long)iv);
                if (do_setcc && (!ubase_check(upipe_ts_mux_get_cc(enc, &cc)) || cc != cc0)) FAIL("C15/encaps/get-cc", "set_cc(%u) then get_cc gives %u", cc0, cc);
                if (!ubase_check(upipe_get_max_length(enc, &ml)) || ml != UINT_MAX) FAIL("C15/encaps/get-max-length", "set_max_length(UINT_MAX) then get_max_length gives %u", ml);
                if (!ubase_check(upipe_get_output(enc, &o)) || o != (X.outsink ? &c->outsink.upipe : NULL)) FAIL("C15/encaps/get-output", "get_output does not return the pipe given to set_output");
                /* a command carrying another pipe type's signature is not for this pipe: refused, nothing changes */
                if (ubase_check(upipe_control(enc, UPIPE_TS_MUX_SET_CC, UPIPE_TS_ENCAPS_SIGNATURE, (unsigned)((cc0 + 5) & 15))) ||
                    ubase_check(upipe_control(enc, UPIPE_TS_ENCAPS_SET_TB_SIZE, UPIPE_TS_MUX_SIGNATURE, 188u)) ||
                    ubase_check(upipe_control(enc, UPIPE_END_PREROLL)))
                    FAIL("C15/encaps/foreign-command", "ts_encaps accepted a command with a foreign signature / an unknown command");
                if (!ret && do_setcc && (!ubase_check(upipe_ts_mux_get_cc(enc, &cc)) || cc != cc0)) FAIL("C15/encaps/get-cc", "a refused set_cc changed the counter to %u", cc);
                /* nothing is held yet: set_cr_prog has no unit to date and says so; without a buffer manager there is no packet */
                if (ubase_check(upipe_ts_mux_set_cr_prog(enc, X.cr_v))) FAIL("C15/encaps/set-cr-prog", "set_cr_prog succeeded although no unit is held");
                if (!ret && X.defer) {
                    struct ubuf *ub = NULL; uint64_t ds = 0;
                    if (ubase_check(upipe_ts_encaps_splice(enc, sys0, sys0, &ub, &ds)) || ub) { FAIL("C15/encaps/splice", "upipe_ts_encaps_splice gave a packet before any buffer manager was provided"); if (ub) ubuf_free(ub); }
                }
                /* requests of an upstream pipe are answered (through the probes: ts_encaps has no data output) */
                if (!ret) { const char *bad = fx_request_roundtrip(enc, fd, !X.defer); if (bad) FAIL("C15/encaps/request", "ts_encaps: %s", bad); }
                /* names of the pipe's own commands and event (used by the logging probes) */
                const char *n1 = upipe_command_str(enc, UPIPE_TS_ENCAPS_SPLICE), *n2 = upipe_command_str(enc, UPIPE_TS_ENCAPS_SET_TB_SIZE),
                           *n3 = upipe_command_str(enc, UPIPE_TS_ENCAPS_EOS), *n4 = upipe_event_str(enc, UPROBE_TS_ENCAPS_STATUS);
                if (!n1 || strcmp(n1, "UPIPE_TS_ENCAPS_SPLICE") || !n2 || strcmp(n2, "UPIPE_TS_ENCAPS_SET_TB_SIZE") || !n3 || strcmp(n3, "UPIPE_TS_ENCAPS_EOS") ||
                    !n4 || strcmp(n4, "UPROBE_TS_ENCAPS_STATUS") || upipe_command_str(enc, UPIPE_TS_ENCAPS_EOS + 1))
                    FAIL("C15/encaps/command-names", "ts_encaps misnames its commands / event: %s %s %s %s", n1 ? n1 : "(null)", n2 ? n2 : "(null)", n3 ? n3 : "(null)", n4 ? n4 : "(null)");
                (void)upipe_command_str(enc, UPIPE_TS_MUX_SET_CC); (void)upipe_event_str(enc, UPROBE_TS_MUX_LAST_CC);
            } else {
                struct upipe *o = NULL;
                if (!ubase_check(upipe_get_output(enc, &o)) || o != &c->sinka.upipe) FAIL("C15/pese/get-output", "get_output does not return the pipe given to set_output");
                if (ubase_check(upipe_control(enc, UPIPE_END_PREROLL))) FAIL("C15/pese/foreign-command", "ts_pes_encaps accepted an unknown command");
            }
        }
    }
    /* flow definition for the decapsulation chain */
    if (!ret) {
        /* (the output flow definition of ts_encaps is "void.": its packets leave through splice) */
        struct uref *dfd = uref_block_flow_alloc_def(fx->fm.uref_mgr, video ? "mpegts.mpegtspes.h264.pic." : "mpegts.mpegtspes.mp2.sound.");
        if (!ret && (!dfd || !ubase_check(upipe_set_flow_def(decaps, dfd)))) {
            const char *def = "?"; if (dfd) uref_flow_get_def(dfd, &def);
            ret = vp_internal(rep, "ts_decaps refused the flow definition %s", def);
        }
        if (dfd) uref_free(dfd);
    }

    /* ---------------- run ---------------- */
    struct rstate st;
    memset(&st, 0, sizeof st);
    st.cc = cc0; st.pid = pid; st.pid2 = c->cfg[1].pid; st.check_pcr = !pathP; st.prog_minus_sys = (int64_t)(prog0 - sys0); st.decaps = decaps;
    uint64_t T = 0;                    /* mux date, never decreases */
    uint64_t model_last_pcr = 0;       /* mux date of the last packet that carried a PCR */
    bool pcr_only_mode = msel & 8;
    size_t maxpk = total + 300 * (size_t)nau + 64;
    uint64_t cr_sys = sys0;
    bool eos_done = false, provided = !X.defer, setcr_done = false;
    int next_unemitted = 0;            /* simple mode: first unit no packet of which has been emitted */
    int flush_opt_au = -1;             /* UPIPE_FLUSH: the unit ts_encaps was holding as current (kept or not: both accepted) */

#define SPLICE_ONE() do { \
        struct ubuf *ubuf_ = NULL; uint64_t dts_sys_ = 0; \
        st.pcr_forbidden = !pathP && pcr_iv == 0; \
        /* (a program clock that is still negative at the mux date has no PCR representation: no expectation then) */ \
        st.pcr_must = !pathP && pcr_iv && pcr_continuous && model_last_pcr + pcr_iv <= T && \
                      (int64_t)T + st.prog_minus_sys + (c->offs.on ? c->offs.shift : 0) - 2 >= 0; \
        if (!ubase_check(upipe_ts_encaps_splice(enc, T, T + mux_interval, &ubuf_, &dts_sys_)) || !ubuf_) { \
            FAIL("C15/encaps/splice", "upipe_ts_encaps_splice(%llu) failed or returned no packet (status cr_sys=%llu ready=%d)", \
                 (unsigned long long)T, (unsigned long long)fx->st_cr_sys, fx->st_ready); \
        } else { \
            ret = take_packet(c, rep, &st, ubuf_, T, render); \
            if (!ret && st.meta[st.npkt - 1].pcr) { model_last_pcr = T; if (st.pcr_must) cls |= UINT64_C(1) << CL_X_PCR_MUST; } \
        } } while (0)

    for (int i = 0; i <= nau && !ret; i++) {
        bool pump_now;
        if (X.early_release && i == nau) { R(" ts_pes_encaps released by its owner\n"); upipe_release(enc); enc = NULL; }
        if (X.defer && i == X.defer_k) { R(" ubuf manager provided\n"); fx_provide_deferred(fx); provided = true; }
        if (X.badfd && nau >= 2 && i == nau - 1) {
            char what[48];
            size_t chunks_before = pathP ? c->sinka.nchunks : 0;
            int acc = try_bad_flow_defs(fx, enc, pathP, fd, what, sizeof what);
            if (acc < 0) { ret = vp_internal(rep, "uref_dup"); break; }
            if (acc) { FAIL("C15/encaps/bad-flow-def-accepted", "in mid-stream %s accepted a flow definition it documents as invalid: %s", pathP ? "ts_pes_encaps" : "ts_encaps", what); break; }
            (void)chunks_before;
        }
        if (X.fdchange && i == X.fd_at) {
            R(" set_flow_def (second configuration)\n");
            if (!ubase_check(upipe_set_flow_def(enc, fd2))) { FAIL("C15/encaps/flow-def-change", "the second flow definition was refused"); break; }
        }
        /* commands of the script issued between units */
        for (int k = 0; k < X.nops && !ret && !pathP; k++) {
            struct extop *o = &X.op[k];
            if (o->done || o->at != i) continue;
            switch (o->kind) {
            case XO_PCRIV: case XO_PCROFF: {
                uint64_t nv = o->kind == XO_PCROFF ? 0 : o->v, got = 1;
                R(" set_pcr_interval(%llu)\n", (unsigned long long)nv);
                if (!ubase_check(upipe_ts_mux_set_pcr_interval(enc, nv))) FAIL("C15/encaps/set-pcr-interval", "set_pcr_interval(%llu) failed", (unsigned long long)nv);
                else if (!ubase_check(upipe_ts_mux_get_pcr_interval(enc, &got)) || got != nv) FAIL("C15/encaps/get-pcr-interval", "set_pcr_interval(%llu) then get_pcr_interval gives %llu", (unsigned long long)nv, (unsigned long long)got);
                if (i > 0 && (nv == 0 || pcr_iv == 0)) pcr_continuous = false;    /* cancelled, or enabled after the first unit */
                pcr_iv = nv;
                cls |= UINT64_C(1) << (nv ? CL_X_PCRIV : CL_X_PCROFF);
                o->done = true; break; }
            case XO_TBSIZE: {
                unsigned nv = o->v > tb_size_now ? (unsigned)o->v : tb_size_now;     /* only grown in mid-stream: shrinking below the fill level is outside the T-STD model */
                R(" set_tb_size(%u)\n", nv);
                if (!ubase_check(upipe_ts_encaps_set_tb_size(enc, nv))) FAIL("C15/encaps/set-tb-size", "set_tb_size(%u) failed", nv);
                tb_size_now = nv; cls |= UINT64_C(1) << CL_X_TBSIZE; o->done = true; break; }
            case XO_MAXLEN: {
                unsigned got = 0;
                R(" set_max_length(%u)\n", (unsigned)o->v);
                if (!ubase_check(upipe_set_max_length(enc, (unsigned)o->v)) || !ubase_check(upipe_get_max_length(enc, &got)) || got != (unsigned)o->v)
                    FAIL("C15/encaps/get-max-length", "set_max_length(%u) then get_max_length gives %u", (unsigned)o->v, got);
                cls |= UINT64_C(1) << CL_X_MAXLEN; o->done = true; break; }
            default: break;      /* the two flushes are issued at a pump point */
            }
        }
        if (ret) break;
        if (i < nau) {
            struct audesc *d = &ad[i];
            struct au *u = &c->au[i];
            struct uref *uref = fx_uref_segs(fx, c->cat + u->off, u->size, d->seg, d->nseg);
            if (!uref) { ret = vp_internal(rep, "au uref"); break; }
            cr_sys += d->gap;
            uint64_t cr_prog = cr_sys - sys0 + prog0;
            if (!pathP) uref_clock_set_cr_sys(uref, cr_sys);
            switch (d->mode) {
            case 0:
                if (pathP) { uref_clock_set_dts_prog(uref, cr_prog + d->cr_dts); uref_clock_set_dts_pts_delay(uref, d->dts_pts); }
                else { uref_clock_set_cr_prog(uref, cr_prog); uref_clock_set_cr_dts_delay(uref, d->cr_dts); uref_clock_set_dts_pts_delay(uref, d->dts_pts); }
                break;
            case 1: uref_clock_set_cr_prog(uref, cr_prog); uref_clock_set_cr_dts_delay(uref, d->cr_dts); break;
            case 2: if (!pathP && ((d->fill & 4) || d->force_delay)) uref_clock_set_cr_dts_delay(uref, d->cr_dts); break;
            case 3: uref_clock_set_dts_prog(uref, cr_prog + d->cr_dts); uref_clock_set_dts_pts_delay(uref, d->dts_pts); break;
            default: uref_clock_set_pts_prog(uref, cr_prog + d->cr_dts + d->dts_pts); break;
            }
            if (d->dur) uref_clock_set_duration(uref, d->dur);
            if (u->random) uref_flow_set_random(uref);
            if (u->disc) uref_flow_set_discontinuity(uref);
            /* what the unit carries, read back through the generic uref accessors */
            uint64_t pts = UINT64_MAX, dts = UINT64_MAX;
            u->has_pts = ubase_check(uref_clock_get_pts_prog(uref, &pts));
            bool has_dts = ubase_check(uref_clock_get_dts_prog(uref, &dts));
            if (c->cfg[u->cfg].pes_id == 0xbf) u->has_pts = false;          /* private_stream_2 has no header to carry them */
            u->pts33 = u->has_pts ? (pts / 300) % R_POW33 : 0;
            u->dts33 = has_dts ? (dts / 300) % R_POW33 : 0;
            u->has_dts_field = u->has_pts && has_dts && u->dts33 != u->pts33;
            u->dts_dec = u->has_dts_field ? u->dts33 : u->pts33;
            u->bigdelay = ((u->pts33 + R_POW33 - u->dts_dec) & (R_POW33 - 1)) * 300 > F27 * 60;
            u->pts27 = pts; u->dts27 = dts; u->has_dts27 = has_dts;
            u->has_cr27 = ubase_check(uref_clock_get_cr_prog(uref, &u->cr27));
            u->has_dts_sys = ubase_check(uref_clock_get_dts_sys(uref, &u->dts_sys));
            if (u->has_pts && u->has_dts_field && u->dts33 > u->pts33) cls |= UINT64_C(1) << CL_WRAP;
            if (i > 0 && u->has_pts && c->au[i - 1].has_pts && u->pts33 + (R_POW33 >> 1) < c->au[i - 1].pts33) cls |= UINT64_C(1) << CL_WRAP;
            if (u->bigdelay) cls |= UINT64_C(1) << CL_BIGDELAY;
            cls |= UINT64_C(1) << (!u->has_pts ? CL_NOPTS : u->has_dts_field ? CL_PTSDTS : CL_PTSONLY);
            R(" au%d size=%zu%s%s mode=%d cr_sys=%llu pts=%s%llx dts=%s%llx%s dur=%llu segs=%d%s\n", i, u->size, u->random ? " random" : "", u->disc ? " discontinuity" : "",
              d->mode, (unsigned long long)cr_sys, u->has_pts ? "0x" : "-", (unsigned long long)u->pts33, has_dts ? "0x" : "-", (unsigned long long)u->dts33,
              u->has_dts_field ? "" : " (no DTS field)", (unsigned long long)d->dur, d->nseg + 1, d->pump ? " then pump" : "");
            fx->tag = -1;
            upipe_input(enc, uref, NULL);
            pump_now = d->pump || i == nau - 1;
            if (pathP) continue;
        } else {
            if (pathP) break;
            R(" eos\n");
            if (!ubase_check(upipe_ts_encaps_eos(enc))) { ret = vp_internal(rep, "eos"); break; }
            eos_done = true;
            pump_now = true;
        }
        if (!pump_now) continue;

        /* set_cr_prog, once, the way upipe_ts_mux does it: when the first units are held and nothing has been spliced */
        if (X.setcr && !setcr_done) {
            setcr_done = true;
            const struct au *u0 = &c->au[0];
            int err = upipe_ts_mux_set_cr_prog(enc, X.cr_v);
            R(" set_cr_prog(%llu) -> %s\n", (unsigned long long)X.cr_v, ubase_check(err) ? "ok" : "refused");
            if (u0->has_cr27) {
                if (!ubase_check(err)) FAIL("C15/encaps/set-cr-prog", "set_cr_prog(%llu) failed (%d) although a unit dated with cr_prog is held", (unsigned long long)X.cr_v, err);
                /* the first unit's program clock (cr_prog, at the latest; its transmission may start earlier by its size at the
                 * octetrate plus the TB buffer at the TB rate) becomes v: one common offset, in this window */
                c->offs.on = true;
                c->offs.base = (X.cr_v % M33 + M33 - u0->cr27 % M33) % M33;
                c->offs.shift = (int64_t)X.cr_v - (int64_t)u0->cr27;
                c->offs.lo = -2;
                c->offs.hi = (int64_t)((uint64_t)u0->size * F27 / octetrate + (uint64_t)tb_size_now * F27 / tb_rate + 2);
                cls |= UINT64_C(1) << CL_X_SETCR;
            } else {
                if (ubase_check(err)) FAIL("C15/encaps/set-cr-prog", "set_cr_prog succeeded although the held unit has no cr_prog");
                cls |= UINT64_C(1) << CL_X_SETCR_REFUSED;
            }
        }
        /* the two flushes of the script, at this pump point (simple mode: units next_unemitted..i are held, whole and unstarted) */
        for (int k = 0; k < X.nops && !ret; k++) {
            struct extop *o = &X.op[k];
            if (o->done || o->at > i || (o->kind != XO_SPLICE_FLUSH && o->kind != XO_UPIPE_FLUSH)) continue;
            o->done = true;
            int a = next_unemitted, b = i < nau ? i : nau - 1;
            if (!provided || a > b || eos_done) continue;
            if (o->kind == XO_SPLICE_FLUSH) {
                bool ok = true;
                for (int j = a; j <= b; j++) if (!c->au[j].has_dts_sys) ok = false;
                if (!ok) continue;
                int want = 1 + (int)(o->v % 3); if (want > b - a + 1) want = b - a + 1;
                uint64_t Tf = 0;
                for (int j = a; j < a + want; j++) if (c->au[j].dts_sys + 1 > Tf) Tf = c->au[j].dts_sys + 1;
                if (Tf < T) Tf = T;
                /* late for sure: the DTS itself is before the date; in time for sure: even the DTS minus the transfer of the
                 * whole unit and its headers at the slower TB rate is after it; anything in between: do not issue the command */
                uint64_t slow = X.fdchange && X.tb_rate2 < tb_rate ? X.tb_rate2 : tb_rate;
                int ndrop = 0; bool ambiguous = false;
                for (int round = 0; round <= b - a + 1; round++) {
                    ndrop = 0; ambiguous = false;
                    for (int j = a; j <= b; j++) {
                        const struct au *u = &c->au[j];
                        if (u->dts_sys < Tf) { ndrop++; continue; }
                        uint64_t xfer = (uint64_t)(u->size + 300) * F27 / slow + 2;
                        if (u->dts_sys < xfer || u->dts_sys - xfer <= Tf) { ambiguous = true; Tf = u->dts_sys + 1; }   /* then this one is late too */
                        break;
                    }
                    if (!ambiguous) break;
                }
                if (ambiguous || !ndrop) continue;
                R(" splice(%llu, NULL): drop the late units (au%d..au%d)\n", (unsigned long long)Tf, a, a + ndrop - 1);
                if (!ubase_check(upipe_ts_encaps_splice(enc, Tf, Tf + mux_interval, NULL, NULL))) { FAIL("C15/encaps/splice-flush", "upipe_ts_encaps_splice(%llu, NULL) failed", (unsigned long long)Tf); break; }
                T = Tf;
                for (int j = a; j < a + ndrop; j++) c->au[j].dropped = true;
                next_unemitted = a + ndrop;
                cls |= UINT64_C(1) << CL_X_SPLICE_FLUSH;
            } else {
                if (X.fdchange && a < X.fd_at && X.fd_at <= b) continue;      /* the queued flow definition would be flushed too */
                R(" UPIPE_FLUSH (au%d current, au%d..au%d queued)\n", a, a + 1, b);
                int err = upipe_flush(enc);
                if (!ubase_check(err)) { FAIL("C15/encaps/flush-return", "upipe_flush returned error %d although it flushed the %d queued units (upipe_ts_mux aborts its own flush on that)", err, b - a); break; }
                for (int j = a + 1; j <= b; j++) c->au[j].dropped = true;
                if (b > a) { flush_opt_au = a; cls |= UINT64_C(1) << CL_X_UPIPE_FLUSH; }
            }
        }
        if (ret) break;

        int pcr_only_budget = pcr_only_mode ? 2 : 0;
        while (!ret) {
            if (fx->st_cr_sys == UINT64_MAX) break;                    /* nothing held */
            if (!fx->st_ready && !live) break;                         /* file mode: wait for more input (or eos) */
            uint64_t due = fx->st_cr_sys;
            if (pcr_only_budget > 0 && fx->st_pcr_sys < due && fx->st_pcr_sys > T) { due = fx->st_pcr_sys; pcr_only_budget--; }
            if (due > T) T = due;
            SPLICE_ONE();
            if (!ret && st.npkt > maxpk) FAIL("C15/encaps/no-progress", "%zu packets emitted for %zu octets in %d access units", st.npkt, total, nau);
        }
        if (!ret && provided && fx->st_cr_sys == UINT64_MAX && i < nau) next_unemitted = i + 1;
        /* an idle PCR PID still gets PCR-only packets from the mux */
        if (!ret && eos_done && pcr_only_mode && pcr_iv && fx->st_cr_sys == UINT64_MAX && fx->st_pcr_sys != UINT64_MAX) {
            for (int q = 0; q < 2 && !ret; q++) {
                if (fx->st_pcr_sys > T) T = fx->st_pcr_sys;
                SPLICE_ONE();
            }
        }
    }
#undef SPLICE_ONE
    if (!ret && enc && !pathP && X.getters) {
        unsigned got = 99;
        if (st.npkt && (!ubase_check(upipe_ts_mux_get_cc(enc, &got)) || got != st.cc)) FAIL("C15/encaps/get-cc", "get_cc gives %u, the last packet with payload carried %u", got, st.cc);
        struct uref *gfd = NULL;
        if (!ret && !ubase_check(upipe_get_flow_def(enc, &gfd))) FAIL("C15/encaps/get-flow-def", "get_flow_def fails after a flow definition was set and used");
    }
    if (!ret && enc && pathP && X.getters) {
        struct uref *gfd = NULL; const char *def = NULL;
        if (!ubase_check(upipe_get_flow_def(enc, &gfd)) || !gfd || !ubase_check(uref_flow_get_def(gfd, &def)) || strncmp(def, "block.mpegtspes.", 16))
            FAIL("C15/pese/get-flow-def", "get_flow_def of ts_pes_encaps gives '%s', expected block.mpegtspes....", def ? def : "(none)");
    }
    fx->ndeferred = 0;
    if (enc) { upipe_release(enc); enc = NULL; }
    if (fd) uref_free(fd);
    if (fd2) uref_free(fd2);
    if (!ret && !pathP && fx->st_cr_sys != UINT64_MAX)
        FAIL("C15/encaps/data-left", "after eos and draining, ts_encaps still reports data (cr_sys=%llu ready=%d)", (unsigned long long)fx->st_cr_sys, fx->st_ready);
    if (!ret && !pathP && (!fx->got_last_cc || fx->last_cc_event != st.cc))
        FAIL("C15/encaps/last-cc", "last_cc event says %u (thrown=%d), last packet with payload carried %u", fx->last_cc_event, fx->got_last_cc, st.cc);
    if (!ret && X.outsink) {
        if (c->outsink.nchunks) FAIL("C15/encaps/output-data", "the output pipe of ts_encaps received %zu buffers (packets leave through splice only)", c->outsink.nchunks);
        else if (!c->outsink.nflowdef) FAIL("C15/encaps/output-flow-def", "the output pipe of ts_encaps never received a flow definition");
    }

    /* the model of what was dropped by the flushes: compact the units */
    if (!ret) {
        int kept = 0;
        for (int i = 0; i < c->nau; i++) if (!c->au[i].dropped) kept++;
        if (flush_opt_au >= 0 && !c->au[flush_opt_au].dropped && c->npstart + 1 == (size_t)kept) c->au[flush_opt_au].dropped = true;
        size_t pos = 0; int n = 0;
        for (int i = 0; i < c->nau; i++) {
            if (c->au[i].dropped) continue;
            memmove(c->cat + pos, c->cat + c->au[i].off, c->au[i].size);
            c->au[n] = c->au[i]; c->au[n].off = pos; pos += c->au[n].size; n++;
        }
        c->nau = n; c->ncat = pos; total = pos;
    }

    /* path P: cut the recorded PES packets into TS packets with the reference packetiser */
    if (!ret && pathP) {
        struct fx_rec *A = &c->sinka;
        if (A->nchunks && !(A->chunks[0].flags & FXC_START)) FAIL("C15/pese/no-start", "first output of ts_pes_encaps has no unit start");
        size_t k = 0, pes_payload_pos = 0;
        while (k < A->nchunks && !ret) {
            size_t start = A->chunks[k].off, sz = 0, j = k;
            do { sz += A->chunks[j].len; j++; } while (j < A->nchunks && !(A->chunks[j].flags & FXC_START));
            k = j;
            /* markers of the access unit this PES opens go into the adaptation field of its first packet */
            struct rpes rp;
            bool rai = false, di = false;
            if (rpes_parse(A->bytes + start, sz, &rp) == 0) {
                int a = au_at(c, pes_payload_pos);
                if (a >= 0) { rai = c->au[a].random; di = c->au[a].disc; }
                pes_payload_pos += sz - rp.hdr_size;
            }
            size_t pos = 0; bool first = true;
            while (pos < sz && !ret) {
                uint8_t sh = tp_u8(&t);
                struct wts w; memset(&w, 0, sizeof w);
                w.pid = pid; w.pusi = first; w.has_payload = true;
                unsigned afl = 0; bool anyaf = false;
                switch (sh % 6) { case 0: break; case 1: anyaf = true; break; case 2: anyaf = true; afl = 1 + (sh >> 3) % 16; break;
                                  case 3: anyaf = true; w.pcr_f = true; w.pcr_base = (uint64_t)sh << 25; w.pcr_ext = sh; afl = 7; break;
                                  case 4: anyaf = true; afl = 183 - (1 + (sh >> 3) % 8); break; default: anyaf = true; afl = 1 + tp_u8(&t) % 182; break; }
                if (first && (rai || di)) { anyaf = true; if (afl < 1) afl = 1; w.rai = rai; w.di = di; }
                size_t rest = sz - pos;
                unsigned cap = anyaf ? 183 - afl : 184;
                unsigned n = rest < cap ? rest : cap;
                if (n < 184) { anyaf = true; afl = 183 - n; }
                if (afl < wts_af_need(&w) && afl > 0) { w.pcr_f = false; }
                if (afl == 0) w.pcr_f = false;
                w.has_af = anyaf; w.afl = afl;
                w.cc = (st.cc + 1) & 15;
                w.payload = A->bytes + start + pos; w.pay_len = n;
                uint8_t pk[R_TS];
                if (!wts_build(&w, pk)) { ret = vp_internal(rep, "reference packetiser"); break; }
                st.check_pcr = false;
                ret = on_packet(c, rep, &st, pk, 0, render);
                pos += n; first = false;
            }
        }
    }
    if (decaps) upipe_release(decaps);
    if (pesd) upipe_release(pesd);
    if (!ret && (fx->harness_oom || fx->ev_overflow)) ret = vp_internal(rep, "harness recorder overflow");
    if (!ret && c->tee.flowdef_err) ret = vp_internal(rep, "ts_pes_decaps refused the flow definition %s", c->tee.flowdef);

    /* ---------------- reference view ---------------- */
    if (!ret && c->npstart && c->pstart[0] != 0) FAIL("C15/ref/payload-before-start", "%zu payload octets precede the first unit start", c->pstart[0]);
    if (!ret && !c->npstart && total) FAIL("C15/ref/no-unit-start", "no packet with payload_unit_start was emitted for %zu octets", total);
    if (!ret) {
        c->va = calloc(c->npstart ? c->npstart : 1, sizeof(*c->va));
        if (!c->va) ret = vp_internal(rep, "malloc");
    }
    size_t espos = 0;
    for (size_t k = 0; k < c->npstart && !ret; k++) {
        size_t start = c->pstart[k], end = k + 1 < c->npstart ? c->pstart[k + 1] : c->nes;
        struct rpes r;
        int pr = rpes_parse(c->es + start, end - start, &r);
        /* the flow definition in force for this PES: the one of the access unit its first payload octet belongs to */
        int ai = au_containing(c, espos);
        const struct cfg *cf = &c->cfg[ai >= 0 ? c->au[ai].cfg : 0];
        R("  pes%zu at %zu size=%zu %s stream_id=0x%02x length=%u hdr=%zu%s pts=%s%llx dts=%s%llx%s%s\n", k, start, end - start, pr == 0 ? "ok" : pr > 0 ? "TRUNCATED" : r.bad,
          r.stream_id, r.length, r.hdr_size, r.align ? " align" : "", r.has_pts ? "0x" : "-", (unsigned long long)r.pts, r.has_dts ? "0x" : "-", (unsigned long long)r.dts,
          c->prai[k] ? " RAI" : "", c->pdi[k] ? " DI" : "");
        if (pr < 0) { FAIL("C15/ref/pes-header", "PES %zu: %s", k, r.bad); break; }
        if (pr > 0) { FAIL("C15/ref/pes-truncated", "PES %zu: %zu octets until the next unit start, header incomplete", k, end - start); break; }
        if (r.stream_id != cf->pes_id) { FAIL("C15/ref/stream-id", "PES %zu: stream_id 0x%02x, configured 0x%02x", k, r.stream_id, cf->pes_id); break; }
        size_t pes_size = end - start;
        if (r.length != 0 ? r.length != pes_size - 6 : !video)       /* 0 = unbounded, allowed for video only */
            { FAIL("C15/ref/pes-length", "PES %zu (stream_id 0x%02x) has %zu octets after the length field, PES_packet_length says %u", k, r.stream_id, pes_size - 6, r.length); break; }
        if (r.length == 0) cls |= UINT64_C(1) << CL_UNBOUNDED;
        if (r.opt) {
            if (r.scramble || r.prio || r.copyright || r.original || r.escr_f || r.esrate_f || r.trick_f || r.addcopy_f || r.crc_f || r.ext_f)
                { FAIL("C15/ref/pes-flags", "PES %zu: unexpected header flags %02x %02x", k, c->es[start + 6], c->es[start + 7]); break; }
            if (!r.ts_syntax_ok) { FAIL("C15/ref/timestamp-syntax", "PES %zu: PTS/DTS prefix or marker bits wrong (%02x .. %02x)", k, c->es[start + 9], c->es[start + 13]); break; }
            if (!r.stuffing_ok) { FAIL("C15/ref/pes-stuffing", "PES %zu: header stuffing is not 0xff", k); break; }
        }
        if (r.hdr_size < cf->min_hdr) { FAIL("C15/ref/min-header", "PES %zu: header of %zu octets, minimal header size %u requested", k, r.hdr_size, cf->min_hdr); break; }
        struct pesv *v = &c->va[c->nva++];
        v->off = espos; v->size = pes_size - r.hdr_size; espos += v->size;
        v->has_pts = r.has_pts; v->has_dts = r.has_dts; v->pts = r.pts; v->dts = r.dts;
        v->align = r.align; v->align_known = r.opt; v->random = c->prai[k]; v->disc = c->pdi[k];
        if (memcmp(c->es + start + r.hdr_size, c->cat + v->off, v->off + v->size <= c->ncat ? v->size : 0) || v->off + v->size > c->ncat) {
            size_t d = 0; while (v->off + d < c->ncat && d < v->size && c->es[start + r.hdr_size + d] == c->cat[v->off + d]) d++;
            FAIL("C15/ref/payload", "PES %zu payload differs from the access units at elementary-stream offset %zu (PES payload offset %zu of %zu)", k, v->off + d, d, v->size);
            break;
        }
        if (au_at(c, v->off) < 0) cls |= UINT64_C(1) << CL_OVERLAP;
        { int cnt = 0; for (int i = 0; i < c->nau; i++) if (c->au[i].off >= v->off && c->au[i].off < v->off + v->size) cnt++; if (cnt > 1) cls |= UINT64_C(1) << CL_AGGREGATE; }
        if (r.hdr_size > 184 - 8) cls |= UINT64_C(1) << CL_HDRSPLIT;
    }
    bool one_per_au = aligned && !min_dur;
    /* ts_pes_encaps knows nothing of the TS-level markers: when it aggregates units, a random unit may sit inside a PES */
    bool markers = !pathP || !min_dur;
    if (!ret) ret = check_views(c, rep, "ref", c->va, c->nva, false, aligned, one_per_au, markers);
    /* every payload-carrying packet carries the PID of the flow definition in force for the access unit it belongs to */
    if (!ret && !pathP) {
        long cur = -1;
        for (size_t n = 0; n < st.npkt && !ret; n++) {
            if (!st.meta[n].has_payload) continue;        /* a PCR-only packet between two configurations may carry either */
            if (st.meta[n].pusi) cur++;
            if (cur < 0 || (size_t)cur >= c->nva) break;
            int ai = au_containing(c, c->va[cur].off);
            unsigned want = c->cfg[ai >= 0 ? c->au[ai].cfg : 0].pid;
            if (st.meta[n].pid != want) FAIL("C15/ts/pid", "packet %zu (PES %ld, au%d) carries PID %u, the flow definition in force for that access unit says %u", n, cur, ai, st.meta[n].pid, want);
        }
    }

    /* ---------------- upipe view ---------------- */
    if (!ret) {
        /* decaps level: the payload ts_decaps hands over is the payload the reference parser saw */
        struct fx_rec *Tt = &c->tee;
        if (Tt->nbytes != c->nes || memcmp(Tt->bytes, c->es, c->nes)) {
            size_t d = 0; while (d < Tt->nbytes && d < c->nes && Tt->bytes[d] == c->es[d]) d++;
            FAIL("C15/upipe/ts-payload", "ts_decaps output %zu payload octets, the reference parser %zu; first difference at %zu", Tt->nbytes, c->nes, d);
        }
        for (size_t q = 0; q < Tt->nchunks && !ret; q++) {
            struct fx_chunk *ch = &Tt->chunks[q];
            if (ch->tag < 0 || (size_t)ch->tag >= st.npkt) continue;
            if (!!(ch->flags & FXC_START) != st.meta[ch->tag].pusi) FAIL("C15/upipe/unit-start", "packet %d: payload_unit_start=%d, ts_decaps start flag=%d", ch->tag, st.meta[ch->tag].pusi, !!(ch->flags & FXC_START));
            if ((ch->flags & FXC_DISC) && q > 0 && !(st.meta[ch->tag].pusi)) FAIL("C15/upipe/spurious-discontinuity", "packet %d: ts_decaps flags a discontinuity inside a unit of a gap-free stream", ch->tag);
            if (ch->flags & FXC_ERROR) FAIL("C15/upipe/error-flag", "packet %d: error flag", ch->tag);
        }
    }
    if (!ret) {
        struct fx_rec *S = &c->sink;
        if (S->nbytes != c->ncat || memcmp(S->bytes, c->cat, c->ncat)) {
            size_t d = 0; while (d < S->nbytes && d < c->ncat && S->bytes[d] == c->cat[d]) d++;
            int a = -1; for (int i = 0; i < c->nau; i++) if (c->au[i].off <= d) a = i;
            FAIL("C15/upipe/payload", "decapsulated %zu octets, access units total %zu; first difference at %zu (au%d + %zu)", S->nbytes, c->ncat, d, a, a >= 0 ? d - c->au[a].off : 0);
        }
        if (!ret && S->nchunks && !(S->chunks[0].flags & FXC_START)) FAIL("C15/upipe/no-start", "first decapsulated chunk has no unit start");
        if (!ret) {
            c->vb = calloc(S->nchunks ? S->nchunks : 1, sizeof(*c->vb));
            if (!c->vb) ret = vp_internal(rep, "malloc");
        }
        for (size_t q = 0; q < S->nchunks && !ret; q++) {
            struct fx_chunk *ch = &S->chunks[q];
            if (ch->flags & FXC_START) {
                struct pesv *v = &c->vb[c->nvb++];
                v->off = ch->off; v->size = 0;
                v->has_pts = ch->flags & FXC_DTS; v->dts_orig = ch->dts_orig; v->pts_orig = ch->pts_orig; v->has_pts_orig = ch->flags & FXC_PTS;
                v->random = ch->flags & FXC_RAND; v->disc = ch->flags & FXC_DISC;
            } else if (ch->flags & (FXC_RAND | FXC_DISC))
                FAIL("C15/upipe/marker-inside-unit", "chunk %zu (packet %d) inside a unit carries random=%d discontinuity=%d", q, ch->tag, !!(ch->flags & FXC_RAND), !!(ch->flags & FXC_DISC));
            if (c->nvb) c->vb[c->nvb - 1].size += ch->len;
        }
        if (!ret) ret = check_views(c, rep, "upipe", c->vb, c->nvb, true, aligned, one_per_au, markers);
        /* one clock_ts per PES with a PTS */
        if (!ret) {
            size_t want = 0; for (size_t k = 0; k < c->nva; k++) if (c->va[k].has_pts) want++;
            size_t got = fx_count(fx, P_PESD, FXE_CLOCK_TS);
            if (got != want) FAIL("C15/upipe/clock-ts-events", "%zu PES carry a PTS, ts_pes_decaps threw %zu clock_ts events", want, got);
        }
        /* PCRs seen by the reference = clock_ref events of ts_decaps */
        if (!ret) {
            size_t want = 0; for (size_t k = 0; k < st.npkt; k++) if (st.meta[k].pcr) want++;
            size_t got = fx_count(fx, P_DECAPS, FXE_CLOCK_REF);
            if (got != want) FAIL("C15/upipe/clock-ref-events", "%zu packets carry a PCR, ts_decaps threw %zu clock_ref events", want, got);
        }
    }

    /* ---------------- classes from the packet log ---------------- */
    {
        size_t cnt = 0; bool last_af = false;
        for (size_t k = 0; k <= st.npkt; k++) {
            if (k == st.npkt || (st.meta[k].has_payload && st.meta[k].pusi)) {
                if (cnt >= 3 && last_af) cls |= UINT64_C(1) << CL_AU3AF;
                if (cnt >= 2 && !last_af) cls |= UINT64_C(1) << CL_MULT184;
                cnt = 0;
                if (k == st.npkt) break;
            }
            if (st.meta[k].pcr) cls |= UINT64_C(1) << CL_PCR;
            if (st.meta[k].pcr && !st.meta[k].has_payload) cls |= UINT64_C(1) << CL_PCR_ONLY_PKT;
            if (st.meta[k].has_payload) { cnt++; last_af = st.meta[k].has_af; }
        }
    }

    /* ---------------- teardown ---------------- */
    fx_rec_clean(&c->tee); fx_rec_clean(&c->sink); fx_rec_clean(&c->sinka); fx_rec_clean(&c->outsink);
    free(st.meta); free(c->cat); free(c->va); free(c->vb);
    c->cat = NULL; c->va = c->vb = NULL;
    const char *leak = fx_clean(fx);
    if (leak && !ret) ret = vp_fail(rep, "C15/leak/roundtrip", "after releasing every pipe: %s", leak);
    rep->case_hash = h;
    rep->classes = cls;
    rep->nontrivial = (cls >> CL_AU3AF) & 1;
    return ret;
}

const struct vp_executor vp_executor = { "C15", "roundtrip", 420, class_names, run, NULL };

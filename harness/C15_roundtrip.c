/* C15 / roundtrip — generated access units through the encapsulation pipes, every emitted
 * packet parsed by the independent reference (C15_ref.h, no shim), then through
 * ts_decaps -> ts_pes_decaps and compared with what was generated.
 *
 * path E: access units -> upipe_ts_encaps (PES + TS), driven the way upipe_ts_mux drives it:
 *         set_flow_def (octetrate, tb_rate, PID, PES id, alignment, minimal PES header, minimal
 *         PES duration), set_tb_size, set_pcr_interval, set_cc; input; the STATUS event gives
 *         (cr_sys, dts_sys, pcr_sys, ready); upipe_ts_encaps_splice(T, T + interval) at a
 *         non-decreasing mux date T >= min(cr_sys, pcr_sys) while ready ("file" mode) or while
 *         data is held ("live" mode); finally upipe_ts_encaps_eos and drain.
 * path P: access units -> upipe_ts_pes_encaps -> recording sink; the PES packets are cut into
 *         TS packets by the reference packetiser.
 *
 * Oracles:
 *  (1) every packet: 188 octets, sync 0x47, configured PID, no error/scrambling bits,
 *      continuity counter +1 per payload-carrying packet and unchanged otherwise, adaptation
 *      field well-formed with 0xff stuffing, PCR = program clock at the mux date;
 *  (2) reference view of the PES stream: header well-formed, stream id, PES_packet_length =
 *      size - 6 (0 only for video), PTS/DTS fields = dates of the first access unit commencing
 *      in the packet at 90 kHz mod 2^33, data_alignment only at an access unit start, payload
 *      octets = concatenation of the access units;
 *  (3) upipe view (ts_decaps -> ts_pes_decaps): same octets, unit starts, dts_orig/pts_orig,
 *      random flag, no discontinuity besides the announced ones. */
#define C15_NEED_MUX_STUBS
#include "C15_fixture.h"
#include "C15_ref.h"

enum {
    CL_PATH_E, CL_PATH_P, CL_AU3AF, CL_PCR, CL_PCR_ONLY_PKT, CL_WRAP, CL_UNBOUNDED, CL_NEAR64K, CL_MULT184,
    CL_NOALIGN, CL_OVERLAP, CL_AGGREGATE, CL_MINHDR, CL_PRIV2, CL_NOPTS, CL_PTSONLY, CL_PTSDTS, CL_RANDOM,
    CL_DISC, CL_LIVE, CL_SEGMENTED, CL_HDRSPLIT, CL_BIGDELAY, CL_SETCC, CL_TINY
};
static const char *const class_names[] = {
    "path_ts_encaps", "path_ts_pes_encaps", "au_ge3_packets_af_in_last", "pcr_present", "pcr_only_packet",
    "pts_dts_33bit_wrap", "pes_unbounded_gt_65535", "au_near_65535", "au_fills_packets_exactly",
    "no_pes_alignment", "au_overlap_into_next_pes", "aus_aggregated_in_one_pes", "minimal_pes_header",
    "private_stream_2", "no_pts", "pts_only", "pts_and_dts", "random_access", "discontinuity",
    "live_mode_splice_when_not_ready", "segmented_input_block", "pes_header_split_over_packets",
    "pts_dts_delay_gt_60s", "set_cc", "au_of_1_octet", NULL };

#define P_ENC 0
#define P_SINKA 1
#define P_DECAPS 2
#define P_TEE 3
#define P_PESD 4
#define P_SINK 5

#define MAXAU 24
#define F27 UINT64_C(27000000)

struct au {
    size_t off, size;
    bool has_pts, has_dts_field, random, disc, bigdelay;
    uint64_t pts33, dts33;        /* 90 kHz fields */
    uint64_t dts_dec;             /* what a decoder reads as DTS: dts33, or pts33 when there is no DTS field */
};

struct pesv {                     /* one PES as seen by an observer */
    size_t off, size;             /* position of its payload in the concatenated elementary stream */
    bool has_pts, has_dts, align, align_known, random, disc;
    uint64_t pts, dts;            /* 90 kHz */
    uint64_t dts_orig, pts_orig;  /* upipe view */
    bool has_pts_orig;
};

struct ctx {
    struct fx fx;
    struct fx_rec sinka, tee, sink;
    struct au au[MAXAU];
    int nau;
    uint8_t *cat; size_t ncat;          /* concatenated access units */
    uint8_t *es; size_t nes, capes;     /* reference view: concatenated TS payload (PES headers included) */
    size_t *pstart; bool *prai, *pdi; size_t npstart, cappstart;
    struct pesv *va; size_t nva;        /* reference view */
    struct pesv *vb; size_t nvb;        /* upipe view */
};
static struct ctx C;

static uint32_t xs(uint32_t *s) { uint32_t x = *s; x ^= x << 13; x ^= x >> 17; x ^= x << 5; return *s = x ? x : 0x9e3779b9; }

#define R(...) do { if (render) vp_render(rep, __VA_ARGS__); } while (0)
#define FAIL(key, ...) do { if (!ret) ret = vp_fail(rep, key, __VA_ARGS__); } while (0)

static bool es_push(struct ctx *c, const uint8_t *p, size_t n)
{
    if (c->nes + n > c->capes) {
        size_t nc = c->capes ? c->capes : 8192;
        while (nc < c->nes + n) nc *= 2;
        uint8_t *b = realloc(c->es, nc);
        if (!b) return false;
        c->es = b; c->capes = nc;
    }
    memcpy(c->es + c->nes, p, n);
    c->nes += n;
    return true;
}
static bool pstart_push(struct ctx *c, size_t off, bool rai, bool di)
{
    if (c->npstart == c->cappstart) {
        size_t nc = c->cappstart ? c->cappstart * 2 : 32;
        size_t *a = realloc(c->pstart, nc * sizeof(*a));
        if (a) c->pstart = a;
        bool *b = realloc(c->prai, nc * sizeof(*b));
        if (b) c->prai = b;
        bool *d = realloc(c->pdi, nc * sizeof(*d));
        if (d) c->pdi = d;
        if (!a || !b || !d) return false;
        c->cappstart = nc;
    }
    c->pstart[c->npstart] = off; c->prai[c->npstart] = rai; c->pdi[c->npstart] = di;
    c->npstart++;
    return true;
}

/* the access unit that commences first in [off, off + size) (size 0: exactly at off) */
static int first_au_in(const struct ctx *c, size_t off, size_t size)
{
    for (int i = 0; i < c->nau; i++)
        if (c->au[i].off >= off && (c->au[i].off < off + size || (size == 0 && c->au[i].off == off))) return i;
    return -1;
}
static int au_at(const struct ctx *c, size_t off)
{
    for (int i = 0; i < c->nau; i++) if (c->au[i].off == off) return i;
    return -1;
}

/* Checks one observer's list of PES against the generated access units. `who` names the
 * observer in the failure key ("ref" = independent parser of the emitted packets, "upipe" =
 * ts_decaps + ts_pes_decaps). */
static int check_views(struct ctx *c, struct vp_report *rep, const char *who, const struct pesv *v, size_t nv,
                       bool upipe_view, bool aligned, bool one_pes_per_au, bool check_markers)
{
    int ret = 0;
    char key[96];
#define VFAIL(what, ...) do { if (!ret) { snprintf(key, sizeof key, "C15/%s/%s", who, what); ret = vp_fail(rep, key, __VA_ARGS__); } } while (0)
    size_t pos = 0;
    for (size_t k = 0; k < nv && !ret; k++) {
        const struct pesv *p = &v[k];
        if (p->off != pos) { VFAIL("order", "PES %zu starts at elementary-stream offset %zu, expected %zu", k, p->off, pos); break; }
        pos += p->size;
        int a0 = au_at(c, p->off);
        if (aligned && a0 < 0) VFAIL("alignment", "PES %zu starts at offset %zu which is not the start of an access unit (PES alignment requested)", k, p->off);
        if (p->align_known && p->align && a0 < 0) VFAIL("data-alignment-flag", "PES %zu has data_alignment_indicator but starts at offset %zu inside an access unit", k, p->off);
        int a = first_au_in(c, p->off, p->size);
        if (a < 0) {
            if (p->has_pts) VFAIL("pts-without-au", "PES %zu (offset %zu, %zu octets) carries a PTS but no access unit commences in it", k, p->off, p->size);
            continue;
        }
        const struct au *u = &c->au[a];
        if (p->has_pts != u->has_pts) { VFAIL("pts-presence", "PES %zu: first access unit commencing in it is au%d with%s PTS, the PES has %s", k, a, u->has_pts ? "" : "out", p->has_pts ? "one" : "none"); break; }
        if (!upipe_view && u->has_pts) {
            if (p->pts != u->pts33) VFAIL("pts", "PES %zu (au%d): PTS field 0x%llx, expected 0x%llx", k, a, (unsigned long long)p->pts, (unsigned long long)u->pts33);
            else if (p->has_dts != u->has_dts_field) VFAIL("dts-presence", "PES %zu (au%d): DTS field %s, expected %s", k, a, p->has_dts ? "present" : "absent", u->has_dts_field ? "present" : "absent");
            else if (p->has_dts && p->dts != u->dts33) VFAIL("dts", "PES %zu (au%d): DTS field 0x%llx, expected 0x%llx", k, a, (unsigned long long)p->dts, (unsigned long long)u->dts33);
        }
        if (upipe_view && u->has_pts) {
            uint64_t delta = (u->pts33 + R_POW33 - u->dts_dec) & (R_POW33 - 1);
            if (p->dts_orig != u->dts_dec * 300)
                VFAIL("dts", "PES %zu (au%d): dts_orig %llu (0x%llx at 90 kHz), expected 0x%llx", k, a, (unsigned long long)p->dts_orig, (unsigned long long)(p->dts_orig / 300), (unsigned long long)u->dts_dec);
            else if (!u->bigdelay && (!p->has_pts_orig || p->pts_orig != (u->dts_dec + delta) * 300))
                VFAIL("pts", "PES %zu (au%d): pts_orig %llu (0x%llx at 90 kHz), expected DTS 0x%llx + %llu ticks", k, a, (unsigned long long)p->pts_orig,
                      (unsigned long long)(p->pts_orig / 300), (unsigned long long)u->dts_dec, (unsigned long long)delta);
        }
        if (check_markers && a0 >= 0) {
            const struct au *s = &c->au[a0];
            if (p->random != s->random) VFAIL("random", "PES %zu starts au%d (random=%d) but its first packet has random access=%d", k, a0, s->random, p->random);
            if (s->disc && !p->disc) VFAIL("discontinuity", "PES %zu starts au%d flagged discontinuity but the flag is not carried", k, a0);
            if (!s->disc && p->disc && !(upipe_view && k == 0)) VFAIL("spurious-discontinuity", "PES %zu (au%d): discontinuity flagged, the access unit was not", k, a0);
        } else if (check_markers && (p->random || (p->disc && !(upipe_view && k == 0))))
            VFAIL("marker-inside-au", "PES %zu at offset %zu (inside an access unit) carries random=%d discontinuity=%d", k, p->off, p->random, p->disc);
    }
    if (!ret && pos != c->ncat) VFAIL("total", "PES payloads sum to %zu octets, access units to %zu", pos, c->ncat);
    /* every access unit that must open a PES does */
    for (int i = 0; i < c->nau && !ret; i++) {
        const struct au *u = &c->au[i];
        bool must_open = one_pes_per_au || (check_markers && (u->random || u->disc));
        if (!must_open) continue;
        bool found = false;
        for (size_t k = 0; k < nv; k++) if (v[k].off == u->off) found = true;
        if (!found) VFAIL("unit-start", "au%d (offset %zu%s%s) does not start a PES / has no unit start", i, u->off, u->random ? ", random" : "", u->disc ? ", discontinuity" : "");
    }
    if (!ret && one_pes_per_au && nv != (size_t)c->nau) VFAIL("unit-count", "%zu PES for %d access units", nv, c->nau);
    return ret;
#undef VFAIL
}


struct pkmeta { bool pusi, has_payload, has_af, pcr; };

struct rstate {
    unsigned cc;                  /* model of the continuity counter */
    size_t npkt;
    struct pkmeta *meta; size_t capmeta;
    unsigned pid;
    bool check_pcr;               /* path E: PCR must equal the program clock at the mux date */
    int64_t prog_minus_sys;
    struct upipe *decaps;
};

/* One emitted packet: oracle (1) through the independent parser, bookkeeping of the reference
 * view, then into ts_decaps (exact-size area). */
static int on_packet(struct ctx *c, struct vp_report *rep, struct rstate *st, const uint8_t *pk, uint64_t T, bool render)
{
    int ret = 0;
    struct rts r;
    size_t n = st->npkt;
    rts_parse(pk, &r);
    if (render) {
        char afs[16];
        if (r.has_af) snprintf(afs, sizeof afs, "%u", r.afl); else snprintf(afs, sizeof afs, "none");
        R("  pkt%zu T=%llu %s pid=%u cc=%u %s%saf=%s%s%s%s payload=%u\n", n, (unsigned long long)T, r.bad ? r.bad : "ok", r.pid, r.cc,
          r.pusi ? "PUSI " : "", r.has_payload ? "" : "(no payload) ", afs, r.rai ? " RAI" : "", r.di ? " DI" : "", r.pcr_f ? " PCR" : "", r.pay_len);
    }
    if (r.bad) FAIL("C15/ts/malformed", "packet %zu: %s (header %02x %02x %02x %02x %02x)", n, r.bad, pk[0], pk[1], pk[2], pk[3], pk[4]);
    else if (r.pid != st->pid) FAIL("C15/ts/pid", "packet %zu carries PID %u, configured %u", n, r.pid, st->pid);
    else if (r.tei || r.tsc || r.prio) FAIL("C15/ts/header-bits", "packet %zu: transport_error=%d scrambling=%u priority=%d", n, r.tei, r.tsc, r.prio);
    else if (r.has_payload && r.cc != ((st->cc + 1) & 15)) FAIL("C15/ts/continuity", "packet %zu carries a payload: continuity counter %u after %u", n, r.cc, st->cc);
    else if (!r.has_payload && r.cc != st->cc) FAIL("C15/ts/continuity-no-payload", "packet %zu has no payload: continuity counter %u after %u (must not be incremented)", n, r.cc, st->cc);
    else if (!r.stuffing_ok) FAIL("C15/ts/stuffing", "packet %zu: adaptation field (length %u) stuffing is not 0xff", n, r.afl);
    else if (r.has_af && r.afl && (r.espi || r.opcr_f || r.sp_f || r.priv_f || r.ext_f)) FAIL("C15/ts/af-flags", "packet %zu: unexpected adaptation field flags (byte %02x)", n, pk[5]);
    else if (r.pusi && !r.has_payload) FAIL("C15/ts/pusi-without-payload", "packet %zu: payload_unit_start without payload", n);
    else if (r.pcr_f && (r.pcr_ext >= 300 || r.pcr_reserved != 0x3f)) FAIL("C15/ts/pcr-syntax", "packet %zu: PCR extension %u reserved bits %02x", n, r.pcr_ext, r.pcr_reserved);
    else if (r.pcr_f && st->check_pcr) {
        uint64_t prog = T + (uint64_t)st->prog_minus_sys;
        uint64_t want = ((prog / 300) % R_POW33) * 300 + prog % 300;
        if (r.pcr27 != want) FAIL("C15/ts/pcr-value", "packet %zu muxed at %llu: PCR %llu (base %llu ext %u), program clock there is %llu -> %llu", n,
                                  (unsigned long long)T, (unsigned long long)r.pcr27, (unsigned long long)r.pcr_base, r.pcr_ext, (unsigned long long)prog, (unsigned long long)want);
    }
    if (ret) return ret;
    if (r.has_payload) st->cc = r.cc;
    if (n == st->capmeta) {
        size_t nc = st->capmeta ? st->capmeta * 2 : 256;
        struct pkmeta *m = realloc(st->meta, nc * sizeof(*m));
        if (!m) return vp_internal(rep, "malloc");
        st->meta = m; st->capmeta = nc;
    }
    st->meta[n].pusi = r.pusi; st->meta[n].has_payload = r.has_payload; st->meta[n].has_af = r.has_af; st->meta[n].pcr = r.pcr_f;
    if (r.has_payload) {
        if (r.pusi && !pstart_push(c, c->nes, r.has_af && r.afl && r.rai, r.has_af && r.afl && r.di)) return vp_internal(rep, "malloc");
        if (!r.pusi && r.has_af && r.afl && (r.rai || r.di)) return vp_fail(rep, "C15/ts/marker-not-on-unit-start", "packet %zu: random_access=%d discontinuity=%d on a packet that does not start a unit", n, r.rai, r.di);
        if (!es_push(c, pk + r.pay_off, r.pay_len)) return vp_internal(rep, "malloc");
    } else if (r.has_af && r.afl && (r.rai || r.di))
        return vp_fail(rep, "C15/ts/marker-not-on-unit-start", "packet %zu without payload carries random_access=%d discontinuity=%d", n, r.rai, r.di);
    bool exact;
    struct uref *uref = fx_uref_exact(&c->fx, pk, R_TS, &exact);
    if (!uref || !exact) { if (uref) uref_free(uref); return vp_internal(rep, "packet uref"); }
    c->fx.tag = n;
    upipe_input(st->decaps, uref, NULL);
    c->fx.tag = -1;
    st->npkt++;
    return 0;
}

static int run(const uint8_t *tape_, size_t len, struct vp_report *rep, unsigned flags)
{
    struct ctx *c = &C;
    struct tape t;
    tp_init(&t, tape_, len);
    bool render = flags & VP_RENDER;
    bool thorough = flags & VP_THOROUGH;
    int ret = 0;
    uint32_t cls = 0;
    uint64_t h = VP_HASH_INIT;
    struct fx *fx = &c->fx;

    c->nau = 0; c->ncat = 0; c->nes = 0; c->npstart = 0; c->nva = c->nvb = 0;
    c->cat = NULL; c->va = c->vb = NULL;
    if (fx_init(fx) != 0) return vp_internal(rep, "fx_init");

    /* ---------------- configuration ---------------- */
    bool pathP = (tp_u8(&t) % 4) == 3;
    uint8_t ssel = tp_u8(&t);
    unsigned pes_id;
    switch (ssel % 8) {
    case 0: case 1: case 2: pes_id = 0xe0; break;
    case 3: pes_id = 0xc0; break;
    case 4: pes_id = 0xbd; break;
    case 5: pes_id = 0xbf; break;
    case 6: pes_id = 0xe0 + (ssel >> 3) % 16; break;
    default: pes_id = 0xc0 + (ssel >> 3) % 32; break;
    }
    bool video = (pes_id & 0xf0) == 0xe0;
    bool priv2 = pes_id == 0xbf;
    static const uint16_t pids[] = { 68, 0x100, 0x1ffe, 16, 0x1000, 0x0fff, 32, 0x1abc };
    uint8_t psel = tp_u8(&t);
    unsigned pid = (psel & 0x80) ? 16 + (tp_u16(&t) % (0x1fff - 16)) : pids[psel % 8];
    uint8_t csel = tp_u8(&t);
    bool aligned = pathP || (csel & 3) != 3;
    bool live = (csel & 12) == 12;
    bool do_setcc = csel & 16;
    unsigned cc0 = do_setcc ? (csel >> 5) + 8 * (tp_u8(&t) & 1) : 0;
    uint8_t hsel = tp_u8(&t);
    unsigned min_hdr = 0;
    if (hsel >= 128) {
        if (priv2) min_hdr = hsel % 7;                       /* a header-less stream cannot be padded: <= 6 */
        else switch ((hsel >> 4) & 7) { case 0: min_hdr = 9; break; case 1: min_hdr = 14; break; case 2: min_hdr = 19; break;
                                        case 3: min_hdr = 45; break; case 4: min_hdr = 20 + hsel % 16; break; case 5: min_hdr = 184; break;
                                        case 6: min_hdr = 255; break; default: min_hdr = 9 + hsel % 200; break; }
    }
    uint8_t dsel = tp_u8(&t);
    uint64_t min_dur = (dsel & 7) == 7 ? F27 / 25 * (1 + (dsel >> 3) % 4) : 0;   /* 40..160 ms */
    uint8_t osel = tp_u8(&t);
    uint64_t octetrate = osel < 64 ? 2206 * (1 + osel) : osel < 192 ? 125000 * (uint64_t)(osel - 63) : 1000000 * (uint64_t)(osel - 191);
    uint64_t tb_rate = octetrate + octetrate * (tp_u8(&t) % 4) / 5;
    uint8_t msel = tp_u8(&t);
    unsigned tb_size = (msel & 3) == 1 ? 512 : (msel & 3) == 2 ? 1640 : 0;
    uint64_t mux_interval = (msel & 4) ? F27 / 1000 : 0;
    uint64_t pcr_interval = 0;
    if (!pathP && (msel & 0x30)) pcr_interval = (msel & 0x30) == 0x10 ? F27 / 10 : (msel & 0x30) == 0x20 ? F27 / 25 : 1000 + 37 * (msel >> 6);
    int nau = 1 + tp_u8(&t) % (thorough ? MAXAU : 6);
    uint64_t sys0 = (UINT64_C(1) << 44) + tp_u16(&t);
    uint64_t prog0;
    switch (tp_u8(&t) % 6) {
    case 0: prog0 = F27; break;
    case 1: prog0 = 0; break;
    case 2: prog0 = R_POW33 * 300 - F27 / 2 - tp_u16(&t); break;        /* the 33-bit fields wrap during the case */
    case 3: prog0 = R_POW33 * 300 - 1 - tp_u8(&t); break;
    case 4: prog0 = (uint64_t)tp_u32(&t) * 300 + tp_u8(&t); break;
    default: prog0 = R_POW33 * 300 * 3 + tp_u32(&t); break;             /* program clock beyond 2^33 ticks */
    }
    h = vp_hash_mix(h, pathP | pes_id << 1 | pid << 9 | aligned << 22 | live << 23 | (uint64_t)min_hdr << 24 | (uint64_t)cc0 << 32 | (uint64_t)nau << 40);
    h = vp_hash_mix(h, min_dur ^ pcr_interval << 20 ^ octetrate << 40);
    h = vp_hash_mix(h, prog0);
    cls |= 1u << (pathP ? CL_PATH_P : CL_PATH_E);
    if (!aligned) cls |= 1u << CL_NOALIGN;
    if (min_hdr > (priv2 ? 6u : 9u)) cls |= 1u << CL_MINHDR;
    if (priv2) cls |= 1u << CL_PRIV2;
    if (live && !pathP) cls |= 1u << CL_LIVE;
    if (do_setcc && !pathP) cls |= 1u << CL_SETCC;
    R("C15/roundtrip path=%s pes_id=0x%02x pid=%u %s min_pes_header=%u min_pes_duration=%llu octetrate=%llu tb_rate=%llu tb_size=%u pcr_interval=%llu mux_interval=%llu mode=%s first_cc=%u aus=%d sys0=%llu prog0=%llu\n",
      pathP ? "ts_pes_encaps" : "ts_encaps", pes_id, pid, aligned ? "aligned" : "not-aligned", min_hdr, (unsigned long long)min_dur,
      (unsigned long long)octetrate, (unsigned long long)tb_rate, tb_size, (unsigned long long)pcr_interval, (unsigned long long)mux_interval,
      live ? "live" : "file", (cc0 + 1) & 15, nau, (unsigned long long)sys0, (unsigned long long)prog0);

    /* ---------------- access units ---------------- */
    struct audesc { size_t size; uint8_t fill; int mode; uint64_t gap, cr_dts, dts_pts, dur; int nseg; size_t seg[2]; bool pump; } ad[MAXAU];
    size_t max_hdr = min_hdr > 19 ? min_hdr : 19;
    size_t cap_nonvideo = 65535 + 6 - max_hdr;
    if (!aligned) cap_nonvideo -= 184;        /* the tail of the previous unit may be moved into this PES */
    if (min_dur) cap_nonvideo /= nau;
    size_t total = 0;
    for (int i = 0; i < nau; i++) {
        struct audesc *d = &ad[i];
        memset(d, 0, sizeof *d);
        uint8_t z = tp_u8(&t);
        size_t sz;
        if (z < 12) sz = 1;
        else if (z < 40) sz = 1 + tp_u8(&t);
        else if (z < 110) { static const int hd[] = { 14, 19, 9, 6, 0, 22, 27 }; int k = 1 + (z - 40) / 10; long v = 184L * k - hd[z % 7] + (int)(tp_u8(&t) % 5) - 2; sz = v < 1 ? 1 : v; }
        else if (z < 150) sz = 1 + tp_u16(&t) % 3000;
        else if (z < 190) { int k = 7 + (z - 150); long v = 184L * k - (z & 1 ? 19 : 14) + (int)(tp_u8(&t) % 5) - 2; sz = v; }
        else if (z < 226) sz = 1 + (thorough ? tp_u32(&t) % 70000 : tp_u16(&t) % 9000);
        else sz = 65535 + 6 - (z & 1 ? 19 : z & 2 ? 14 : 9) + (int)(tp_u8(&t) % 13) - 6;      /* around the 16-bit PES length limit */
        if (!video && sz > cap_nonvideo) sz = cap_nonvideo ? cap_nonvideo : 1;      /* PES_packet_length 0 is reserved to video */
        if (total + sz > (thorough ? 400000u : 160000u)) sz = 1 + sz % 1500;        /* bound the case */
        d->size = sz;
        d->fill = tp_u8(&t);
        uint8_t a = tp_u8(&t);
        /* date mode: 0 cr_prog + cr_dts_delay + dts_pts_delay; 1 cr_prog + cr_dts_delay (no PTS);
         * 2 no program date; 3 dts_prog + dts_pts_delay; 4 pts_prog only */
        d->mode = (a & 7) < 4 ? 0 : (a & 7) - 3;
        if (!pathP && pcr_interval && d->mode >= 2) d->mode = 0;      /* a PCR PID needs cr_prog on every unit (mux) */
        /* without PES alignment ts_encaps moves the tail of a unit into the next PES and re-derives that PES's dates from
         * dts_prog + dts_pts_delay of the next unit: units dated by a PTS only lose it, units with a DTS but no
         * dts_pts_delay get PTS = DTS. Framers always give both, so such units are generated for the aligned mode only. */
        if (!pathP && !aligned && (d->mode == 4 || d->mode == 1)) d->mode = d->mode == 4 ? 3 : 0;
        if (pathP && d->mode == 1) d->mode = 0;
        bool rnd = (a & 0x18) == 0x18, dsc = (a & 0x60) == 0x60;
        d->pump = a & 0x80;
        uint8_t ts = tp_u8(&t);
        switch (ts % 8) {
        case 0: d->dts_pts = F27 / 25; break;
        case 1: d->dts_pts = 0; break;
        case 2: d->dts_pts = 299; break;                       /* same 90 kHz tick or the next one */
        case 3: d->dts_pts = 300; break;
        case 4: d->dts_pts = F27 * 60; break;
        case 5: d->dts_pts = F27 * 60 + 300 + tp_u16(&t); break;
        case 6: d->dts_pts = tp_u32(&t) % (F27 * 60); break;
        default: d->dts_pts = 3003 * 300 * (1 + (ts >> 3) % 4); break;
        }
        d->cr_dts = (ts & 0x80) ? F27 / 5 + tp_u16(&t) : F27;
        d->gap = (ts & 0x40) ? tp_u32(&t) % (F27 / 5) : (uint64_t)sz * F27 / octetrate;
        d->dur = min_dur ? (((ts >> 3) & 3) == 3 ? 0 : F27 / 50) : 0;       /* 0 = no duration attribute */
        uint8_t g = tp_u8(&t);
        d->nseg = g % 4 == 3 ? 1 + (g >> 2) % 2 : 0;
        d->seg[0] = 1 + (g >> 3) % 24; d->seg[1] = 1 + tp_u8(&t);
        struct au *u = &c->au[i];
        memset(u, 0, sizeof *u);
        u->off = total; u->size = sz; u->random = rnd; u->disc = dsc;
        total += sz;
        h = vp_hash_mix(h, (uint64_t)sz << 20 | d->mode << 16 | rnd << 15 | dsc << 14 | d->nseg << 12 | d->pump << 11 | (d->fill & 3));
        h = vp_hash_mix(h, d->dts_pts ^ d->gap << 24);
        if (sz == 1) cls |= 1u << CL_TINY;
        if (sz + 32 > 65535 && sz < 65535 + 32) cls |= 1u << CL_NEAR64K;
        if (rnd) cls |= 1u << CL_RANDOM;
        if (dsc) cls |= 1u << CL_DISC;
        if (d->nseg) cls |= 1u << CL_SEGMENTED;
    }
    c->nau = nau;
    c->ncat = total;
    c->cat = malloc(total ? total : 1);
    if (!c->cat) { fx_clean(fx); return vp_internal(rep, "malloc"); }
    for (int i = 0; i < nau; i++) {
        uint32_t seed = 0xabcdef01u + 31337u * i + ad[i].fill;
        for (size_t k = 0; k < ad[i].size; k++)
            c->cat[c->au[i].off + k] = (ad[i].fill & 3) == 3 ? (uint8_t)(ad[i].fill >> 2) : (uint8_t)(xs(&seed) >> 9);
    }

    /* ---------------- pipes ---------------- */
    struct upipe *enc = NULL, *decaps = NULL, *pesd = NULL;
    fx_rec_init(fx, &c->sink, P_SINK, NULL);
    pesd = upipe_void_alloc(upipe_ts_pesd_mgr_alloc(), fx_probe(fx, P_PESD));
    decaps = upipe_void_alloc(upipe_ts_decaps_mgr_alloc(), fx_probe(fx, P_DECAPS));
    if (!pesd || !decaps) ret = vp_internal(rep, "pipe allocation");
    if (!ret) {
        fx_rec_init(fx, &c->tee, P_TEE, pesd);
        if (!ubase_check(upipe_set_output(pesd, &c->sink.upipe)) || !ubase_check(upipe_set_output(decaps, &c->tee.upipe)))
            ret = vp_internal(rep, "set_output");
    }
    struct uref *fd = NULL;
    if (!ret) {
        fd = uref_block_flow_alloc_def(fx->fm.uref_mgr, video ? "h264.pic." : "mp2.sound.");
        if (!fd) ret = vp_internal(rep, "flow def");
    }
    if (!ret) {
        bool ok = ubase_check(uref_ts_flow_set_pes_id(fd, pes_id));
        if (min_hdr) ok = ok && ubase_check(uref_ts_flow_set_pes_header(fd, min_hdr));
        if (min_dur) ok = ok && ubase_check(uref_ts_flow_set_pes_min_duration(fd, min_dur));
        if (!pathP) {
            ok = ok && ubase_check(uref_block_flow_set_octetrate(fd, octetrate)) && ubase_check(uref_ts_flow_set_tb_rate(fd, tb_rate)) &&
                 ubase_check(uref_ts_flow_set_pid(fd, pid));
            if (aligned) ok = ok && ubase_check(uref_ts_flow_set_pes_alignment(fd));
        }
        if (!ok) ret = vp_internal(rep, "flow def attributes");
    }
    if (!ret) {
        if (pathP) {
            fx_rec_init(fx, &c->sinka, P_SINKA, NULL);
            enc = upipe_void_alloc(upipe_ts_pese_mgr_alloc(), fx_probe(fx, P_ENC));
            if (!enc || !ubase_check(upipe_set_output(enc, &c->sinka.upipe)) || !ubase_check(upipe_set_flow_def(enc, fd)))
                ret = vp_internal(rep, "ts_pes_encaps setup");
        } else {
            enc = upipe_void_alloc(upipe_ts_encaps_mgr_alloc(), fx_probe(fx, P_ENC));
            if (!enc || !ubase_check(upipe_set_flow_def(enc, fd))) ret = vp_internal(rep, "ts_encaps setup (flow def refused)");
            if (!ret) {
                upipe_set_max_length(enc, UINT_MAX);
                if (tb_size) upipe_ts_encaps_set_tb_size(enc, tb_size);
                if (pcr_interval && !ubase_check(upipe_ts_mux_set_pcr_interval(enc, pcr_interval))) ret = vp_internal(rep, "set_pcr_interval");
                if (do_setcc && !ubase_check(upipe_ts_mux_set_cc(enc, cc0))) ret = vp_internal(rep, "set_cc");
            }
        }
    }
    if (fd) uref_free(fd);
    /* flow definition for the decapsulation chain */
    if (!ret) {
        /* (the output flow definition of ts_encaps is "void.": its packets leave through splice) */
        struct uref *dfd = uref_block_flow_alloc_def(fx->fm.uref_mgr, video ? "mpegts.mpegtspes.h264.pic." : "mpegts.mpegtspes.mp2.sound.");
        if (!ret && (!dfd || !ubase_check(upipe_set_flow_def(decaps, dfd)))) {
            const char *def = "?"; if (dfd) uref_flow_get_def(dfd, &def);
            ret = vp_internal(rep, "ts_decaps refused the flow definition %s", def);
        }
        if (dfd) uref_free(dfd);
    }

    /* ---------------- run ---------------- */
    struct rstate st;
    memset(&st, 0, sizeof st);
    st.cc = cc0; st.pid = pid; st.check_pcr = !pathP && pcr_interval; st.prog_minus_sys = (int64_t)(prog0 - sys0); st.decaps = decaps;
    uint64_t T = 0;                    /* mux date, never decreases */
    bool pcr_only_mode = msel & 8;
    size_t maxpk = total + 300 * (size_t)nau + 64;
    uint64_t cr_sys = sys0;
    bool eos_done = false;

    for (int i = 0; i <= nau && !ret; i++) {
        bool pump_now;
        if (i < nau) {
            struct audesc *d = &ad[i];
            struct au *u = &c->au[i];
            struct uref *uref = fx_uref_segs(fx, c->cat + u->off, u->size, d->seg, d->nseg);
            if (!uref) { ret = vp_internal(rep, "au uref"); break; }
            cr_sys += d->gap;
            uint64_t cr_prog = cr_sys - sys0 + prog0;
            if (!pathP) uref_clock_set_cr_sys(uref, cr_sys);
            switch (d->mode) {
            case 0:
                if (pathP) { uref_clock_set_dts_prog(uref, cr_prog + d->cr_dts); uref_clock_set_dts_pts_delay(uref, d->dts_pts); }
                else { uref_clock_set_cr_prog(uref, cr_prog); uref_clock_set_cr_dts_delay(uref, d->cr_dts); uref_clock_set_dts_pts_delay(uref, d->dts_pts); }
                break;
            case 1: uref_clock_set_cr_prog(uref, cr_prog); uref_clock_set_cr_dts_delay(uref, d->cr_dts); break;
            case 2: if (!pathP && (d->fill & 4)) uref_clock_set_cr_dts_delay(uref, d->cr_dts); break;
            case 3: uref_clock_set_dts_prog(uref, cr_prog + d->cr_dts); uref_clock_set_dts_pts_delay(uref, d->dts_pts); break;
            default: uref_clock_set_pts_prog(uref, cr_prog + d->cr_dts + d->dts_pts); break;
            }
            if (d->dur) uref_clock_set_duration(uref, d->dur);
            if (u->random) uref_flow_set_random(uref);
            if (u->disc) uref_flow_set_discontinuity(uref);
            /* what the unit carries, read back through the generic uref accessors */
            uint64_t pts = UINT64_MAX, dts = UINT64_MAX;
            u->has_pts = ubase_check(uref_clock_get_pts_prog(uref, &pts));
            bool has_dts = ubase_check(uref_clock_get_dts_prog(uref, &dts));
            if (priv2) u->has_pts = false;                     /* private_stream_2 has no header to carry them */
            u->pts33 = u->has_pts ? (pts / 300) % R_POW33 : 0;
            u->dts33 = has_dts ? (dts / 300) % R_POW33 : 0;
            u->has_dts_field = u->has_pts && has_dts && u->dts33 != u->pts33;
            u->dts_dec = u->has_dts_field ? u->dts33 : u->pts33;
            u->bigdelay = ((u->pts33 + R_POW33 - u->dts_dec) & (R_POW33 - 1)) * 300 > F27 * 60;
            if (u->has_pts && u->has_dts_field && u->dts33 > u->pts33) cls |= 1u << CL_WRAP;
            if (i > 0 && u->has_pts && c->au[i - 1].has_pts && u->pts33 + (R_POW33 >> 1) < c->au[i - 1].pts33) cls |= 1u << CL_WRAP;
            if (u->bigdelay) cls |= 1u << CL_BIGDELAY;
            cls |= 1u << (!u->has_pts ? CL_NOPTS : u->has_dts_field ? CL_PTSDTS : CL_PTSONLY);
            R(" au%d size=%zu%s%s mode=%d cr_sys=%llu pts=%s%llx dts=%s%llx%s dur=%llu segs=%d%s\n", i, u->size, u->random ? " random" : "", u->disc ? " discontinuity" : "",
              d->mode, (unsigned long long)cr_sys, u->has_pts ? "0x" : "-", (unsigned long long)u->pts33, has_dts ? "0x" : "-", (unsigned long long)u->dts33,
              u->has_dts_field ? "" : " (no DTS field)", (unsigned long long)d->dur, d->nseg + 1, d->pump ? " then pump" : "");
            fx->tag = -1;
            upipe_input(enc, uref, NULL);
            pump_now = d->pump || i == nau - 1;
            if (pathP) continue;
        } else {
            if (pathP) break;
            R(" eos\n");
            if (!ubase_check(upipe_ts_encaps_eos(enc))) { ret = vp_internal(rep, "eos"); break; }
            eos_done = true;
            pump_now = true;
        }
        if (!pump_now) continue;
        int pcr_only_budget = pcr_only_mode ? 2 : 0;
        while (!ret) {
            if (fx->st_cr_sys == UINT64_MAX) break;                    /* nothing held */
            if (!fx->st_ready && !live) break;                         /* file mode: wait for more input (or eos) */
            uint64_t due = fx->st_cr_sys;
            if (pcr_only_budget > 0 && fx->st_pcr_sys < due && fx->st_pcr_sys > T) { due = fx->st_pcr_sys; pcr_only_budget--; }
            if (due > T) T = due;
            struct ubuf *ubuf = NULL; uint64_t dts_sys = 0;
            if (!ubase_check(upipe_ts_encaps_splice(enc, T, T + mux_interval, &ubuf, &dts_sys)) || !ubuf) {
                FAIL("C15/encaps/splice", "upipe_ts_encaps_splice(%llu) failed or returned no packet (status cr_sys=%llu ready=%d)",
                     (unsigned long long)T, (unsigned long long)fx->st_cr_sys, fx->st_ready);
                break;
            }
            size_t usz = 0; uint8_t pk[R_TS];
            ubuf_block_size(ubuf, &usz);
            if (usz != R_TS) { FAIL("C15/ts/size", "packet %zu has %zu octets", st.npkt, usz); ubuf_free(ubuf); break; }
            if (!ubase_check(ubuf_block_extract(ubuf, 0, R_TS, pk))) { ubuf_free(ubuf); ret = vp_internal(rep, "extract"); break; }
            ubuf_free(ubuf);
            ret = on_packet(c, rep, &st, pk, T, render);
            if (!ret && st.npkt > maxpk) FAIL("C15/encaps/no-progress", "%zu packets emitted for %zu octets in %d access units", st.npkt, total, nau);
        }
        /* an idle PCR PID still gets PCR-only packets from the mux */
        if (!ret && eos_done && pcr_only_mode && pcr_interval && fx->st_cr_sys == UINT64_MAX && fx->st_pcr_sys != UINT64_MAX) {
            for (int q = 0; q < 2 && !ret; q++) {
                if (fx->st_pcr_sys > T) T = fx->st_pcr_sys;
                struct ubuf *ubuf = NULL; uint64_t dts_sys = 0; uint8_t pk[R_TS]; size_t usz = 0;
                if (!ubase_check(upipe_ts_encaps_splice(enc, T, T + mux_interval, &ubuf, &dts_sys)) || !ubuf) { FAIL("C15/encaps/splice", "splice for a PCR-only packet failed"); break; }
                ubuf_block_size(ubuf, &usz);
                if (usz != R_TS) { FAIL("C15/ts/size", "packet %zu has %zu octets", st.npkt, usz); ubuf_free(ubuf); break; }
                if (!ubase_check(ubuf_block_extract(ubuf, 0, R_TS, pk))) { ubuf_free(ubuf); ret = vp_internal(rep, "extract"); break; }
                ubuf_free(ubuf);
                ret = on_packet(c, rep, &st, pk, T, render);
            }
        }
    }
    if (enc) { upipe_release(enc); enc = NULL; }
    if (!ret && !pathP && fx->st_cr_sys != UINT64_MAX)
        FAIL("C15/encaps/data-left", "after eos and draining, ts_encaps still reports data (cr_sys=%llu ready=%d)", (unsigned long long)fx->st_cr_sys, fx->st_ready);
    if (!ret && !pathP && (!fx->got_last_cc || fx->last_cc_event != st.cc))
        FAIL("C15/encaps/last-cc", "last_cc event says %u (thrown=%d), last packet with payload carried %u", fx->last_cc_event, fx->got_last_cc, st.cc);

    /* path P: cut the recorded PES packets into TS packets with the reference packetiser */
    if (!ret && pathP) {
        struct fx_rec *A = &c->sinka;
        if (A->nchunks && !(A->chunks[0].flags & FXC_START)) FAIL("C15/pese/no-start", "first output of ts_pes_encaps has no unit start");
        size_t k = 0, pes_payload_pos = 0;
        while (k < A->nchunks && !ret) {
            size_t start = A->chunks[k].off, sz = 0, j = k;
            do { sz += A->chunks[j].len; j++; } while (j < A->nchunks && !(A->chunks[j].flags & FXC_START));
            k = j;
            /* markers of the access unit this PES opens go into the adaptation field of its first packet */
            struct rpes rp;
            bool rai = false, di = false;
            if (rpes_parse(A->bytes + start, sz, &rp) == 0) {
                int a = au_at(c, pes_payload_pos);
                if (a >= 0) { rai = c->au[a].random; di = c->au[a].disc; }
                pes_payload_pos += sz - rp.hdr_size;
            }
            size_t pos = 0; bool first = true;
            while (pos < sz && !ret) {
                uint8_t sh = tp_u8(&t);
                struct wts w; memset(&w, 0, sizeof w);
                w.pid = pid; w.pusi = first; w.has_payload = true;
                unsigned afl = 0; bool anyaf = false;
                switch (sh % 6) { case 0: break; case 1: anyaf = true; break; case 2: anyaf = true; afl = 1 + (sh >> 3) % 16; break;
                                  case 3: anyaf = true; w.pcr_f = true; w.pcr_base = (uint64_t)sh << 25; w.pcr_ext = sh; afl = 7; break;
                                  case 4: anyaf = true; afl = 183 - (1 + (sh >> 3) % 8); break; default: anyaf = true; afl = 1 + tp_u8(&t) % 182; break; }
                if (first && (rai || di)) { anyaf = true; if (afl < 1) afl = 1; w.rai = rai; w.di = di; }
                size_t rest = sz - pos;
                unsigned cap = anyaf ? 183 - afl : 184;
                unsigned n = rest < cap ? rest : cap;
                if (n < 184) { anyaf = true; afl = 183 - n; }
                if (afl < wts_af_need(&w) && afl > 0) { w.pcr_f = false; }
                if (afl == 0) w.pcr_f = false;
                w.has_af = anyaf; w.afl = afl;
                w.cc = (st.cc + 1) & 15;
                w.payload = A->bytes + start + pos; w.pay_len = n;
                uint8_t pk[R_TS];
                if (!wts_build(&w, pk)) { ret = vp_internal(rep, "reference packetiser"); break; }
                ret = on_packet(c, rep, &st, pk, 0, render);
                pos += n; first = false;
            }
        }
    }
    if (decaps) upipe_release(decaps);
    if (pesd) upipe_release(pesd);
    if (!ret && (fx->harness_oom || fx->ev_overflow)) ret = vp_internal(rep, "harness recorder overflow");
    if (!ret && c->tee.flowdef_err) ret = vp_internal(rep, "ts_pes_decaps refused the flow definition %s", c->tee.flowdef);

    /* ---------------- reference view ---------------- */
    if (!ret && c->npstart && c->pstart[0] != 0) FAIL("C15/ref/payload-before-start", "%zu payload octets precede the first unit start", c->pstart[0]);
    if (!ret && !c->npstart && total) FAIL("C15/ref/no-unit-start", "no packet with payload_unit_start was emitted for %zu octets", total);
    if (!ret) {
        c->va = calloc(c->npstart ? c->npstart : 1, sizeof(*c->va));
        if (!c->va) ret = vp_internal(rep, "malloc");
    }
    size_t espos = 0;
    for (size_t k = 0; k < c->npstart && !ret; k++) {
        size_t start = c->pstart[k], end = k + 1 < c->npstart ? c->pstart[k + 1] : c->nes;
        struct rpes r;
        int pr = rpes_parse(c->es + start, end - start, &r);
        R("  pes%zu at %zu size=%zu %s stream_id=0x%02x length=%u hdr=%zu%s pts=%s%llx dts=%s%llx%s%s\n", k, start, end - start, pr == 0 ? "ok" : pr > 0 ? "TRUNCATED" : r.bad,
          r.stream_id, r.length, r.hdr_size, r.align ? " align" : "", r.has_pts ? "0x" : "-", (unsigned long long)r.pts, r.has_dts ? "0x" : "-", (unsigned long long)r.dts,
          c->prai[k] ? " RAI" : "", c->pdi[k] ? " DI" : "");
        if (pr < 0) { FAIL("C15/ref/pes-header", "PES %zu: %s", k, r.bad); break; }
        if (pr > 0) { FAIL("C15/ref/pes-truncated", "PES %zu: %zu octets until the next unit start, header incomplete", k, end - start); break; }
        if (r.stream_id != pes_id) { FAIL("C15/ref/stream-id", "PES %zu: stream_id 0x%02x, configured 0x%02x", k, r.stream_id, pes_id); break; }
        size_t pes_size = end - start;
        if (r.length != 0 ? r.length != pes_size - 6 : !video)       /* 0 = unbounded, allowed for video only */
            { FAIL("C15/ref/pes-length", "PES %zu (stream_id 0x%02x) has %zu octets after the length field, PES_packet_length says %u", k, r.stream_id, pes_size - 6, r.length); break; }
        if (r.length == 0) cls |= 1u << CL_UNBOUNDED;
        if (r.opt) {
            if (r.scramble || r.prio || r.copyright || r.original || r.escr_f || r.esrate_f || r.trick_f || r.addcopy_f || r.crc_f || r.ext_f)
                { FAIL("C15/ref/pes-flags", "PES %zu: unexpected header flags %02x %02x", k, c->es[start + 6], c->es[start + 7]); break; }
            if (!r.ts_syntax_ok) { FAIL("C15/ref/timestamp-syntax", "PES %zu: PTS/DTS prefix or marker bits wrong (%02x .. %02x)", k, c->es[start + 9], c->es[start + 13]); break; }
            if (!r.stuffing_ok) { FAIL("C15/ref/pes-stuffing", "PES %zu: header stuffing is not 0xff", k); break; }
        }
        if (r.hdr_size < min_hdr) { FAIL("C15/ref/min-header", "PES %zu: header of %zu octets, minimal header size %u requested", k, r.hdr_size, min_hdr); break; }
        struct pesv *v = &c->va[c->nva++];
        v->off = espos; v->size = pes_size - r.hdr_size; espos += v->size;
        v->has_pts = r.has_pts; v->has_dts = r.has_dts; v->pts = r.pts; v->dts = r.dts;
        v->align = r.align; v->align_known = r.opt; v->random = c->prai[k]; v->disc = c->pdi[k];
        if (memcmp(c->es + start + r.hdr_size, c->cat + v->off, v->off + v->size <= c->ncat ? v->size : 0) || v->off + v->size > c->ncat) {
            size_t d = 0; while (v->off + d < c->ncat && d < v->size && c->es[start + r.hdr_size + d] == c->cat[v->off + d]) d++;
            FAIL("C15/ref/payload", "PES %zu payload differs from the access units at elementary-stream offset %zu (PES payload offset %zu of %zu)", k, v->off + d, d, v->size);
            break;
        }
        if (au_at(c, v->off) < 0) cls |= 1u << CL_OVERLAP;
        { int cnt = 0; for (int i = 0; i < c->nau; i++) if (c->au[i].off >= v->off && c->au[i].off < v->off + v->size) cnt++; if (cnt > 1) cls |= 1u << CL_AGGREGATE; }
        if (r.hdr_size > 184 - 8) cls |= 1u << CL_HDRSPLIT;
    }
    bool one_per_au = aligned && !min_dur;
    /* ts_pes_encaps knows nothing of the TS-level markers: when it aggregates units, a random unit may sit inside a PES */
    bool markers = !pathP || !min_dur;
    if (!ret) ret = check_views(c, rep, "ref", c->va, c->nva, false, aligned, one_per_au, markers);

    /* ---------------- upipe view ---------------- */
    if (!ret) {
        /* decaps level: the payload ts_decaps hands over is the payload the reference parser saw */
        struct fx_rec *Tt = &c->tee;
        if (Tt->nbytes != c->nes || memcmp(Tt->bytes, c->es, c->nes)) {
            size_t d = 0; while (d < Tt->nbytes && d < c->nes && Tt->bytes[d] == c->es[d]) d++;
            FAIL("C15/upipe/ts-payload", "ts_decaps output %zu payload octets, the reference parser %zu; first difference at %zu", Tt->nbytes, c->nes, d);
        }
        for (size_t q = 0; q < Tt->nchunks && !ret; q++) {
            struct fx_chunk *ch = &Tt->chunks[q];
            if (ch->tag < 0 || (size_t)ch->tag >= st.npkt) continue;
            if (!!(ch->flags & FXC_START) != st.meta[ch->tag].pusi) FAIL("C15/upipe/unit-start", "packet %d: payload_unit_start=%d, ts_decaps start flag=%d", ch->tag, st.meta[ch->tag].pusi, !!(ch->flags & FXC_START));
            if ((ch->flags & FXC_DISC) && q > 0 && !(st.meta[ch->tag].pusi)) FAIL("C15/upipe/spurious-discontinuity", "packet %d: ts_decaps flags a discontinuity inside a unit of a gap-free stream", ch->tag);
            if (ch->flags & FXC_ERROR) FAIL("C15/upipe/error-flag", "packet %d: error flag", ch->tag);
        }
    }
    if (!ret) {
        struct fx_rec *S = &c->sink;
        if (S->nbytes != c->ncat || memcmp(S->bytes, c->cat, c->ncat)) {
            size_t d = 0; while (d < S->nbytes && d < c->ncat && S->bytes[d] == c->cat[d]) d++;
            int a = -1; for (int i = 0; i < c->nau; i++) if (c->au[i].off <= d) a = i;
            FAIL("C15/upipe/payload", "decapsulated %zu octets, access units total %zu; first difference at %zu (au%d + %zu)", S->nbytes, c->ncat, d, a, a >= 0 ? d - c->au[a].off : 0);
        }
        if (!ret && S->nchunks && !(S->chunks[0].flags & FXC_START)) FAIL("C15/upipe/no-start", "first decapsulated chunk has no unit start");
        if (!ret) {
            c->vb = calloc(S->nchunks ? S->nchunks : 1, sizeof(*c->vb));
            if (!c->vb) ret = vp_internal(rep, "malloc");
        }
        for (size_t q = 0; q < S->nchunks && !ret; q++) {
            struct fx_chunk *ch = &S->chunks[q];
            if (ch->flags & FXC_START) {
                struct pesv *v = &c->vb[c->nvb++];
                v->off = ch->off; v->size = 0;
                v->has_pts = ch->flags & FXC_DTS; v->dts_orig = ch->dts_orig; v->pts_orig = ch->pts_orig; v->has_pts_orig = ch->flags & FXC_PTS;
                v->random = ch->flags & FXC_RAND; v->disc = ch->flags & FXC_DISC;
            } else if (ch->flags & (FXC_RAND | FXC_DISC))
                FAIL("C15/upipe/marker-inside-unit", "chunk %zu (packet %d) inside a unit carries random=%d discontinuity=%d", q, ch->tag, !!(ch->flags & FXC_RAND), !!(ch->flags & FXC_DISC));
            if (c->nvb) c->vb[c->nvb - 1].size += ch->len;
        }
        if (!ret) ret = check_views(c, rep, "upipe", c->vb, c->nvb, true, aligned, one_per_au, markers);
        /* one clock_ts per PES with a PTS */
        if (!ret) {
            size_t want = 0; for (size_t k = 0; k < c->nva; k++) if (c->va[k].has_pts) want++;
            size_t got = fx_count(fx, P_PESD, FXE_CLOCK_TS);
            if (got != want) FAIL("C15/upipe/clock-ts-events", "%zu PES carry a PTS, ts_pes_decaps threw %zu clock_ts events", want, got);
        }
        /* PCRs seen by the reference = clock_ref events of ts_decaps */
        if (!ret) {
            size_t want = 0; for (size_t k = 0; k < st.npkt; k++) if (st.meta[k].pcr) want++;
            size_t got = fx_count(fx, P_DECAPS, FXE_CLOCK_REF);
            if (got != want) FAIL("C15/upipe/clock-ref-events", "%zu packets carry a PCR, ts_decaps threw %zu clock_ref events", want, got);
        }
    }

    /* ---------------- classes from the packet log ---------------- */
    {
        size_t cnt = 0; bool last_af = false;
        for (size_t k = 0; k <= st.npkt; k++) {
            if (k == st.npkt || (st.meta[k].has_payload && st.meta[k].pusi)) {
                if (cnt >= 3 && last_af) cls |= 1u << CL_AU3AF;
                if (cnt >= 2 && !last_af) cls |= 1u << CL_MULT184;
                cnt = 0;
                if (k == st.npkt) break;
            }
            if (st.meta[k].pcr) cls |= 1u << CL_PCR;
            if (st.meta[k].pcr && !st.meta[k].has_payload) cls |= 1u << CL_PCR_ONLY_PKT;
            if (st.meta[k].has_payload) { cnt++; last_af = st.meta[k].has_af; }
        }
    }

    /* ---------------- teardown ---------------- */
    fx_rec_clean(&c->tee); fx_rec_clean(&c->sink); fx_rec_clean(&c->sinka);
    free(st.meta); free(c->cat); free(c->va); free(c->vb);
    c->cat = NULL; c->va = c->vb = NULL;
    const char *leak = fx_clean(fx);
    if (leak && !ret) ret = vp_fail(rep, "C15/leak/roundtrip", "after releasing every pipe: %s", leak);
    rep->case_hash = h;
    rep->classes = cls;
    rep->nontrivial = (cls >> CL_AU3AF) & 1;
    return ret;
}

const struct vp_executor vp_executor = { "C15", "roundtrip", 420, class_names, run, NULL };

/* C01 — lifetimes around the flow-selection probe (lib/upipe/uprobe_select_flows.c).
 *
 * A fake split pipe (as in tests/uprobe_select_flows_test.c: answers UPIPE_SPLIT_ITERATE from a list of flow definitions
 * and UPIPE_GET_SUB_MGR with a manager of flow-allocated fake output subpipes) is driven through tape-decoded histories:
 * flows are added to / removed from / changed in the list, split_update is thrown, output subpipes allocated by the probe
 * throw source_end, the selection is changed and read, and the application's references on the probe and on the split
 * pipe are released in a tape-chosen order (in mid-history or in the tail).
 *
 * The fake pipes are refcounted like real ones (the split pipe has an external and a real refcount, every output subpipe
 * holds the real one; when the last external reference goes the split pipe does what real split pipes do: source_end on
 * its outputs -- avformat source style -- or not -- ts_demux style --, then an empty flow list and a last split_update).
 * They live in static tables and are never freed: a dead pipe gets a tombstone refcount, so a second release, a
 * upipe_use or a control command on a dead pipe is SEEN (key) instead of crashing.
 *
 * Oracles: ASan; each subpipe the probe allocated is destroyed exactly once; never released/used after destruction;
 * after source_end the probe (its only holder) has let go of the subpipe; at the end nothing is live: subpipes, split
 * pipe, the two recording probes of the application back to one reference, urefs (counting umem, manager refcounts),
 * heap (ASan malloc hooks); model of the documented selection ("all", lists of ids / lang= / name= items) checked after
 * each split_update and each set: a selected flow known to the probe has exactly one live subpipe, any other none.
 * "auto" and "" selections: memory oracles only (plus at most one live subpipe per flow). */
#include "vp.h"
#include "tape.h"
#include "fix_mem.h"
#include "heapcount.h"
#include "upipe/ubase.h"
#include "upipe/urefcount.h"
#include "upipe/uprobe.h"
#include "upipe/upipe.h"
#include "upipe/uref_flow.h"
#include "upipe/uref_clock.h"
#include "upipe/uref_program_flow.h"
#include "upipe/uprobe_select_flows.h"
#include <stdlib.h>
#include <stdio.h>
#include <inttypes.h>

enum { CL_REMOVED_SELECTED, CL_SOURCE_END, CL_SOURCE_END_AGAIN, CL_SEL_CHANGED_LIVE, CL_PROBE_FIRST, CL_UPDATE_GE3,
       CL_SEL_AUTO, CL_SEL_ALL, CL_SEL_LIST, CL_SEL_ATTR, CL_SEL_EMPTY, CL_SET_VA, CL_DEF_CHANGED, CL_CAT_CHANGED_KNOWN,
       CL_NULL_DEF_ALLOC, CL_SPLIT_REL_LIVE, CL_SPLIT_REL_SOURCE_END, CL_SPLIT_REL_MID, CL_PROBE_REL_MID,
       CL_TYPE_VOID, CL_TYPE_PIC, CL_TYPE_SOUND, CL_TYPE_SUBPIC, CL_READDED_BEFORE_UPDATE, CL_DESELECTED_LIVE, CL_POOLED, CL_ATTR_SEL_AFTER_END };
static const char *const class_names[] = {
    "flow_removed_while_selected", "source_end_from_subpipe", "source_end_then_flow_announced_again",
    "selection_changed_with_live_subpipes", "probe_released_before_split_pipe", "split_update_ge_3",
    "selection_auto", "selection_all", "selection_list_of_ids", "selection_by_lang_or_name", "selection_empty_string",
    "selection_set_with_set_va", "flow_definition_changed", "flow_category_or_attributes_changed_while_known_to_probe",
    "subpipe_asked_with_null_flow_def_after_source_end", "split_pipe_released_with_live_subpipes",
    "split_pipe_release_throws_source_end_on_outputs", "split_pipe_released_in_mid_history", "probe_released_in_mid_history",
    "type_void", "type_pic", "type_sound", "type_subpic", "flow_removed_and_added_again_between_updates",
    "live_subpipe_deselected_by_set", "pooled_uref_manager", "selection_by_lang_or_name_set_after_a_source_end", NULL };

#define NFLOWS 6
#define MAXSLOT 320
#define MAXOPS 40

enum { CAT_NONE, CAT_PIC, CAT_SOUND, CAT_VOID, CAT_SUBPIC };
static const struct { const char *def; int cat; } defs[] = {
    { "pic.", CAT_PIC }, { "sound.s16.", CAT_SOUND }, { "void.", CAT_VOID }, { "pic.sub.", CAT_SUBPIC },
    { "block.mpeg2video.pic.", CAT_PIC }, { "block.mp2.sound.", CAT_SOUND }, { "void.prog.", CAT_VOID }, { "block.dvb_subtitle.pic.sub.", CAT_SUBPIC },
    { "block.foo.", CAT_NONE } };
#define NDEFS 9
static const char *const langs[] = { NULL, "eng", "fra" };
static const char *const names[] = { NULL, "A", "B" };
static const enum uprobe_selflow_type types[] = { UPROBE_SELFLOW_PIC, UPROBE_SELFLOW_SOUND, UPROBE_SELFLOW_VOID, UPROBE_SELFLOW_SUBPIC };
static const char *const type_names[] = { "PIC", "SOUND", "VOID", "SUBPIC" };

enum { ST_UNUSED, ST_LIVE, ST_DEAD };

struct fsub { struct upipe upipe; struct urefcount rc, tomb; int state, flow, ready_seen, dead_seen, end_seen; };
struct fsplit { struct upipe upipe; struct urefcount rc, real, tomb; int state; bool no_ref; };
struct rprobe { struct uprobe uprobe; struct urefcount rc; bool dead; const char *name; int nevents; };

enum { SEL_ALL, SEL_AUTO, SEL_EMPTY, SEL_LIST };
struct msel { int mode; uint32_t ids; uint8_t langs, names; bool attr; char str[96]; };

struct mflow {
    bool listed; int def, lang, name, extra; struct uref *uref;       /* the split pipe's list */
    bool known; int kdef, klang, kname; bool ended;                  /* what the probe was told by the last split_update / source_end */
};

struct ctx {
    struct tape t;
    struct vp_report *rep;
    bool render, noexclude;
    struct fix_mem fm;
    int type, cat;
    struct uprobe *probe;          /* the application's reference on the selflow probe (NULL once released) */
    bool split_held;               /* the application's reference on the split pipe */
    struct fsplit split;
    struct upipe_mgr split_mgr, sub_mgr;
    struct fsub slots[MAXSLOT];
    int nslots, nlive, ndestroyed;
    struct rprobe next, subprobe;
    bool final;
    struct mflow flows[NFLOWS];
    int order[NFLOWS], norder;     /* list order of the flow ids */
    struct msel sel;
    int end_style;
    int nupdates, nsource_end, nremoved_live;
    bool slot_overflow;
    uint32_t excluded;
    uint64_t classes, h;
    int ret;
};
static struct ctx *G;
#define R(...) do { if (c->render) vp_render(c->rep, __VA_ARGS__); } while (0)
#define FAIL(key, ...) do { if (!c->ret) c->ret = vp_fail(c->rep, "C01/selflow/" key, __VA_ARGS__); } while (0)
#define CL(x) (c->classes |= 1ull << (x))

static bool matches(struct ctx *c, int def) { return defs[def].cat == c->cat; }

/* ------------------------------------------------------------------ recording probes of the application */
static struct fsub *slot_of(struct ctx *c, struct upipe *upipe)
{
    for (int i = 0; i < c->nslots; i++) if (&c->slots[i].upipe == upipe) return &c->slots[i];
    return NULL;
}

static int rprobe_throw(struct uprobe *uprobe, struct upipe *upipe, int event, va_list args)
{
    struct ctx *c = G;
    struct rprobe *r = container_of(uprobe, struct rprobe, uprobe);
    (void)args;
    if (r->dead) FAIL("use-after-destroy", "event %d thrown to the application's %s probe after its last reference was released", event, r->name);
    r->nevents++;
    struct fsub *s = upipe ? slot_of(c, upipe) : NULL;
    if (s != NULL && r == &c->subprobe) {
        if (event == UPROBE_READY) s->ready_seen++;
        else if (event == UPROBE_DEAD) s->dead_seen++;
        else if (event == UPROBE_SOURCE_END) s->end_seen++;
    }
    return UBASE_ERR_NONE;
}

static void rprobe_free(struct urefcount *rc)
{
    struct ctx *c = G;
    struct rprobe *r = container_of(rc, struct rprobe, rc);
    if (!c->final) FAIL("probe-released-twice", "the application's %s probe lost its last reference while the application still holds one", r->name);
    r->dead = true;
}

static void rprobe_init(struct rprobe *r, const char *name)
{
    uprobe_init(&r->uprobe, rprobe_throw, NULL);
    urefcount_init(&r->rc, rprobe_free);
    r->uprobe.refcount = &r->rc;
    r->name = name;
}

/* ------------------------------------------------------------------ fake output subpipes */
static void fsub_tomb(struct urefcount *rc)
{
    struct ctx *c = G;
    struct fsub *s = container_of(rc, struct fsub, tomb);
    FAIL("subpipe-released-twice", "output subpipe #%d of flow %d released again after it was destroyed", (int)(s - c->slots), s->flow);
    R("      !! subpipe #%d released after destruction\n", (int)(s - c->slots));
    urefcount_init(&s->tomb, fsub_tomb);
}

static void fsplit_real_release(struct ctx *c);

static void fsub_free(struct urefcount *rc)
{
    struct ctx *c = G;
    struct fsub *s = container_of(rc, struct fsub, rc);
    R("      subpipe #%d (flow %d) destroyed\n", (int)(s - c->slots), s->flow);
    upipe_throw_dead(&s->upipe);
    upipe_clean(&s->upipe);
    s->upipe.uprobe = NULL;
    s->state = ST_DEAD;
    c->nlive--; c->ndestroyed++;
    urefcount_clean(&s->rc);
    urefcount_init(&s->tomb, fsub_tomb);
    s->upipe.refcount = &s->tomb;
    fsplit_real_release(c);
}

static struct upipe *fsub_alloc(struct upipe_mgr *mgr, struct uprobe *uprobe, uint32_t signature, va_list args)
{
    struct ctx *c = G;
    if (signature != UPIPE_FLOW_SIGNATURE) { uprobe_release(uprobe); return NULL; }
    struct uref *flow_def = va_arg(args, struct uref *);
    if (flow_def == NULL) {          /* as every flow-allocated pipe (upipe_helper_flow.h): refused */
        R("      subpipe asked with a NULL flow definition: refused\n");
        CL(CL_NULL_DEF_ALLOC);
        uprobe_release(uprobe);
        return NULL;
    }
    if (c->split.state != ST_LIVE) FAIL("use-after-destroy", "output subpipe asked from the split pipe after it was destroyed");
    uint64_t id = 0;
    if (!ubase_check(uref_flow_get_id(flow_def, &id)) || id >= NFLOWS) { uprobe_release(uprobe); return NULL; }
    if (c->nslots >= MAXSLOT) { c->slot_overflow = true; uprobe_release(uprobe); return NULL; }
    struct fsub *s = &c->slots[c->nslots++];
    upipe_init(&s->upipe, mgr, uprobe);
    urefcount_init(&s->rc, fsub_free);
    s->upipe.refcount = &s->rc;
    s->state = ST_LIVE; s->flow = (int)id;
    c->nlive++;
    urefcount_use(&c->split.real);
    R("      subpipe #%d allocated for flow %d\n", (int)(s - c->slots), s->flow);
    upipe_throw_ready(&s->upipe);
    return &s->upipe;
}

static int fsub_control(struct upipe *upipe, int command, va_list args)
{
    struct ctx *c = G;
    struct fsub *s = slot_of(c, upipe);
    (void)args;
    if (s != NULL && s->state != ST_LIVE) FAIL("use-after-destroy", "control command %d sent to output subpipe #%d after it was destroyed", command, (int)(s - c->slots));
    return UBASE_ERR_UNHANDLED;
}

static void fsub_input(struct upipe *upipe, struct uref *uref, struct upump **upump_p)
{
    struct ctx *c = G;
    struct fsub *s = slot_of(c, upipe);
    (void)upump_p;
    if (s != NULL && s->state != ST_LIVE) FAIL("use-after-destroy", "buffer sent to output subpipe #%d after it was destroyed", (int)(s - c->slots));
    uref_free(uref);
}

static int live_of(struct ctx *c, int flow)
{
    int n = 0;
    for (int i = 0; i < c->nslots; i++) if (c->slots[i].state == ST_LIVE && c->slots[i].flow == flow) n++;
    return n;
}

/* uses of dead pipes that leave a trace in the tombstone refcount */
static void check_tombs(struct ctx *c)
{
    for (int i = 0; i < c->nslots; i++)
        if (c->slots[i].state == ST_DEAD && uatomic_load(&c->slots[i].tomb.refcount) != 1)
            FAIL("use-after-destroy", "a reference was taken on output subpipe #%d (flow %d) after it was destroyed", i, c->slots[i].flow);
    if (c->split.state == ST_DEAD && uatomic_load(&c->split.tomb.refcount) != 1)
        FAIL("use-after-destroy", "a reference was taken on the split pipe after it was destroyed");
}

/* ------------------------------------------------------------------ model */
static bool selected(const struct msel *sel, int id, int lang, int name)
{
    if (sel->mode == SEL_ALL) return true;
    if (sel->mode != SEL_LIST) return false;
    return ((sel->ids >> id) & 1) || (lang && ((sel->langs >> lang) & 1)) || (name && ((sel->names >> name) & 1));
}

static bool uncertain(struct ctx *c, const struct mflow *f)
{
    /* the probe was told another definition than the one now in the list: what it does with the change is not documented */
    return f->known && f->listed && (matches(c, f->kdef) != matches(c, f->def) || f->klang != f->lang || f->kname != f->name);
}

static void check_model(struct ctx *c, bool after_update, const char *where)
{
    check_tombs(c);
    for (int id = 0; id < NFLOWS && !c->ret; id++) {
        struct mflow *f = &c->flows[id];
        int live = live_of(c, id);
        if (live > 1) { FAIL("subpipe-unexpected", "%s: flow %d has %d live output subpipes", where, id, live); break; }
        if (c->sel.mode != SEL_ALL && c->sel.mode != SEL_LIST) continue;
        bool expect;
        if (after_update) {
            if (uncertain(c, f)) continue;
            expect = f->listed && matches(c, f->def) && selected(&c->sel, id, f->lang, f->name);
        } else {
            if (!f->known) expect = false;
            else if (f->ended || uncertain(c, f)) continue;
            else expect = selected(&c->sel, id, f->klang, f->kname);
        }
        if (expect && live == 0)
            FAIL("subpipe-missing", "%s: flow %d (%s%s%s%s%s) is announced by the split pipe and selected by \"%s\" but has no live output subpipe", where, id,
                 defs[f->def].def, f->lang ? " lang=" : "", f->lang ? langs[f->lang] : "", f->name ? " name=" : "", f->name ? names[f->name] : "", c->sel.str);
        else if (!expect && live != 0)
            FAIL("subpipe-unexpected", "%s: flow %d has a live output subpipe but is %s (selection \"%s\", probe type %s)", where, id,
                 !(after_update ? f->listed : f->known) ? "not announced by the split pipe" : (after_update && !matches(c, f->def)) ? "not of the probe's type" : "not selected", c->sel.str, type_names[c->type]);
    }
}

/* ------------------------------------------------------------------ operations shared by the tape and the split pipe's end of life */
static void do_update(struct ctx *c, const char *where)
{
    upipe_split_throw_update(&c->split.upipe);
    for (int id = 0; id < NFLOWS; id++) {
        struct mflow *f = &c->flows[id];
        if (f->listed && matches(c, f->def)) {
            if (!f->known) { f->known = true; f->ended = false; f->kdef = f->def; f->klang = f->lang; f->kname = f->name; }
            else if (f->ended) { f->ended = false; f->kdef = f->def; f->klang = f->lang; f->kname = f->name; CL(CL_SOURCE_END_AGAIN); }
        } else if (!f->listed && f->known) { f->known = false; f->ended = false; }
    }
    if (!c->ret) check_model(c, true, where);
}

static void do_source_end(struct ctx *c, struct fsub *s)
{
    int idx = (int)(s - c->slots);
    c->nsource_end++;
    CL(CL_SOURCE_END);
    upipe_throw_source_end(&s->upipe);
    c->flows[s->flow].ended = true;
    if (s->state == ST_LIVE)
        FAIL("subpipe-leaked", "output subpipe #%d of flow %d is still referenced after it threw source_end (the probe is its only holder)", idx, s->flow);
    else if (s->end_seen != 1)
        FAIL("event-lost", "the application's probe for subpipes saw source_end of subpipe #%d %d times", idx, s->end_seen);
}

static void flow_unlist(struct ctx *c, int id)
{
    struct mflow *f = &c->flows[id];
    uref_free(f->uref); f->uref = NULL; f->listed = false;
    int k = 0;
    for (int i = 0; i < c->norder; i++) if (c->order[i] != id) c->order[k++] = c->order[i];
    c->norder = k;
}

/* ------------------------------------------------------------------ fake split pipe */
static void fsplit_tomb(struct urefcount *rc)
{
    struct ctx *c = G;
    FAIL("split-pipe-released-twice", "the split pipe was released again after it was destroyed");
    urefcount_init(&c->split.tomb, fsplit_tomb);
    (void)rc;
}

static void fsplit_free(struct urefcount *rc)
{
    struct ctx *c = G;
    (void)rc;
    R("      split pipe destroyed\n");
    upipe_throw_dead(&c->split.upipe);
    upipe_clean(&c->split.upipe);
    c->split.upipe.uprobe = NULL;
    c->split.state = ST_DEAD;
    urefcount_clean(&c->split.real);
    urefcount_init(&c->split.tomb, fsplit_tomb);
    c->split.upipe.refcount = &c->split.tomb;
}

static void fsplit_real_release(struct ctx *c) { urefcount_release(&c->split.real); }

/* no external reference any more: what real split pipes do (upipe_avformat_source.c, upipe_ts_demux.c) */
static void fsplit_no_ref(struct urefcount *rc)
{
    struct ctx *c = G;
    (void)rc;
    c->split.no_ref = true;
    if (c->nlive) CL(CL_SPLIT_REL_LIVE);
    if (c->end_style == 1) {
        for (int i = 0; i < c->nslots && !c->ret; i++)
            if (c->slots[i].state == ST_LIVE) {
                CL(CL_SPLIT_REL_SOURCE_END);
                R("      split pipe: subpipe #%d throws source_end\n", i);
                do_source_end(c, &c->slots[i]);
            }
    }
    for (int id = 0; id < NFLOWS; id++) if (c->flows[id].listed) flow_unlist(c, id);
    R("      split pipe: flow list emptied, split_update\n");
    do_update(c, "last split_update of the split pipe");
    fsplit_real_release(c);
}

static int fsplit_control(struct upipe *upipe, int command, va_list args)
{
    struct ctx *c = G;
    (void)upipe;
    if (c->split.state != ST_LIVE) FAIL("use-after-destroy", "control command %d sent to the split pipe after it was destroyed", command);
    switch (command) {
    case UPIPE_GET_SUB_MGR: {
        struct upipe_mgr **p = va_arg(args, struct upipe_mgr **);
        *p = &c->sub_mgr;
        return UBASE_ERR_NONE;
    }
    case UPIPE_SPLIT_ITERATE: {
        struct uref **p = va_arg(args, struct uref **);
        int i = 0;
        if (*p != NULL) {
            for (i = 0; i < c->norder; i++) if (c->flows[c->order[i]].uref == *p) break;
            i++;
        }
        *p = i < c->norder ? c->flows[c->order[i]].uref : NULL;
        return UBASE_ERR_NONE;
    }
    default:
        return UBASE_ERR_UNHANDLED;
    }
}

/* ------------------------------------------------------------------ decoders */
static struct uref *mk_flow_def(struct ctx *c, int id, const struct mflow *f)
{
    struct uref *u = uref_alloc_control(c->fm.uref_mgr);
    if (u == NULL) return NULL;
    bool ok = ubase_check(uref_flow_set_def(u, defs[f->def].def)) && ubase_check(uref_flow_set_id(u, id));
    if (ok && f->lang) ok = ubase_check(uref_flow_set_languages(u, 1)) && ubase_check(uref_flow_set_language(u, langs[f->lang], 0));
    if (ok && f->name) ok = ubase_check(uref_program_flow_set_name(u, names[f->name]));
    if (ok && f->extra) ok = ubase_check(uref_clock_set_latency(u, 27000u * f->extra));
    if (!ok) { uref_free(u); return NULL; }
    return u;
}

static int pick_def(struct ctx *c, uint8_t b)
{
    switch (b % 4) {
    case 0: for (int i = 0; i < NDEFS; i++) if (defs[i].cat == c->cat) return i; return 0;
    case 1: for (int i = NDEFS - 1; i >= 0; i--) if (defs[i].cat == c->cat) return i; return 0;
    default: return (b / 4) % NDEFS;
    }
}

static void decode_sel(struct ctx *c, struct msel *sel)
{
    memset(sel, 0, sizeof(*sel));
    uint8_t b = tp_u8(&c->t);
    c->h = vp_hash_mix(c->h, 0x5e1000 + b);
    switch (b % 8) {
    case 0: sel->mode = SEL_ALL; strcpy(sel->str, "all"); return;
    case 1: sel->mode = SEL_AUTO; strcpy(sel->str, "auto"); return;
    case 2: if ((b / 8) % 4 == 0) { sel->mode = SEL_EMPTY; sel->str[0] = '\0'; return; }
        /* fallthrough */
    default: break;
    }
    sel->mode = SEL_LIST;
    int nitems = 1 + (b / 8) % 3;
    size_t pos = 0;
    for (int k = 0; k < nitems; k++) {
        uint8_t it = tp_u8(&c->t);
        c->h = vp_hash_mix(c->h, it);
        int kind = it % 16;
        if (kind < 9) { int id = kind % 7; if (id < NFLOWS) sel->ids |= 1u << id; pos += snprintf(sel->str + pos, sizeof(sel->str) - pos, "%d,", id == 6 ? 9 : id); }
        else if (kind < 12) { int l = 1 + (it / 16) % 2; sel->langs |= 1u << l; sel->attr = true; pos += snprintf(sel->str + pos, sizeof(sel->str) - pos, "lang=%s,", langs[l]); }
        else if (kind < 15) { int n = 1 + (it / 16) % 2; sel->names |= 1u << n; sel->attr = true; pos += snprintf(sel->str + pos, sizeof(sel->str) - pos, "name=%s,", names[n]); }
        else { pos += snprintf(sel->str + pos, sizeof(sel->str) - pos, "foo=bar,"); }
    }
    if ((b / 32) % 2 && pos) sel->str[pos - 1] = '\0';     /* without the final comma */
}

static void note_sel(struct ctx *c, const struct msel *sel)
{
    CL(sel->mode == SEL_ALL ? CL_SEL_ALL : sel->mode == SEL_AUTO ? CL_SEL_AUTO : sel->mode == SEL_EMPTY ? CL_SEL_EMPTY : CL_SEL_LIST);
    if (sel->mode == SEL_LIST && (sel->langs || sel->names)) CL(CL_SEL_ATTR);
}

static void release_probe(struct ctx *c)
{
    if (c->split_held) CL(CL_PROBE_FIRST);
    R("  release the selflow probe%s\n", c->split_held ? " (the split pipe still uses it)" : "");
    struct uprobe *p = c->probe;
    c->probe = NULL;
    uprobe_release(p);
}

static void release_split(struct ctx *c)
{
    R("  release the split pipe (%s)\n", c->end_style ? "its outputs throw source_end first" : "flow list emptied and split_update only");
    c->split_held = false;
    upipe_release(&c->split.upipe);
}

static int run(const uint8_t *tape, size_t len, struct vp_report *rep, unsigned flags)
{
    static struct ctx ctx;
    struct ctx *c = &ctx;
    memset(c, 0, sizeof(*c));
    G = c;
    tp_init(&c->t, tape, len);
    c->rep = rep; c->render = flags & VP_RENDER; c->noexclude = flags & VP_NO_EXCLUDE;
    c->h = VP_HASH_INIT;

    uint8_t b0 = tp_u8(&c->t), b1 = tp_u8(&c->t);
    c->type = b0 % 4; c->cat = c->type + 1;
    int pool = (b0 / 4) % 4 == 3 ? 2 : 0;
    bool alloc_va = (b0 / 16) % 2;
    c->end_style = (b0 / 32) % 2;
    /* releases in mid-history: b1 low nibble / high nibble, 0: in the tail */
    int rel_probe_at = (b1 % 4 == 3) ? 1 + (b1 / 4) % 4 * 6 + tp_u8(&c->t) % 6 : -1;
    int rel_split_at = ((b1 / 16) % 4 == 3) ? 1 + (b1 / 64) % 4 * 8 + tp_u8(&c->t) % 8 : -1;
    c->h = vp_hash_mix(c->h, b0); c->h = vp_hash_mix(c->h, b1); c->h = vp_hash_mix(c->h, rel_probe_at * 64 + rel_split_at);
    CL(c->type == 0 ? CL_TYPE_PIC : c->type == 1 ? CL_TYPE_SOUND : c->type == 2 ? CL_TYPE_VOID : CL_TYPE_SUBPIC);
    if (pool) CL(CL_POOLED);

    hc_begin();
    if (fix_mem_init(&c->fm, pool, 0, 0) != 0) return vp_internal(rep, "fix_mem_init");
    rprobe_init(&c->next, "next");
    rprobe_init(&c->subprobe, "subpipe");
    upipe_mgr_init(&c->split_mgr); c->split_mgr.upipe_control = fsplit_control;
    upipe_mgr_init(&c->sub_mgr); c->sub_mgr.signature = UPIPE_FLOW_SIGNATURE;
    c->sub_mgr.upipe_alloc = fsub_alloc; c->sub_mgr.upipe_control = fsub_control; c->sub_mgr.upipe_input = fsub_input;

    decode_sel(c, &c->sel);
    note_sel(c, &c->sel);
    R("C01 selflow: probe type %s, allocated with%s \"%s\", uref pool depth %d\n", type_names[c->type], alloc_va ? " alloc_va" : "", c->sel.str, pool);
    c->probe = alloc_va ? uprobe_selflow_alloc_va(uprobe_use(&c->next.uprobe), uprobe_use(&c->subprobe.uprobe), types[c->type], "%s", c->sel.str)
                        : uprobe_selflow_alloc(uprobe_use(&c->next.uprobe), uprobe_use(&c->subprobe.uprobe), types[c->type], c->sel.str);
    if (c->probe == NULL) return vp_internal(rep, "uprobe_selflow_alloc");
    upipe_init(&c->split.upipe, &c->split_mgr, uprobe_use(c->probe));
    urefcount_init(&c->split.rc, fsplit_no_ref);
    urefcount_init(&c->split.real, fsplit_free);
    c->split.upipe.refcount = &c->split.rc;
    c->split.state = ST_LIVE;
    c->split_held = true;
    upipe_throw_ready(&c->split.upipe);

    int nops = 0;
    while (!c->ret && nops < MAXOPS && (c->probe != NULL || c->split_held)) {
        if (nops == rel_probe_at && c->probe != NULL) { CL(CL_PROBE_REL_MID); release_probe(c); }
        if (nops == rel_split_at && c->split_held) { CL(CL_SPLIT_REL_MID); release_split(c); }
        if (tp_done(&c->t) || c->ret) break;
        nops++;
        uint8_t ob = tp_u8(&c->t);
        static const uint8_t optab[16] = { 0, 1, 4, 2, 5, 0, 1, 4, 3, 0, 6, 2, 1, 5, 0, 4 };
        int op = optab[ob % 16];
        c->h = vp_hash_mix(c->h, 0x100 + op);
        switch (op) {
        case 0:     /* split_update */
            if (!c->split_held) break;
            R("  split_update\n");
            c->nupdates++;
            do_update(c, "after split_update");
            break;
        case 1: {   /* add a flow */
            uint8_t a = tp_u8(&c->t), d = tp_u8(&c->t);
            c->h = vp_hash_mix(c->h, a * 256 + d);
            if (!c->split_held) break;
            int id = -1;
            for (int k = 0; k < NFLOWS; k++) if (!c->flows[(a + k) % NFLOWS].listed) { id = (a + k) % NFLOWS; break; }
            if (id < 0) break;
            struct mflow *f = &c->flows[id];
            f->def = pick_def(c, d); f->lang = (a / 8) % 4 < 3 ? (a / 8) % 4 : 0; f->name = (a / 32) % 4 < 3 ? (a / 32) % 4 : 0; f->extra = 0;
            f->uref = mk_flow_def(c, id, f);
            if (f->uref == NULL) { c->ret = vp_internal(rep, "flow def alloc"); break; }
            f->listed = true;
            c->order[c->norder++] = id;
            if (f->known) CL(CL_READDED_BEFORE_UPDATE);
            if (uncertain(c, f)) CL(CL_CAT_CHANGED_KNOWN);
            R("  add flow %d \"%s\"%s%s%s%s\n", id, defs[f->def].def, f->lang ? " lang=" : "", f->lang ? langs[f->lang] : "", f->name ? " name=" : "", f->name ? names[f->name] : "");
            break; }
        case 2: {   /* remove a flow */
            uint8_t a = tp_u8(&c->t);
            c->h = vp_hash_mix(c->h, a);
            if (!c->split_held || c->norder == 0) break;
            int id = c->order[a % c->norder];
            if (live_of(c, id)) { CL(CL_REMOVED_SELECTED); c->nremoved_live++; }
            R("  remove flow %d from the list%s\n", id, live_of(c, id) ? " (it has a live subpipe)" : "");
            flow_unlist(c, id);
            break; }
        case 3: {   /* change a flow's definition */
            uint8_t a = tp_u8(&c->t), d = tp_u8(&c->t);
            c->h = vp_hash_mix(c->h, a * 256 + d);
            if (!c->split_held || c->norder == 0) break;
            int id = c->order[a % c->norder];
            struct mflow *f = &c->flows[id];
            switch ((a / 8) % 4) {
            case 0: f->extra = f->extra % 3 + 1; break;                 /* an attribute the probe does not look at */
            case 1: f->lang = (f->lang + 1 + d % 2) % 3; break;
            case 2: f->name = (f->name + 1 + d % 2) % 3; break;
            default: f->def = pick_def(c, d); break;
            }
            struct uref *u = mk_flow_def(c, id, f);
            if (u == NULL) { c->ret = vp_internal(rep, "flow def alloc"); break; }
            uref_free(f->uref); f->uref = u;
            CL(CL_DEF_CHANGED);
            if (uncertain(c, f)) CL(CL_CAT_CHANGED_KNOWN);
            R("  change flow %d to \"%s\"%s%s%s%s latency %d\n", id, defs[f->def].def, f->lang ? " lang=" : "", f->lang ? langs[f->lang] : "", f->name ? " name=" : "", f->name ? names[f->name] : "", 27000 * f->extra);
            break; }
        case 4: {   /* a subpipe allocated by the probe throws source_end */
            uint8_t a = tp_u8(&c->t);
            c->h = vp_hash_mix(c->h, a);
            if (c->nlive == 0) break;
            int k = a % c->nlive;
            struct fsub *s = NULL;
            for (int i = 0; i < c->nslots; i++) if (c->slots[i].state == ST_LIVE && k-- == 0) { s = &c->slots[i]; break; }
            R("  subpipe #%d (flow %d) throws source_end\n", (int)(s - c->slots), s->flow);
            do_source_end(c, s);
            break; }
        case 5: {   /* change the selection */
            struct msel sel;
            decode_sel(c, &sel);
            uint8_t v = tp_u8(&c->t);
            c->h = vp_hash_mix(c->h, v % 4 == 3);
            if (c->probe == NULL) break;
            bool null_def = false;
            for (int id = 0; id < NFLOWS; id++) if (c->flows[id].known && c->flows[id].ended) null_def = true;
            /* (fixed finding selflow-attr-selection-after-source-end: attribute items used to read the missing flow definition of a
             * flow whose subpipe had thrown source_end; such selections are generated like any other) */
            if (sel.mode == SEL_LIST && sel.attr && null_def) CL(CL_ATTR_SEL_AFTER_END);
            int before[NFLOWS];
            for (int id = 0; id < NFLOWS; id++) before[id] = live_of(c, id);
            if (c->nlive) CL(CL_SEL_CHANGED_LIVE);
            note_sel(c, &sel);
            int err;
            if (v % 4 == 3) { CL(CL_SET_VA); err = uprobe_selflow_set_va(c->probe, "%s", sel.str); }
            else err = uprobe_selflow_set(c->probe, sel.str);
            R("  %s \"%s\" -> %d\n", v % 4 == 3 ? "set_va" : "set", sel.str, err);
            c->sel = sel;
            for (int id = 0; id < NFLOWS; id++) if (before[id] && !live_of(c, id)) CL(CL_DESELECTED_LIVE);
            if (!c->ret) check_model(c, false, "after uprobe_selflow_set");
            break; }
        case 6: {   /* read the selection */
            if (c->probe == NULL) break;
            const char *s = NULL;
            uprobe_selflow_get(c->probe, &s);
            if (s == NULL) { FAIL("get", "uprobe_selflow_get returned no string"); break; }
            R("  get -> \"%s\" (%zu octets)\n", s, strlen(s));
            break; }
        }
        if (!c->ret) check_tombs(c);
    }
    if (c->nupdates >= 3) CL(CL_UPDATE_GE3);

    /* ---- the tail releases what the application still holds, in a tape-chosen order ---- */
    uint8_t tb = tp_u8(&c->t);
    c->h = vp_hash_mix(c->h, 0x7a11 + (tb & 1));
    if (c->probe != NULL && c->split_held && (tb & 1)) release_probe(c);
    if (c->split_held) release_split(c);
    if (c->probe != NULL) release_probe(c);
    check_tombs(c);

    /* ---- end of case: everything destroyed exactly once, nothing left ---- */
    for (int i = 0; i < c->nslots; i++) {
        struct fsub *s = &c->slots[i];
        if (s->state == ST_LIVE) {
            FAIL("subpipe-leaked", "output subpipe #%d of flow %d is still referenced (%u) after the split pipe and the probe were released", i, s->flow, (unsigned)uatomic_load(&s->rc.refcount));
            uatomic_store(&s->rc.refcount, 1);
            upipe_release(&s->upipe);        /* let go of what it holds so that the rest of the audit speaks about the rest */
        } else if (s->ready_seen != 1 || s->dead_seen != 1)
            FAIL("event-lost", "the application's probe for subpipes saw ready %d times and dead %d times for subpipe #%d", s->ready_seen, s->dead_seen, i);
    }
    if (c->split.state != ST_DEAD) {
        FAIL("split-pipe-leaked", "the split pipe is still referenced (%u) after every output subpipe, the probe and the pipe itself were released", (unsigned)uatomic_load(&c->split.real.refcount));
        /* the probe is kept alive by the pipe: drop it for the rest of the audit */
        if (c->split.upipe.uprobe != NULL) { uatomic_store(&c->split.real.refcount, 1); urefcount_release(&c->split.real); }
    }
    for (int id = 0; id < NFLOWS; id++) if (c->flows[id].uref) { uref_free(c->flows[id].uref); c->flows[id].uref = NULL; }
    struct rprobe *rp[2] = { &c->next, &c->subprobe };
    for (int i = 0; i < 2; i++) {
        if (!rp[i]->dead && !urefcount_single(&rp[i]->rc))
            FAIL("probe-leaked", "the application's %s probe is still referenced (%u) after the split pipe and the selflow probe were released", rp[i]->name, (unsigned)uatomic_load(&rp[i]->rc.refcount));
    }
    c->final = true;
    for (int i = 0; i < 2; i++) if (!rp[i]->dead && urefcount_single(&rp[i]->rc)) uprobe_release(&rp[i]->uprobe);
    const char *m = fix_mem_clean(&c->fm);
    if (m) FAIL("uref-leaked", "%s", m);
    const void *first = NULL; size_t fsz = 0;
    long live = hc_end(&first, &fsz);
    if (live > 0) FAIL("heap-leaked", "%ld heap allocation(s) made during the case are still live (first: %zu octets)", live, fsz);
    if (c->slot_overflow && c->ret != 1) c->ret = vp_internal(rep, "more than %d subpipes", MAXSLOT);

    rep->case_hash = c->h;
    rep->classes = c->classes;
    rep->excluded += c->excluded;
    rep->nontrivial = (c->nsource_end > 0 || c->nremoved_live > 0) && c->nupdates >= 2;
    return c->ret;
}

const struct vp_executor vp_executor = { "C01", "selflow", 200, class_names, run, NULL };

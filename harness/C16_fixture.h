/* C16 — small pipeline fixture shared by the three C16 executors (header-only, static).
 *
 *  - recording probe: one instance per pipe (events attributed by instance, never by the
 *    pipe address), counts events, renders warnings;
 *  - recording sink: a minimal struct upipe with its own manager (no refcount, like the
 *    "phony pipes" of tests/upipe_ts_psi_*_test.c) that records flow definitions and copies
 *    every received block; optionally keeps the urefs until the end of the case and checks
 *    then that nobody changed them;
 *  - block builders: payload as one fresh block / a window into a 188-octet packet /
 *    a window into a shared arena / a chain of pieces (ubuf_block_append).
 *
 * The independent PSI reference (header fields, packer, matcher) is in the executors and
 * uses no <bitstream/...> symbol.
 */
#ifndef C16_FIXTURE_H_
#define C16_FIXTURE_H_

#include "vp.h"
#include "tape.h"
#include "fix_mem.h"

#include "upipe/ubase.h"
#include "upipe/ulog.h"
#include "upipe/uprobe.h"
#include "upipe/upipe.h"
#include "upipe/uref.h"
#include "upipe/uref_flow.h"
#include "upipe/uref_block.h"
#include "upipe/uref_block_flow.h"
#include "upipe/uref_clock.h"

#include <stdlib.h>
#include <stdio.h>
#include <stdarg.h>

/* with allocation fault injection (engine/faultmalloc.h, force-included) only the library's allocations are refused, never the
 * fixture's own (the recording sinks allocate while a pipe is inside upipe_input) */
#ifdef VP_FAULTMALLOC_H
#undef malloc
#undef calloc
#undef realloc
#endif

/* ------------------------------------------------------------------ probe */

struct c16_probe {
    struct uprobe uprobe;
    const char *name;
    int id;
    struct vp_report *rep;
    bool render;
    unsigned n_ready, n_dead, n_acquired, n_lost, n_fatal, n_error, n_new_flow_def,
             n_need_output, n_source_end, n_warn, n_other;
    /* order of announcements (C04): the first event that is not a log must be READY; nothing of any kind after DEAD */
    struct upipe *lazy_output;      /* when set: the output is plumbed from the NEED_OUTPUT event, as applications that build pipelines lazily do */
    unsigned n_lazy_plumbed;
    bool seen_nonlog, first_nonlog_not_ready;
    unsigned n_after_dead;
    int first_after_dead;
};

static int c16_probe_catch(struct uprobe *uprobe, struct upipe *upipe, int event, va_list args)
{
    struct c16_probe *p = container_of(uprobe, struct c16_probe, uprobe);
    (void)upipe;
    if (p->n_dead) { if (!p->n_after_dead++) p->first_after_dead = event; }
    if (event != UPROBE_LOG && !p->seen_nonlog) { p->seen_nonlog = true; if (event != UPROBE_READY) p->first_nonlog_not_ready = true; }
    switch (event) {
    case UPROBE_LOG: {
        struct ulog *ulog = va_arg(args, struct ulog *);
        if (ulog->level >= UPROBE_LOG_WARNING) {
            p->n_warn++;
            if (p->render) {
                char buf[160];
                ulog_msg_print(ulog, buf, sizeof buf);
                vp_render(p->rep, "      [%s%d] warning: %s\n", p->name, p->id, buf);
            }
        }
        return UBASE_ERR_NONE;
    }
    case UPROBE_READY: p->n_ready++; return UBASE_ERR_NONE;
    case UPROBE_DEAD: p->n_dead++; return UBASE_ERR_NONE;
    case UPROBE_SYNC_ACQUIRED:
        p->n_acquired++;
        if (p->render) vp_render(p->rep, "      [%s%d] sync acquired\n", p->name, p->id);
        return UBASE_ERR_NONE;
    case UPROBE_SYNC_LOST:
        p->n_lost++;
        if (p->render) vp_render(p->rep, "      [%s%d] sync lost\n", p->name, p->id);
        return UBASE_ERR_NONE;
    case UPROBE_FATAL:
        p->n_fatal++;
        if (p->render) vp_render(p->rep, "      [%s%d] FATAL event\n", p->name, p->id);
        return UBASE_ERR_NONE;
    case UPROBE_ERROR:
        p->n_error++;
        if (p->render) vp_render(p->rep, "      [%s%d] ERROR event\n", p->name, p->id);
        return UBASE_ERR_NONE;
    case UPROBE_NEW_FLOW_DEF: p->n_new_flow_def++; return UBASE_ERR_NONE;
    case UPROBE_NEED_OUTPUT:
        p->n_need_output++;
        if (p->lazy_output != NULL && upipe != NULL) {
            p->n_lazy_plumbed++;
            if (p->render) vp_render(p->rep, "      [%s%d] need_output: the application connects the sink now\n", p->name, p->id);
            return upipe_set_output(upipe, p->lazy_output);
        }
        return UBASE_ERR_UNHANDLED;
    case UPROBE_SOURCE_END: p->n_source_end++; return UBASE_ERR_NONE;
    default: p->n_other++; return UBASE_ERR_UNHANDLED;
    }
}

static struct uprobe *c16_probe_init(struct c16_probe *p, const char *name, int id,
                                     struct vp_report *rep, bool render)
{
    memset(p, 0, sizeof(*p));
    uprobe_init(&p->uprobe, c16_probe_catch, NULL);
    p->name = name; p->id = id; p->rep = rep; p->render = render;
    return &p->uprobe;
}

/* ------------------------------------------------------------------ sink */

struct c16_rec {
    uint8_t *data;        /* copy taken when the block arrived */
    size_t len;
    struct uref *held;    /* kept until the end of the case when the sink holds */
    unsigned seq;         /* global arrival number */
};

struct c16_sink {
    struct upipe upipe;
    int id;
    bool live;
    bool hold;
    struct c16_rec *rec;
    int nrec, cap;
    unsigned n_flow_def;
    bool data_before_flow_def;
    bool reject_flow_def;         /* C04: the sink refuses flow definitions for now */
    bool last_rejected;           /* its last answer to set_flow_def was a refusal */
    bool data_while_rejected;     /* a buffer arrived although the last definition offered was refused */
    bool broken;          /* a received block could not be read back */
    unsigned *seq_counter;
};

static void c16_sink_input(struct upipe *upipe, struct uref *uref, struct upump **upump_p)
{
    struct c16_sink *s = container_of(upipe, struct c16_sink, upipe);
    (void)upump_p;
    if (s->nrec == s->cap) {
        s->cap = s->cap ? s->cap * 2 : 16;
        s->rec = realloc(s->rec, s->cap * sizeof(*s->rec));
    }
    struct c16_rec *r = &s->rec[s->nrec++];
    memset(r, 0, sizeof(*r));
    if (!s->n_flow_def) s->data_before_flow_def = true;
    if (s->last_rejected) s->data_while_rejected = true;
    if (s->seq_counter) r->seq = (*s->seq_counter)++;
    size_t sz = 0;
    if (uref->ubuf == NULL || !ubase_check(uref_block_size(uref, &sz))) {
        s->broken = true;
        uref_free(uref);
        return;
    }
    r->len = sz;
    r->data = malloc(sz ? sz : 1);
    if (sz && !ubase_check(uref_block_extract(uref, 0, sz, r->data))) {
        s->broken = true;   /* size announces more than can be read */
        r->len = 0;
    }
    if (s->hold) r->held = uref;
    else uref_free(uref);
}

static int c16_sink_control(struct upipe *upipe, int command, va_list args)
{
    struct c16_sink *s = container_of(upipe, struct c16_sink, upipe);
    (void)args;
    switch (command) {
    case UPIPE_SET_FLOW_DEF:
        if (s->reject_flow_def) { s->last_rejected = true; return UBASE_ERR_INVALID; }
        s->last_rejected = false;
        s->n_flow_def++;
        return UBASE_ERR_NONE;
    case UPIPE_REGISTER_REQUEST:
    case UPIPE_UNREGISTER_REQUEST: return UBASE_ERR_NONE;
    default: return UBASE_ERR_UNHANDLED;
    }
}

static struct upipe_mgr c16_sink_mgr = {
    .refcount = NULL,
    .signature = UBASE_FOURCC('c', '1', '6', 's'),
    .upipe_alloc = NULL,
    .upipe_input = c16_sink_input,
    .upipe_control = c16_sink_control,
    .upipe_mgr_control = NULL,
};

static void c16_sink_init(struct c16_sink *s, int id, bool hold, unsigned *seq_counter)
{
    memset(s, 0, sizeof(*s));
    upipe_init(&s->upipe, &c16_sink_mgr, NULL);
    s->id = id; s->hold = hold; s->live = true; s->seq_counter = seq_counter;
}

/* Compares the kept urefs with the copies taken on arrival; returns the index of the
 * first record that changed, or -1. */
static int c16_sink_verify_held(struct c16_sink *s)
{
    for (int i = 0; i < s->nrec; i++) {
        struct c16_rec *r = &s->rec[i];
        if (!r->held) continue;
        size_t sz = (size_t)-1;
        if (!ubase_check(uref_block_size(r->held, &sz)) || sz != r->len) return i;
        if (sz) {
            uint8_t *tmp = malloc(sz);
            bool same = ubase_check(uref_block_extract(r->held, 0, sz, tmp)) &&
                        !memcmp(tmp, r->data, sz);
            free(tmp);
            if (!same) return i;
        }
    }
    return -1;
}

static void c16_sink_clean(struct c16_sink *s)
{
    if (!s->live) return;
    for (int i = 0; i < s->nrec; i++) {
        if (s->rec[i].held) uref_free(s->rec[i].held);
        free(s->rec[i].data);
    }
    free(s->rec);
    s->rec = NULL; s->nrec = s->cap = 0;
    upipe_clean(&s->upipe);
    s->live = false;
}

/* ------------------------------------------------------------------ block builders */

enum { C16_BUILD_FRESH, C16_BUILD_TSPACKET, C16_BUILD_ARENA, C16_BUILD_PIECES };

static struct ubuf *c16_block_from(struct ubuf_mgr *mgr, const uint8_t *src, size_t n)
{
    struct ubuf *u = ubuf_block_alloc(mgr, n);
    if (!u) return NULL;
    if (n) {
        int s = -1; uint8_t *w;
        if (!ubase_check(ubuf_block_write(u, 0, &s, &w)) || (size_t)s != n) { ubuf_free(u); return NULL; }
        memcpy(w, src, n);
        ubuf_block_unmap(u, 0);
    }
    return u;
}

/* A block holding src[0..n) built as a chain of pieces cut at cuts[0..ncuts) (ascending,
 * 0 < cut < n; duplicates and out-of-range values are skipped). */
static struct ubuf *c16_block_pieces(struct ubuf_mgr *mgr, const uint8_t *src, size_t n,
                                     const size_t *cuts, int ncuts, int *npieces_p)
{
    struct ubuf *head = NULL;
    size_t pos = 0;
    int np = 0;
    for (int i = 0; i <= ncuts; i++) {
        size_t end = i < ncuts ? cuts[i] : n;
        if (i < ncuts && (end <= pos || end >= n)) continue;
        struct ubuf *piece = c16_block_from(mgr, src + pos, end - pos);
        if (!piece) { if (head) ubuf_free(head); return NULL; }
        if (!head) head = piece;
        else if (!ubase_check(ubuf_block_append(head, piece))) { ubuf_free(piece); ubuf_free(head); return NULL; }
        pos = end;
        np++;
    }
    if (npieces_p) *npieces_p = np;
    return head;
}

/* A block of n octets that is a window at offset `lead` into a larger fresh block
 * (what ts_decaps hands over: the packet with its header resized away). */
static struct ubuf *c16_block_window(struct ubuf_mgr *mgr, const uint8_t *src, size_t n,
                                     size_t lead, size_t trail)
{
    size_t tot = lead + n + trail;
    uint8_t *tmp = malloc(tot ? tot : 1);
    for (size_t i = 0; i < lead; i++) tmp[i] = 0x47 ^ (uint8_t)(i * 29);
    memcpy(tmp + lead, src, n);
    for (size_t i = 0; i < trail; i++) tmp[lead + n + i] = 0xee;
    struct ubuf *u = c16_block_from(mgr, tmp, tot);
    free(tmp);
    if (!u) return NULL;
    if (!ubase_check(ubuf_block_resize(u, lead, n))) { ubuf_free(u); return NULL; }
    return u;
}

static struct uref *c16_uref_with(struct uref_mgr *uref_mgr, struct ubuf *ubuf)
{
    if (!ubuf) return NULL;
    struct uref *uref = uref_alloc(uref_mgr);
    if (!uref) { ubuf_free(ubuf); return NULL; }
    uref_attach_ubuf(uref, ubuf);
    return uref;
}

static void c16_hex(struct vp_report *rep, const uint8_t *p, size_t n, size_t max)
{
    for (size_t i = 0; i < n && i < max; i++) vp_render(rep, "%02x", p[i]);
    if (n > max) vp_render(rep, "..");
}

#endif

/* C17 (framer) — the H.264 and H.265 framers output the same access units, cut at NAL
 * boundaries, in stream order and without overlap, however the input octets are split into
 * buffers; every access unit that follows valid parameter sets is output; arbitrary corrupt
 * input never makes the framers read outside their buffers.
 *
 * A case is one elementary stream and one tape-chosen cutting. The stream is fed to a
 * fresh framer three times: as one buffer, as one-octet buffers, and under the tape-chosen
 * cutting (cuts biased to the inside and the neighbourhood of start codes, some of them
 * segment boundaries inside one buffer). The framer is released at the end, which flushes
 * the pending access unit (upipe_h26xf_free).
 *
 * Oracles
 *  S  (every stream) each output, after a prefix of access unit delimiter / parameter set
 *     NAL units the framer may prepend, is a contiguous piece of the input; the pieces are
 *     in stream order and do not overlap.
 *  M  (every stream) the three runs deliver the same sequence of outputs: sizes, octets,
 *     NAL offset attributes, header size, key / random flags, picture number, slice type.
 *  V  (streams of the reference encoder and the recorded unit-test stream) the pieces are
 *     exactly the access units of the stream (H.264 7.4.1.2.3/7.4.1.2.4, H.265 7.4.2.4.4
 *     evaluated by the harness on the syntax elements it wrote), all of them, in order;
 *     prepended parameter sets are octet-identical to parameter sets of the stream; the NAL
 *     offset attributes of each output are the positions of its NAL units.
 *  L  after release everything the framer allocated is returned (fixture audit); ASan and
 *     assert() guard every run.
 */
#include "vp.h"
#include "tape.h"
#include "C17_fixture.h"
#include "C17_enc.h"
#include "C17_h264gen.h"
#include "C17_h265gen.h"

#include "tests/upipe_h264_framer_test.h"

#include <stdio.h>

enum { CL_CUT_IN_SC, CL_ONEBYTE, CL_CORRUPT, CL_H265, CL_VALID, CL_SEED, CL_MULTI_AU, CL_3SC, CL_TZ, CL_PREFIX_PS,
       CL_SEGCUT, CL_MUTATED, CL_ARBITRARY, CL_ESC, CL_NOOUT, CL_MANY_AU, CL_CUT_AFTER_SC, CL_LEADZ, CL_CONVERTED };
static const char *const class_names[] = {
    "cut_inside_start_code", "one_octet_buffers", "corrupt_input", "h265", "reference_stream", "recorded_stream",
    "ge2_access_units", "has_3_octet_start_code", "trailing_zero_octets", "parameter_sets_prepended",
    "segment_boundary_inside_buffer", "mutated_stream", "arbitrary_octets", "emulation_prevention_in_stream",
    "no_output_at_all", "ge4_access_units", "cut_right_after_start_code", "leading_zero_octets", "output_converted", NULL };

#define MAXCUT 64
struct cutting { int n; size_t pos[MAXCUT]; bool seg[MAXCUT]; };   /* boundaries strictly inside (0,len) */

struct run {
    struct fx fx;
    const char *audit;
    const char *err;
};

static struct es es;
static struct run runs[3];

#define R(...) do { if (render) vp_render(rep, __VA_ARGS__); } while (0)

static bool is_prefix_type(bool h265, const uint8_t *hdr)
{
    if (h265) { int t = (hdr[0] >> 1) & 0x3f; return t == 35 || t == 32 || t == 33 || t == 34; }
    int t = hdr[0] & 0x1f; return t == 9 || t == 7 || t == 8;
}

/* feeds the stream under a cutting and releases the framer */
static void do_run(struct run *r, bool h265, uint8_t out_encaps, const uint8_t *p, size_t len, const struct cutting *c, bool onebyte)
{
    memset(r, 0, sizeof(*r));
    r->err = fx_open(&r->fx, h265, out_encaps);
    if (r->err) return;
    if (onebyte) {
        size_t one = 1;
        for (size_t i = 0; i < len && !r->err; i++) r->err = fx_feed(&r->fx, p + i, &one, 1);
    } else {
        size_t pos = 0; int k = 0;
        while (pos < len && !r->err) {
            size_t seglen[MAXCUT + 1]; int ns = 0; size_t b = pos;
            for (;;) {
                size_t e = k < c->n ? c->pos[k] : len;
                seglen[ns++] = e - b; b = e;
                if (k >= c->n) break;
                bool seg = c->seg[k]; k++;
                if (!seg) break;
            }
            r->err = fx_feed(&r->fx, p + pos, seglen, ns);
            pos = b;
        }
    }
    fx_release_framer(&r->fx);
}

static void end_run(struct run *r)
{
    fx_free_outputs(&r->fx);
    r->audit = fx_close(&r->fx);
}

/* oracle S. Candidates (P, q): out[P..] == stream[q .. q + size - P), q a start code, everything
 * before P made of prefix-type NAL units. Greedy by smallest end is complete. If piece_q / piece_p
 * are given they receive the choice. Returns NULL or a message. */
static const char *check_pieces(bool h265, const struct fx *fx, const uint8_t *st, size_t len,
                                size_t *piece_q, size_t *piece_p, int *bad, char *msg, size_t msgsz)
{
    size_t prev_end = 0;
    for (int i = 0; i < fx->nout; i++) {
        const struct fx_out *o = &fx->out[i];
        *bad = i;
        if (o->size == (size_t)-1) { snprintf(msg, msgsz, "output %d has no readable block", i); return msg; }
        /* candidate prefix lengths */
        size_t cand[24 + 2 + FX_MAXOFF]; int nc = 0;
        cand[nc++] = 0;
        size_t ostart[64], ohdr[64];
        int on = es_scan(o->bytes, o->size, ostart, ohdr, 64);
        /* the prepended part begins with an AUD / parameter set NAL unit; a corrupt parameter set that the
         * framer stored may itself contain what this scanner takes for a start code, so every later start
         * code of the output is a candidate end of the prepended part */
        if (on > 0 && ostart[0] == 0 && ohdr[0] < o->size && is_prefix_type(h265, o->bytes + ohdr[0])) {
            for (int k = 0; k + 1 < on && nc + 1 < 24; k++) {
                cand[nc++] = ostart[k + 1];
                if (ohdr[k + 1] - ostart[k + 1] == 4) cand[nc++] = ostart[k + 1] + 1;   /* 4-octet start code: also its 3-octet reading */
            }
        }
        /* and wherever the output's own NAL offset attributes say a NAL unit begins */
        if (on > 0 && ostart[0] == 0 && ohdr[0] < o->size && is_prefix_type(h265, o->bytes + ohdr[0]))
            for (int k = 0; k < o->noff; k++) if (o->off[k] < o->size) cand[nc++] = o->off[k];
        size_t best_end = (size_t)-1, best_q = 0, best_p = 0;
        for (int c = 0; c < nc; c++) {
            size_t P = cand[c], L = o->size - P;
            if (L == 0 || L > len) continue;
            /* first occurrence at or after the end of the previous piece. (On a reference stream oracle V pins the
             * piece to the access unit; on corrupt input the H.265 framer may cut where Annex B has no start code,
             * because the second NAL header octet does not pass through its scanner, so any offset is accepted.) */
            for (size_t q = prev_end; q + L <= len; q++) {
                if (st[q] != o->bytes[P] || memcmp(o->bytes + P, st + q, L)) continue;
                if (q + L < best_end) { best_end = q + L; best_q = q; best_p = P; }
                break;
            }
        }
        if (best_end == (size_t)-1) {
            snprintf(msg, msgsz, "output %d (%zu octets, begins %02x %02x %02x %02x %02x) is not [AUD / parameter sets] + a contiguous piece of the input at or after offset %zu (end of the previous output's piece)",
                     i, o->size, o->size > 0 ? o->bytes[0] : 0, o->size > 1 ? o->bytes[1] : 0, o->size > 2 ? o->bytes[2] : 0, o->size > 3 ? o->bytes[3] : 0, o->size > 4 ? o->bytes[4] : 0, prev_end);
            return msg;
        }
        if (piece_q) { piece_q[i] = best_q; piece_p[i] = best_p; }
        prev_end = best_end;
    }
    return NULL;
}

static bool out_equal(const struct fx_out *a, const struct fx_out *b, char *why, size_t n, bool *attr_only)
{
    *attr_only = false;
    if (a->size != b->size) { snprintf(why, n, "sizes %zu and %zu", a->size, b->size); return false; }
    if (a->size != (size_t)-1 && memcmp(a->bytes, b->bytes, a->size)) {
        size_t k = 0; while (a->bytes[k] == b->bytes[k]) k++;
        snprintf(why, n, "octet %zu is %02x and %02x", k, a->bytes[k], b->bytes[k]); return false; }
    *attr_only = true;
    if (a->noff != b->noff) { snprintf(why, n, "%d and %d NAL offset attributes", a->noff, b->noff); return false; }
    for (int i = 0; i < a->noff; i++) if (a->off[i] != b->off[i]) { snprintf(why, n, "NAL offset attribute %d is %llu and %llu", i, (unsigned long long)a->off[i], (unsigned long long)b->off[i]); return false; }
    if (a->has_hdr != b->has_hdr || (a->has_hdr && a->hdr != b->hdr)) { snprintf(why, n, "header size attribute %s%llu and %s%llu", a->has_hdr ? "" : "absent/", (unsigned long long)a->hdr, b->has_hdr ? "" : "absent/", (unsigned long long)b->hdr); return false; }
    if (a->key != b->key) { snprintf(why, n, "key flag %d and %d", a->key, b->key); return false; }
    if (a->random != b->random) { snprintf(why, n, "random access flag %d and %d", a->random, b->random); return false; }
    if (a->error != b->error) { snprintf(why, n, "error flag %d and %d", a->error, b->error); return false; }
    if (a->has_num != b->has_num || (a->has_num && a->num != b->num)) { snprintf(why, n, "picture number %llu and %llu", (unsigned long long)a->num, (unsigned long long)b->num); return false; }
    if (a->has_type != b->has_type || (a->has_type && a->type != b->type)) { snprintf(why, n, "slice type %u and %u", a->type, b->type); return false; }
    return true;
}

static const char *cutname[3] = { "one buffer", "one-octet buffers", "tape-chosen cutting" };

static int run(const uint8_t *tp_, size_t len_, struct vp_report *rep, unsigned flags)
{
    struct tape t;
    tp_init(&t, tp_, len_);
    bool render = flags & VP_RENDER;
    int ret = 0;
    char msg[400];

    memset(&es, 0, sizeof(es));
    uint8_t b0 = tp_u8(&t);
    static const uint8_t kinds[16] = { 0, 0, 0, 0, 0, 0, 0, 4, 5, 5, 5, 5, 6, 7, 7, 7 };
    int kind = kinds[b0 % 16];  /* 0 reference stream, 4 recorded stream, 5 mutated reference, 6 mutated recorded, 7 arbitrary */
    bool h265 = (b0 / 16) % 2;
    bool valid = kind <= 4, seed = kind == 4 || kind == 6;
    if (seed) h265 = false;     /* the recorded stream is H.264 */
    int ncopies = 0;

    /* ---- the stream ---- */
    if (kind <= 3 || kind == 5) {
        if (h265) g265_stream(&es, &t); else g264_stream(&es, &t);
    } else if (seed) {
        { uint8_t v = tp_u8(&t) % 8; ncopies = v < 5 ? 1 : v < 7 ? 2 : 3; }
        for (int c = 0; c < ncopies; c++) {
            memcpy(es.b + es.len, h264_headers, sizeof(h264_headers)); es.len += sizeof(h264_headers);
            memcpy(es.b + es.len, h264_pic, sizeof(h264_pic)); es.len += sizeof(h264_pic);
        }
    } else {
        size_t n = 4 + tp_u16(&t) % 300;
        static const uint8_t fav[] = { 0, 0, 0, 1, 1, 0x67, 0x68, 0x65, 0x41, 0x09, 0x06, 3, 0x40, 0x42, 0x44, 0x26, 0x02, 0x4e, 0x80, 0xff, 0x46, 0x0c, 0x0a, 0x01 };
        for (size_t i = 0; i < n; i++) { uint8_t v = tp_u8(&t); es.b[es.len++] = (v & 3) ? fav[(v >> 2) % sizeof(fav)] : tp_u8(&t); }
    }
    if (es.overflow) { valid = false; }
    int nmut = 0;
    if (kind == 5 || kind == 6) {
        nmut = 1 + tp_u8(&t) % 4;
        for (int m = 0; m < nmut && es.len > 8; m++) {
            uint8_t op = tp_u8(&t);
            size_t at = tp_u16(&t) % es.len;
            if ((op & 0x80) && es.nnal) {   /* aim at a NAL unit header or its first payload octets */
                const struct nalrec *r = &es.nal[op / 8 % es.nnal];
                at = r->hp + (tp_u8(&t) % 6); if (at >= es.len) at = es.len - 1; }
            switch (op % 8) {
            case 0: es.b[at] = tp_u8(&t); break;
            case 1: es.b[at] ^= 1u << (op / 8 % 8); break;
            case 2: { size_t n = 1 + tp_u8(&t) % 40; if (at + n > es.len) n = es.len - at; memmove(es.b + at, es.b + at + n, es.len - at - n); es.len -= n; break; }
            case 3: es.len = at + 1; break;
            case 4: { static const uint8_t ins[] = { 0, 0, 1 }; if (es.len + 4 < ES_MAX) { memmove(es.b + at + 3, es.b + at, es.len - at); memcpy(es.b + at, ins, 3); es.len += 3; } break; }
            case 5: { size_t n = 1 + tp_u8(&t) % 60; if (at + n > es.len) n = es.len - at; if (es.len + n < ES_MAX) { memmove(es.b + at + n, es.b + at, es.len - at); es.len += n; } break; }   /* duplicate a range */
            case 6: es.b[at] = 0; if (at + 1 < es.len) es.b[at + 1] = 0; break;
            default: { size_t n = 1 + tp_u8(&t) % 8; for (size_t i = 0; i < n && at + i < es.len; i++) es.b[at + i] = tp_u8(&t); break; }
            }
        }
    }
    const uint8_t *st = es.b; size_t len = es.len;

    /* start codes of the final stream (harness scanner) for the cut generator and the classes */
    static size_t sstart[1024], shdr[1024];
    int nsc = es_scan(st, len, sstart, shdr, 1024);

    /* ---- the cutting ---- */
    struct cutting cut; memset(&cut, 0, sizeof(cut));
    {
        int want = tp_u8(&t) % 12;
        size_t tmp[MAXCUT]; bool tseg[MAXCUT]; int n = 0;
        for (int i = 0; i < want + 1 && n < MAXCUT && len > 1; i++) {
            uint8_t s = tp_u8(&t);
            size_t p;
            if (s % 4 == 3 || nsc == 0) p = 1 + tp_u16(&t) % (len - 1);
            else {
                int k = (s / 4 % 8 + i) % nsc;
                static const int d[] = { 1, 2, 3, 0, 4, 5, -1, -2 };
                long q = (long)shdr[k] - 3 + d[s / 32 % 8];
                if (q < 1) q = 1; if ((size_t)q > len - 1) q = len - 1;
                p = q;
            }
            tmp[n] = p; tseg[n] = (s % 4 == 2); n++;
        }
        /* sort, dedupe */
        for (int i = 0; i < n; i++) for (int j = i + 1; j < n; j++) if (tmp[j] < tmp[i]) { size_t a = tmp[i]; tmp[i] = tmp[j]; tmp[j] = a; bool b = tseg[i]; tseg[i] = tseg[j]; tseg[j] = b; }
        for (int i = 0; i < n; i++) if (cut.n == 0 || cut.pos[cut.n - 1] != tmp[i]) { cut.pos[cut.n] = tmp[i]; cut.seg[cut.n] = tseg[i]; cut.n++; }
    }
    /* output encapsulation asked by the sink: Annex B, or (upipe_h26xf_convert_frame on the framer's own NAL
     * offsets) 4-octet lengths, bare NAL units, 2-octet lengths */
    uint8_t oe = UREF_H26X_ENCAPS_ANNEXB;
    { uint8_t v = tp_u8(&t); if (v % 4 == 3) oe = v / 4 % 3 == 0 ? UREF_H26X_ENCAPS_LENGTH4 : v / 4 % 3 == 1 ? UREF_H26X_ENCAPS_NALU : UREF_H26X_ENCAPS_LENGTH2; }
    int plen = oe == UREF_H26X_ENCAPS_LENGTH4 ? 4 : oe == UREF_H26X_ENCAPS_LENGTH2 ? 2 : 0;
    bool cut_in_sc = false, cut_after_sc = false, segcut = false;
    for (int i = 0; i < cut.n; i++) {
        if (cut.seg[i]) { segcut = true; continue; }
        for (int k = 0; k < nsc; k++) {
            if (cut.pos[i] > sstart[k] && cut.pos[i] < shdr[k]) cut_in_sc = true;
            if (cut.pos[i] == shdr[k]) cut_after_sc = true;
        }
    }

    uint64_t h = vp_hash_bytes(VP_HASH_INIT, st, len);
    h = vp_hash_mix(h, (uint64_t)oe << 16 | (uint64_t)h265 << 8 | kind);
    for (int i = 0; i < cut.n; i++) h = vp_hash_mix(h, cut.pos[i] * 2 + cut.seg[i]);

    if (render) {
        R("C17/framer %s %s stream of %zu octets", h265 ? "H.265" : "H.264",
          kind <= 3 ? "reference-encoded" : kind == 4 ? "recorded" : kind == 5 ? "mutated reference-encoded" : kind == 6 ? "mutated recorded" : "arbitrary", len);
        if (seed) R(" (%d copies of tests/upipe_h264_framer_test.h headers+picture)", ncopies);
        if (nmut) R(" (%d mutations)", nmut);
        R("\n");
        if (es.nnal && kind <= 3) {
            for (int a = 0; a < es.nau; a++) {
                R("  AU %d [%zu,%zu)%s:", a, es.au[a].start, es.au[a].end, es.au[a].has_vcl ? "" : " (no slice)");
                for (int k = es.au[a].nal0; k < es.au[a].nal1; k++) {
                    const struct nalrec *r = &es.nal[k];
                    R(" %s%d@%zu", r->hp - r->start == 4 ? "sc4/" : "sc3/", r->type, r->start);
                    if (r->vcl && !h265) R("(fn=%u pps=%d idr=%d ref=%d f=%d b=%d lsb=%u dpb=%d dp=%d,%d id=%u st=%d)", r->pic.frame_num, r->pic.pps_id, r->pic.idr, r->pic.ref_idc, r->pic.field, r->pic.bottom, r->pic.poc_lsb, r->pic.dpb, r->pic.dp0, r->pic.dp1, r->pic.idr_pic_id, r->pic.slice_type);
                    if (r->vcl && h265) R("(first=%d pps=%d st=%d)", r->pic.first_slice, r->pic.pps_id, r->pic.slice_type);
                }
                R("\n");
            }
        }
        R("  octets:");
        for (size_t i = 0; i < len && i < 400; i++) R(" %02x", st[i]);
        if (len > 400) R(" ...");
        R("\n  output encapsulation asked by the sink: %s", oe == UREF_H26X_ENCAPS_ANNEXB ? "ANNEXB" : oe == UREF_H26X_ENCAPS_LENGTH4 ? "LENGTH4" : oe == UREF_H26X_ENCAPS_LENGTH2 ? "LENGTH2" : "NALU");
        R("\n  cutting:");
        for (int i = 0; i < cut.n; i++) R(" %zu%s", cut.pos[i], cut.seg[i] ? "s" : "");
        R("\n");
    }

    /* ---- three runs ---- */
    struct cutting none; memset(&none, 0, sizeof(none));
    do_run(&runs[0], h265, oe, st, len, &none, false);
    do_run(&runs[1], h265, oe, st, len, &none, true);
    do_run(&runs[2], h265, oe, st, len, &cut, false);

    for (int r = 0; r < 3 && ret == 0; r++)
        if (runs[r].err) ret = vp_internal(rep, "fixture (%s): %s", cutname[r], runs[r].err);

    if (render && ret == 0) {
        for (int r = 0; r < 3; r++) {
            R("  %s -> %d outputs:", cutname[r], runs[r].fx.nout);
            for (int i = 0; i < runs[r].fx.nout && i < 12; i++) {
                const struct fx_out *o = &runs[r].fx.out[i];
                R(" [%zu octets%s%s n=", o->size, o->key ? " key" : "", o->random ? " random" : "");
                for (int k = 0; k < o->noff; k++) R("%s%llu", k ? "," : "", (unsigned long long)o->off[k]);
                if (o->has_hdr) R(" hdr=%llu", (unsigned long long)o->hdr);
                R("]");
            }
            R(" events: sync_acquired=%d fatal=%d error=%d set_flow_def=%d\n", runs[r].fx.n_sync_acq, runs[r].fx.n_fatal, runs[r].fx.n_error, runs[r].fx.n_set_flow_def);
        }
    }

    if (render && getenv("C17_DUMP")) {     /* debugging aid: the stream and the outputs of the first run as files */
        char path[256];
        snprintf(path, sizeof(path), "%s/stream.bin", getenv("C17_DUMP"));
        FILE *f = fopen(path, "wb"); if (f) { fwrite(st, 1, len, f); fclose(f); }
        for (int i = 0; i < runs[0].fx.nout && i < 16; i++) {
            snprintf(path, sizeof(path), "%s/out%d.bin", getenv("C17_DUMP"), i);
            f = fopen(path, "wb"); if (f) { if (runs[0].fx.out[i].size != (size_t)-1) fwrite(runs[0].fx.out[i].bytes, 1, runs[0].fx.out[i].size, f); fclose(f); }
        }
    }

    /* ---- S and V per run ---- */
    bool prefix_ps = false;
    for (int r = 0; r < 3 && ret == 0; r++) {
        const struct fx *fx = &runs[r].fx;
        static size_t pq[256], pp[256];
        int bad = 0;
        if (fx->nout > 256) { ret = vp_internal(rep, "more than 256 outputs"); break; }
        const char *m = oe == UREF_H26X_ENCAPS_ANNEXB ? check_pieces(h265, fx, st, len, pq, pp, &bad, msg, sizeof(msg)) : NULL;
        if (m) { ret = vp_fail(rep, "C17/framer/pieces", "%s: %s", cutname[r], m); break; }
        if (!valid) continue;
        /* V: expected access units */
        int nexp = 0; int expi[ES_MAXAU];
        if (seed) nexp = ncopies;
        else for (int a = 0; a < es.nau; a++) if (es.au[a].has_vcl) expi[nexp++] = a;
        int no = 0;
        for (int x = 0; x < nexp && ret == 0; x++, no++) {
            size_t as, ae;
            if (seed) { as = x * (sizeof(h264_headers) + sizeof(h264_pic)); ae = (x + 1) * (sizeof(h264_headers) + sizeof(h264_pic)); }
            else { as = es.au[expi[x]].start; ae = es.au[expi[x]].end; }
            if (no >= fx->nout) {
                ret = vp_fail(rep, "C17/framer/missing", "%s: access unit %d of %d (octets [%zu,%zu) of the stream, follows valid parameter sets) was never output; %d outputs in all", cutname[r], x, nexp, as, ae, fx->nout);
                break;
            }
            const struct fx_out *o = &fx->out[no];
            if (oe != UREF_H26X_ENCAPS_ANNEXB) {
                /* the access unit re-serialised by the harness: [length] NAL unit ..., offsets at each NAL unit */
                static uint8_t ex[ES_MAX * 2];
                static size_t s2[512], h2[512];
                size_t el = 0, eoff[512]; int nn = 0;
                int n2 = es_scan(st + as, ae - as, s2, h2, 512);
                for (int k = 0; k < n2; k++) {
                    size_t b = as + h2[k], e2 = k + 1 < n2 ? as + s2[k + 1] : ae, nl = e2 - b;
                    eoff[nn++] = el;
                    if (plen == 4) { ex[el++] = nl >> 24; ex[el++] = nl >> 16; }
                    if (plen) { ex[el++] = nl >> 8; ex[el++] = nl; }
                    memcpy(ex + el, st + b, nl); el += nl;
                }
                if (o->size != el || memcmp(o->bytes, ex, el)) {
                    size_t k = 0; while (k < el && k < o->size && o->bytes[k] == ex[k]) k++;
                    ret = vp_fail(rep, "C17/framer/converted", "%s: output %d (%zu octets, %s requested) is not access unit %d = octets [%zu,%zu) re-serialised with %d-octet lengths (%zu octets; first difference at %zu)", cutname[r], no, o->size, plen ? "lengths" : "bare NAL units", x, as, ae, plen, el, k);
                    break;
                }
                bool ok = (o->noff == nn - 1) || (o->noff == nn && o->off[nn - 1] == o->size);
                for (int q = 0; ok && q < nn - 1; q++) if (o->off[q] != eoff[q + 1]) ok = false;
                if (!ok && !fx->out_truncated) {
                    char a[200] = "", b[200] = ""; size_t la = 0, lb = 0;
                    for (int q = 0; q < o->noff && la < 180; q++) la += snprintf(a + la, sizeof(a) - la, " %llu", (unsigned long long)o->off[q]);
                    for (int q = 1; q < nn && lb < 180; q++) lb += snprintf(b + lb, sizeof(b) - lb, " %zu", eoff[q]);
                    ret = vp_fail(rep, "C17/framer/converted-offsets", "%s: output %d (%zu octets, converted): NAL offset attributes are {%s }, its NAL units start at {%s }", cutname[r], no, o->size, a, b);
                    break;
                }
                continue;
            }
            size_t L = ae - as;
            if (o->size < L || memcmp(o->bytes + (o->size - L), st + as, L)) {
                ret = vp_fail(rep, "C17/framer/au", "%s: output %d (%zu octets) does not end with access unit %d = octets [%zu,%zu) of the stream (%zu octets); its piece of the input is [%zu,%zu)", cutname[r], no, o->size, x, as, ae, L, pq[no], pq[no] + o->size - pp[no]);
                break;
            }
            size_t P = o->size - L;
            /* prefix: NAL units of the allowed types; parameter sets octet-identical to ones of the stream */
            size_t ostart[64], ohdr[64];
            int on = es_scan(o->bytes, o->size, ostart, ohdr, 64);
            size_t pos = 0; int k = 0;
            size_t nalstart[FX_MAXOFF + 24]; int nn = 0;
            while (pos < P && ret == 0) {
                if (k >= on || ostart[k] != pos || !is_prefix_type(h265, o->bytes + ohdr[k])) {
                    ret = vp_fail(rep, "C17/framer/prefix", "%s: output %d carries %zu octets before access unit %d that are not AUD / parameter set NAL units (offset %zu)", cutname[r], no, P, x, pos);
                    break;
                }
                size_t nend = k + 1 < on && ohdr[k + 1] - 3 < P ? ostart[k + 1] : P;   /* a zero octet right before the access unit's own 3-octet start code belongs to the prepended NAL unit */
                int ty = h265 ? (o->bytes[ohdr[k]] >> 1) & 0x3f : o->bytes[ohdr[k]] & 0x1f;
                bool isps = h265 ? ty != 35 : ty != 9;
                if (isps && !seed) {
                    bool found = false;
                    for (int q = 0; q < es.nnal && !found; q++) {
                        const struct nalrec *n = &es.nal[q];
                        if (n->type == ty && n->hp < ae && n->end - n->hp == nend - ohdr[k] && !memcmp(st + n->hp, o->bytes + ohdr[k], nend - ohdr[k])) found = true;
                    }
                    if (!found) ret = vp_fail(rep, "C17/framer/prefix", "%s: output %d has a prepended NAL unit of type %d (%zu octets) that is not octet-identical to any parameter set sent before the end of access unit %d", cutname[r], no, ty, nend - ohdr[k], x);
                    prefix_ps = true;
                }
                if (nn < FX_MAXOFF + 24) nalstart[nn++] = pos;
                pos = nend; k++;
            }
            if (ret) break;
            /* NAL offset attributes */
            if (!seed) {
                for (int q = es.au[expi[x]].nal0; q < es.au[expi[x]].nal1 && nn < FX_MAXOFF + 24; q++) nalstart[nn++] = P + es.nal[q].start - as;
                bool ok = (o->noff == nn - 1) || (o->noff == nn && o->off[nn - 1] == o->size);
                for (int q = 0; ok && q < nn - 1; q++) if (o->off[q] != nalstart[q + 1]) ok = false;
                if (!ok && !fx->out_truncated) {
                    char a[200] = "", b[200] = ""; size_t la = 0, lb = 0;
                    for (int q = 0; q < o->noff && la < 180; q++) la += snprintf(a + la, sizeof(a) - la, " %llu", (unsigned long long)o->off[q]);
                    for (int q = 1; q < nn && lb < 180; q++) lb += snprintf(b + lb, sizeof(b) - lb, " %zu", nalstart[q]);
                    ret = vp_fail(rep, "C17/framer/nal-offsets", "%s: output %d (%zu octets, access unit %d): NAL offset attributes are {%s }, its NAL units start at {%s } (one more attribute equal to the size is tolerated)", cutname[r], no, o->size, x, a, b);
                    break;
                }
            }
        }
        if (ret == 0 && no < fx->nout)
            ret = vp_fail(rep, "C17/framer/extra", "%s: %d outputs for %d access units; output %d has %zu octets", cutname[r], fx->nout, nexp, no, fx->out[no].size);
        if (ret == 0 && (fx->n_fatal || fx->n_error))
            ret = vp_fail(rep, "C17/framer/event", "%s: %d fatal and %d error events on a valid stream", cutname[r], fx->n_fatal, fx->n_error);
        if (ret == 0 && nexp && fx->n_sync_acq != 1)
            ret = vp_fail(rep, "C17/framer/event", "%s: sync_acquired thrown %d times on a valid stream", cutname[r], fx->n_sync_acq);
    }

    /* ---- M ---- */
    for (int r = 1; r < 3 && ret == 0; r++) {
        const struct fx *a = &runs[0].fx, *b = &runs[r].fx;
        int n = a->nout < b->nout ? a->nout : b->nout;
        for (int i = 0; i < n && ret == 0; i++) {
            char why[200]; bool attr_only;
            if (!out_equal(&a->out[i], &b->out[i], why, sizeof(why), &attr_only))
                ret = vp_fail(rep, attr_only ? "C17/cutting/attributes" : "C17/cutting/octets", "same stream, output %d differs between '%s' and '%s': %s", i, cutname[0], cutname[r], why);
        }
        if (ret == 0 && a->nout != b->nout)
            ret = vp_fail(rep, "C17/cutting/count", "same stream: %d outputs as %s, %d outputs as %s", a->nout, cutname[0], b->nout, cutname[r]);
    }

    int nout0 = runs[0].fx.nout;
    for (int r = 0; r < 3; r++) {
        end_run(&runs[r]);
        if (ret == 0 && runs[r].audit)
            ret = vp_fail(rep, "C17/framer/leak", "%s: after releasing the framer: %s", cutname[r], runs[r].audit);
    }

    rep->case_hash = h;
    if (cut_in_sc) rep->classes |= 1u << CL_CUT_IN_SC;
    if (len > 1) rep->classes |= 1u << CL_ONEBYTE;
    if (!valid) rep->classes |= 1u << CL_CORRUPT;
    if (h265) rep->classes |= 1u << CL_H265;
    if (valid && !seed) rep->classes |= 1u << CL_VALID;
    if (kind == 4) rep->classes |= 1u << CL_SEED;
    if (nout0 >= 2) rep->classes |= 1u << CL_MULTI_AU;
    if (nout0 >= 4) rep->classes |= 1u << CL_MANY_AU;
    for (int k = 0; k < nsc; k++) if (shdr[k] - sstart[k] == 3) { rep->classes |= 1u << CL_3SC; break; }
    for (int k = 1; k < nsc; k++) if (sstart[k] >= 1 && st[sstart[k] - 1] == 0) { rep->classes |= 1u << CL_TZ; break; }
    if (nsc && sstart[0] > 0 && st[0] == 0) rep->classes |= 1u << CL_LEADZ;
    if (prefix_ps) rep->classes |= 1u << CL_PREFIX_PS;
    if (segcut) rep->classes |= 1u << CL_SEGCUT;
    if (kind == 5 || kind == 6) rep->classes |= 1u << CL_MUTATED;
    if (kind == 7) rep->classes |= 1u << CL_ARBITRARY;
    for (size_t i = 2; i < len; i++) if (st[i] == 3 && st[i - 1] == 0 && st[i - 2] == 0) { rep->classes |= 1u << CL_ESC; break; }
    if (nout0 == 0) rep->classes |= 1u << CL_NOOUT;
    if (cut_after_sc) rep->classes |= 1u << CL_CUT_AFTER_SC;
    if (oe != UREF_H26X_ENCAPS_ANNEXB) rep->classes |= 1u << CL_CONVERTED;
    rep->nontrivial = cut_in_sc && nout0 >= 2;
    return ret;
}

const struct vp_executor vp_executor = { "C17", "framer", 512, class_names, run, NULL };

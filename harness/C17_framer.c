/* C17 (framer) — the H.264 and H.265 framers output the same access units, cut at NAL
 * boundaries, in stream order and without overlap, however the input octets are split into
 * buffers; every access unit that follows valid parameter sets is output; arbitrary corrupt
 * input never makes the framers read outside their buffers.
 *
 * A case is one elementary stream and one tape-chosen cutting. The stream is fed to a
 * fresh framer three times: as one buffer, as one-octet buffers, and under the tape-chosen
 * cutting (cuts biased to the inside and the neighbourhood of start codes, some of them
 * segment boundaries inside one buffer). The framer is released at the end, which flushes
 * the pending access unit (upipe_h26xf_free).
 *
 * Oracles
 *  S  (every stream) each output, after a prefix of access unit delimiter / parameter set
 *     NAL units the framer may prepend, is a contiguous piece of the input; the pieces are
 *     in stream order and do not overlap.
 *  M  (every stream) the three runs deliver the same sequence of outputs: sizes, octets,
 *     NAL offset attributes, header size, key / random flags, picture number, slice type.
 *  V  (streams of the reference encoder and the recorded unit-test stream) the pieces are
 *     exactly the access units of the stream (H.264 7.4.1.2.3/7.4.1.2.4, H.265 7.4.2.4.4
 *     evaluated by the harness on the syntax elements it wrote), all of them, in order;
 *     prepended parameter sets are octet-identical to parameter sets of the stream; the NAL
 *     offset attributes of each output are the positions of its NAL units.
 *  L  after release everything the framer allocated is returned (fixture audit); ASan and
 *     assert() guard every run.
 *
 * Input that is not an octet stream (the tape's octets after the output encapsulation choice). The same access
 * units are fed one per buffer as bare NAL units with NAL offset attributes (UREF_H26X_ENCAPS_NALU), with 4-, 2-
 * or 1-octet length prefixes, or as Annex B pieces; the parameter sets stay in band or travel only in the global
 * headers of the flow definition (Annex B form, or avcC / hvcC written by the reference writer of C17_enc.h). Each
 * such input is run once per output encapsulation the sink can ask for (ANNEXB, NALU, LENGTH4, LENGTH2, LENGTH1).
 *  F  (streams of the reference encoder and the recorded stream) every buffer yields exactly one output, in order;
 *     the output parses in the encapsulation that was asked for; its NAL units are, after the AUD / parameter sets
 *     the framer may prepend when writing Annex B, octet for octet the NAL units that were fed (trailing_zero_8bits,
 *     which belong to the Annex B byte stream and not to the NAL unit, aside); the NAL offset attributes are the
 *     positions of its NAL units. An access unit with a NAL unit too long for a 1-octet prefix is refused with an
 *     error event when LENGTH1 is asked (the refusal rule of upipe_h26xf_convert_frame), nothing else is.
 *  E  the attributes the executor compares between cuttings (key, random access, picture number, slice type) are
 *     also the same as what the octet-stream run gave for the same access unit; when both wrote Annex B from in-band
 *     parameter sets the complete NAL unit lists (prepended ones included) are the same.
 *  G  when the sink asks for global headers (f.global, as upipe_avformat_sink does) every flow definition in force
 *     when an access unit arrives carries f.headers that parse (reference parser) as Annex B or as an avcC / hvcC
 *     record matching the encapsulation asked for; every NAL unit in it is octet-identical to a parameter set that
 *     was sent; it holds the SPS the access unit refers to, with its latest content; the record's profile / level
 *     octets are those of that SPS. The same sequence of flow definitions under all cuttings.
 *  P  (any input) when the encapsulation asked for is the one that was fed (not Annex B) each output is
 *     octet-identical to one of the buffers, in order.
 * The optional SPS syntax (VUI with timing and HRD parameters, scaling lists: g_ext) changes no oracle: such streams
 * are valid, so V, F and M apply.
 */
#include "vp.h"
#include "tape.h"
#include "C17_fixture.h"
#include "C17_enc.h"
#include "C17_h264gen.h"
#include "C17_h265gen.h"

#include "tests/upipe_h264_framer_test.h"

#include <stdio.h>

enum { CL_CUT_IN_SC, CL_ONEBYTE, CL_CORRUPT, CL_H265, CL_VALID, CL_SEED, CL_MULTI_AU, CL_3SC, CL_TZ, CL_PREFIX_PS,
       CL_SEGCUT, CL_MUTATED, CL_ARBITRARY, CL_ESC, CL_NOOUT, CL_MANY_AU, CL_CUT_AFTER_SC, CL_LEADZ, CL_CONVERTED,
       CL_FRAMES, CL_F_NALU, CL_F_LEN, CL_F_LEN1, CL_F_ANNEXB, CL_F_VALID, CL_OOB, CL_OOB_RECORD, CL_OOB_INFER, CL_WANT_GLOBAL,
       CL_GLOBAL_BUILT, CL_VUI, CL_HRD, CL_TIMING, CL_SCALING, CL_REFUSED1, CL_F_CORRUPT, CL_F_SEG, CL_F_COMPLETE, CL_F_MULTI, CL_DISC, CL_DISC_RESENT };
static const char *const class_names[] = {
    "cut_inside_start_code", "one_octet_buffers", "corrupt_input", "h265", "reference_stream", "recorded_stream",
    "ge2_access_units", "has_3_octet_start_code", "trailing_zero_octets", "parameter_sets_prepended",
    "segment_boundary_inside_buffer", "mutated_stream", "arbitrary_octets", "emulation_prevention_in_stream",
    "no_output_at_all", "ge4_access_units", "cut_right_after_start_code", "leading_zero_octets", "output_converted",
    "au_per_buffer_input", "input_nalu", "input_length_prefixed", "input_length1", "input_annexb_per_au", "au_per_buffer_reference_stream",
    "parameter_sets_only_in_global_headers", "global_headers_avcc_hvcc", "input_encapsulation_inferred_from_headers", "sink_asks_global_headers",
    "global_headers_built_and_checked", "sps_with_vui", "sps_with_hrd", "sps_with_timing_info", "sps_with_scaling_lists",
    "length1_output_refuses_long_nal", "au_per_buffer_corrupt", "au_per_buffer_segmented", "annexb_complete_access_units", "au_per_buffer_ge2",
    "discontinuity_flagged_buffer", "discontinuity_then_parameter_sets_resent", NULL };

#define MAXCUT 64
struct cutting { int n; size_t pos[MAXCUT]; bool seg[MAXCUT]; };   /* boundaries strictly inside (0,len) */

struct run {
    struct fx fx;
    const char *audit;
    const char *err;
    bool skipped;
};

static struct es es;
static struct run runs[3];

#define R(...) do { if (render) vp_render(rep, __VA_ARGS__); } while (0)

static bool is_prefix_type(bool h265, const uint8_t *hdr)
{
    if (h265) { int t = (hdr[0] >> 1) & 0x3f; return t == 35 || t == 32 || t == 33 || t == 34; }
    int t = hdr[0] & 0x1f; return t == 9 || t == 7 || t == 8;
}

/* feeds the stream under a cutting and releases the framer */
static int g_disc_buf = -1;          /* index of the buffer that carries the discontinuity flag (run D), -1: none */
static size_t g_disc_at;             /* where that buffer begins in the stream */
static bool g_disc_done;
static void do_run(struct run *r, bool h265, uint8_t out_encaps, bool want_global, const uint8_t *p, size_t len, const struct cutting *c, bool onebyte)
{
    memset(r, 0, sizeof(*r));
    g_disc_done = false;
    struct fx_input in = { UREF_H26X_ENCAPS_ANNEXB, NULL, 0, false };
    r->err = fx_open_ex(&r->fx, h265, out_encaps, want_global, &in);
    if (r->err) return;
    if (onebyte) {
        size_t one = 1;
        for (size_t i = 0; i < len && !r->err; i++) r->err = fx_feed(&r->fx, p + i, &one, 1);
    } else {
        size_t pos = 0; int k = 0, nb = 0;
        while (pos < len && !r->err) {
            size_t seglen[MAXCUT + 1]; int ns = 0; size_t b = pos;
            fx_flag_discontinuity = (nb++ == g_disc_buf);
            if (fx_flag_discontinuity) { g_disc_at = pos; g_disc_done = true; }
            for (;;) {
                size_t e = k < c->n ? c->pos[k] : len;
                seglen[ns++] = e - b; b = e;
                if (k >= c->n) break;
                bool seg = c->seg[k]; k++;
                if (!seg) break;
            }
            r->err = fx_feed(&r->fx, p + pos, seglen, ns);
            fx_flag_discontinuity = false;
            pos = b;
        }
    }
    fx_release_framer(&r->fx);
}

static void end_run(struct run *r)
{
    fx_free_outputs(&r->fx);
    r->audit = fx_close(&r->fx);
}

/* oracle S. Candidates (P, q): out[P..] == stream[q .. q + size - P), q a start code, everything
 * before P made of prefix-type NAL units. Greedy by smallest end is complete. If piece_q / piece_p
 * are given they receive the choice. Returns NULL or a message. */
static const char *check_pieces(bool h265, const struct fx *fx, const uint8_t *st, size_t len,
                                size_t *piece_q, size_t *piece_p, int *bad, char *msg, size_t msgsz)
{
    size_t prev_end = 0;
    for (int i = 0; i < fx->nout; i++) {
        const struct fx_out *o = &fx->out[i];
        *bad = i;
        if (o->size == (size_t)-1) { snprintf(msg, msgsz, "output %d has no readable block", i); return msg; }
        /* candidate prefix lengths */
        size_t cand[24 + 2 + FX_MAXOFF]; int nc = 0;
        cand[nc++] = 0;
        size_t ostart[64], ohdr[64];
        int on = es_scan(o->bytes, o->size, ostart, ohdr, 64);
        /* the prepended part begins with an AUD / parameter set NAL unit; a corrupt parameter set that the
         * framer stored may itself contain what this scanner takes for a start code, so every later start
         * code of the output is a candidate end of the prepended part */
        if (on > 0 && ostart[0] == 0 && ohdr[0] < o->size && is_prefix_type(h265, o->bytes + ohdr[0])) {
            for (int k = 0; k + 1 < on && nc + 1 < 24; k++) {
                cand[nc++] = ostart[k + 1];
                if (ohdr[k + 1] - ostart[k + 1] == 4) cand[nc++] = ostart[k + 1] + 1;   /* 4-octet start code: also its 3-octet reading */
            }
        }
        /* and wherever the output's own NAL offset attributes say a NAL unit begins */
        if (on > 0 && ostart[0] == 0 && ohdr[0] < o->size && is_prefix_type(h265, o->bytes + ohdr[0]))
            for (int k = 0; k < o->noff; k++) if (o->off[k] < o->size) cand[nc++] = o->off[k];
        size_t best_end = (size_t)-1, best_q = 0, best_p = 0;
        for (int c = 0; c < nc; c++) {
            size_t P = cand[c], L = o->size - P;
            if (L == 0 || L > len) continue;
            /* first occurrence at or after the end of the previous piece. (On a reference stream oracle V pins the
             * piece to the access unit; on corrupt input the H.265 framer may cut where Annex B has no start code,
             * because the second NAL header octet does not pass through its scanner, so any offset is accepted.) */
            for (size_t q = prev_end; q + L <= len; q++) {
                if (st[q] != o->bytes[P] || memcmp(o->bytes + P, st + q, L)) continue;
                if (q + L < best_end) { best_end = q + L; best_q = q; best_p = P; }
                break;
            }
        }
        if (best_end == (size_t)-1) {
            snprintf(msg, msgsz, "output %d (%zu octets, begins %02x %02x %02x %02x %02x) is not [AUD / parameter sets] + a contiguous piece of the input at or after offset %zu (end of the previous output's piece)",
                     i, o->size, o->size > 0 ? o->bytes[0] : 0, o->size > 1 ? o->bytes[1] : 0, o->size > 2 ? o->bytes[2] : 0, o->size > 3 ? o->bytes[3] : 0, o->size > 4 ? o->bytes[4] : 0, prev_end);
            return msg;
        }
        if (piece_q) { piece_q[i] = best_q; piece_p[i] = best_p; }
        prev_end = best_end;
    }
    return NULL;
}

static bool out_equal(const struct fx_out *a, const struct fx_out *b, char *why, size_t n, bool *attr_only)
{
    *attr_only = false;
    if (a->size != b->size) { snprintf(why, n, "sizes %zu and %zu", a->size, b->size); return false; }
    if (a->size != (size_t)-1 && memcmp(a->bytes, b->bytes, a->size)) {
        size_t k = 0; while (a->bytes[k] == b->bytes[k]) k++;
        snprintf(why, n, "octet %zu is %02x and %02x", k, a->bytes[k], b->bytes[k]); return false; }
    *attr_only = true;
    if (a->noff != b->noff) { snprintf(why, n, "%d and %d NAL offset attributes", a->noff, b->noff); return false; }
    for (int i = 0; i < a->noff; i++) if (a->off[i] != b->off[i]) { snprintf(why, n, "NAL offset attribute %d is %llu and %llu", i, (unsigned long long)a->off[i], (unsigned long long)b->off[i]); return false; }
    if (a->has_hdr != b->has_hdr || (a->has_hdr && a->hdr != b->hdr)) { snprintf(why, n, "header size attribute %s%llu and %s%llu", a->has_hdr ? "" : "absent/", (unsigned long long)a->hdr, b->has_hdr ? "" : "absent/", (unsigned long long)b->hdr); return false; }
    if (a->key != b->key) { snprintf(why, n, "key flag %d and %d", a->key, b->key); return false; }
    if (a->random != b->random) { snprintf(why, n, "random access flag %d and %d", a->random, b->random); return false; }
    if (a->error != b->error) { snprintf(why, n, "error flag %d and %d", a->error, b->error); return false; }
    if (a->has_num != b->has_num || (a->has_num && a->num != b->num)) { snprintf(why, n, "picture number %llu and %llu", (unsigned long long)a->num, (unsigned long long)b->num); return false; }
    if (a->has_type != b->has_type || (a->has_type && a->type != b->type)) { snprintf(why, n, "slice type %u and %u", a->type, b->type); return false; }
    return true;
}

/* ================= input that is not an octet stream: one access unit per buffer ================= */
enum { FORM_NONE, FORM_NALU, FORM_LEN4, FORM_LEN2, FORM_LEN1, FORM_ANNEXB };
static const char *const formname[] = { "none", "NALU", "LENGTH4", "LENGTH2", "LENGTH1", "ANNEXB (one access unit per buffer)" };
static const char *encname(uint8_t e)
{
    return e == UREF_H26X_ENCAPS_ANNEXB ? "ANNEXB" : e == UREF_H26X_ENCAPS_NALU ? "NALU" : e == UREF_H26X_ENCAPS_LENGTH4 ? "LENGTH4" :
           e == UREF_H26X_ENCAPS_LENGTH2 ? "LENGTH2" : e == UREF_H26X_ENCAPS_LENGTH1 ? "LENGTH1" : "LENGTH_UNKNOWN";
}
static int enc_plen(uint8_t e) { return e == UREF_H26X_ENCAPS_LENGTH4 ? 4 : e == UREF_H26X_ENCAPS_LENGTH2 ? 2 : e == UREF_H26X_ENCAPS_LENGTH1 ? 1 : 0; }

#define FM_MAXNAL   320
#define FM_MAXFR    96
#define FM_MAXK     (FX_MAXOFF + 8)
struct fnal { size_t hp, pend, start, end; int type; bool ps, vcl; int es; int fr; };
struct fkn { int fn; size_t at, len; };     /* a NAL unit as fed: index in fnal, payload position inside the buffer, payload length */
struct frame {
    size_t off, len;            /* in fbuf */
    int k0, nk;                 /* its NAL units in fkn */
    size_t noff[FM_MAXK]; int nnoff;    /* NAL offset attributes to set (NALU form) */
    bool big1;                  /* holds a NAL unit longer than 255 octets */
    int au;                     /* model access unit or copy number */
};
static struct fnal fnal[FM_MAXNAL]; static int nfnal;
static struct fkn fkn[FM_MAXNAL]; static int nfkn;
static struct frame frames[FM_MAXFR]; static int nframes;
static uint8_t fbuf[2 * ES_MAX + 8192]; static size_t fbuf_len;
static uint8_t ghdr[GH_MAX]; static size_t ghdr_len;
static struct ghnal oobn[GH_MAXNAL]; static int noob;
static struct run fruns[5];
static const uint8_t fouts[5] = { UREF_H26X_ENCAPS_ANNEXB, UREF_H26X_ENCAPS_NALU, UREF_H26X_ENCAPS_LENGTH4, UREF_H26X_ENCAPS_LENGTH2, UREF_H26X_ENCAPS_LENGTH1 };

static bool is_ps_type(bool h265, int t) { return h265 ? (t == 32 || t == 33 || t == 34) : (t == 7 || t == 8); }
static int ps_rank(bool h265, int t) { return h265 ? t - 32 : t - 7; }

/* the NAL unit table of the stream: from the reference encoder's records, or (recorded stream, corrupt input)
 * from the harness' Annex B scanner */
static void fm_table(bool h265, bool model, const uint8_t *st, size_t len, const size_t *sstart, const size_t *shdr, int nsc,
                     size_t copylen, int gsz)
{
    nfnal = 0;
    if (model) {
        for (int a = 0; a < es.nau; a++)
            for (int k = es.au[a].nal0; k < es.au[a].nal1 && nfnal < FM_MAXNAL; k++) {
                const struct nalrec *r = &es.nal[k];
                struct fnal *f = &fnal[nfnal++];
                f->hp = r->hp; f->pend = r->pend; f->start = r->start; f->end = r->end; f->type = r->type;
                f->ps = is_ps_type(h265, r->type); f->vcl = r->vcl; f->es = k; f->fr = a;
            }
        return;
    }
    for (int k = 0; k < nsc && nfnal < FM_MAXNAL; k++) {
        struct fnal *f = &fnal[nfnal++];
        f->hp = shdr[k]; f->start = sstart[k]; f->end = k + 1 < nsc ? sstart[k + 1] : len;
        if (f->hp > f->end) f->hp = f->end;
        f->pend = f->end; while (f->pend > f->hp && st[f->pend - 1] == 0) f->pend--;
        f->type = f->hp < f->end ? (h265 ? (st[f->hp] >> 1) & 0x3f : st[f->hp] & 0x1f) : 0;
        f->ps = is_ps_type(h265, f->type);
        f->vcl = h265 ? f->type < 32 : (f->type >= 1 && f->type <= 5);
        f->es = -1;
        f->fr = copylen ? (int)(f->start / copylen) : k / gsz;
    }
}

/* parameter sets for the global headers: distinct contents, VPS before SPS before PPS. Returns false when one
 * parameter set id has two contents in the stream (such a stream cannot be described by global headers alone). */
static bool fm_collect_ps(bool h265, const uint8_t *st, bool strict)
{
    noob = 0;
    for (int rank = 0; rank < 3; rank++)
        for (int k = 0; k < nfnal; k++) {
            const struct fnal *f = &fnal[k];
            if (!f->ps || ps_rank(h265, f->type) != rank || f->pend <= f->hp) continue;
            bool dup = false, clash = false;
            for (int q = 0; q < noob; q++) {
                if (oobn[q].type != f->type) continue;
                if (oobn[q].len == f->pend - f->hp && !memcmp(oobn[q].p, st + f->hp, oobn[q].len)) { dup = true; break; }
                /* same type, other content: another id, or a redefinition? */
                if (f->es < 0) clash = true;
                else for (int j = 0; j < nfnal; j++)
                    if (fnal[j].es >= 0 && fnal[j].type == f->type && st + fnal[j].hp == oobn[q].p && es.nal[fnal[j].es].id == es.nal[f->es].id) clash = true;
            }
            if (dup) continue;
            if (clash && strict) return false;
            if (noob >= GH_MAXNAL || (!strict && noob >= 12)) { if (strict) return false; continue; }
            oobn[noob].type = f->type; oobn[noob].p = st + f->hp; oobn[noob].len = f->pend - f->hp; noob++;
        }
    return noob > 0;
}

/* builds the buffers. form: how each access unit is serialised; oob: parameter sets are left out */
static void fm_build(const uint8_t *st, int form, bool oob)
{
    nframes = 0; nfkn = 0; fbuf_len = 0;
    int plen = form == FORM_LEN4 ? 4 : form == FORM_LEN2 ? 2 : form == FORM_LEN1 ? 1 : 0;
    for (int k = 0; k < nfnal; ) {
        int fr = fnal[k].fr, k1 = k;
        while (k1 < nfnal && fnal[k1].fr == fr) k1++;
        struct frame *f = &frames[nframes];
        memset(f, 0, sizeof(*f));
        f->off = fbuf_len; f->k0 = nfkn; f->au = fr;
        for (int q = k; q < k1; q++) {
            const struct fnal *n = &fnal[q];
            if (oob && n->ps) continue;
            if (f->nk >= FM_MAXK - 1 || nfkn >= FM_MAXNAL) break;
            size_t pl = form == FORM_ANNEXB ? n->end - n->hp : n->pend - n->hp;
            if (fbuf_len + pl + 8 > sizeof(fbuf)) break;
            if (f->nk && form == FORM_NALU) f->noff[f->nnoff++] = fbuf_len - f->off;
            if (form == FORM_ANNEXB) { memcpy(fbuf + fbuf_len, st + n->start, n->hp - n->start); fbuf_len += n->hp - n->start; }
            for (int i = plen - 1; i >= 0; i--) fbuf[fbuf_len++] = (uint8_t)(pl >> (8 * i));
            fkn[nfkn].fn = q; fkn[nfkn].at = fbuf_len - f->off; fkn[nfkn].len = pl; nfkn++; f->nk++;
            memcpy(fbuf + fbuf_len, st + n->hp, pl); fbuf_len += pl;
            if (pl > 255) f->big1 = true;
        }
        f->len = fbuf_len - f->off;
        if (f->nk && f->len && nframes < FM_MAXFR - 1) nframes++;
        else { nfkn = f->k0; fbuf_len = f->off; }
        k = k1;
    }
}

/* NAL units of an output, by the encapsulation that was asked for. ps[i] / pl[i]: payload; trailing zero octets
 * (trailing_zero_8bits of Annex B, not part of the NAL unit) are left out of pl. st0[i]: where the NAL unit begins
 * with its prefix. Returns the count or -1 with a message. */
static int out_nals(const struct fx_out *o, uint8_t enc, size_t *st0, size_t *ps, size_t *pl, int max, char *why, size_t n)
{
    int c = 0;
    if (o->size == (size_t)-1) { snprintf(why, n, "no readable block"); return -1; }
    if (enc == UREF_H26X_ENCAPS_ANNEXB) {
        static size_t a[FM_MAXK + 40], h[FM_MAXK + 40];
        int m = es_scan(o->bytes, o->size, a, h, FM_MAXK + 40);
        if (m == 0 || a[0] != 0) { snprintf(why, n, "does not begin with a start code"); return -1; }
        if (m > max) { snprintf(why, n, "more than %d NAL units", max); return -1; }
        for (int k = 0; k < m; k++) {
            size_t e = k + 1 < m ? a[k + 1] : o->size;
            st0[k] = a[k]; ps[k] = h[k]; pl[k] = e - h[k];
        }
        c = m;
    } else if (enc == UREF_H26X_ENCAPS_NALU) {
        int m = o->noff;
        if (m && o->off[m - 1] == o->size) m--;     /* one more attribute equal to the size is tolerated */
        if (m + 1 > max) { snprintf(why, n, "more than %d NAL units", max); return -1; }
        size_t prev = 0;
        for (int k = 0; k <= m; k++) {
            size_t e = k < m ? o->off[k] : o->size;
            if (e < prev || e > o->size || (k < m && e == prev)) { snprintf(why, n, "NAL offset attribute %d = %zu does not follow %zu inside %zu octets", k, e, prev, o->size); return -1; }
            st0[k] = prev; ps[k] = prev; pl[k] = e - prev; prev = e;
        }
        c = m + 1;
    } else {
        int plen = enc_plen(enc);
        size_t pos = 0;
        while (pos < o->size) {
            if (c >= max) { snprintf(why, n, "more than %d NAL units", max); return -1; }
            if (pos + plen > o->size) { snprintf(why, n, "%zu octets left at %zu cannot hold a %d-octet length", o->size - pos, pos, plen); return -1; }
            size_t l = 0;
            for (int i = 0; i < plen; i++) l = l << 8 | o->bytes[pos + i];
            if (pos + plen + l > o->size) { snprintf(why, n, "length %zu at offset %zu runs past the %zu octets of the output", l, pos, o->size); return -1; }
            st0[c] = pos; ps[c] = pos + plen; pl[c] = l; c++;
            pos += plen + l;
        }
    }
    for (int k = 0; k < c; k++) while (pl[k] > 0 && o->bytes[ps[k] + pl[k] - 1] == 0) pl[k]--;
    return c;
}

static size_t strip_tz(const uint8_t *p, size_t l) { while (l > 0 && p[l - 1] == 0) l--; return l; }

/* NAL offset attributes of an output against where its NAL units begin */
static bool out_offsets_ok(const struct fx_out *o, uint8_t enc, const size_t *st0, const size_t *ps, int c)
{
    bool ok = (o->noff == c - 1) || (o->noff == c && o->off[c - 1] == o->size);
    /* Annex B: of four zero-free-standing octets 00 00 00 01 the first may as well be the trailing zero octet of the
     * NAL unit before (a stored parameter set that the framer prepends keeps its trailing zero) */
    for (int q = 0; ok && q < c - 1; q++)
        if (o->off[q] != st0[q + 1] && !(enc == UREF_H26X_ENCAPS_ANNEXB && ps[q + 1] - st0[q + 1] == 4 && o->off[q] == st0[q + 1] + 1)) ok = false;
    return ok;
}

/* a copy of global headers without the bits that carry no information for the comparison between runs: in an
 * hvcC record array_completeness and the reserved bit next to it (the framer does not set them; what the stand-in
 * h265hvcc_array_set_nal_unit_type leaves there is whatever the stack held) */
static size_t gh_normalised(const uint8_t *h, size_t len, bool h265, uint8_t *out, size_t cap)
{
    if (len > cap) len = cap;
    memcpy(out, h, len);
    bool annexb = len >= 4 && h[0] == 0 && h[1] == 0 && (h[2] == 1 || (h[2] == 0 && h[3] == 1));
    if (!h265 || annexb || len < 23) return len;
    size_t l = 23;
    for (int a = 0, na = h[22]; a < na && l + 3 <= len; a++) {
        out[l] &= 0x3f;
        int c = h[l + 1] << 8 | h[l + 2]; l += 3;
        for (int i = 0; i < c && l + 2 <= len; i++) l += 2 + ((size_t)h[l] << 8 | h[l + 1]);
    }
    return len;
}

static void fmt_list(char *a, size_t cap, const uint64_t *v, int n)
{
    size_t l = 0; a[0] = 0;
    for (int q = 0; q < n && l + 24 < cap; q++) l += snprintf(a + l, cap - l, " %llu", (unsigned long long)v[q]);
}

/* oracle G for one run: the flow definitions the sink received. tab_ok: the NAL table describes what was sent */
static int check_global(struct vp_report *rep, const char *what, const struct fx *fx, bool h265, uint8_t enc, const uint8_t *st,
                        bool model, const int *out_frame_first_vcl /* es index of the first slice of output i, or NULL */,
                        const uint8_t *in_h, size_t in_hlen, bool *built)
{
    static struct ghnal gn[GH_MAXNAL]; int ngn;
    struct ghinfo inf;
    for (int i = 0; i < fx->nout; i++) {
        const struct fx_flowdef *d = NULL;
        for (int k = 0; k < fx->nfd; k++) if (fx->fd[k].at_nout <= i) d = &fx->fd[k];
        if (!d) return vp_fail(rep, "C17/global/flow-def", "%s: output %d arrived before any flow definition", what, i);
        if (!d->has_headers)
            return vp_fail(rep, "C17/global/missing", "%s: the sink asked for global headers, the flow definition in force for output %d has no f.headers", what, i);
        bool annexb = d->hlen >= 4 && d->h[0] == 0 && d->h[1] == 0 && (d->h[2] == 1 || (d->h[2] == 0 && d->h[3] == 1));
        bool ok;
        if (enc == UREF_H26X_ENCAPS_ANNEXB && !annexb)
            return vp_fail(rep, "C17/global/form", "%s: ANNEXB asked, the global headers (%zu octets) of the flow definition in force for output %d do not begin with a start code", what, d->hlen, i);
        if (enc_plen(enc) && annexb)
            return vp_fail(rep, "C17/global/form", "%s: %s asked, the global headers of the flow definition in force for output %d are Annex B, not a configuration record", what, encname(enc), i);
        if (annexb) ok = gh_parse_annexb(d->h, d->hlen, h265, gn, &ngn, GH_MAXNAL);
        else ok = h265 ? gh_parse_hvcc(d->h, d->hlen, gn, &ngn, GH_MAXNAL, &inf) : gh_parse_avcc(d->h, d->hlen, gn, &ngn, GH_MAXNAL, &inf);
        if (!ok)
            return vp_fail(rep, "C17/global/parse", "%s: the global headers (%zu octets, %s) of the flow definition in force for output %d do not parse", what, d->hlen, annexb ? "Annex B" : h265 ? "hvcC" : "avcC", i);
        bool passed_through = in_h && in_hlen == d->hlen && !memcmp(in_h, d->h, in_hlen);
        if (!passed_through) *built = true;
        if (!annexb) {
            if (inf.version != 1 || !inf.reserved_ok)
                return vp_fail(rep, "C17/global/record", "%s: configuration record of output %d: version %d, reserved bits %s", what, i, inf.version, inf.reserved_ok ? "set" : "not all set");
            if (enc_plen(enc) && inf.length_size != enc_plen(enc))
                return vp_fail(rep, "C17/global/record", "%s: %s asked, the configuration record announces %d-octet lengths", what, encname(enc), inf.length_size);
        }
        int last_rank = -1;
        for (int k = 0; k < ngn; k++) {
            if (!is_ps_type(h265, gn[k].type))
                return vp_fail(rep, "C17/global/content", "%s: global headers for output %d hold a NAL unit of type %d", what, i, gn[k].type);
            size_t gl = strip_tz(gn[k].p, gn[k].len);
            bool found = false;
            for (int q = 0; q < nfnal && !found; q++)
                if (fnal[q].ps && fnal[q].type == gn[k].type && fnal[q].pend - fnal[q].hp == gl && !memcmp(st + fnal[q].hp, gn[k].p, gl)) found = true;
            if (!found)
                return vp_fail(rep, "C17/global/content", "%s: global headers for output %d hold a NAL unit of type %d (%zu octets) that is not octet-identical to any parameter set that was sent", what, i, gn[k].type, gn[k].len);
            if (ps_rank(h265, gn[k].type) < last_rank && !annexb)
                return vp_fail(rep, "C17/global/content", "%s: configuration record for output %d lists type %d after a later kind", what, i, gn[k].type);
            last_rank = ps_rank(h265, gn[k].type);
        }
        if (model && out_frame_first_vcl && out_frame_first_vcl[i] >= 0) {
            /* the SPS this access unit refers to: latest PPS with the slice's id before it, latest SPS with that PPS's id */
            int v = out_frame_first_vcl[i], pps = -1, sps = -1;
            for (int q = v - 1; q >= 0 && pps < 0; q--) if (es.nal[q].type == (h265 ? 34 : 8) && es.nal[q].id == es.nal[v].pic.pps_id) pps = q;
            if (pps < 0) for (int q = es.nnal - 1; q >= 0 && pps < 0; q--) if (es.nal[q].type == (h265 ? 34 : 8) && es.nal[q].id == es.nal[v].pic.pps_id) pps = q;
            if (pps >= 0) for (int q = v - 1; q >= 0 && sps < 0; q--) if (es.nal[q].type == (h265 ? 33 : 7) && es.nal[q].id == es.nal[pps].ref_id) sps = q;
            if (pps >= 0 && sps < 0) for (int q = es.nnal - 1; q >= 0 && sps < 0; q--) if (es.nal[q].type == (h265 ? 33 : 7) && es.nal[q].id == es.nal[pps].ref_id) sps = q;
            if (sps >= 0) {
                const struct nalrec *r = &es.nal[sps];
                bool found = false;
                for (int k = 0; k < ngn && !found; k++)
                    if (gn[k].type == r->type && strip_tz(gn[k].p, gn[k].len) == r->pend - r->hp && !memcmp(gn[k].p, st + r->hp, r->pend - r->hp)) found = true;
                if (!found)
                    return vp_fail(rep, "C17/global/sps", "%s: the global headers in force for output %d do not hold the SPS (id %d, %zu octets, stream offset %zu) its slices refer to", what, i, r->id, r->pend - r->hp, r->hp);
                if (passed_through) continue;
                if (!annexb && !h265 && (inf.prof[0] != st[r->hp + 1] || inf.prof[1] != st[r->hp + 2] || inf.prof[2] != st[r->hp + 3]))
                    return vp_fail(rep, "C17/global/record", "%s: avcC for output %d says profile %u compatibility %02x level %u, its SPS says %u %02x %u", what, i, inf.prof[0], inf.prof[1], inf.prof[2], st[r->hp + 1], st[r->hp + 2], st[r->hp + 3]);
                if (!annexb && h265) {
                    uint8_t rb[24]; size_t rl = es_unescape(st + r->hp + 2, r->pend - r->hp - 2, rb, sizeof(rb));
                    if (rl >= 13 && memcmp(inf.prof, rb + 1, 12))
                        return vp_fail(rep, "C17/global/record", "%s: hvcC for output %d: general profile / tier / level octets %02x %02x%02x%02x%02x .. %02x differ from those of its SPS %02x %02x%02x%02x%02x .. %02x", what, i,
                                       inf.prof[0], inf.prof[1], inf.prof[2], inf.prof[3], inf.prof[4], inf.prof[11], rb[1], rb[2], rb[3], rb[4], rb[5], rb[12]);
                    if (inf.chroma != r->chroma)
                        return vp_fail(rep, "C17/global/record", "%s: hvcC for output %d says chroma format %d, its SPS says %d", what, i, inf.chroma, r->chroma);
                }
            }
        }
    }
    return 0;
}

static bool fvalid_pre(bool valid, int kind) { return valid && (kind <= 4); }

/* is the named exclusion lifted? All six defects these exclusions were built around are repaired in the repository
 * (fix: commits a7e032b 47de203 433f238 b904996 f600381 04d9eac, known_findings.json): every exclusion is lifted by
 * default and nothing is excluded. C17_EXCLUDE=1 or a list of names puts them back (development aid for bisecting on an
 * older tree); --no-exclude lifts them regardless. */
static bool lifted(unsigned flags, const char *name)
{
    if (flags & VP_NO_EXCLUDE) return true;
    const char *e = getenv("C17_EXCLUDE");
    return !(e && (!strcmp(e, "1") || strstr(e, name)));
}

/* H.264: is the boundary between access unit a and the next one visible only in the picture order count fields? */
static bool h264_poc_only_boundary(int a)
{
    if (a + 1 >= es.nau) return false;
    const struct nalrec *first = &es.nal[es.au[a + 1].nal0], *last = NULL;
    if (!first->vcl) return false;
    for (int k = es.au[a].nal0; k < es.au[a].nal1; k++) if (es.nal[k].vcl) last = &es.nal[k];
    if (!last) return false;
    const struct pic *x = &last->pic, *y = &first->pic;
    return x->frame_num == y->frame_num && x->pps_id == y->pps_id && x->field == y->field && x->bottom == y->bottom &&
           x->idr == y->idr && (!x->idr || x->idr_pic_id == y->idr_pic_id) && (x->ref_idc == 0) == (y->ref_idc == 0);
}

static const char *cutname[3] = { "one buffer", "one-octet buffers", "tape-chosen cutting" };

static int run(const uint8_t *tp_, size_t len_, struct vp_report *rep, unsigned flags)
{
    struct tape t;
    tp_init(&t, tp_, len_);
    bool render = flags & VP_RENDER;
    int ret = 0;
    char msg[400];

    /* The case is decoded once with the SPS syntax of the first version of this executor; the octets that follow the
     * output encapsulation choice (all zero on the tapes recorded then) select the new features. If they ask for
     * the optional SPS syntax the case is decoded a second time with g_ext set: that syntax uses no tape octets. */
    uint8_t m0 = 0, m1 = 0, m2 = 0, m3 = 0;
    int kind; bool h265, valid, seed; int ncopies, nmut;
    const uint8_t *st; size_t len;
    static size_t sstart[1024], shdr[1024];
    int nsc;
    struct cutting cut;
    uint8_t oe;
    g_ext = 0;
    for (int pass = 0; ; pass++) {
    tp_init(&t, tp_, len_);
    memset(&es, 0, sizeof(es));
    uint8_t b0 = tp_u8(&t);
    static const uint8_t kinds[16] = { 0, 0, 0, 0, 0, 0, 0, 4, 5, 5, 5, 5, 6, 7, 7, 7 };
    kind = kinds[b0 % 16];  /* 0 reference stream, 4 recorded stream, 5 mutated reference, 6 mutated recorded, 7 arbitrary */
    h265 = (b0 / 16) % 2;
    valid = kind <= 4; seed = kind == 4 || kind == 6;
    if (seed) h265 = false;     /* the recorded stream is H.264 */
    ncopies = 0;

    /* ---- the stream ---- */
    if (kind <= 3 || kind == 5) {
        g265_bad_counts = kind == 5 && (b0 & 0x40);
        if (h265) g265_stream(&es, &t); else g264_stream(&es, &t);
        g265_bad_counts = false;
    } else if (seed) {
        { uint8_t v = tp_u8(&t) % 8; ncopies = v < 5 ? 1 : v < 7 ? 2 : 3; }
        for (int c = 0; c < ncopies; c++) {
            memcpy(es.b + es.len, h264_headers, sizeof(h264_headers)); es.len += sizeof(h264_headers);
            memcpy(es.b + es.len, h264_pic, sizeof(h264_pic)); es.len += sizeof(h264_pic);
        }
    } else {
        size_t n = 4 + tp_u16(&t) % 300;
        static const uint8_t fav[] = { 0, 0, 0, 1, 1, 0x67, 0x68, 0x65, 0x41, 0x09, 0x06, 3, 0x40, 0x42, 0x44, 0x26, 0x02, 0x4e, 0x80, 0xff, 0x46, 0x0c, 0x0a, 0x01 };
        for (size_t i = 0; i < n; i++) { uint8_t v = tp_u8(&t); es.b[es.len++] = (v & 3) ? fav[(v >> 2) % sizeof(fav)] : tp_u8(&t); }
    }
    if (es.overflow) { valid = false; }
    nmut = 0;
    if (kind == 5 || kind == 6) {
        nmut = 1 + tp_u8(&t) % 4;
        for (int m = 0; m < nmut && es.len > 8; m++) {
            uint8_t op = tp_u8(&t);
            size_t at = tp_u16(&t) % es.len;
            if ((op & 0x80) && es.nnal) {   /* aim at a NAL unit header or its first payload octets */
                const struct nalrec *r = &es.nal[op / 8 % es.nnal];
                at = r->hp + (tp_u8(&t) % 6); if (at >= es.len) at = es.len - 1; }
            switch (op % 8) {
            case 0: es.b[at] = tp_u8(&t); break;
            case 1: es.b[at] ^= 1u << (op / 8 % 8); break;
            case 2: { size_t n = 1 + tp_u8(&t) % 40; if (at + n > es.len) n = es.len - at; memmove(es.b + at, es.b + at + n, es.len - at - n); es.len -= n; break; }
            case 3: es.len = at + 1; break;
            case 4: { static const uint8_t ins[] = { 0, 0, 1 }; if (es.len + 4 < ES_MAX) { memmove(es.b + at + 3, es.b + at, es.len - at); memcpy(es.b + at, ins, 3); es.len += 3; } break; }
            case 5: { size_t n = 1 + tp_u8(&t) % 60; if (at + n > es.len) n = es.len - at; if (es.len + n < ES_MAX) { memmove(es.b + at + n, es.b + at, es.len - at); es.len += n; } break; }   /* duplicate a range */
            case 6: es.b[at] = 0; if (at + 1 < es.len) es.b[at + 1] = 0; break;
            default: { size_t n = 1 + tp_u8(&t) % 8; for (size_t i = 0; i < n && at + i < es.len; i++) es.b[at + i] = tp_u8(&t); break; }
            }
        }
    }
    st = es.b; len = es.len;

    /* start codes of the final stream (harness scanner) for the cut generator and the classes */
    nsc = es_scan(st, len, sstart, shdr, 1024);

    /* ---- the cutting ---- */
    memset(&cut, 0, sizeof(cut));
    {
        int want = tp_u8(&t) % 12;
        size_t tmp[MAXCUT]; bool tseg[MAXCUT]; int n = 0;
        for (int i = 0; i < want + 1 && n < MAXCUT && len > 1; i++) {
            uint8_t s = tp_u8(&t);
            size_t p;
            if (s % 4 == 3 || nsc == 0) p = 1 + tp_u16(&t) % (len - 1);
            else {
                int k = (s / 4 % 8 + i) % nsc;
                static const int d[] = { 1, 2, 3, 0, 4, 5, -1, -2 };
                long q = (long)shdr[k] - 3 + d[s / 32 % 8];
                if (q < 1) q = 1; if ((size_t)q > len - 1) q = len - 1;
                p = q;
            }
            tmp[n] = p; tseg[n] = (s % 4 == 2); n++;
        }
        /* sort, dedupe */
        for (int i = 0; i < n; i++) for (int j = i + 1; j < n; j++) if (tmp[j] < tmp[i]) { size_t a = tmp[i]; tmp[i] = tmp[j]; tmp[j] = a; bool b = tseg[i]; tseg[i] = tseg[j]; tseg[j] = b; }
        for (int i = 0; i < n; i++) if (cut.n == 0 || cut.pos[cut.n - 1] != tmp[i]) { cut.pos[cut.n] = tmp[i]; cut.seg[cut.n] = tseg[i]; cut.n++; }
    }
    /* output encapsulation asked by the sink: Annex B, or (upipe_h26xf_convert_frame on the framer's own NAL
     * offsets) 4-octet lengths, bare NAL units, 2-octet lengths */
    oe = UREF_H26X_ENCAPS_ANNEXB;
    { uint8_t v = tp_u8(&t); if (v % 4 == 3) oe = v / 4 % 3 == 0 ? UREF_H26X_ENCAPS_LENGTH4 : v / 4 % 3 == 1 ? UREF_H26X_ENCAPS_NALU : UREF_H26X_ENCAPS_LENGTH2; }
    if (pass == 0) { m0 = tp_u8(&t); m1 = tp_u8(&t); m2 = tp_u8(&t); m3 = tp_u8(&t); }
    if (pass == 1 || (m1 & 1) == 0 || !(kind <= 3 || kind == 5)) break;     /* even: the SPS syntax of the first version */
    g_ext = m1;
    }
    int plen = oe == UREF_H26X_ENCAPS_LENGTH4 ? 4 : oe == UREF_H26X_ENCAPS_LENGTH2 ? 2 : 0;
    /* ---- the input that is not an octet stream (m0), what the sink asks for, corruption of the buffers (m2) ---- */
    int form = m0 % 8 == 6 ? FORM_NALU : m0 % 8 == 7 ? FORM_LEN4 : m0 % 8;     /* 0: none */
    int psmode = m0 / 8 % 4;            /* 0, 1: parameter sets in band; 2: only in the global headers; 3: same, announced tersely */
    bool want_global = (m0 & 0x20) != 0;
    bool fseg = (m0 & 0x40) != 0, fcomplete = (m0 & 0x80) != 0 && form == FORM_ANNEXB;
    if (m0 == 0) psmode = 0;
    /* named exclusions of findings that are fixed by now (see lifted()): inactive unless C17_EXCLUDE asks for them */
    /* h265-nalu-input-forced-to-annexb: upipe_h265f_handle_global_annexb switches NALU input to Annex B when the flow
     * definition carries Annex B global headers (upipe_h264f keeps NALU): every access unit is lost */
    if (!lifted(flags, "h265-nalu-input-forced-to-annexb") && h265 && form == FORM_NALU && psmode >= 2) { psmode = 0; rep->excluded++; }
    /* h265-no-picture-attributes-on-au-input: upipe_h265f_work_nalu / work_length never call upipe_h265f_prepare_au:
     * no key flag, no slice type (and so no parameter sets in front of key pictures when Annex B is written) */
    bool ex_h265_attr = !lifted(flags, "h265-no-picture-attributes-on-au-input") && h265;
    /* au-input-output-without-active-parameter-sets: a buffer without a slice, or before the parameter sets it needs,
     * is still written out; with Annex B asked upipe_h264f_output_au reads pps[-1], upipe_h265f dups a NULL start code.
     * (whatever the sink asks: the output encapsulation is still the initial one). On corrupt input the sink therefore
     * does not ask for Annex B (H.264) and the buffers are Annex B pieces, which take the other path (H.265). */
    bool ex_no_annexb = !lifted(flags, "au-input-output-without-active-parameter-sets");
    if (ex_no_annexb && h265 && !fvalid_pre(valid, kind) && form != FORM_NONE && (form != FORM_ANNEXB || psmode >= 2)) {
        /* (global headers that look like an hvcC record switch the framer to length-prefixed input: none then) */
        form = FORM_ANNEXB; psmode = 0; fcomplete = (m0 & 0x80) != 0; rep->excluded++; }
    /* complete-input-start-code-across-access-units: with f.comp the scanner state survives the access unit that was
     * just written out; a buffer ending inside a start code makes au_size wrap in the next one (assertion in
     * upipe_h26xf_decaps_nal). On corrupt input the flow definition therefore does not announce complete access units. */
    if (!lifted(flags, "complete-input-start-code-across-access-units") && !fvalid_pre(valid, kind) && fcomplete) { fcomplete = false; rep->excluded++; }
    /* h264-picture-gets-slice-type-of-next-picture: upipe_h264f_handle_slice stores slice_type before the picture
     * order count comparison that may still say "new picture": when only the POC tells two pictures apart the first
     * one is written out with the slice type (key flag) of the second. Such access units are not compared in E. */
    bool ex_h264_poc = !lifted(flags, "h264-picture-gets-slice-type-of-next-picture") && !h265;
    /* h265-second-header-octet-skips-scanner: upipe_h265f_find steps over the second NAL header octet without showing
     * it to the start code scanner, which then may take 00 | 00 01 around that octet for a start code: the NAL offset
     * points at octets that are no start code and upipe_h26xf_decaps_nal asserts as soon as another encapsulation than
     * Annex B is asked. On corrupt H.265 input the sink therefore asks for Annex B only. */
    bool ex_h265_scan = !lifted(flags, "h265-second-header-octet-skips-scanner") && h265 && !fvalid_pre(valid, kind);
    if (ex_h265_scan && oe != UREF_H26X_ENCAPS_ANNEXB) { oe = UREF_H26X_ENCAPS_ANNEXB; plen = 0; rep->excluded++; }
    bool model = (kind <= 3) && !es.overflow;       /* the NAL unit table of the reference encoder describes the stream */
    bool fvalid = valid && (model || kind == 4);
    if (model) for (int a = 0; a < es.nau; a++) if (!es.au[a].has_vcl) fvalid = false;
    bool oob = false, oob_record = false, oob_infer = false, oob_sc3 = false;
    int in_encaps = UREF_H26X_ENCAPS_ANNEXB;
    fm_table(h265, model, st, len, sstart, shdr, nsc, kind == 4 ? sizeof(h264_headers) + sizeof(h264_pic) : 0, 1 + m2 % 4);
    if (form != FORM_NONE) {
        if (psmode >= 2) oob = fm_collect_ps(h265, st, fvalid);
        if (form == FORM_LEN1 && fvalid)    /* a NAL unit longer than 255 octets has no 1-octet length: 2 octets then */
            for (int k = 0; k < nfnal; k++) if (!(oob && fnal[k].ps) && fnal[k].pend - fnal[k].hp > 255) form = FORM_LEN2;
        fm_build(st, form, oob);
        in_encaps = form == FORM_NALU ? UREF_H26X_ENCAPS_NALU : form == FORM_LEN4 ? UREF_H26X_ENCAPS_LENGTH4 : form == FORM_LEN2 ? UREF_H26X_ENCAPS_LENGTH2 :
                    form == FORM_LEN1 ? UREF_H26X_ENCAPS_LENGTH1 : UREF_H26X_ENCAPS_ANNEXB;
        ghdr_len = 0;
        if (oob) {
            int ls = form == FORM_LEN4 ? 4 : form == FORM_LEN2 ? 2 : 1;
            if (form == FORM_NALU || form == FORM_ANNEXB) {
                oob_sc3 = psmode == 3;
                ghdr_len = gh_write_annexb(ghdr, sizeof(ghdr), oobn, noob, oob_sc3);
                if (form == FORM_ANNEXB && psmode == 3) { oob_infer = true; in_encaps = -1; }
            } else {
                oob_record = true;
                if (h265) {
                    /* the general profile / tier / level octets, chroma format and bit depth of the first SPS */
                    uint8_t ptl[12] = { 0 }; int chroma = 1, depth = 0, nl = 1;
                    for (int k = 0; k < noob; k++) if (oobn[k].type == 33) {
                        uint8_t rb[24]; if (oobn[k].len > 2 && es_unescape(oobn[k].p + 2, oobn[k].len - 2, rb, sizeof(rb)) >= 13) memcpy(ptl, rb + 1, 12);
                        for (int q = 0; q < nfnal; q++) if (fnal[q].es >= 0 && st + fnal[q].hp == oobn[k].p) { chroma = es.nal[fnal[q].es].chroma; depth = es.nal[fnal[q].es].depth; nl = es.nal[fnal[q].es].subl + 1; }
                        break; }
                    ghdr_len = gh_write_hvcc(ghdr, sizeof(ghdr), oobn, noob, ls, ptl, chroma, depth, nl);
                } else {
                    int chroma = 1, depth = 0; bool high = false;
                    for (int k = 0; k < noob; k++) if (oobn[k].type == 7) {
                        high = oobn[k].len > 1 && (oobn[k].p[1] == 100 || oobn[k].p[1] == 110 || oobn[k].p[1] == 122 || oobn[k].p[1] == 144);
                        for (int q = 0; q < nfnal; q++) if (fnal[q].es >= 0 && st + fnal[q].hp == oobn[k].p) { chroma = es.nal[fnal[q].es].chroma; depth = es.nal[fnal[q].es].depth; }
                        break; }
                    ghdr_len = gh_write_avcc(ghdr, sizeof(ghdr), oobn, noob, ls, high && (m0 & 0x80), chroma, depth);
                }
                if (psmode == 3) { oob_infer = true; in_encaps = -1; }
            }
            if (ghdr_len == 0) {        /* does not fit a record: parameter sets in band after all */
                oob = oob_record = oob_infer = oob_sc3 = false;
                fm_build(st, form, false);
                in_encaps = form == FORM_NALU ? UREF_H26X_ENCAPS_NALU : form == FORM_LEN4 ? UREF_H26X_ENCAPS_LENGTH4 : form == FORM_LEN2 ? UREF_H26X_ENCAPS_LENGTH2 :
                            form == FORM_LEN1 ? UREF_H26X_ENCAPS_LENGTH1 : UREF_H26X_ENCAPS_ANNEXB;
            }
        }
        /* corrupt input: damage the buffers and the global headers as well */
        if (!valid && nframes > 0 && (m2 & 3)) {
            struct frame *f = &frames[(m2 >> 4) % nframes];
            int pl = form == FORM_LEN4 ? 4 : form == FORM_LEN2 ? 2 : form == FORM_LEN1 ? 1 : 0;
            switch (m2 & 3) {
            case 1: {
                int j = (m2 >> 6) % f->nk;
                if (pl) fbuf[f->off + fkn[f->k0 + j].at - 1] += 1 + ((m2 >> 2) & 3);      /* a length that no longer tiles the buffer */
                else if (form == FORM_NALU && f->nnoff) f->noff[j % f->nnoff] += 1;
                else fbuf[f->off + f->len / 2] ^= 0x80;
                break; }
            case 2: { size_t cutn = 1 + ((m2 >> 2) & 3); if (f->len > cutn) f->len -= cutn; while (f->nnoff && f->noff[f->nnoff - 1] >= f->len) f->nnoff--; break; }
            default: if (f == &frames[nframes - 1]) { static const uint8_t junk[4] = { 0xff, 0x00, 0x01, 0x80 }; size_t n = 1 + ((m2 >> 2) & 3); memcpy(fbuf + f->off + f->len, junk, n); f->len += n; }
                     else fbuf[f->off + f->len - 1] = 0;
                     break;
            }
        }
        if (!valid && oob && ghdr_len > 8 && (m2 & 12)) {
            switch ((m2 >> 2) & 3) {
            case 1: ghdr[((m2 >> 4) * 3 + 1) % ghdr_len] ^= 0x10 << ((m2 >> 6) & 1); break;
            case 2: ghdr_len -= 1 + (m2 >> 4) % 8; break;
            default:
                if (oob_record && ((m2 >> 6) & 1)) ghdr[h265 ? 21 : 4] = (ghdr[h265 ? 21 : 4] & 0xfc) | 2;    /* lengthSizeMinusOne 2: no such prefix */
                else ghdr[oob_record ? (h265 ? 22 : 5) : ghdr_len / 2] = 0xff;                                 /* a count larger than the record */
                break;
            }
        }
    }
    bool cut_in_sc = false, cut_after_sc = false, segcut = false;
    for (int i = 0; i < cut.n; i++) {
        if (cut.seg[i]) { segcut = true; continue; }
        for (int k = 0; k < nsc; k++) {
            if (cut.pos[i] > sstart[k] && cut.pos[i] < shdr[k]) cut_in_sc = true;
            if (cut.pos[i] == shdr[k]) cut_after_sc = true;
        }
    }

    uint64_t h = vp_hash_bytes(VP_HASH_INIT, st, len);
    h = vp_hash_mix(h, (uint64_t)oe << 16 | (uint64_t)h265 << 8 | kind);
    h = vp_hash_mix(h, (uint64_t)m0 << 16 | (uint64_t)(form != FORM_NONE && !valid ? m2 : 0) << 8 | g_ext);
    for (int i = 0; i < cut.n; i++) h = vp_hash_mix(h, cut.pos[i] * 2 + cut.seg[i]);

    if (render) {
        R("C17/framer %s %s stream of %zu octets", h265 ? "H.265" : "H.264",
          kind <= 3 ? "reference-encoded" : kind == 4 ? "recorded" : kind == 5 ? "mutated reference-encoded" : kind == 6 ? "mutated recorded" : "arbitrary", len);
        if (seed) R(" (%d copies of tests/upipe_h264_framer_test.h headers+picture)", ncopies);
        if (nmut) R(" (%d mutations)", nmut);
        R("\n");
        if (es.nnal && kind <= 3) {
            for (int a = 0; a < es.nau; a++) {
                R("  AU %d [%zu,%zu)%s:", a, es.au[a].start, es.au[a].end, es.au[a].has_vcl ? "" : " (no slice)");
                for (int k = es.au[a].nal0; k < es.au[a].nal1; k++) {
                    const struct nalrec *r = &es.nal[k];
                    R(" %s%d@%zu", r->hp - r->start == 4 ? "sc4/" : "sc3/", r->type, r->start);
                    if (r->vcl && !h265) R("(fn=%u pps=%d idr=%d ref=%d f=%d b=%d lsb=%u dpb=%d dp=%d,%d id=%u st=%d)", r->pic.frame_num, r->pic.pps_id, r->pic.idr, r->pic.ref_idc, r->pic.field, r->pic.bottom, r->pic.poc_lsb, r->pic.dpb, r->pic.dp0, r->pic.dp1, r->pic.idr_pic_id, r->pic.slice_type);
                    if (r->vcl && h265) R("(first=%d pps=%d st=%d)", r->pic.first_slice, r->pic.pps_id, r->pic.slice_type);
                }
                R("\n");
            }
        }
        R("  octets:");
        for (size_t i = 0; i < len && i < 400; i++) R(" %02x", st[i]);
        if (len > 400) R(" ...");
        R("\n  output encapsulation asked by the sink: %s", oe == UREF_H26X_ENCAPS_ANNEXB ? "ANNEXB" : oe == UREF_H26X_ENCAPS_LENGTH4 ? "LENGTH4" : oe == UREF_H26X_ENCAPS_LENGTH2 ? "LENGTH2" : "NALU");
        R("\n  cutting:");
        for (int i = 0; i < cut.n; i++) R(" %zu%s", cut.pos[i], cut.seg[i] ? "s" : "");
        R("\n");
        if (g_ext) R("  optional SPS syntax (seed %u):%s%s%s%s\n", g_ext, es.has_vui ? " VUI" : "", es.has_timing ? " timing" : "", es.has_hrd ? " HRD" : "", es.has_scaling ? " scaling lists" : "");
        if (want_global) R("  the sink asks for global headers (f.global)\n");
        if (form != FORM_NONE) {
            R("  also fed one access unit per buffer as %s%s%s: %d buffers;", formname[form], fseg ? ", two segments each" : "", fcomplete ? ", flow definition says complete access units" : "", nframes);
            if (oob) {
                R(" parameter sets only in the global headers (%s%s%s, %zu octets):", oob_record ? (h265 ? "hvcC" : "avcC") : "Annex B", oob_sc3 ? ", 3-octet start codes" : "", oob_infer ? ", no encapsulation attribute" : "", ghdr_len);
                for (size_t i = 0; i < ghdr_len && i < 120; i++) R(" %02x", ghdr[i]);
                if (ghdr_len > 120) R(" ...");
            } else R(" parameter sets in band");
            R("\n");
            for (int i = 0; i < nframes && i < 32; i++) {
                R("    buffer %d (%zu octets, NAL types", i, frames[i].len);
                for (int q = 0; q < frames[i].nk; q++) R(" %d/%zu", fnal[fkn[frames[i].k0 + q].fn].type, fkn[frames[i].k0 + q].len);
                if (form == FORM_NALU) { R("; offsets"); for (int q = 0; q < frames[i].nnoff; q++) R(" %zu", frames[i].noff[q]); }
                R("):");
                for (size_t q = 0; q < frames[i].len && q < 48; q++) R(" %02x", fbuf[frames[i].off + q]);
                if (frames[i].len > 48) R(" ...");
                R("\n");
            }
            if (!valid && (m2 & 15)) R("    (buffers / global headers damaged: m2=%02x)\n", m2);
        }
    }

    /* ---- three runs ---- */
    struct cutting none; memset(&none, 0, sizeof(none));
    do_run(&runs[0], h265, oe, want_global, st, len, &none, false);
    do_run(&runs[1], h265, oe, want_global, st, len, &none, true);
    do_run(&runs[2], h265, oe, want_global, st, len, &cut, false);

    for (int r = 0; r < 3 && ret == 0; r++)
        if (runs[r].err) ret = vp_internal(rep, "fixture (%s): %s", cutname[r], runs[r].err);

    if (render && ret == 0) {
        for (int r = 0; r < 3; r++) {
            R("  %s -> %d outputs:", cutname[r], runs[r].fx.nout);
            for (int i = 0; i < runs[r].fx.nout && i < 12; i++) {
                const struct fx_out *o = &runs[r].fx.out[i];
                R(" [%zu octets%s%s n=", o->size, o->key ? " key" : "", o->random ? " random" : "");
                for (int k = 0; k < o->noff; k++) R("%s%llu", k ? "," : "", (unsigned long long)o->off[k]);
                if (o->has_hdr) R(" hdr=%llu", (unsigned long long)o->hdr);
                R("]");
            }
            R(" events: sync_acquired=%d fatal=%d error=%d set_flow_def=%d\n", runs[r].fx.n_sync_acq, runs[r].fx.n_fatal, runs[r].fx.n_error, runs[r].fx.n_set_flow_def);
        }
    }

    if (render && getenv("C17_DUMP")) {     /* debugging aid: the stream and the outputs of the first run as files */
        char path[256];
        snprintf(path, sizeof(path), "%s/stream.bin", getenv("C17_DUMP"));
        FILE *f = fopen(path, "wb"); if (f) { fwrite(st, 1, len, f); fclose(f); }
        for (int i = 0; i < runs[0].fx.nout && i < 16; i++) {
            snprintf(path, sizeof(path), "%s/out%d.bin", getenv("C17_DUMP"), i);
            f = fopen(path, "wb"); if (f) { if (runs[0].fx.out[i].size != (size_t)-1) fwrite(runs[0].fx.out[i].bytes, 1, runs[0].fx.out[i].size, f); fclose(f); }
        }
    }

    /* ---- S and V per run ---- */
    bool prefix_ps = false;
    for (int r = 0; r < 3 && ret == 0; r++) {
        const struct fx *fx = &runs[r].fx;
        static size_t pq[256], pp[256];
        int bad = 0;
        if (fx->nout > 256) { ret = vp_internal(rep, "more than 256 outputs"); break; }
        const char *m = oe == UREF_H26X_ENCAPS_ANNEXB ? check_pieces(h265, fx, st, len, pq, pp, &bad, msg, sizeof(msg)) : NULL;
        if (m) { ret = vp_fail(rep, "C17/framer/pieces", "%s: %s", cutname[r], m); break; }
        if (!valid) continue;
        /* V: expected access units */
        int nexp = 0; int expi[ES_MAXAU];
        if (seed) nexp = ncopies;
        else for (int a = 0; a < es.nau; a++) if (es.au[a].has_vcl) expi[nexp++] = a;
        int no = 0;
        for (int x = 0; x < nexp && ret == 0; x++, no++) {
            size_t as, ae;
            if (seed) { as = x * (sizeof(h264_headers) + sizeof(h264_pic)); ae = (x + 1) * (sizeof(h264_headers) + sizeof(h264_pic)); }
            else { as = es.au[expi[x]].start; ae = es.au[expi[x]].end; }
            if (no >= fx->nout) {
                ret = vp_fail(rep, "C17/framer/missing", "%s: access unit %d of %d (octets [%zu,%zu) of the stream, follows valid parameter sets) was never output; %d outputs in all", cutname[r], x, nexp, as, ae, fx->nout);
                break;
            }
            const struct fx_out *o = &fx->out[no];
            if (oe != UREF_H26X_ENCAPS_ANNEXB) {
                /* the access unit re-serialised by the harness: [length] NAL unit ..., offsets at each NAL unit */
                static uint8_t ex[ES_MAX * 2];
                static size_t s2[512], h2[512];
                size_t el = 0, eoff[512]; int nn = 0;
                int n2 = es_scan(st + as, ae - as, s2, h2, 512);
                for (int k = 0; k < n2; k++) {
                    size_t b = as + h2[k], e2 = k + 1 < n2 ? as + s2[k + 1] : ae, nl = e2 - b;
                    eoff[nn++] = el;
                    if (plen == 4) { ex[el++] = nl >> 24; ex[el++] = nl >> 16; }
                    if (plen) { ex[el++] = nl >> 8; ex[el++] = nl; }
                    memcpy(ex + el, st + b, nl); el += nl;
                }
                if (o->size != el || memcmp(o->bytes, ex, el)) {
                    size_t k = 0; while (k < el && k < o->size && o->bytes[k] == ex[k]) k++;
                    ret = vp_fail(rep, "C17/framer/converted", "%s: output %d (%zu octets, %s requested) is not access unit %d = octets [%zu,%zu) re-serialised with %d-octet lengths (%zu octets; first difference at %zu)", cutname[r], no, o->size, plen ? "lengths" : "bare NAL units", x, as, ae, plen, el, k);
                    break;
                }
                bool ok = (o->noff == nn - 1) || (o->noff == nn && o->off[nn - 1] == o->size);
                for (int q = 0; ok && q < nn - 1; q++) if (o->off[q] != eoff[q + 1]) ok = false;
                if (!ok && !fx->out_truncated) {
                    char a[200] = "", b[200] = ""; size_t la = 0, lb = 0;
                    for (int q = 0; q < o->noff && la < 180; q++) la += snprintf(a + la, sizeof(a) - la, " %llu", (unsigned long long)o->off[q]);
                    for (int q = 1; q < nn && lb < 180; q++) lb += snprintf(b + lb, sizeof(b) - lb, " %zu", eoff[q]);
                    ret = vp_fail(rep, "C17/framer/converted-offsets", "%s: output %d (%zu octets, converted): NAL offset attributes are {%s }, its NAL units start at {%s }", cutname[r], no, o->size, a, b);
                    break;
                }
                continue;
            }
            size_t L = ae - as;
            if (o->size < L || memcmp(o->bytes + (o->size - L), st + as, L)) {
                ret = vp_fail(rep, "C17/framer/au", "%s: output %d (%zu octets) does not end with access unit %d = octets [%zu,%zu) of the stream (%zu octets); its piece of the input is [%zu,%zu)", cutname[r], no, o->size, x, as, ae, L, pq[no], pq[no] + o->size - pp[no]);
                break;
            }
            size_t P = o->size - L;
            /* prefix: NAL units of the allowed types; parameter sets octet-identical to ones of the stream */
            size_t ostart[64], ohdr[64];
            int on = es_scan(o->bytes, o->size, ostart, ohdr, 64);
            size_t pos = 0; int k = 0;
            size_t nalstart[FX_MAXOFF + 24]; int nn = 0;
            while (pos < P && ret == 0) {
                if (k >= on || ostart[k] != pos || !is_prefix_type(h265, o->bytes + ohdr[k])) {
                    ret = vp_fail(rep, "C17/framer/prefix", "%s: output %d carries %zu octets before access unit %d that are not AUD / parameter set NAL units (offset %zu)", cutname[r], no, P, x, pos);
                    break;
                }
                size_t nend = k + 1 < on && ohdr[k + 1] - 3 < P ? ostart[k + 1] : P;   /* a zero octet right before the access unit's own 3-octet start code belongs to the prepended NAL unit */
                int ty = h265 ? (o->bytes[ohdr[k]] >> 1) & 0x3f : o->bytes[ohdr[k]] & 0x1f;
                bool isps = h265 ? ty != 35 : ty != 9;
                if (isps && !seed) {
                    bool found = false;
                    for (int q = 0; q < es.nnal && !found; q++) {
                        const struct nalrec *n = &es.nal[q];
                        if (n->type == ty && n->hp < ae && n->end - n->hp == nend - ohdr[k] && !memcmp(st + n->hp, o->bytes + ohdr[k], nend - ohdr[k])) found = true;
                    }
                    if (!found) ret = vp_fail(rep, "C17/framer/prefix", "%s: output %d has a prepended NAL unit of type %d (%zu octets) that is not octet-identical to any parameter set sent before the end of access unit %d", cutname[r], no, ty, nend - ohdr[k], x);
                    prefix_ps = true;
                }
                if (nn < FX_MAXOFF + 24) nalstart[nn++] = pos;
                pos = nend; k++;
            }
            if (ret) break;
            /* NAL offset attributes */
            if (!seed) {
                for (int q = es.au[expi[x]].nal0; q < es.au[expi[x]].nal1 && nn < FX_MAXOFF + 24; q++) nalstart[nn++] = P + es.nal[q].start - as;
                bool ok = (o->noff == nn - 1) || (o->noff == nn && o->off[nn - 1] == o->size);
                for (int q = 0; ok && q < nn - 1; q++) if (o->off[q] != nalstart[q + 1]) ok = false;
                if (!ok && !fx->out_truncated) {
                    char a[200] = "", b[200] = ""; size_t la = 0, lb = 0;
                    for (int q = 0; q < o->noff && la < 180; q++) la += snprintf(a + la, sizeof(a) - la, " %llu", (unsigned long long)o->off[q]);
                    for (int q = 1; q < nn && lb < 180; q++) lb += snprintf(b + lb, sizeof(b) - lb, " %zu", nalstart[q]);
                    ret = vp_fail(rep, "C17/framer/nal-offsets", "%s: output %d (%zu octets, access unit %d): NAL offset attributes are {%s }, its NAL units start at {%s } (one more attribute equal to the size is tolerated)", cutname[r], no, o->size, x, a, b);
                    break;
                }
            }
        }
        if (ret == 0 && no < fx->nout)
            ret = vp_fail(rep, "C17/framer/extra", "%s: %d outputs for %d access units; output %d has %zu octets", cutname[r], fx->nout, nexp, no, fx->out[no].size);
        if (ret == 0 && (fx->n_fatal || fx->n_error))
            ret = vp_fail(rep, "C17/framer/event", "%s: %d fatal and %d error events on a valid stream", cutname[r], fx->n_fatal, fx->n_error);
        if (ret == 0 && nexp && fx->n_sync_acq != 1)
            ret = vp_fail(rep, "C17/framer/event", "%s: sync_acquired thrown %d times on a valid stream", cutname[r], fx->n_sync_acq);
    }

    /* ---- M ---- */
    for (int r = 1; r < 3 && ret == 0; r++) {
        const struct fx *a = &runs[0].fx, *b = &runs[r].fx;
        int n = a->nout < b->nout ? a->nout : b->nout;
        for (int i = 0; i < n && ret == 0; i++) {
            char why[200]; bool attr_only;
            if (!out_equal(&a->out[i], &b->out[i], why, sizeof(why), &attr_only))
                ret = vp_fail(rep, attr_only ? "C17/cutting/attributes" : "C17/cutting/octets", "same stream, output %d differs between '%s' and '%s': %s", i, cutname[0], cutname[r], why);
        }
        if (ret == 0 && a->nout != b->nout)
            ret = vp_fail(rep, "C17/cutting/count", "same stream: %d outputs as %s, %d outputs as %s", a->nout, cutname[0], b->nout, cutname[r]);
    }

    /* ---- D: the same stream and cutting, one buffer carrying the discontinuity attribute (reference streams, Annex B
     * asked). The framers then drop or flag what they were receiving (upipe_h26xf_end_annexb); the property does not
     * say how much may go, so the oracle only binds what lies clear of the flagged buffer: with a0 the access unit the
     * buffer begins in, the outputs of the access units up to a0 - 3 are those of the unflagged run; and from the first
     * access unit r >= a0 + 2 by which every parameter set sent up to a0 + 1 has been sent again (VPS before SPS before
     * PPS; r = a0 + 2 when a0 - 1 .. a0 + 1 hold no parameter set at all) "every access unit that follows valid
     * parameter sets is output": the last outputs are, octets, NAL offsets, key / random access flags and slice type,
     * those of the unflagged run (error flag and picture number aside; the first of them may carry non-slice NAL units
     * of the lost access units in front). S holds for all outputs. */
    bool disc = false, disc_resent = false;
    if (ret == 0 && m3 != 0 && model && valid && !es.overflow && oe == UREF_H26X_ENCAPS_ANNEXB && es.nau >= 1 && runs[2].fx.nout <= 256) {
        static struct run rd;
        g_disc_buf = (m3 - 1) % (cut.n + 1);
        do_run(&rd, h265, oe, want_global, st, len, &cut, false);
        g_disc_buf = -1;
        if (rd.err) ret = vp_internal(rep, "fixture (discontinuity run): %s", rd.err);
        else if (g_disc_done) {
            const struct fx *fd = &rd.fx, *fr = &runs[2].fx;
            size_t X = g_disc_at;
            int a0 = -1;
            for (int a = 0; a < es.nau; a++) if (es.au[a].start <= X && X < es.au[a].end) a0 = a;
            if (a0 < 0) a0 = X < es.au[0].start ? 0 : es.nau - 1;
            disc = true;
            R("  discontinuity run: buffer %d (from octet %zu, access unit %d) flagged -> %d outputs\n", (m3 - 1) % (cut.n + 1), X, a0, fd->nout);
            static size_t dq[256], dp[256]; int bad = 0;
            if (fd->nout > 256) ret = vp_internal(rep, "more than 256 outputs");
            const char *m = ret == 0 ? check_pieces(h265, fd, st, len, dq, dp, &bad, msg, sizeof(msg)) : NULL;
            if (m) ret = vp_fail(rep, "C17/discontinuity/pieces", "buffer from octet %zu flagged as discontinuity: %s", X, m);
            /* prefix */
            int xp = 0;
            for (int a = 0; a < es.nau && a <= a0 - 3; a++) if (es.au[a].has_vcl) xp++;
            for (int i = 0; i < xp && ret == 0; i++) {
                char why[200]; bool attr_only;
                if (i >= fd->nout) { ret = vp_fail(rep, "C17/discontinuity/before", "buffer from octet %zu (access unit %d) flagged as discontinuity: output %d, complete long before it, is missing (%d outputs)", X, a0, i, fd->nout); break; }
                if (!out_equal(&fr->out[i], &fd->out[i], why, sizeof(why), &attr_only))
                    ret = vp_fail(rep, "C17/discontinuity/before", "buffer from octet %zu (access unit %d) flagged as discontinuity: output %d, complete long before it, differs from the unflagged run: %s", X, a0, i, why);
            }
            /* r */
            int r = -1;
            bool window_ps = false;
            for (int a = a0 - 1 < 0 ? 0 : a0 - 1; a <= a0 + 1 && a < es.nau; a++)
                for (int k = es.au[a].nal0; k < es.au[a].nal1; k++) if (is_ps_type(h265, es.nal[k].type)) window_ps = true;
            if (!window_ps) { if (a0 + 2 < es.nau) r = a0 + 2; }
            else {
                static bool need[3][256]; int outst[3] = { 0, 0, 0 };
                memset(need, 0, sizeof(need));
                for (int a = 0; a <= a0 + 1 && a < es.nau; a++)
                    for (int k = es.au[a].nal0; k < es.au[a].nal1; k++) if (is_ps_type(h265, es.nal[k].type)) {
                        int rk = ps_rank(h265, es.nal[k].type), id = es.nal[k].id & 255;
                        if (!need[rk][id]) { need[rk][id] = true; outst[rk]++; }
                    }
                for (int a = a0 + 2; a < es.nau && r < 0; a++) {
                    for (int k = es.au[a].nal0; k < es.au[a].nal1; k++) if (is_ps_type(h265, es.nal[k].type)) {
                        int rk = ps_rank(h265, es.nal[k].type), id = es.nal[k].id & 255;
                        bool lower = true; for (int q = 0; q < rk; q++) if (outst[q]) lower = false;
                        if (lower && need[rk][id]) { need[rk][id] = false; outst[rk]--; }
                    }
                    if (outst[0] + outst[1] + outst[2] == 0) r = a;
                }
                if (r >= 0) disc_resent = true;
            }
            if (r >= 0 && ret == 0) {
                int xr = 0, nref = fr->nout;
                for (int a = 0; a < r; a++) if (es.au[a].has_vcl) xr++;
                int T = nref - xr;
                if (T > 0 && fd->nout < T)
                    ret = vp_fail(rep, "C17/discontinuity/after", "buffer from octet %zu (access unit %d) flagged as discontinuity: %d outputs, but the %d access units from number %d on (octet %zu) follow parameter sets sent again after it", X, a0, fd->nout, T, r, es.au[r].start);
                for (int i = 0; i < T && ret == 0; i++) {
                    const struct fx_out *a = &fr->out[xr + i], *b = &fd->out[fd->nout - T + i];
                    const char *why = NULL;
                    /* the first of them may come with non-slice NAL units of the lost access units in front (nothing
                     * told the framer that an access unit ended there): it ends with the access unit then */
                    if (i == 0 && b->size != (size_t)-1) {
                        int ar = r; while (ar < es.nau && !es.au[ar].has_vcl) ar++;
                        size_t L = ar < es.nau ? es.au[ar].end - es.au[ar].start : 0;
                        if (L && b->size > L && !memcmp(b->bytes + (b->size - L), st + es.au[ar].start, L)) continue;
                    }
                    if (a->size != b->size || (a->size != (size_t)-1 && memcmp(a->bytes, b->bytes, a->size))) why = "octets";
                    else if (a->noff != b->noff || memcmp(a->off, b->off, a->noff * sizeof(a->off[0]))) why = "NAL offset attributes";
                    else if (a->key != b->key) why = "key flag";
                    else if (a->random != b->random) why = "random access flag";
                    else if (a->has_type != b->has_type || (a->has_type && a->type != b->type)) why = "slice type";
                    if (why)
                        ret = vp_fail(rep, "C17/discontinuity/after", "buffer from octet %zu (access unit %d) flagged as discontinuity: access unit %d (octets [%zu,..), %d from the end), which follows parameter sets sent again after it, is not output as in the unflagged run: %s differ (%zu and %zu octets)", X, a0, r + i, es.au[r].start, T - i, why, a->size, b->size);
                }
            }
        }
        end_run(&rd);
        if (ret == 0 && rd.audit) ret = vp_fail(rep, "C17/framer/leak", "discontinuity run: after releasing the framer: %s", rd.audit);
    }

    /* the flow definitions the sink received: the same under all cuttings */
    for (int r = 1; r < 3 && ret == 0; r++) {
        const struct fx *a = &runs[0].fx, *b = &runs[r].fx;
        if (a->fd_truncated || b->fd_truncated) continue;
        if (a->nfd != b->nfd) { ret = vp_fail(rep, "C17/cutting/flow-def", "same stream: the sink received %d flow definitions as %s, %d as %s", a->nfd, cutname[0], b->nfd, cutname[r]); break; }
        for (int k = 0; k < a->nfd && ret == 0; k++) {
            const struct fx_flowdef *x = &a->fd[k], *y = &b->fd[k];
            static uint8_t nx[GH_MAX], ny[GH_MAX];
            size_t lx = x->has_headers ? gh_normalised(x->h, x->hlen, h265, nx, sizeof(nx)) : 0, ly = y->has_headers ? gh_normalised(y->h, y->hlen, h265, ny, sizeof(ny)) : 0;
            if (x->at_nout != y->at_nout || x->has_headers != y->has_headers || x->hlen != y->hlen || lx != ly || memcmp(nx, ny, lx))
            {
                size_t dd = 0; while (dd < lx && dd < ly && nx[dd] == ny[dd]) dd++;
                ret = vp_fail(rep, "C17/cutting/flow-def", "same stream: flow definition %d differs between '%s' (before output %d, %s%zu octets of global headers) and '%s' (before output %d, %s%zu octets); first different octet: %zu", k,
                              cutname[0], x->at_nout, x->has_headers ? "" : "no/", x->hlen, cutname[r], y->at_nout, y->has_headers ? "" : "no/", y->hlen, dd);
            }
        }
    }

    /* ---- G on the octet stream runs ---- */
    bool global_built = false;
    static int first_vcl[256];
    if (want_global && valid && ret == 0) {
        int nexp = 0;
        if (model) for (int a = 0; a < es.nau && nexp < 256; a++) if (es.au[a].has_vcl) {
            int v = -1; for (int k = es.au[a].nal0; k < es.au[a].nal1 && v < 0; k++) if (es.nal[k].vcl) v = k;
            first_vcl[nexp++] = v; }
        for (int r = 0; r < 3 && ret == 0; r++)
            ret = check_global(rep, cutname[r], &runs[r].fx, h265, oe, st, model, model && runs[r].fx.nout <= nexp ? first_vcl : NULL, NULL, 0, &global_built);
    }

    /* ---- the same access units, one per buffer ---- */
    int nfruns = 0; bool refused1 = false, ex_counted = false;
    if (form != FORM_NONE && nframes > 0 && ret == 0) {
        struct fx_input in = { in_encaps, oob ? ghdr : NULL, oob ? ghdr_len : 0, fcomplete };
        for (int x = 0; x < 5; x++) {
            struct run *r = &fruns[x];
            memset(r, 0, sizeof(*r));
            nfruns = x + 1;
            if (x == 0 && !fvalid && ex_no_annexb && !h265) { r->skipped = true; rep->excluded++; continue; }
            if (x > 0 && ex_h265_scan) { r->skipped = true; if (x == 1) rep->excluded++; continue; }
            r->err = fx_open_ex(&r->fx, h265, fouts[x], want_global, &in);
            for (int i = 0; i < nframes && !r->err; i++) {
                const struct frame *f = &frames[i];
                size_t seglen[2] = { f->len, 0 }; int nseg = 1;
                if (fseg && f->len >= 2) { seglen[0] = f->nk > 1 ? fkn[f->k0 + 1].at - 1 : f->len / 2; if (seglen[0] == 0 || seglen[0] >= f->len) seglen[0] = f->len / 2; seglen[1] = f->len - seglen[0]; nseg = 2; }
                r->err = fx_feed_frame(&r->fx, fbuf + f->off, seglen, nseg, f->noff, form == FORM_NALU ? f->nnoff : 0);
            }
            fx_release_framer(&r->fx);
            if (r->err) { ret = vp_internal(rep, "fixture (access unit per buffer, %s asked): %s", encname(fouts[x]), r->err); break; }
        }
        if (render && ret == 0) {
            for (int x = 0; x < nfruns; x++) {
                const struct fx *fx = &fruns[x].fx;
                if (fruns[x].skipped) continue;
                R("  one access unit per buffer, %s asked -> %d outputs:", encname(fouts[x]), fx->nout);
                for (int i = 0; i < fx->nout && i < 12; i++) {
                    const struct fx_out *o = &fx->out[i];
                    R(" [%zu octets%s%s n=", o->size, o->key ? " key" : "", o->random ? " random" : "");
                    for (int k = 0; k < o->noff; k++) R("%s%llu", k ? "," : "", (unsigned long long)o->off[k]);
                    if (o->has_hdr) R(" hdr=%llu", (unsigned long long)o->hdr);
                    R("]");
                }
                R(" events: fatal=%d error=%d set_flow_def=%d", fx->n_fatal, fx->n_error, fx->n_set_flow_def);
                for (int k = 0; k < fx->nfd && k < 4; k++) R(" flowdef@%d(%s%zu octets of global headers)", fx->fd[k].at_nout, fx->fd[k].has_headers ? "" : "no/", fx->fd[k].hlen);
                R("\n");
            }
        }
        for (int x = 0; x < nfruns && ret == 0; x++) {
            const struct fx *fx = &fruns[x].fx;
            uint8_t X = fouts[x];
            if (fruns[x].skipped) continue;
            char what[96]; snprintf(what, sizeof(what), "%s input, %s asked", formname[form], encname(X));
            static size_t st0[FM_MAXK + 40], ps[FM_MAXK + 40], pl[FM_MAXK + 40];
            char why[200];
            /* P: nothing but the buffers themselves when no conversion is asked */
            if (X == in_encaps && X != UREF_H26X_ENCAPS_ANNEXB) {
                int fi = 0;
                for (int i = 0; i < fx->nout && ret == 0; i++) {
                    const struct fx_out *o = &fx->out[i];
                    while (fi < nframes && !(frames[fi].len == o->size && !memcmp(fbuf + frames[fi].off, o->bytes, o->size))) fi++;
                    if (fi == nframes) ret = vp_fail(rep, "C17/frames/passthrough", "%s: output %d (%zu octets) is not one of the input buffers that follow the previous output's", what, i, o->size);
                    fi++;
                }
            }
            if (!fvalid || ret) continue;
            /* F */
            int no = 0, refused = 0;
            for (int i = 0; i < nframes && ret == 0; i++) {
                const struct frame *f = &frames[i];
                if (X == UREF_H26X_ENCAPS_LENGTH1 && f->big1) { refused++; refused1 = true; continue; }
                if (no >= fx->nout) { ret = vp_fail(rep, "C17/frames/missing", "%s: buffer %d (access unit %d, %zu octets, %d NAL units, follows valid parameter sets) was never output; %d outputs in all, %d error events", what, i, f->au, f->len, f->nk, fx->nout, fx->n_error); break; }
                const struct fx_out *o = &fx->out[no];
                int c = out_nals(o, X, st0, ps, pl, FM_MAXK + 40, why, sizeof(why));
                if (c < 0) { ret = vp_fail(rep, "C17/frames/encapsulation", "%s: output %d (%zu octets) is not in the encapsulation asked for: %s", what, no, o->size, why); break; }
                if (!out_offsets_ok(o, X, st0, ps, c) && !fx->out_truncated) {
                    char a[200], b[200]; uint64_t e64[FM_MAXK + 40];
                    fmt_list(a, sizeof(a), o->off, o->noff);
                    for (int q = 1; q < c; q++) e64[q - 1] = st0[q];
                    fmt_list(b, sizeof(b), e64, c - 1);
                    ret = vp_fail(rep, "C17/frames/nal-offsets", "%s: output %d (%zu octets): NAL offset attributes are {%s }, its NAL units start at {%s }", what, no, o->size, a, b);
                    break;
                }
                int P = c - f->nk;
                if (P < 0 || (P > 0 && X != UREF_H26X_ENCAPS_ANNEXB)) { ret = vp_fail(rep, "C17/frames/nal-count", "%s: output %d has %d NAL units, buffer %d held %d", what, no, c, i, f->nk); break; }
                for (int q = 0; q < f->nk && ret == 0; q++) {
                    const struct fkn *n = &fkn[f->k0 + q];
                    const uint8_t *ip = fbuf + f->off + n->at; size_t il = strip_tz(ip, n->len);
                    if (pl[P + q] != il || memcmp(o->bytes + ps[P + q], ip, il)) {
                        size_t d = 0; while (d < il && d < pl[P + q] && o->bytes[ps[P + q] + d] == ip[d]) d++;
                        ret = vp_fail(rep, "C17/frames/payload", "%s: output %d, NAL unit %d (%zu octets at %zu) is not NAL unit %d of buffer %d (type %d, %zu octets): first difference at octet %zu", what, no, P + q, pl[P + q], ps[P + q], q, i, fnal[n->fn].type, il, d);
                    }
                }
                for (int q = 0; q < P && ret == 0; q++) {
                    int ty = h265 ? (o->bytes[ps[q]] >> 1) & 0x3f : o->bytes[ps[q]] & 0x1f;
                    if (pl[q] == 0 || !is_prefix_type(h265, o->bytes + ps[q])) { ret = vp_fail(rep, "C17/frames/prefix", "%s: output %d carries a NAL unit of type %d before the access unit that is not an AUD / parameter set", what, no, ty); break; }
                    if (!is_ps_type(h265, ty)) continue;
                    bool found = false;
                    for (int z = 0; z < nfnal && !found; z++)
                        if (fnal[z].ps && fnal[z].type == ty && fnal[z].pend - fnal[z].hp == pl[q] && !memcmp(st + fnal[z].hp, o->bytes + ps[q], pl[q])) found = true;
                    if (!found) ret = vp_fail(rep, "C17/frames/prefix", "%s: output %d has a prepended NAL unit of type %d (%zu octets) that is not octet-identical to any parameter set that was sent", what, no, ty, pl[q]);
                    prefix_ps = true;
                }
                if (ret) break;
                /* E: against the octet-stream run */
                if (i < runs[0].fx.nout && (model || kind == 4)) {
                    const struct fx_out *a = &runs[0].fx.out[i];
                    char diff[160] = "";
                    bool skip_type = ex_h265_attr;
                    if (ex_h264_poc && model && h264_poc_only_boundary(f->au)) { skip_type = true; if (!ex_counted) { rep->excluded++; ex_counted = true; } }
                    if (skip_type) { if (!ex_counted) { rep->excluded++; ex_counted = true; } }
                    else if (a->key != o->key) snprintf(diff, sizeof(diff), "key flag %d / %d", a->key, o->key);
                    if (diff[0]) ;
                    else if (a->random != o->random) snprintf(diff, sizeof(diff), "random access flag %d / %d", a->random, o->random);
                    else if (a->error != o->error) snprintf(diff, sizeof(diff), "error flag %d / %d", a->error, o->error);
                    else if (skip_type) ;
                    else if (a->has_type != o->has_type || (a->has_type && a->type != o->type)) snprintf(diff, sizeof(diff), "slice type %s%u / %s%u", a->has_type ? "" : "absent:", a->type, o->has_type ? "" : "absent:", o->type);
                    else if (a->has_num != o->has_num || (a->has_num && a->num != o->num)) snprintf(diff, sizeof(diff), "picture number %s%llu / %s%llu", a->has_num ? "" : "absent:", (unsigned long long)a->num, o->has_num ? "" : "absent:", (unsigned long long)o->num);
                    if (diff[0]) { ret = vp_fail(rep, "C17/encaps/attributes", "access unit %d: as an octet stream (%s asked) and as %s: %s", f->au, encname(oe), what, diff); break; }
                    if (X == UREF_H26X_ENCAPS_ANNEXB && oe == UREF_H26X_ENCAPS_ANNEXB && !oob && !skip_type) {
                        static size_t st1[FM_MAXK + 40], ps1[FM_MAXK + 40], pl1[FM_MAXK + 40];
                        int c1 = out_nals(a, oe, st1, ps1, pl1, FM_MAXK + 40, why, sizeof(why));
                        if (c1 >= 0) {
                            bool same = c1 == c;
                            for (int q = 0; same && q < c; q++) if (pl1[q] != pl[q] || memcmp(a->bytes + ps1[q], o->bytes + ps[q], pl[q])) same = false;
                            if (!same) { ret = vp_fail(rep, "C17/encaps/nal-units", "access unit %d written as Annex B: %d NAL units when it arrived in the octet stream, %d as %s (or their octets differ)", f->au, c1, c, what); break; }
                        }
                    }
                }
                no++;
            }
            if (ret == 0 && no < fx->nout)
                ret = vp_fail(rep, "C17/frames/extra", "%s: %d outputs for %d buffers (%d refused); output %d has %zu octets", what, fx->nout, nframes, refused, no, fx->out[no].size);
            if (ret == 0 && (fx->n_fatal || fx->n_error != refused))
                ret = vp_fail(rep, "C17/frames/event", "%s: %d fatal and %d error events on valid access units (%d refusals expected)", what, fx->n_fatal, fx->n_error, refused);
            /* G */
            if (ret == 0 && want_global) {
                static int fv[FM_MAXFR]; int nn = 0;
                for (int i = 0; i < nframes; i++) {
                    if (X == UREF_H26X_ENCAPS_LENGTH1 && frames[i].big1) continue;
                    int v = -1;
                    for (int q = 0; q < frames[i].nk && v < 0; q++) if (fnal[fkn[frames[i].k0 + q].fn].vcl) v = fnal[fkn[frames[i].k0 + q].fn].es;
                    fv[nn++] = v;
                }
                ret = check_global(rep, what, fx, h265, X, st, model, model ? fv : NULL, oob ? ghdr : NULL, oob ? ghdr_len : 0, &global_built);
            }
        }
        for (int x = 0; x < nfruns; x++) {
            if (fruns[x].skipped) continue;
            end_run(&fruns[x]);
            if (ret == 0 && fruns[x].audit)
                ret = vp_fail(rep, "C17/frames/leak", "%s input, %s asked: after releasing the framer: %s", formname[form], encname(fouts[x]), fruns[x].audit);
        }
    }

    int nout0 = runs[0].fx.nout;
    for (int r = 0; r < 3; r++) {
        end_run(&runs[r]);
        if (ret == 0 && runs[r].audit)
            ret = vp_fail(rep, "C17/framer/leak", "%s: after releasing the framer: %s", cutname[r], runs[r].audit);
    }

    rep->case_hash = h;
    if (cut_in_sc) rep->classes |= 1u << CL_CUT_IN_SC;
    if (len > 1) rep->classes |= 1u << CL_ONEBYTE;
    if (!valid) rep->classes |= 1u << CL_CORRUPT;
    if (h265) rep->classes |= 1u << CL_H265;
    if (valid && !seed) rep->classes |= 1u << CL_VALID;
    if (kind == 4) rep->classes |= 1u << CL_SEED;
    if (nout0 >= 2) rep->classes |= 1u << CL_MULTI_AU;
    if (nout0 >= 4) rep->classes |= 1u << CL_MANY_AU;
    for (int k = 0; k < nsc; k++) if (shdr[k] - sstart[k] == 3) { rep->classes |= 1u << CL_3SC; break; }
    for (int k = 1; k < nsc; k++) if (sstart[k] >= 1 && st[sstart[k] - 1] == 0) { rep->classes |= 1u << CL_TZ; break; }
    if (nsc && sstart[0] > 0 && st[0] == 0) rep->classes |= 1u << CL_LEADZ;
    if (prefix_ps) rep->classes |= 1u << CL_PREFIX_PS;
    if (segcut) rep->classes |= 1u << CL_SEGCUT;
    if (kind == 5 || kind == 6) rep->classes |= 1u << CL_MUTATED;
    if (kind == 7) rep->classes |= 1u << CL_ARBITRARY;
    for (size_t i = 2; i < len; i++) if (st[i] == 3 && st[i - 1] == 0 && st[i - 2] == 0) { rep->classes |= 1u << CL_ESC; break; }
    if (nout0 == 0) rep->classes |= 1u << CL_NOOUT;
    if (cut_after_sc) rep->classes |= 1u << CL_CUT_AFTER_SC;
    if (oe != UREF_H26X_ENCAPS_ANNEXB) rep->classes |= 1u << CL_CONVERTED;
    if (nfruns) {
        rep->classes |= 1ull << CL_FRAMES;
        if (form == FORM_NALU) rep->classes |= 1ull << CL_F_NALU;
        if (form == FORM_LEN4 || form == FORM_LEN2 || form == FORM_LEN1) rep->classes |= 1ull << CL_F_LEN;
        if (form == FORM_LEN1) rep->classes |= 1ull << CL_F_LEN1;
        if (form == FORM_ANNEXB) rep->classes |= 1ull << CL_F_ANNEXB;
        if (fvalid) rep->classes |= 1ull << CL_F_VALID; else rep->classes |= 1ull << CL_F_CORRUPT;
        if (oob) rep->classes |= 1ull << CL_OOB;
        if (oob_record) rep->classes |= 1ull << CL_OOB_RECORD;
        if (oob_infer) rep->classes |= 1ull << CL_OOB_INFER;
        if (fseg) rep->classes |= 1ull << CL_F_SEG;
        if (fcomplete) rep->classes |= 1ull << CL_F_COMPLETE;
        if (nframes >= 2) rep->classes |= 1ull << CL_F_MULTI;
        if (refused1) rep->classes |= 1ull << CL_REFUSED1;
    }
    if (want_global) rep->classes |= 1ull << CL_WANT_GLOBAL;
    if (disc) rep->classes |= 1ull << CL_DISC;
    if (disc_resent) rep->classes |= 1ull << CL_DISC_RESENT;
    if (global_built) rep->classes |= 1ull << CL_GLOBAL_BUILT;
    if (es.has_vui) rep->classes |= 1ull << CL_VUI;
    if (es.has_hrd) rep->classes |= 1ull << CL_HRD;
    if (es.has_timing) rep->classes |= 1ull << CL_TIMING;
    if (es.has_scaling) rep->classes |= 1ull << CL_SCALING;
    rep->nontrivial = cut_in_sc && nout0 >= 2;
    return ret;
}

const struct vp_executor vp_executor = { "C17", "framer", 512, class_names, run, NULL };

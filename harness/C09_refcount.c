/* C09 — a reference count runs its destructor exactly once, even under races (executor "refcount").
 *
 * 2-3 logical threads (coroutines of engine/sched.c over the real urefcount.h / uatomic.h) share one
 * refcounted object. The tape distributes the initial references (thread 0 owns the creator's
 * reference) and gives every thread a program of use / release; an operation is only executed while
 * the thread holds a reference (the property's precondition), and every thread finally releases what
 * it still holds, so the total always returns to zero. The UPIPE_VERIF hooks make every uatomic
 * operation a scheduling point.
 *
 * Oracle: the destructor call-back runs exactly once by the end; at the instant it runs the harness'
 * outstanding-reference counter is zero (a reference is "outstanding" from the moment its use()
 * returns / it was handed out until the step in which its release() performs its first shared
 * access); urefcount_use never reports a dead refcount to a thread that holds a reference.
 *
 * Extra mode: --extra enum --template NAME|all --bound K: all schedules with <= K preemptions of small
 * template programs (K >= 64 = every interleaving; the operations are one or two steps long).
 * Built without ASan (semantic oracle, static object).
 */
#undef NDEBUG
#include "vp.h"
#include "tape.h"
#include "vsched.h"

#include "upipe/ubase.h"
#include "upipe/uatomic.h"
#include "upipe/urefcount.h"

#include <stdio.h>
#include <stdlib.h>
#include <string.h>

#define MAXT 3
#define MAXOPS 4
enum { OP_RELEASE = 0, OP_USE = 1 };

enum { CL_REL_OVERLAP, CL_USE_REL_OVERLAP, CL_LAST_TWO_DIFFERENT, CL_3THREADS, CL_POL_TAPE, CL_POL_PCT,
       CL_POL_PREFIX, CL_USE_DONE, CL_NOREF_THREAD, CL_PREEMPT };
static const char *const class_names[] = {
    "two_releases_in_flight_together", "use_in_flight_with_release", "last_two_decrements_by_different_threads",
    "three_threads", "policy_tape", "policy_pct", "policy_prefix",
    "use_executed", "a_thread_starts_without_reference", "preempted", NULL };

struct prog {
    int nthreads;
    int init[MAXT];                   /* references handed to the thread before the start */
    int nops[MAXT];
    uint8_t ops[MAXT][MAXOPS];
    bool reent;                       /* the destructor itself takes and drops a reference (as a DEAD handler using the dying pipe does) */
};

static struct {
    struct prog p;
    struct urefcount rc;
    int held[MAXT];
    int outstanding;                  /* references not yet being released */
    int destroyed;
    int in_release[MAXT], in_use[MAXT];
    bool rel_overlap, use_rel_overlap;
    int dec_thread[2];                /* threads of the last two release operations that started */
    int uses;
    char fkey[96], fmsg[256];
} cx;

static void fail_inside(const char *key, const char *msg, int a)
{
    if (cx.fkey[0]) return;
    snprintf(cx.fkey, sizeof(cx.fkey), "%s", key);
    snprintf(cx.fmsg, sizeof(cx.fmsg), msg, a);
}

static void destructor(struct urefcount *rc)
{
    (void)rc;
    cx.destroyed++;
    if (cx.destroyed > 1)
        fail_inside("C09/destructor/twice", "the destructor ran %d times", cx.destroyed);
    else if (cx.outstanding != 0)
        fail_inside("C09/destructor/early", "the destructor ran while %d reference(s) were still outstanding", cx.outstanding);
    /* code run from a destructor (an event handler given the dying object) may take and drop a reference on it; urefcount_release
     * guards against that ("avoid triggering it twice"): the destructor must not be entered again */
    if (cx.p.reent && cx.destroyed == 1) {
        urefcount_use(rc);
        urefcount_release(rc);
    }
}

/* dated invocation of an operation = the step of its first shared access */
static void op_started(int i)
{
    const struct vs_op *o = &vs_hist[i];
    if (o->kind == OP_RELEASE) {
        cx.outstanding--;
        cx.dec_thread[0] = cx.dec_thread[1];
        cx.dec_thread[1] = o->thread;
    }
}

static int on_step(void *opaque)
{
    (void)opaque;
    int nr = 0, nu = 0;
    for (int t = 0; t < cx.p.nthreads; t++) { nr += cx.in_release[t]; nu += cx.in_use[t]; }
    if (nr >= 2) cx.rel_overlap = true;
    if (nr >= 1 && nu >= 1) cx.use_rel_overlap = true;
    return cx.fkey[0] != 0;
}

static void do_release(int t)
{
    cx.held[t]--;
    cx.in_release[t] = 1;
    vs_op_begin(OP_RELEASE, 0, 0);
    urefcount_release(&cx.rc);
    vs_op_end(cx.destroyed);
    cx.in_release[t] = 0;
}

static void do_use(int t)
{
    cx.in_use[t] = 1;
    vs_op_begin(OP_USE, 0, 0);
    struct urefcount *r = urefcount_use(&cx.rc);
    vs_op_end(r != NULL);
    cx.in_use[t] = 0;
    cx.uses++;
    if (r == NULL)
        fail_inside("C09/use/dead", "urefcount_use reported a dead refcount to thread %d, which holds a reference", t);
    else {
        cx.held[t]++;
        cx.outstanding++;
    }
}

static void worker(void *arg)
{
    int t = (int)(intptr_t)arg;
    const struct prog *p = &cx.p;
    for (int j = 0; j < p->nops[t] && !cx.fkey[0]; j++) {
        if (cx.held[t] <= 0) break;                 /* nothing may be done without a reference */
        if (p->ops[t][j] == OP_USE) do_use(t);
        else do_release(t);
    }
    while (cx.held[t] > 0 && !cx.fkey[0])
        do_release(t);
    if (cx.fkey[0]) vs_abort();
}

static void render_case(struct vp_report *rep, const struct vs_config *cfg)
{
    const struct prog *p = &cx.p;
    char pb[32];
    vp_render(rep, "C09 urefcount threads=%d%s\n", p->nthreads, p->reent ? " (the destructor takes and drops a reference itself)" : "");
    for (int t = 0; t < p->nthreads; t++) {
        vp_render(rep, "  T%d: starts with %d reference(s);", t, p->init[t]);
        for (int j = 0; j < p->nops[t]; j++) vp_render(rep, " %s", p->ops[t][j] == OP_USE ? "use" : "release");
        vp_render(rep, "; then releases what it holds\n");
    }
    vp_render(rep, "  schedule policy=%s steps=%u preemptions=%u:", vs_policy_name(cfg, pb, sizeof(pb)), vs_stats.steps, vs_stats.preemptions);
    vs_render_schedule(rep, 0, vs_stats.steps);
    vp_render(rep, "  operations in the order of their first shared access (steps):\n");
    for (int i = 0; i < vs_nhist; i++) {
        const struct vs_op *o = &vs_hist[i];
        if (!o->started) { vp_render(rep, "  #%-2d T%u %s (called, no shared access yet)\n", i, o->thread, o->kind == OP_USE ? "use" : "release"); continue; }
        vp_render(rep, "  #%-2d T%u %-8s steps %u..%u%s\n", i, o->thread, o->kind == OP_USE ? "use" : "release",
                  o->inv_step, o->res_step, o->kind == OP_RELEASE && o->done && o->ret ? "  (destructor had run by its return)" : "");
    }
    vp_render(rep, "  shared accesses:\n");
    vs_render_steps(rep, 0, vs_stats.steps, NULL);
    vp_render(rep, "  destructor ran %d time(s)\n", cx.destroyed);
}

static int run_case(const struct prog *prog, struct vs_config *cfg, struct vp_report *rep, unsigned flags)
{
    memset(&cx, 0, sizeof(cx));
    cx.p = *prog;
    const struct prog *p = &cx.p;
    cx.dec_thread[0] = cx.dec_thread[1] = -1;
    int ret = 0;

    vs_reset();
    vs_on_op_start(op_started);
    urefcount_init(&cx.rc, destructor);             /* the creator's reference: thread 0 */
    int total = 0;
    for (int t = 0; t < p->nthreads; t++) {
        cx.held[t] = p->init[t];
        total += p->init[t];
    }
    for (int i = 1; i < total; i++)
        urefcount_use(&cx.rc);                      /* sequential: the hooks are no-ops outside a coroutine */
    cx.outstanding = total;
    for (int t = 0; t < p->nthreads; t++)
        vs_spawn(worker, (void *)(intptr_t)t);
    cfg->step_bound = 400;
    cfg->pct_est = 12;
    cfg->on_step = on_step;
    int r = vs_run(cfg);
    bool others_unfinished = false;
    vs_end();

    uint64_t h = VP_HASH_INIT;
    h = vp_hash_mix(h, (uint64_t)p->nthreads | (p->reent ? 16 : 0));
    for (int t = 0; t < p->nthreads; t++) {
        h = vp_hash_mix(h, (uint64_t)p->init[t] << 8 | (uint64_t)p->nops[t]);
        for (int j = 0; j < p->nops[t]; j++) h = vp_hash_mix(h, p->ops[t][j]);
    }
    rep->case_hash = vs_trace_hash(h);
    for (int t = 0; t < p->nthreads; t++)
        if (p->init[t] == 0) others_unfinished = true;
    if (cx.rel_overlap) rep->classes |= 1u << CL_REL_OVERLAP;
    if (cx.use_rel_overlap) rep->classes |= 1u << CL_USE_REL_OVERLAP;
    if (cx.dec_thread[0] >= 0 && cx.dec_thread[0] != cx.dec_thread[1]) rep->classes |= 1u << CL_LAST_TWO_DIFFERENT;
    if (p->nthreads >= 3) rep->classes |= 1u << CL_3THREADS;
    rep->classes |= 1u << (cfg->policy == VS_TAPE ? CL_POL_TAPE : cfg->policy == VS_PCT ? CL_POL_PCT : CL_POL_PREFIX);
    if (cx.uses) rep->classes |= 1u << CL_USE_DONE;
    if (others_unfinished) rep->classes |= 1u << CL_NOREF_THREAD;
    if (vs_stats.preemptions) rep->classes |= 1u << CL_PREEMPT;
    rep->nontrivial = cx.rel_overlap;

    if (cx.fkey[0])
        ret = vp_fail(rep, cx.fkey, "%s", cx.fmsg);
    else if (r == VS_INTERNAL || vs_errmsg[0])
        ret = vp_internal(rep, "scheduler: %s", vs_errmsg);
    else if (r == VS_LIVELOCK)
        ret = vp_fail(rep, "C09/livelock/urefcount", "the program did not finish within 400 steps");
    else if (r != VS_DONE)
        ret = vp_internal(rep, "unexpected scheduler result %d", r);
    else if (cx.destroyed == 0)
        ret = vp_fail(rep, "C09/destructor/never", "all %d references were released but the destructor never ran", total);
    else if (cx.destroyed != 1)
        ret = vp_fail(rep, "C09/destructor/twice", "the destructor ran %d times", cx.destroyed);
    if (flags & VP_RENDER)
        render_case(rep, cfg);
    return ret;
}

/* ---------------------------------------------------------------- tape <-> program */

static void decode_prog(struct tape *t, struct prog *p)
{
    memset(p, 0, sizeof(*p));
    uint8_t b0 = tp_u8(t);
    p->nthreads = 2 + b0 % 2;
    p->reent = (b0 >> 1) & 1;
    for (int i = 0; i < p->nthreads; i++) {
        uint8_t b = tp_u8(t);
        p->init[i] = i == 0 ? 1 + b % 2 : (b % 4 == 3 ? 0 : 1 + b % 4 / 2);   /* thread 0: 1-2; others 1,1,2,0 */
        p->nops[i] = tp_u8(t) % (MAXOPS + 1);
        for (int j = 0; j < p->nops[i]; j++) p->ops[i][j] = tp_u8(t) & 1;
    }
}

static size_t encode_prog(const struct prog *p, uint8_t *out)
{
    size_t n = 0;
    out[n++] = (uint8_t)(p->nthreads - 2);
    for (int i = 0; i < p->nthreads; i++) {
        out[n++] = (uint8_t)(i == 0 ? p->init[i] - 1 : p->init[i] == 0 ? 3 : p->init[i] == 2 ? 2 : 0);
        out[n++] = (uint8_t)p->nops[i];
        for (int j = 0; j < p->nops[i]; j++) out[n++] = p->ops[i][j];
    }
    return n;
}

static int run(const uint8_t *tp_, size_t len, struct vp_report *rep, unsigned flags)
{
    struct tape t;
    tp_init(&t, tp_, len);
    struct prog p;
    decode_prog(&t, &p);
    struct vs_config cfg;
    memset(&cfg, 0, sizeof(cfg));
    vs_config_from_tape(&cfg, &t);
    return run_case(&p, &cfg, rep, flags);
}

/* ---------------------------------------------------------------- templates */

struct tmpl { const char *name; const char *what; struct prog p; };
#define U OP_USE
#define R OP_RELEASE
static const struct tmpl templates[] = {
    { "rel-rel", "T0 release || T1 release", { 2, { 1, 1 }, { 1, 1 }, { { R }, { R } } } },
    { "use-rel", "T0 use,release,(release) || T1 release", { 2, { 1, 1 }, { 2, 1 }, { { U, R }, { R } } } },
    { "2x2", "T0 use,release,(release) || T1 use,release,(release)", { 2, { 1, 1 }, { 2, 2 }, { { U, R }, { U, R } } } },
    { "rel3", "three threads, one reference each, release", { 3, { 1, 1, 1 }, { 1, 1, 1 }, { { R }, { R }, { R } } } },
    { "use3", "T0 use,use,(3 releases) || T1 release || T2 use,release,(release)", { 3, { 1, 1, 1 }, { 2, 1, 2 }, { { U, U }, { R }, { U, R } } } },
    { "two-each", "two references each: T0 release,release || T1 release,use,(2 releases)", { 2, { 2, 2 }, { 2, 2 }, { { R, R }, { R, U } } } },
};
#define NTEMPL (sizeof(templates) / sizeof(templates[0]))

static int enum_case(void *opaque, const uint8_t *prefix, size_t plen, struct vp_report *rep)
{
    const struct tmpl *tm = opaque;
    static const uint8_t none[1] = { 0 };
    struct vs_config cfg;
    memset(&cfg, 0, sizeof(cfg));
    cfg.policy = VS_ENUM;
    cfg.prefix = plen ? prefix : none;
    cfg.prefix_len = plen;
    return run_case(&tm->p, &cfg, rep, 0);
}

static int extra(int argc, char **argv)
{
    const char *tname = "all", *out = ".";
    int bound = 64, jobs = 0;
    for (int i = 1; i < argc; i++) {
        if (!strcmp(argv[i], "--template") && i + 1 < argc) tname = argv[++i];
        else if (!strcmp(argv[i], "--bound") && i + 1 < argc) bound = atoi(argv[++i]);
        else if (!strcmp(argv[i], "--jobs") && i + 1 < argc) jobs = atoi(argv[++i]);
        else if (!strcmp(argv[i], "--out") && i + 1 < argc) out = argv[++i];
        else if (!strcmp(argv[i], "--seed") && i + 1 < argc) i++;
        else if (!strcmp(argv[i], "list")) {
            for (size_t k = 0; k < NTEMPL; k++) printf("%s\t%s\n", templates[k].name, templates[k].what);
            return 0;
        }
    }
    if (jobs <= 0) jobs = vs_default_jobs();
    static struct vs_enum_result total, r;
    memset(&total, 0, sizeof(total));
    total.complete = 1;
    char space[2048];
    size_t sl = (size_t)snprintf(space, sizeof(space), "C09 urefcount: all schedules with <= %d preemptions (every uatomic operation is a scheduling point, sequentially consistent; >= 64 means every interleaving) of", bound);
    char failtape[512] = "";
    int matched = 0;
    for (size_t k = 0; k < NTEMPL && !total.failed; k++) {
        const struct tmpl *tm = &templates[k];
        if (strcmp(tname, "all") && strcmp(tname, tm->name)) continue;
        matched++;
        vs_enumerate(enum_case, (void *)tm, bound, jobs, &r);
        if (sl < sizeof(space) - 200)
            sl += (size_t)snprintf(space + sl, sizeof(space) - sl, " [%s: %s (%llu schedules)]", tm->name, tm->what, (unsigned long long)r.evaluations);
        if (r.failed) {
            uint8_t tape[64 + VS_MAX_STEPS];
            size_t n = encode_prog(&tm->p, tape);
            tape[n++] = 1;
            memcpy(tape + n, r.fail_prefix, r.fail_len);
            n += r.fail_len;
            while (n > 0 && tape[n - 1] == 0) n--;
            snprintf(failtape, sizeof(failtape), "%s/enum-%s-K%d.tape", out, tm->name, bound);
            FILE *f = fopen(failtape, "wb");
            if (f) { fwrite(tape, 1, n, f); fclose(f); }
        }
        vs_enum_merge(&total, &r);
    }
    if (!matched) { fprintf(stderr, "unknown template %s\n", tname); return 2; }
    vs_enum_print_json(&total, bound, space, class_names, failtape);
    return total.failed == 2 ? 2 : total.failed ? 1 : 0;
}

const struct vp_executor vp_executor = { "C09", "refcount", 64, class_names, run, extra };

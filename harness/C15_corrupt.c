/* C15 / corrupt — arbitrary and corrupted packets, byte-level decode (usable under libFuzzer).
 *
 * mode 0: packets -> ts_decaps -> (tee) -> ts_pes_decaps -> sink
 * mode 1: packets -> ts_pid_filter -> ts_split -> ts_decaps -> (tee) -> ts_pes_decaps -> sink
 * mode 2: arbitrary chunks with arbitrary unit-start flags -> ts_pes_decaps -> sink
 * mode 3: packets -> ts_split with two outputs on the same PID (duplication path) -> ts_decaps ...
 *
 * Each packet sits in its own memory area of exactly its size (no prepend, no append, checked
 * with umem_count_lookup), so that any access outside the packet is an ASan fault. Oracle: no
 * fault, no failed assertion (both picked up by the driver), nothing leaked after release, and
 * whatever ts_decaps outputs for a packet is a suffix of that packet of at most size-4 octets;
 * ts_pes_decaps never outputs more octets than it received.
 *
 * In modes 1 and 3 the two upper bits of the mode octet change the routing after the third packet (1: one ts_split output
 * released; 2: one more output on the PID; 3: the PID removed from ts_pid_filter / the output released and allocated again):
 * the same oracle holds whatever reaches the pipes, and ts_decaps answers get_packets_lost at the end.
 *
 * Packet encoding on the tape (one control octet, then):
 *   ctl&2 == 0  template: sync 0x47 (ctl&0x80: from the tape), 3 header octets from the tape adjusted by
 *               ctl&0x08 (arbitrary counter, else sequential), ctl&0x10 (arbitrary adaptation_field_control,
 *               else payload present), ctl&0x20 (arbitrary PID, else the routed one), ctl&0x40 (unit start and a
 *               PES header where the payload begins); adaptation length and flags octets from the tape when the
 *               adaptation bit is set; 24 more octets from the tape, the rest a pattern; ctl&1: the 188 octets
 *               are cut into 2 or 3 segments
 *   ctl&3 == 2  the previous packet with 1..3 octets patched (position, value from the tape)
 *   ctl&7 == 3  raw: 188 octets taken from the tape
 *   ctl&7 == 7  odd size 1..255, first 16 octets from the tape */
#include "C15_fixture.h"
#include "C15_ref.h"

enum { CL_RAW, CL_TEMPLATE, CL_PATCH, CL_ODDSIZE, CL_SEGMENTED, CL_TO_PESD, CL_SYNC_LOST, CL_AF_REJECT, CL_FATAL,
       CL_CLOCK_REF, CL_CLOCK_TS, CL_MODE_SPLIT, CL_MODE_PESD, CL_DUP_OUTPUTS, CL_SHORT_LT4, CL_CHURN };
static const char *const class_names[] = {
    "raw_packet", "template_packet", "patched_repeat", "odd_size_packet", "segmented_packet", "reached_pes_decaps_output",
    "pes_sync_lost", "packet_dropped_by_ts_decaps", "fatal_event", "clock_ref_event", "clock_ts_event",
    "mode_pid_filter_split", "mode_pes_decaps_direct", "mode_split_two_outputs", "packet_shorter_than_header",
    "routing_changed_midstream", NULL };

#define P_PIDF 0
#define P_SPLIT 1
#define P_SUBM 2
#define P_SUBN 3
#define P_DECAPS 4
#define P_TEE 5
#define P_PESD 6
#define P_SINK 7

#define MAXP 40
struct ipkt { uint8_t b[256]; unsigned n; };
struct ctx {
    struct fx fx;
    struct fx_rec tee, sink;
    struct ipkt p[MAXP];
    int np;
};
static struct ctx C;

#define R(...) do { if (render) vp_render(rep, __VA_ARGS__); } while (0)
#define FAIL(key, ...) do { if (!ret) ret = vp_fail(rep, key, __VA_ARGS__); } while (0)

static int run(const uint8_t *tape_, size_t len, struct vp_report *rep, unsigned flags)
{
    struct ctx *c = &C;
    struct tape t;
    tp_init(&t, tape_, len);
    bool render = flags & VP_RENDER;
    int ret = 0;
    uint32_t cls = 0;
    uint64_t h = VP_HASH_INIT;
    struct fx *fx = &c->fx;
    c->np = 0;
    if (fx_init(fx) != 0) return vp_internal(rep, "fx_init");

    uint8_t m0 = tp_u8(&t);
    unsigned mode = m0 % 4;
    unsigned churn = (mode == 1 || mode == 3) ? m0 >> 6 : 0;
    h = vp_hash_mix(h, mode | churn << 2);
    if (mode == 1) cls |= 1u << CL_MODE_SPLIT;
    if (mode == 2) cls |= 1u << CL_MODE_PESD;
    if (mode == 3) cls |= 1u << CL_DUP_OUTPUTS;
    R("C15/corrupt mode=%s\n", mode == 0 ? "decaps+pesd" : mode == 1 ? "pid_filter+split+decaps+pesd" : mode == 2 ? "pesd direct" : "split(2 outputs)+decaps+pesd");

    /* ---------------- pipeline ---------------- */
    struct upipe *pidf = NULL, *split = NULL, *subm = NULL, *subn = NULL, *subx = NULL, *decaps = NULL, *pesd = NULL, *head = NULL;
    struct uref *sfd_keep = NULL;
    fx_rec_init(fx, &c->sink, P_SINK, NULL);
    pesd = upipe_void_alloc(upipe_ts_pesd_mgr_alloc(), fx_probe(fx, P_PESD));
    decaps = upipe_void_alloc(upipe_ts_decaps_mgr_alloc(), fx_probe(fx, P_DECAPS));
    if (!pesd || !decaps) ret = vp_internal(rep, "pipe allocation");
    if (!ret) {
        fx_rec_init(fx, &c->tee, P_TEE, pesd);
        if (!ubase_check(upipe_set_output(pesd, &c->sink.upipe)) || !ubase_check(upipe_set_output(decaps, &c->tee.upipe)))
            ret = vp_internal(rep, "set_output");
        head = decaps;
    }
    struct uref *fd = ret ? NULL : uref_block_flow_alloc_def(fx->fm.uref_mgr, mode == 2 ? "mpegtspes." : "mpegts.mpegtspes.");
    if (!ret && !fd) ret = vp_internal(rep, "flow def");
    unsigned pid = 68;
    if (!ret && (mode == 1 || mode == 3)) {
        split = upipe_void_alloc(upipe_ts_split_mgr_alloc(), fx_probe(fx, P_SPLIT));
        struct uref *sfd = uref_dup(fd);
        if (!split || !sfd) ret = vp_internal(rep, "split");
        else {
            uref_ts_flow_set_pid(sfd, pid);
            subm = upipe_flow_alloc_sub(split, fx_probe(fx, P_SUBM), sfd);
            if (!subm || !ubase_check(upipe_set_output(subm, decaps))) ret = vp_internal(rep, "split sub");
            if (!ret && mode == 3) {
                subn = upipe_flow_alloc_sub(split, fx_probe(fx, P_SUBN), sfd);
                if (!subn || !ubase_check(upipe_set_output(subn, decaps))) ret = vp_internal(rep, "split sub 2");
            }
            head = split;
        }
        sfd_keep = sfd;
    }
    if (!ret && mode == 1) {
        pidf = upipe_void_alloc(upipe_ts_pidf_mgr_alloc(), fx_probe(fx, P_PIDF));
        if (!pidf || !ubase_check(upipe_set_output(pidf, head))) ret = vp_internal(rep, "pidf");
        else { upipe_ts_pidf_add_pid(pidf, pid); upipe_ts_pidf_add_pid(pidf, 0x1fff); head = pidf; }
    }
    if (!ret && mode == 2) head = pesd;
    if (!ret && !ubase_check(upipe_set_flow_def(head, fd))) ret = vp_internal(rep, "set_flow_def");
    if (fd) uref_free(fd);

    /* ---------------- packets ---------------- */
    size_t in_octets = 0;
    unsigned seqcc = 0;
    while (!ret && !tp_done(&t) && c->np < MAXP) {
        struct ipkt *p = &c->p[c->np];
        if (churn && c->np == 3 && sfd_keep) {
            cls |= 1u << CL_CHURN;
            R("  routing change %u\n", churn);
            if (churn == 1) { if (subn) { upipe_release(subn); subn = NULL; } else if (subm) { upipe_release(subm); subm = NULL; } }
            else if (churn == 2) { subx = upipe_flow_alloc_sub(split, fx_probe(fx, P_SUBN), sfd_keep); if (!subx || !ubase_check(upipe_set_output(subx, decaps))) { ret = vp_internal(rep, "split sub 3"); break; } }
            else if (pidf) upipe_ts_pidf_del_pid(pidf, pid);
            else if (subm) {
                upipe_release(subm);
                subm = upipe_flow_alloc_sub(split, fx_probe(fx, P_SUBM), sfd_keep);
                if (!subm || !ubase_check(upipe_set_output(subm, decaps))) { ret = vp_internal(rep, "split sub again"); break; }
            }
        }
        uint8_t ctl = tp_u8(&t);
        int nseg = 0; size_t seg[2] = { 0, 0 };
        bool start_flag = false;
        memset(p->b, 0, sizeof p->b);
        if (mode == 2) {
            /* chunk for ts_pes_decaps: ctl&1 unit start, ctl&2 valid start code, size class */
            start_flag = ctl & 1;
            unsigned n = (ctl & 0x0c) == 0 ? 1 + tp_u8(&t) % 24 : (ctl & 0x0c) == 4 ? 184 : (ctl & 0x0c) == 8 ? 1 + tp_u8(&t) % 184 : 6 + tp_u8(&t) % 20;
            unsigned k = 0;
            for (; k < n && k < 40; k++) p->b[k] = tp_u8(&t);
            uint8_t pat = tp_u8(&t);
            for (; k < n; k++) p->b[k] = pat + k;
            if (ctl & 2) {
                static const uint8_t ids[] = { 0xe0, 0xc0, 0xbd, 0xbf, 0xbe, 0xe1, 0xfd, 0xbc };
                uint8_t v = p->b[3];
                p->b[0] = 0; p->b[1] = 0; p->b[2] = 1;
                if ((v & 0xc0) != 0xc0) p->b[3] = ids[(v >> 3) % 8];
                if (!(v & 0x02)) { p->b[4] = 0; if (v & 0x01) p->b[5] = 0; }
                if ((v & 0x30) != 0x30) p->b[6] = 0x80 | (p->b[6] & 0x3f);
                if ((v & 0x0c) != 0x0c) p->b[8] %= 24;
            }
            p->n = n;
            cls |= 1u << CL_TEMPLATE;
        } else switch ((ctl & 2) == 0 ? 1 : (ctl & 3) == 2 ? 2 : (ctl & 4) ? 3 : 0) {
        case 0:
            tp_bytes(&t, p->b, 188); p->n = 188; cls |= 1u << CL_RAW; break;
        case 1: {
            /* ctl bits: 0 segmented, 3 arbitrary counter (else sequential), 4 arbitrary adaptation_field_control
             * (else payload present), 5 arbitrary PID (else the routed one), 6 PES start, 7 arbitrary sync octet */
            unsigned k = 0;
            p->b[k++] = (ctl & 0x80) ? tp_u8(&t) : 0x47;
            p->b[k++] = tp_u8(&t); p->b[k++] = tp_u8(&t); p->b[k++] = tp_u8(&t);
            if (!(ctl & 0x20)) { p->b[1] = (p->b[1] & 0xe0); p->b[2] = pid; }
            if (!(ctl & 0x10)) p->b[3] |= 0x10;
            if (!(ctl & 0x08)) p->b[3] = (p->b[3] & 0xf0) | (seqcc = (seqcc + 1) & 15);
            if (ctl & 0x40) p->b[1] |= 0x40;
            if (p->b[3] & 0x20) { p->b[k++] = tp_u8(&t); p->b[k++] = tp_u8(&t); }
            unsigned hdr_end = k;
            for (int q = 0; q < 24 && k < 188; q++, k++) p->b[k] = tp_u8(&t);
            uint8_t pat = tp_u8(&t);
            for (; k < 188; k++) p->b[k] = pat ^ k;
            if (ctl & 0x40) {       /* a PES header where the payload begins (if the adaptation length is plausible) */
                unsigned o = (p->b[3] & 0x20) && p->b[4] <= 170 ? 5 + p->b[4] : hdr_end;
                static const uint8_t ids[] = { 0xe0, 0xc0, 0xbd, 0xbf, 0xbe, 0xe1, 0xfd, 0xbc };
                uint8_t v = p->b[o + 3];
                p->b[o] = 0; p->b[o + 1] = 0; p->b[o + 2] = 1;
                if ((v & 0xc0) != 0xc0) p->b[o + 3] = ids[(v >> 3) % 8];      /* else the tape octet itself */
                if (!(v & 0x02)) { p->b[o + 4] = 0; if (v & 0x01) p->b[o + 5] = 0; }   /* small or zero length */
                if ((v & 0x30) != 0x30) p->b[o + 6] = 0x80 | (p->b[o + 6] & 0x3f);
                if ((v & 0x0c) != 0x0c) p->b[o + 8] %= 24;
            }
            p->n = 188;
            if (ctl & 1) { uint8_t sg = tp_u8(&t); nseg = 1 + (sg & 1); seg[0] = 1 + (sg >> 1) % 12; seg[1] = 1 + tp_u8(&t) % 100; cls |= 1u << CL_SEGMENTED; }
            cls |= 1u << CL_TEMPLATE;
            break; }
        case 2:
            if (c->np == 0) { p->b[0] = 0x47; p->b[1] = 0x40; p->b[2] = pid; p->b[3] = 0x10; p->n = 188; }
            else *p = c->p[c->np - 1];
            for (int q = 0; q <= (ctl >> 2) % 3; q++) { unsigned pos = tp_u8(&t) % (p->n ? p->n : 1); p->b[pos] = tp_u8(&t); }
            cls |= 1u << CL_PATCH;
            break;
        default: {
            unsigned n = 1 + tp_u8(&t) % 255;
            p->b[0] = 0x47;
            for (unsigned k = (ctl & 8) ? 0 : 1; k < n && k < 17; k++) p->b[k] = tp_u8(&t);
            for (unsigned k = 17; k < n; k++) p->b[k] = k;
            p->n = n;
            cls |= 1u << CL_ODDSIZE;
            if (n < 4) cls |= 1u << CL_SHORT_LT4;
            break; }
        }
        h = vp_hash_bytes(h, p->b, p->n);
        h = vp_hash_mix(h, p->n << 8 | nseg << 1 | start_flag);
        if (render) {
            R("  #%d size=%u%s%s:", c->np, p->n, nseg ? " segmented" : "", start_flag ? " START" : "");
            for (unsigned k = 0; k < p->n && k < 24; k++) R(" %02x", p->b[k]);
            R("%s\n", p->n > 24 ? " ..." : "");
        }
        struct uref *uref;
        if (nseg) uref = fx_uref_segs(fx, p->b, p->n, seg, nseg);
        else {
            bool exact;
            uref = fx_uref_exact(fx, p->b, p->n, &exact);
            if (uref && !exact && p->n > 1) { uref_free(uref); ret = vp_internal(rep, "packet area is not exactly %u octets", p->n); break; }
        }
        if (!uref) { ret = vp_internal(rep, "uref allocation"); break; }
        if (start_flag) uref_block_set_start(uref);
        fx->tag = c->np;
        in_octets += p->n;
        c->np++;
        upipe_input(head, uref, NULL);
    }
    fx->tag = -1;
    if (decaps && mode != 2) { uint64_t lost = 0; if (!ubase_check(upipe_ts_decaps_get_packets_lost(decaps, &lost))) FAIL("C15/corrupt/packets-lost", "get_packets_lost failed"); }
    if (sfd_keep) uref_free(sfd_keep);
    if (pidf) upipe_release(pidf);
    if (subm) upipe_release(subm);
    if (subn) upipe_release(subn);
    if (subx) upipe_release(subx);
    if (split) upipe_release(split);
    if (decaps) upipe_release(decaps);
    if (pesd) upipe_release(pesd);
    if (!ret && fx->harness_oom) ret = vp_internal(rep, "harness recorder overflow");

    /* ---------------- sanity of whatever came out ---------------- */
    if (!ret && mode != 2) {
        struct fx_rec *T = &c->tee;
        for (size_t q = 0; q < T->nchunks && !ret; q++) {
            struct fx_chunk *ch = &T->chunks[q];
            if (ch->tag < 0 || ch->tag >= c->np) { FAIL("C15/corrupt/untagged", "ts_decaps output outside any input"); break; }
            struct ipkt *p = &c->p[ch->tag];
            if (ch->len + 4 > p->n || memcmp(T->bytes + ch->off, p->b + p->n - ch->len, ch->len))
                FAIL("C15/corrupt/not-a-suffix", "packet #%d (%u octets): ts_decaps output %zu octets that are not the tail of the packet after its header", ch->tag, p->n, ch->len);
            else if (p->n == R_TS) {
                /* exactly the carried payload: 184 octets, or what follows an adaptation field that fits in the packet;
                 * a packet without payload, or whose adaptation field overruns it, carries none (independent parser) */
                unsigned afc = (p->b[3] >> 4) & 3, afl = p->b[4];
                long carried = !(afc & 1) ? -1 : !(afc & 2) ? 184 : afl <= 183 ? 183 - (long)afl : -1;
                if (carried < 0) FAIL("C15/corrupt/output-without-payload", "packet #%d (adaptation_field_control %u, adaptation_field_length %u) carries no payload but ts_decaps output %zu octets", ch->tag, afc, afl, ch->len);
                else if ((long)ch->len != carried) FAIL("C15/corrupt/payload-size", "packet #%d (adaptation_field_control %u, adaptation_field_length %u) carries %ld payload octets, ts_decaps output %zu", ch->tag, afc, afl, carried, ch->len);
            }
        }
        if (!ret && T->nchunks < (size_t)c->np) cls |= 1u << CL_AF_REJECT;
    }
    if (!ret) {
        size_t fed = mode == 2 ? in_octets : c->tee.nbytes;
        if (c->sink.nbytes > fed) FAIL("C15/corrupt/more-out-than-in", "ts_pes_decaps received %zu octets and output %zu", fed, c->sink.nbytes);
    }
    if (c->sink.nchunks) cls |= 1u << CL_TO_PESD;
    if (fx_count(fx, P_PESD, FXE_SYNC_LOST)) cls |= 1u << CL_SYNC_LOST;
    if (fx_count(fx, P_DECAPS, FXE_CLOCK_REF)) cls |= 1u << CL_CLOCK_REF;
    if (fx_count(fx, P_PESD, FXE_CLOCK_TS)) cls |= 1u << CL_CLOCK_TS;
    for (size_t e = 0; e < fx->nev; e++) if (fx->ev[e].kind == FXE_FATAL) cls |= 1u << CL_FATAL;

    fx_rec_clean(&c->tee); fx_rec_clean(&c->sink);
    const char *leak = fx_clean(fx);
    if (leak && !ret) ret = vp_fail(rep, "C15/leak/corrupt", "after releasing every pipe: %s", leak);
    rep->case_hash = h;
    rep->classes = cls;
    rep->nontrivial = (cls & (1u << CL_TO_PESD)) && (cls & (1u << CL_SYNC_LOST | 1u << CL_AF_REJECT | 1u << CL_FATAL));
    return ret;
}

const struct vp_executor vp_executor = { "C15", "corrupt", 600, class_names, run, NULL };

/* C19 (pictures) — plane windows stay inside the allocation, never alias, keep their content.
 *
 * Model per handle: visible size (macropixels x lines), margins left around it inside the
 * allocated rectangle (when the documentation pins them), share group, and for every plane a
 * 2-D array of octets (value + known flag) for the visible window only: what leaves the window
 * is forgotten (the property speaks of pixels that STAY visible), what enters it is learnt at the
 * first read and must be stable from then on.
 *
 * Oracle after every operation, for every live handle and every plane:
 *   - the full window (0,0,-1,-1) maps; every row [p + y*stride, + width*macropixel_size) lies in
 *     the umem area the buffer was allocated from (umem_count_lookup = exact span);
 *   - no octet is owned by two (plane, row, column) positions (ownership stamps over the area);
 *   - every known octet has its model value (position-coded patterns written through the API);
 *   - ubuf_pic_size / plane_size report the model.
 * Per operation: requests that MUST be refused (offset outside [0,size] after the documented
 * normalisation, extent beyond the end, beyond the allocated margins for resize, not a multiple
 * of the plane's granularity) and requests that MUST be accepted (documented domain). Anything
 * else may go either way; an acceptance with no defined meaning retires the handle.
 *
 * Only the public inline API of ubuf_pic.h is used (what every caller does). */
#include "vp.h"
#include "tape.h"
#include "fix_mem.h"

#include "upipe/ubuf_pic.h"
#include "upipe/ubuf_block.h"
#include "upipe/ubuf_block_mem.h"
#include "upipe/ubuf_pic_mem.h"
#include "upipe/ubuf_mem.h"
#include "upipe/uref_flow.h"
#include "upipe/uref_pic_flow.h"
#include "upipe/uref_pic_flow_formats.h"

#include <stdlib.h>
#include <stdio.h>

/* ASan keeps freed blocks in a 256 MB quarantine by default; with thousands of tiny exact-size
 * areas per second a worker grows by ~15 KB per case (several GB in the thorough tier). A case
 * allocates well under 1 MB, so a 16 MB quarantine still covers every use-after-free inside a case.
 * (ASAN_OPTIONS set by the driver does not mention these keys, so these defaults apply.) */
const char *__asan_default_options(void) { return "quarantine_size_mb=16:thread_local_quarantine_size_kb=256"; }

#define MAXH 4
#define MAXP 4
#define MAXOPS 40
#define MAXMARGIN 16
#define MAX_HM (40 + 2 * MAXMARGIN)          /* macropixels, visible + both margins (thorough bound) */
#define MAX_V (24 + 2 * MAXMARGIN)
#define MAX_MPS 16
#define PLANE_BYTES (MAX_HM * MAX_V * MAX_MPS)
#define MAXALLOC (1u << 21)

enum { CL_SUB, CL_MP, CL_GEN, CL_FOURCC, CL_FLOWDEF, CL_MARGIN, CL_MARGIN_ODD, CL_ALIGN, CL_ALLOC_REFUSED,
       CL_MAP_REFUSED, CL_MAP_NEG, CL_MAP_SUB, CL_MAP_MISALIGNED, CL_MAP_WRITE, CL_RESIZE_OK, CL_RESIZE_EXT,
       CL_RESIZE_REFUSED, CL_RESIZE_GRAN, CL_CHAIN, CL_COPY, CL_COPY_EXT, CL_FIELDS, CL_FIELDS_ODD_HEIGHT, CL_EXPORT, CL_EXPORT_SUBSAMPLED, CL_DUP, CL_EXT_SHARED, CL_OUTDOM,
       CL_TWO_MGR, CL_POOL, CL_SIZE_NOT_MULT_OF_ALIGN, CL_DEFAULT_MARGIN, CL_CLEAR, CL_CLEAR_SUB, CL_CLEAR_MULTI };
static const char *const class_names[] = {
    "fmt_subsampled", "fmt_macropixel_gt1", "fmt_generated_planes", "fmt_fourcc_mgr", "mgr_from_flow_def",
    "margins_nonzero", "margins_odd", "align_nonzero", "alloc_not_multiple_refused",
    "map_refused", "map_negative_offset_accepted", "map_subwindow_accepted", "map_misaligned_refused", "map_write_window",
    "resize_accepted", "resize_extension_accepted", "resize_refused", "resize_misaligned_refused",
    "resize_chain_ge2_with_extension", "copy_accepted", "copy_extending", "split_into_fields", "split_into_fields_odd_number_of_lines", "plane_re-exported_as_block", "subsampled_plane_re-exported_as_block", "dup", "extension_on_shared",
    "out_of_domain_accepted", "two_managers_used", "pool_depth_gt0", "row_not_multiple_of_align", "default_margins",
    "window_cleared", "clear_of_partial_width_window", "clear_with_multi_octet_pattern", NULL };

struct pl { uint8_t hsub, vsub, mps; char chroma[24]; };
struct fmt {
    char name[40];
    int kind;                 /* 0 table, 1 fourcc, 2 generated */
    uint8_t mp, np;
    struct pl pl[MAXP];
    int G, GV;                /* granularity common to all planes: pixels, lines */
    const struct uref_pic_flow_format *tab;
    const char *fourcc;
};

struct mgrcfg {
    struct ubuf_mgr *mgr;
    int how;                  /* 0 ubuf_pic_mem_mgr_alloc, 1 from flow def, 2 fourcc */
    int hmpre, hmapp, vpre, vapp;   /* macropixels / lines as requested (-1: manager default) */
    bool known;               /* the documentation pins the real margins */
    int align, align_hmoffset, depth;
    bool used;
};

struct hnd {
    struct ubuf *u;
    int m;                    /* manager index */
    int hm, v;                /* visible size: macropixels, lines */
    int hmpre, hmapp, vpre, vapp; bool mknown;
    int group;
    uint8_t *base; size_t asize;
    int nresize, nextend;
};

static uint8_t g_val[MAXH + 1][MAXP][PLANE_BYTES];
static uint8_t g_known[MAXH + 1][MAXP][PLANE_BYTES];
static uint32_t g_stamp[MAXALLOC], g_owner[MAXALLOC];
static uint32_t g_pass;

struct ctx {
    struct tape t;
    struct vp_report *rep;
    bool render, thorough;
    struct fix_mem fm;
    struct fmt f;
    struct mgrcfg mg[2];
    struct hnd h[MAXH];
    int grefs[MAXH * MAXOPS + 8]; int ngroups;
    uint32_t gen;
    int ret;
    uint64_t hash;
    uint32_t cl;
    bool chain;
};

#define R(...) do { if (c->render) vp_render(c->rep, __VA_ARGS__); } while (0)
#define FAIL(key, ...) do { if (!c->ret) c->ret = vp_fail(c->rep, key, __VA_ARGS__); } while (0)
#define CL(x) (c->cl |= 1u << (x))

static int smod(int x, int g) { int r = x % g; return r < 0 ? r + g : r; }
static int imax(int a, int b) { return a > b ? a : b; }

static uint8_t pat(uint32_t gen, int plane, int y, int xb)
{
    uint32_t h = gen * 0x9E3779B1u ^ (uint32_t)plane * 0x85EBCA6Bu ^ (uint32_t)y * 0xC2B2AE35u ^ (uint32_t)xb * 0x27D4EB2Fu;
    h ^= h >> 15; h *= 0x2C1B3C6Du; h ^= h >> 12;
    return (uint8_t)h;
}

/* ------------------------------------------------------------------ formats */

static const struct { const char *fcc; uint8_t mp, np; struct pl pl[3]; } fourccs[] = {
    { "I420", 1, 3, { { 1, 1, 1, "y8" }, { 2, 2, 1, "u8" }, { 2, 2, 1, "v8" } } },
    { "YV12", 1, 3, { { 1, 1, 1, "y8" }, { 2, 2, 1, "u8" }, { 2, 2, 1, "v8" } } },
    { "IYUV", 1, 3, { { 1, 1, 1, "y8" }, { 2, 2, 1, "u8" }, { 2, 2, 1, "v8" } } },
    { "YV16", 1, 3, { { 1, 1, 1, "y8" }, { 2, 1, 1, "u8" }, { 2, 1, 1, "v8" } } },
    { "YUVY", 2, 1, { { 1, 1, 4, "y8u8y8v8" } } },
    { "YUY2", 2, 1, { { 1, 1, 4, "y8u8y8v8" } } },
    { "YUNV", 2, 1, { { 1, 1, 4, "y8u8y8v8" } } },
    { "V422", 2, 1, { { 1, 1, 4, "y8u8y8v8" } } },
    { "UYVY", 2, 1, { { 1, 1, 4, "u8y8v8y8" } } },
    { "YVYU", 2, 1, { { 1, 1, 4, "y8v8y8u8" } } },
    { "AYUV", 1, 1, { { 1, 1, 4, "a8y8u8v8" } } },
    { "V410", 1, 1, { { 1, 1, 4, "u10y10v10" } } },
    { "RGBA", 1, 1, { { 1, 1, 4, "a8r8g8b8" } } },
};
#define NTAB ((int)UBASE_ARRAY_SIZE(uref_pic_flow_formats))
#define NFCC ((int)UBASE_ARRAY_SIZE(fourccs))
#define NGEN 21

static void fmt_finish(struct fmt *f)
{
    int hs = 1, vs = 1;
    for (int p = 0; p < f->np; p++) { hs = imax(hs, f->pl[p].hsub); vs = imax(vs, f->pl[p].vsub); }
    /* subsamplings are powers of two in every format used here: lcm = max */
    f->G = f->mp * hs; f->GV = vs;
}

static void decode_format(struct ctx *c)
{
    struct fmt *f = &c->f;
    memset(f, 0, sizeof(*f));
    unsigned sel = tp_u8(&c->t) % (1 + NTAB + NFCC + NGEN);
    if (sel == 0 || sel <= (unsigned)NTAB) {
        const struct uref_pic_flow_format *tf = sel == 0 ? &uref_pic_flow_format_gray8 : uref_pic_flow_formats[sel - 1];
        f->kind = 0; f->tab = tf; f->mp = tf->macropixel; f->np = tf->nb_planes;
        snprintf(f->name, sizeof f->name, "%s", tf->name);
        if (f->np > MAXP) { c->ret = vp_internal(c->rep, "format %s has %d planes", tf->name, f->np); return; }
        for (int p = 0; p < f->np; p++) {
            f->pl[p].hsub = tf->planes[p].hsub; f->pl[p].vsub = tf->planes[p].vsub; f->pl[p].mps = tf->planes[p].mpixel_size;
            snprintf(f->pl[p].chroma, sizeof f->pl[p].chroma, "%s", tf->planes[p].chroma);
            /* a compound of mpixel_bits bits is stored in mpixel_size octets (struct documentation):
             * otherwise adjacent pixels of that format share octets */
            if ((unsigned)tf->planes[p].mpixel_size * 8 < tf->planes[p].mpixel_bits)
                FAIL("C19/format/compound-size", "format %s plane %s: a compound of %u bits is declared to occupy %u octet(s): "
                     "buffers allocated from this format give adjacent pixels overlapping octets",
                     tf->name, tf->planes[p].chroma, tf->planes[p].mpixel_bits, tf->planes[p].mpixel_size);
        }
    } else if (sel <= (unsigned)(NTAB + NFCC)) {
        int i = sel - 1 - NTAB;
        f->kind = 1; f->fourcc = fourccs[i].fcc; f->mp = fourccs[i].mp; f->np = fourccs[i].np;
        snprintf(f->name, sizeof f->name, "fourcc:%s", fourccs[i].fcc);
        for (int p = 0; p < f->np; p++) f->pl[p] = fourccs[i].pl[p];
        CL(CL_FOURCC);
    } else {
        static const uint8_t mps_[] = { 1, 2, 1, 3, 1, 6 }, subs[] = { 1, 2, 4 }, sizes[] = { 1, 2, 3, 4, 6, 8, 16 };
        uint8_t b = tp_u8(&c->t);
        f->kind = 2; f->mp = mps_[b % 6]; f->np = 1 + (b / 6) % MAXP;
        for (int p = 0; p < f->np; p++) {
            uint8_t x = tp_u8(&c->t);
            f->pl[p].hsub = subs[x % 3]; f->pl[p].vsub = subs[(x / 3) % 3]; f->pl[p].mps = sizes[(x / 9) % 7];
            snprintf(f->pl[p].chroma, sizeof f->pl[p].chroma, "p%d", p);
        }
        snprintf(f->name, sizeof f->name, "generated");
        CL(CL_GEN);
    }
    fmt_finish(f);
    if (f->mp > 1) CL(CL_MP);
    for (int p = 0; p < f->np; p++) if (f->pl[p].hsub > 1 || f->pl[p].vsub > 1) CL(CL_SUB);
    c->hash = vp_hash_mix(c->hash, sel);
    c->hash = vp_hash_bytes(c->hash, f->pl, sizeof(f->pl[0]) * f->np);
    c->hash = vp_hash_mix(c->hash, f->mp);
}

/* ------------------------------------------------------------------ managers */

static int margin_byte(struct ctx *c, int cap, bool allow_default)
{
    uint8_t b = tp_u8(&c->t);
    if (allow_default && b == 255) return -1;
    return b % (cap + 1);
}

static void build_mgr(struct ctx *c, int mi, const struct mgrcfg *like)
{
    struct fmt *f = &c->f;
    struct mgrcfg *m = &c->mg[mi];
    memset(m, 0, sizeof(*m));
    static const int aligns[] = { 0, 16, 1, 32, 64 };
    if (like) {
        *m = *like; m->mgr = NULL; m->used = false;
        if (f->kind != 1) m->how = !like->how;
        if (m->how == 1) { if (m->hmpre < 0) m->hmpre = 0; if (m->hmapp < 0) m->hmapp = 0; if (m->vpre < 0) m->vpre = 0; if (m->vapp < 0) m->vapp = 0; }
    } else {
        int cap = f->mp >= 3 ? 8 : MAXMARGIN;
        uint8_t b = tp_u8(&c->t);
        m->how = f->kind == 1 ? 2 : (b & 1);
        m->depth = (b & 2) ? 2 : 0;
        m->align = aligns[(b >> 2) % 5];
        bool def_ok = m->how != 1;
        m->hmpre = margin_byte(c, cap, def_ok);
        m->hmapp = margin_byte(c, cap, def_ok);
        m->vpre = margin_byte(c, MAXMARGIN, def_ok);
        m->vapp = margin_byte(c, MAXMARGIN, def_ok);
        m->align_hmoffset = m->align ? (int)(tp_u8(&c->t) % 17) - 8 : 0;
    }
    /* ubuf_pic_mem_mgr_alloc takes pixels (documented, must be multiples of the macropixel);
     * the flow definition takes macropixels; alloc_fourcc documents macropixels but forwards the value
     * as pixels: for the 2-pixel fourccs the real margin is not what the documentation says, so the
     * model does not claim to know it (and only even values are passed: odd ones hit an assert). */
    m->known = m->hmpre >= 0 && m->hmapp >= 0 && m->vpre >= 0 && m->vapp >= 0 && !(m->how == 2 && f->mp != 1);
    if (m->hmpre < 0 || m->hmapp < 0 || m->vpre < 0 || m->vapp < 0) CL(CL_DEFAULT_MARGIN);
    struct ubuf_mgr *mgr = NULL;
    if (m->how == 0) {
        mgr = ubuf_pic_mem_mgr_alloc(m->depth, m->depth, c->fm.umem_mgr, f->mp,
                                     m->hmpre < 0 ? -1 : m->hmpre * f->mp, m->hmapp < 0 ? -1 : m->hmapp * f->mp,
                                     m->vpre, m->vapp, m->align, m->align_hmoffset);
        if (!mgr) { c->ret = vp_internal(c->rep, "ubuf_pic_mem_mgr_alloc failed"); return; }
        for (int p = 0; p < f->np; p++)
            if (!ubase_check(ubuf_pic_mem_mgr_add_plane(mgr, f->pl[p].chroma, f->pl[p].hsub, f->pl[p].vsub, f->pl[p].mps)))
                { c->ret = vp_internal(c->rep, "add_plane failed"); ubuf_mgr_release(mgr); return; }
    } else if (m->how == 1) {
        struct uref *fd = NULL;
        if (f->kind == 0) fd = uref_pic_flow_alloc_format(c->fm.uref_mgr, f->tab);
        else {
            fd = uref_pic_flow_alloc_def(c->fm.uref_mgr, f->mp);
            for (int p = 0; fd && p < f->np; p++)
                if (!ubase_check(uref_pic_flow_add_plane(fd, f->pl[p].hsub, f->pl[p].vsub, f->pl[p].mps, f->pl[p].chroma)))
                    { c->ret = vp_internal(c->rep, "uref_pic_flow_add_plane failed"); uref_free(fd); return; }
        }
        if (!fd) { c->ret = vp_internal(c->rep, "flow definition allocation failed"); return; }
        bool ok = ubase_check(uref_pic_flow_set_hmprepend(fd, m->hmpre)) && ubase_check(uref_pic_flow_set_hmappend(fd, m->hmapp)) &&
                  ubase_check(uref_pic_flow_set_vprepend(fd, m->vpre)) && ubase_check(uref_pic_flow_set_vappend(fd, m->vapp));
        if (m->align) ok = ok && ubase_check(uref_pic_flow_set_align(fd, m->align)) &&
                           ubase_check(uref_pic_flow_set_align_hmoffset(fd, m->align_hmoffset));
        if (!ok) { uref_free(fd); c->ret = vp_internal(c->rep, "flow definition attributes"); return; }
        mgr = ubuf_mem_mgr_alloc_from_flow_def(m->depth, m->depth, c->fm.umem_mgr, fd);
        uref_free(fd);
        if (!mgr) { FAIL("C19/domain/mgr-from-flow-def", "ubuf_mem_mgr_alloc_from_flow_def refuses a complete picture flow definition (%s)", f->name); return; }
        CL(CL_FLOWDEF);
    } else {
        int k = f->mp;   /* even values for the 2-pixel macropixel fourccs (see above) */
        mgr = ubuf_pic_mem_mgr_alloc_fourcc(m->depth, m->depth, c->fm.umem_mgr, f->fourcc,
                                            m->hmpre < 0 ? -1 : m->hmpre * k, m->hmapp < 0 ? -1 : m->hmapp * k,
                                            m->vpre, m->vapp, m->align, m->align_hmoffset);
        if (!mgr) { FAIL("C19/domain/mgr-fourcc", "ubuf_pic_mem_mgr_alloc_fourcc(%s) fails", f->fourcc); return; }
    }
    m->mgr = mgr;
    if (m->hmpre > 0 || m->hmapp > 0 || m->vpre > 0 || m->vapp > 0) CL(CL_MARGIN);
    if ((m->hmpre > 0 && (m->hmpre & 1)) || (m->hmapp > 0 && (m->hmapp & 1)) || (m->vpre > 0 && (m->vpre & 1)) || (m->vapp > 0 && (m->vapp & 1))) CL(CL_MARGIN_ODD);
    if (m->align) CL(CL_ALIGN);
    if (m->depth) CL(CL_POOL);
    R("  mgr%c: %s hmprepend=%d hmappend=%d vprepend=%d vappend=%d (macropixels/lines%s) align=%d align_hmoffset=%d pool=%d\n",
      'A' + mi, m->how == 0 ? "ubuf_pic_mem_mgr_alloc" : m->how == 1 ? "ubuf_mem_mgr_alloc_from_flow_def" : "ubuf_pic_mem_mgr_alloc_fourcc",
      m->hmpre, m->hmapp, m->vpre, m->vapp, m->known ? "" : "; real margins not pinned by the documentation", m->align, m->align_hmoffset, m->depth);
    c->hash = vp_hash_mix(c->hash, m->how * 7 + m->depth);
    c->hash = vp_hash_mix(c->hash, ((m->hmpre + 1) << 24) ^ ((m->hmapp + 1) << 16) ^ ((m->vpre + 1) << 8) ^ (m->vapp + 1));
    c->hash = vp_hash_mix(c->hash, m->align * 64 + m->align_hmoffset + 8);
}

/* ------------------------------------------------------------------ model helpers */

static int pw(struct ctx *c, struct hnd *h, int p) { return h->hm / c->f.pl[p].hsub; }
static int ph(struct ctx *c, struct hnd *h, int p) { return h->v / c->f.pl[p].vsub; }
static int slot_of(struct ctx *c, struct hnd *h) { return (int)(h - c->h); }

static bool single(struct ctx *c, struct hnd *h) { return c->grefs[h->group] == 1; }

static bool inside(struct hnd *h, const uint8_t *p, size_t n)
{
    uintptr_t a = (uintptr_t)p, b = (uintptr_t)h->base;
    return a >= b && a - b <= h->asize && n <= h->asize - (a - b);
}

/* shifts/crops/extends the content model of slot s: new window starts dxm macropixels / dy lines
 * into the old one and is nhm x nv; what was not visible before is unknown */
static void model_window(struct ctx *c, int s, int dst, int ohm, int ov, int dxm, int dy, int nhm, int nv)
{
    struct fmt *f = &c->f;
    for (int p = 0; p < f->np; p++) {
        int mps = f->pl[p].mps;
        int ow = ohm / f->pl[p].hsub, oh = ov / f->pl[p].vsub, nw = nhm / f->pl[p].hsub, nh = nv / f->pl[p].vsub;
        int dx = dxm / f->pl[p].hsub, dyp = dy / f->pl[p].vsub;   /* exact: multiples of the common granularity */
        uint8_t *tv = g_val[MAXH][p], *tk = g_known[MAXH][p];
        for (int y = 0; y < nh; y++)
            for (int x = 0; x < nw; x++) {
                int sy = y + dyp, sx = x + dx;
                bool in = sy >= 0 && sy < oh && sx >= 0 && sx < ow;
                for (int k = 0; k < mps; k++) {
                    size_t di = ((size_t)y * nw + x) * mps + k;
                    if (in) { size_t si = ((size_t)sy * ow + sx) * mps + k; tv[di] = g_val[s][p][si]; tk[di] = g_known[s][p][si]; }
                    else { tv[di] = 0; tk[di] = 0; }
                }
            }
        memcpy(g_val[dst][p], tv, (size_t)nh * nw * mps);
        memcpy(g_known[dst][p], tk, (size_t)nh * nw * mps);
    }
}

static void drop(struct ctx *c, struct hnd *h)
{
    if (!h->u) return;
    ubuf_free(h->u);
    h->u = NULL;
    c->grefs[h->group]--;
}

/* learns the allocation span of a fresh buffer */
static void learn_span(struct ctx *c, struct hnd *h, const char *what)
{
    const uint8_t *q = NULL;
    if (!ubase_check(ubuf_pic_plane_read(h->u, c->f.pl[0].chroma, 0, 0, -1, -1, &q))) {
        FAIL("C19/domain/map-full", "%s: mapping the whole first plane (0,0,-1,-1) of a fresh %dx%d picture fails", what, h->hm * c->f.mp, h->v); return; }
    ubuf_pic_plane_unmap(h->u, c->f.pl[0].chroma, 0, 0, -1, -1);
    if (!umem_count_lookup(c->fm.umem_mgr, q, &h->base, &h->asize))
        FAIL("C19/bounds/outside-allocation", "%s: plane %s of a fresh %dx%d picture maps to %p, which is in no memory area allocated by the manager",
             what, c->f.pl[0].chroma, h->hm * c->f.mp, h->v, (void *)q);
    else if (h->asize > MAXALLOC) c->ret = vp_internal(c->rep, "allocation of %zu octets larger than the harness bound", h->asize);
}

/* full check of one handle; `opk` names the operation that preceded (failure key) */
static void verify(struct ctx *c, struct hnd *h, const char *opk, const char *what)
{
    if (!h->u || c->ret) return;
    struct fmt *f = &c->f;
    int s = slot_of(c, h);
    char key[64];
    size_t hs = 0, vs = 0; uint8_t mp = 0;
    if (!ubase_check(ubuf_pic_size(h->u, &hs, &vs, &mp)) || (int)hs != h->hm * f->mp || (int)vs != h->v || mp != f->mp) {
        snprintf(key, sizeof key, "C19/size/%s", opk);
        FAIL(key, "after %s: h%d ubuf_pic_size says %zux%zu macropixel %u, expected %dx%d macropixel %u", what, s, hs, vs, mp, h->hm * f->mp, h->v, f->mp);
        return;
    }
    /* planes as announced */
    const char *chroma = NULL; int np = 0;
    while (ubase_check(ubuf_pic_iterate_plane(h->u, &chroma)) && chroma != NULL) {
        if (np >= f->np || strcmp(chroma, f->pl[np].chroma)) { c->ret = vp_internal(c->rep, "plane %d is %s, harness table says %s", np, chroma, np < f->np ? f->pl[np].chroma : "none"); return; }
        np++;
    }
    if (np != f->np) { c->ret = vp_internal(c->rep, "%d planes iterated, harness table says %d", np, f->np); return; }
    g_pass++;
    for (int p = 0; p < f->np && !c->ret; p++) {
        size_t stride = 0; uint8_t hsub = 0, vsub = 0, mps = 0;
        if (!ubase_check(ubuf_pic_plane_size(h->u, f->pl[p].chroma, &stride, &hsub, &vsub, &mps)) ||
            hsub != f->pl[p].hsub || vsub != f->pl[p].vsub || mps != f->pl[p].mps) {
            c->ret = vp_internal(c->rep, "plane_size of %s: hsub %u vsub %u mps %u differ from the format", f->pl[p].chroma, hsub, vsub, mps); return; }
        const uint8_t *q = NULL;
        if (!ubase_check(ubuf_pic_plane_read(h->u, f->pl[p].chroma, 0, 0, -1, -1, &q))) {
            FAIL("C19/domain/map-full", "after %s: h%d plane %s: mapping the whole window (0,0,-1,-1) of a %dx%d picture fails", what, s, f->pl[p].chroma, h->hm * f->mp, h->v);
            return;
        }
        int w = pw(c, h, p), rows = ph(c, h, p);
        size_t rb = (size_t)w * mps;
        for (int y = 0; y < rows && !c->ret; y++) {
            const uint8_t *row = q + (size_t)y * stride;
            if (!inside(h, row, rb)) {
                snprintf(key, sizeof key, "C19/bounds/%s", opk);
                FAIL(key, "after %s: h%d plane %s row %d of the visible window occupies [%td, %td) relative to the memory area of %zu octets allocated for the picture "
                     "(window %dx%d, stride %zu)", what, s, f->pl[p].chroma, y, row - h->base, row - h->base + (ptrdiff_t)rb, h->asize, h->hm * f->mp, h->v, stride);
                break;
            }
            size_t off = row - h->base;
            for (size_t b = 0; b < rb; b++) {
                uint32_t own = ((uint32_t)p << 28) | ((uint32_t)y << 16) | (uint32_t)b;
                if (g_stamp[off + b] == g_pass) {
                    uint32_t o = g_owner[off + b];
                    snprintf(key, sizeof key, "C19/alias/%s", opk);
                    FAIL(key, "after %s: h%d plane %s row %d octet %zu shares its address (area offset %zu) with plane %s row %u octet %u of the same window "
                         "(window %dx%d, stride %zu)", what, s, f->pl[p].chroma, y, b, off + b, f->pl[o >> 28].chroma, (o >> 16) & 0xfff, o & 0xffff, h->hm * f->mp, h->v, stride);
                    break;
                }
                g_stamp[off + b] = g_pass; g_owner[off + b] = own;
                size_t mi = (size_t)y * rb + b;
                if (g_known[s][p][mi]) {
                    if (g_val[s][p][mi] != row[b]) {
                        snprintf(key, sizeof key, "C19/content/%s", opk);
                        FAIL(key, "after %s: h%d plane %s row %d macropixel %zu octet %zu reads %02x, the value it had while staying visible is %02x "
                             "(window %dx%d)", what, s, f->pl[p].chroma, y, b / mps, b % mps, row[b], g_val[s][p][mi], h->hm * f->mp, h->v);
                        break;
                    }
                } else { g_val[s][p][mi] = row[b]; g_known[s][p][mi] = 1; }
            }
        }
        ubuf_pic_plane_unmap(h->u, f->pl[p].chroma, 0, 0, -1, -1);
    }
}

static void verify_all(struct ctx *c, const char *opk, const char *what)
{
    for (int i = 0; i < MAXH; i++) verify(c, &c->h[i], opk, what);
}

/* writes a fresh position-coded pattern into every octet of every plane's full window */
static void fill(struct ctx *c, struct hnd *h, const char *opk, const char *what)
{
    if (!h->u || c->ret || !single(c, h)) return;
    struct fmt *f = &c->f;
    int s = slot_of(c, h);
    char key[64];
    c->gen++;
    for (int p = 0; p < f->np && !c->ret; p++) {
        size_t stride = 0; uint8_t mps = f->pl[p].mps;
        ubuf_pic_plane_size(h->u, f->pl[p].chroma, &stride, NULL, NULL, NULL);
        uint8_t *q = NULL;
        if (!ubase_check(ubuf_pic_plane_write(h->u, f->pl[p].chroma, 0, 0, -1, -1, &q))) {
            FAIL("C19/domain/map-full", "after %s: h%d (not shared) plane %s: mapping the whole window for writing fails", what, s, f->pl[p].chroma); return; }
        int w = pw(c, h, p), rows = ph(c, h, p);
        size_t rb = (size_t)w * mps;
        for (int y = 0; y < rows; y++) {
            uint8_t *row = q + (size_t)y * stride;
            if (!inside(h, row, rb)) {
                snprintf(key, sizeof key, "C19/bounds/%s", opk);
                FAIL(key, "after %s: h%d plane %s row %d of the visible window occupies [%td, %td) relative to the memory area of %zu octets allocated for the picture "
                     "(window %dx%d, stride %zu)", what, s, f->pl[p].chroma, y, row - h->base, row - h->base + (ptrdiff_t)rb, h->asize, h->hm * f->mp, h->v, stride);
                break;
            }
            for (size_t b = 0; b < rb; b++) {
                row[b] = pat(c->gen, p, y, (int)b);
                g_val[s][p][(size_t)y * rb + b] = row[b]; g_known[s][p][(size_t)y * rb + b] = 1;
            }
        }
        ubuf_pic_plane_unmap(h->u, f->pl[p].chroma, 0, 0, -1, -1);
    }
}

static int pick_live(struct ctx *c)
{
    int live[MAXH], n = 0;
    for (int i = 0; i < MAXH; i++) if (c->h[i].u) live[n++] = i;
    if (!n) return -1;
    return live[tp_pick(&c->t, n)];
}
static bool any_live(struct ctx *c)
{
    for (int i = 0; i < MAXH; i++) if (c->h[i].u) return true;
    return false;
}
static int pick_free(struct ctx *c)
{
    for (int i = 0; i < MAXH; i++) if (!c->h[i].u) return i;
    return -1;
}

static int rnd_mult(struct ctx *c, int lo, int hi, int g)   /* multiple of g in [lo, hi] (lo, hi multiples of g); lo if empty */
{
    if (hi <= lo) return lo;
    return lo + g * (int)tp_range(&c->t, 0, (hi - lo) / g);
}

/* ------------------------------------------------------------------ generators of window arguments */

/* offset into a dimension of `size` (pixels or lines) for a plane of granularity g; mpx = macropixel (1 for lines) */
static int gen_off(struct ctx *c, int size, int g, int mpx, bool valid)
{
    uint8_t sel = tp_u8(&c->t);
    if (valid) {
        switch (sel % 8) {
        case 0: return 0;
        case 1: return size > g ? g : 0;
        case 2: return size - g;
        case 3: return -g;
        case 4: return -size;
        case 5: return (size / 2) / g * g;
        case 6: return rnd_mult(c, 0, size - g, g);
        default: return -g - rnd_mult(c, 0, size - g, g);
        }
    }
    switch (sel % 20) {
    case 0: return 0;
    case 1: return g;
    case 2: return size - g;
    case 3: return size;
    case 4: return size + g;
    case 5: return -g;
    case 6: return -size;
    case 7: return -size - g;
    case 8: return -2 * size;
    case 9: return -2 * size - g;
    case 10: return -3 * size - g;
    case 11: return g > 1 ? g - 1 : 1;
    case 12: return -1;
    case 13: return rnd_mult(c, 0, size, g);
    case 14: return -g - rnd_mult(c, 0, size - g, g);
    case 15: return (int)tp_range(&c->t, -3 * size - 8, size + 8);
    case 16: return g > mpx ? mpx : g;            /* a macropixel multiple that the subsampling forbids */
    case 17: return (size / 2) / g * g;
    case 18: return -4 * size;
    default: return rnd_mult(c, 0, size, g);
    }
}

/* extent for a window starting at normalised offset noff */
static int gen_size(struct ctx *c, int size, int noff, int g, bool valid)
{
    uint8_t sel = tp_u8(&c->t);
    int rest = size - noff;
    int r;
    if (valid) {
        switch (sel % 4) {
        case 0: return -1;
        case 1: return rest;
        case 2: return g;
        default: return rnd_mult(c, g, rest, g);
        }
    }
    switch (sel % 12) {
    case 0: return -1;
    case 1: r = rest; break;
    case 2: r = rest - g; break;
    case 3: r = rest + g; break;
    case 4: r = g; break;
    case 5: r = size; break;
    case 6: r = 0; break;
    case 7: r = rest - 1; break;
    case 8: r = rnd_mult(c, g, imax(rest, g), g); break;
    case 9: r = 1; break;
    case 10: r = (int)tp_range(&c->t, 0, size + 8); break;
    default: r = 2 * g; break;
    }
    return r < 0 ? g : r;      /* sizes below -1 have no documented meaning: not generated */
}

/* ------------------------------------------------------------------ operations */

static void op_alloc(struct ctx *c)
{
    struct fmt *f = &c->f;
    int slot = pick_free(c);
    if (slot < 0) { slot = pick_live(c); R("  free(h%d)\n", slot); drop(c, &c->h[slot]); }
    struct hnd *h = &c->h[slot];
    uint8_t b = tp_u8(&c->t);
    int mi = (b & 1) && c->mg[1].mgr ? 1 : 0;
    int maxhm = c->thorough ? 40 : 24, maxv = c->thorough ? 24 : 12;
    int kh = imax(1, maxhm * f->mp / f->G), kv = imax(1, maxv / f->GV);
    int hsize = f->G * (1 + (b >> 1) % kh);
    int vsize = f->GV * (1 + tp_u8(&c->t) % kv);
    uint8_t odd = (b >> 5);       /* 1 in 8: a size that is not a multiple of the granularity */
    bool bad = false;
    if (odd == 7) {
        if (f->G > 1 && (tp_u8(&c->t) & 1 || f->GV == 1)) { hsize += (f->G > f->mp && (b & 2)) ? f->mp : 1; bad = true; }
        else if (f->GV > 1) { vsize += 1; bad = true; }
    }
    c->hash = vp_hash_mix(c->hash, 0x100 + mi + hsize * 4 + vsize * 4096);
    struct ubuf *u = ubuf_pic_alloc(c->mg[mi].mgr, hsize, vsize);
    R("  h%d=ubuf_pic_alloc(mgr%c,%d,%d) -> %s%s\n", slot, 'A' + mi, hsize, vsize, u ? "ok" : "NULL", bad ? " [not a multiple of the granularity]" : "");
    c->mg[mi].used = true;
    if (bad) {
        if (u) { ubuf_free(u); FAIL("C19/refuse/alloc-granularity", "ubuf_pic_alloc(%d,%d) accepted although the format needs multiples of %d pixels x %d lines", hsize, vsize, f->G, f->GV); }
        else CL(CL_ALLOC_REFUSED);
        return;
    }
    if (!u) { FAIL("C19/domain/alloc", "ubuf_pic_alloc(%d,%d) fails (granularity %dx%d)", hsize, vsize, f->G, f->GV); return; }
    memset(h, 0, sizeof(*h));
    h->u = u; h->m = mi; h->hm = hsize / f->mp; h->v = vsize;
    h->hmpre = c->mg[mi].hmpre; h->hmapp = c->mg[mi].hmapp; h->vpre = c->mg[mi].vpre; h->vapp = c->mg[mi].vapp; h->mknown = c->mg[mi].known;
    h->group = c->ngroups++; c->grefs[h->group] = 1;
    for (int p = 0; p < f->np; p++) {
        memset(g_known[slot][p], 0, (size_t)pw(c, h, p) * ph(c, h, p) * f->pl[p].mps);
        if (c->mg[mi].align && ((size_t)(h->hm + imax(h->hmpre, 0) + imax(h->hmapp, 0)) / f->pl[p].hsub * f->pl[p].mps) % c->mg[mi].align) CL(CL_SIZE_NOT_MULT_OF_ALIGN);
    }
    char what[64]; snprintf(what, sizeof what, "h%d=alloc(%d,%d)", slot, hsize, vsize);
    learn_span(c, h, what);
    if (c->ret) return;
    if (!(tp_u8(&c->t) & 0x80)) fill(c, h, "alloc", what);
    verify_all(c, "alloc", what);
}

/* a window with a negative extent (offset beyond the end with "-1 = up to the end"), or a non-empty window
 * with a position outside the picture, or not on the plane's granularity, must be refused; empty windows
 * are not judged */
static const char *refusal_reason_map(int nh, int nv, int H, int V, int rh, int rv, bool gran)
{
    if (rh < 0 || rv < 0) return "map-offset-beyond-end";
    if (rh == 0 || rv == 0) return NULL;
    if (nh < 0 || nv < 0) return "map-offset-before-start";
    if (nh > H || nv > V) return "map-offset-beyond-end";
    if (nh + rh > H || nv + rv > V) return "map-extent-beyond-end";
    if (gran) return "map-granularity";
    return NULL;
}

static void op_map(struct ctx *c, bool want_write)
{
    struct fmt *f = &c->f;
    int hi = pick_live(c); if (hi < 0) return;
    struct hnd *h = &c->h[hi];
    int p = tp_pick(&c->t, f->np);
    int g = f->mp * f->pl[p].hsub, gv = f->pl[p].vsub, mps = f->pl[p].mps;
    int H = h->hm * f->mp, V = h->v;
    uint8_t mode = tp_u8(&c->t) % 4;
    int hoff = gen_off(c, H, g, f->mp, mode == 0 || mode == 2);
    int voff = gen_off(c, V, gv, 1, mode == 0 || mode == 1);
    int nh = hoff < 0 ? hoff + H : hoff, nv = voff < 0 ? voff + V : voff;
    int hs = gen_size(c, H, nh, g, mode == 0 || mode == 2);
    int vs = gen_size(c, V, nv, gv, mode == 0 || mode == 1);
    bool write = want_write && single(c, h);
    int rh = hs == -1 ? H - nh : hs, rv = vs == -1 ? V - nv : vs;
    bool gran = smod(nh, g) || smod(rh, g) || smod(nv, gv) || smod(rv, gv);
    const char *why = refusal_reason_map(nh, nv, H, V, rh, rv, gran);
    bool must_accept = !why && rh > 0 && rv > 0;
    c->hash = vp_hash_mix(c->hash, 0x200 + hi + p * 8 + write * 64);
    c->hash = vp_hash_mix(c->hash, ((uint64_t)(uint16_t)hoff << 48) | ((uint64_t)(uint16_t)voff << 32) | ((uint64_t)(uint16_t)hs << 16) | (uint16_t)vs);
    uint8_t *q = NULL;
    int err = write ? ubuf_pic_plane_write(h->u, f->pl[p].chroma, hoff, voff, hs, vs, &q)
                    : ubuf_pic_plane_read(h->u, f->pl[p].chroma, hoff, voff, hs, vs, (const uint8_t **)&q);
    char what[112];
    snprintf(what, sizeof what, "ubuf_pic_plane_%s(h%d %dx%d,%s,%d,%d,%d,%d)", write ? "write" : "read", hi, H, V, f->pl[p].chroma, hoff, voff, hs, vs);
    R("  %s -> %d%s%s%s\n", what, err, why ? " [must be refused: " : "", why ? why : "", why ? "]" : "");
    if (!ubase_check(err)) {
        CL(CL_MAP_REFUSED);
        if (why && !strcmp(why, "map-granularity")) CL(CL_MAP_MISALIGNED);
        if (must_accept) FAIL("C19/domain/map", "%s is refused (error %d) although the window [%d,%d)x[%d,%d) lies inside the picture and respects the plane's granularity %dx%d",
                              what, err, nh, nh + rh, nv, nv + rv, g, gv);
        return;
    }
    if (why) {
        char key[64]; snprintf(key, sizeof key, "C19/refuse/%s", why);
        FAIL(key, "%s is accepted: after normalisation the window is [%d,%d)x[%d,%d) of a %dx%d picture (plane granularity %dx%d); returned pointer %s the picture's memory area",
             what, nh, nh + rh, nv, nv + rv, H, V, g, gv, inside(h, q, 1) ? "is inside" : "is OUTSIDE");
        ubuf_pic_plane_unmap(h->u, f->pl[p].chroma, hoff, voff, hs, vs);
        return;
    }
    if (must_accept) {
        if (hoff < 0 || voff < 0) CL(CL_MAP_NEG);
        if (nh > 0 || nv > 0 || rh < H || rv < V) CL(CL_MAP_SUB);
        size_t stride = 0;
        ubuf_pic_plane_size(h->u, f->pl[p].chroma, &stride, NULL, NULL, NULL);
        int x0 = nh / g, y0 = nv / gv, w = rh / g, rows = rv / gv, fw = pw(c, h, p);
        size_t rb = (size_t)w * mps;
        if (write) { c->gen++; CL(CL_MAP_WRITE); }
        for (int y = 0; y < rows && !c->ret; y++) {
            uint8_t *row = q + (size_t)y * stride;
            if (!inside(h, row, rb)) {
                FAIL("C19/bounds/map", "%s accepted, but row %d of the window occupies [%td, %td) relative to the memory area of %zu octets allocated for the picture (stride %zu)",
                     what, y, row - h->base, row - h->base + (ptrdiff_t)rb, h->asize, stride);
                break;
            }
            for (size_t b = 0; b < rb; b++) {
                size_t mi = ((size_t)(y0 + y) * fw + x0) * mps + b;
                if (write) { row[b] = pat(c->gen, p, y0 + y, (int)(x0 * mps + b)) ^ 0x5a; g_val[hi][p][mi] = row[b]; g_known[hi][p][mi] = 1; }
                else if (g_known[hi][p][mi]) {
                    if (g_val[hi][p][mi] != row[b]) {
                        FAIL("C19/content/map", "%s: row %d macropixel %zu octet %zu of the window reads %02x; that position (row %d, macropixel %zu of the plane) holds %02x",
                             what, y, b / mps, b % mps, row[b], y0 + y, x0 + b / mps, g_val[hi][p][mi]);
                        break;
                    }
                } else { g_val[hi][p][mi] = row[b]; g_known[hi][p][mi] = 1; }
            }
        }
    }
    if (!ubase_check(ubuf_pic_plane_unmap(h->u, f->pl[p].chroma, hoff, voff, hs, vs)))
        FAIL("C19/domain/unmap", "%s accepted but the matching ubuf_pic_plane_unmap fails", what);
    if (write) verify_all(c, "map", what);
}

/* ubuf_pic_plane_clear / ubuf_pic_plane_set_color write through a mapped window: what they accept follows the mapping rules, and they
 * write inside that window only -- every octet of every plane outside it keeps its value (verify_all), nothing outside the
 * allocation is touched (exact-size areas under ASan). What the window holds afterwards is not judged (unknown in the model). */
static bool clear_knows(const char *chroma)
{
    static const char *const k[] = { "a8", "r8g8b8a8", "b8g8r8a8", "a8r8g8b8", "a8b8g8r8", "y8", "r8g8b8", "b8g8r8", "y16l", "y16b", "u8", "v8", "u8v8",
                                     "y10l", "u10l", "v10l", "u16l", "v16l", "u16b", "v16b", "u10y10v10y10u10y10v10y10u10y10v10y10", NULL };
    for (int i = 0; k[i]; i++) if (!strcmp(chroma, k[i])) return true;
    return false;
}

static void op_clear(struct ctx *c)
{
    struct fmt *f = &c->f;
    int hi = pick_live(c); if (hi < 0) return;
    struct hnd *h = &c->h[hi];
    int p = tp_pick(&c->t, f->np);
    int g = f->mp * f->pl[p].hsub, gv = f->pl[p].vsub, mps = f->pl[p].mps;
    int H = h->hm * f->mp, V = h->v;
    uint8_t mode = tp_u8(&c->t);
    int hoff = gen_off(c, H, g, f->mp, true);
    int voff = gen_off(c, V, gv, 1, true);
    int nh = hoff < 0 ? hoff + H : hoff, nv = voff < 0 ? voff + V : voff;
    int hs = gen_size(c, H, nh, g, true);
    int vs = gen_size(c, V, nv, gv, true);
    if (!single(c, h)) return;                 /* a shared picture is not writable: nothing to clear */
    int rh = hs == -1 ? H - nh : hs, rv = vs == -1 ? V - nv : vs;
    bool gran = smod(nh, g) || smod(rh, g) || smod(nv, gv) || smod(rv, gv);
    const char *why = refusal_reason_map(nh, nv, H, V, rh, rv, gran);
    if (why || rh <= 0 || rv <= 0) return;     /* the refusals are op_map's business */
    bool known = clear_knows(f->pl[p].chroma);
    bool multi = (mode & 1) && mps > 1;
    uint8_t pattern[16];
    for (int i = 0; i < 16; i++) pattern[i] = 0xe0 + i;
    c->hash = vp_hash_mix(c->hash, 0x900 + hi + p * 8 + known * 64 + multi * 128);
    c->hash = vp_hash_mix(c->hash, ((uint64_t)(uint16_t)hoff << 48) | ((uint64_t)(uint16_t)voff << 32) | ((uint64_t)(uint16_t)hs << 16) | (uint16_t)vs);
    char what[128];
    int err;
    if (known && !(mode & 2)) {
        snprintf(what, sizeof what, "ubuf_pic_plane_clear(h%d %dx%d,%s,%d,%d,%d,%d,%d)", hi, H, V, f->pl[p].chroma, hoff, voff, hs, vs, (mode >> 2) & 1);
        err = ubuf_pic_plane_clear(h->u, f->pl[p].chroma, hoff, voff, hs, vs, (mode >> 2) & 1);
        if (mps > 1) multi = true;             /* (some of its patterns are one octet: not told apart here) */
    } else {
        snprintf(what, sizeof what, "ubuf_pic_plane_set_color(h%d %dx%d,%s,%d,%d,%d,%d, pattern of %d)", hi, H, V, f->pl[p].chroma, hoff, voff, hs, vs, multi ? mps : 1);
        err = ubuf_pic_plane_set_color(h->u, f->pl[p].chroma, hoff, voff, hs, vs, pattern, multi ? mps : 1);
    }
    R("  %s -> %d\n", what, err);
    if (!ubase_check(err)) { FAIL("C19/domain/clear", "%s is refused (error %d) although the window lies inside the picture, respects the granularity %dx%d and the picture has one owner", what, err, g, gv); return; }
    CL(CL_CLEAR);
    if (nh + rh < H || nh > 0) CL(CL_CLEAR_SUB);
    if (multi) CL(CL_CLEAR_MULTI);
    int x0 = nh / g, y0 = nv / gv, w = rh / g, rows = rv / gv, fw = pw(c, h, p);
    for (int y = 0; y < rows; y++)
        for (size_t b = 0; b < (size_t)w * mps; b++)
            g_known[hi][p][((size_t)(y0 + y) * fw + x0) * mps + b] = 0;
    verify_all(c, "clear", what);
}

/* arguments of resize/copy/replace; `lim*`: how far the new window may reach (macropixels/lines) on each side */
struct rz { int hskip, vskip, nhs, nvs; };

static void gen_axis(struct ctx *c, int size, int pre, int app, int G, int mpx, int mode, int *skip_p, int *new_p)
{
    /* size, pre, app in pixels/lines; pre/app are the room the model believes in (0 if unknown) */
    int preG = pre / G * G, appG = app / G * G;
    uint8_t sel = tp_u8(&c->t);
    int skip, end;     /* end = skip + new size, in old coordinates */
    switch (mode) {
    case 0:            /* crop */
        skip = (sel & 3) == 0 ? 0 : rnd_mult(c, 0, size - G, G);
        end = (sel & 12) == 0 ? size : rnd_mult(c, skip + G, size, G);
        break;
    case 1:            /* extend (and possibly crop the other side) inside the margins */
        skip = (sel & 3) == 0 ? -preG : (sel & 3) == 1 ? 0 : -rnd_mult(c, 0, preG, G);
        end = (sel & 12) == 0 ? size + appG : (sel & 12) == 4 ? size : rnd_mult(c, imax(skip + G, G), size + appG, G);
        if (sel & 16) { if (sel & 32) skip = rnd_mult(c, 0, size - G, G); else end = rnd_mult(c, imax(skip + G, G), size, G); if (end <= skip) end = skip + G; }
        break;
    default: {         /* boundary-biased, including what must be refused */
        switch (sel % 14) {
        case 0: skip = 0; break;
        case 1: skip = G; break;
        case 2: skip = -G; break;
        case 3: skip = -preG; break;
        case 4: skip = -preG - G; break;
        case 5: skip = -pre; break;
        case 6: skip = size - G; break;
        case 7: skip = size; break;
        case 8: skip = size + G; break;
        case 9: skip = G > 1 ? ((sel & 64) && G > mpx ? mpx : 1) : 1; break;
        case 10: skip = G > 1 ? -((sel & 64) && G > mpx ? mpx : 1) : -1; break;
        case 11: skip = rnd_mult(c, -preG - G, size, G); break;
        case 12: skip = -pre - 1; break;
        default: skip = (int)tp_range(&c->t, -pre - 4, size + 4); break;
        }
        uint8_t s2 = tp_u8(&c->t);
        switch (s2 % 12) {
        case 0: *skip_p = skip; *new_p = -1; return;
        case 1: end = size; break;
        case 2: end = size + appG; break;
        case 3: end = size + appG + G; break;
        case 4: end = size + app; break;
        case 5: end = skip + G; break;
        case 6: end = skip + size; break;
        case 7: end = skip + (G > 1 ? G + 1 : 1); break;
        case 8: end = skip; break;                   /* size 0 */
        case 9: end = rnd_mult(c, G, size + appG + G, G); break;
        case 10: end = size + app + 1; break;
        default: end = skip + (int)tp_range(&c->t, 0, size + app + 4); break;
        }
        break; }
    }
    *skip_p = skip;
    int ns = end - skip;
    if (mode < 2 && end == size && (sel & 64)) ns = -1;   /* "keep the same end" spelled -1 */
    if (ns < -1) ns = G;
    *new_p = ns;
}

static struct rz gen_rz(struct ctx *c, struct hnd *h, bool copy)
{
    struct fmt *f = &c->f;
    struct rz r;
    int H = h->hm * f->mp, V = h->v;
    int hpre, happ, vpre, vapp;
    if (copy) { hpre = happ = 2 * f->G; vpre = vapp = 2 * f->GV; }      /* a copy may extend freely: keep it small */
    else if (h->mknown) { hpre = h->hmpre * f->mp; happ = h->hmapp * f->mp; vpre = h->vpre; vapp = h->vapp; }
    else { hpre = happ = 8; vpre = vapp = 2; }
    uint8_t m = tp_u8(&c->t);
    static const uint8_t modes[8][2] = { { 0, 0 }, { 1, 1 }, { 0, 1 }, { 1, 0 }, { 2, 0 }, { 0, 2 }, { 2, 2 }, { 1, 2 } };
    gen_axis(c, H, hpre, happ, f->G, f->mp, modes[m % 8][0], &r.hskip, &r.nhs);
    gen_axis(c, V, vpre, vapp, f->GV, 1, modes[m % 8][1], &r.vskip, &r.nvs);
    return r;
}

static void op_resize(struct ctx *c)
{
    struct fmt *f = &c->f;
    int hi = pick_live(c); if (hi < 0) return;
    struct hnd *h = &c->h[hi];
    int H = h->hm * f->mp, V = h->v, G = f->G, GV = f->GV;
    struct rz r = gen_rz(c, h, false);
    int nhs = r.nhs == -1 ? H - r.hskip : r.nhs, nvs = r.nvs == -1 ? V - r.vskip : r.nvs;
    bool gran = smod(r.hskip, G) || smod(nhs, G) || smod(r.vskip, GV) || smod(nvs, GV);
    bool defined = !gran && nhs > 0 && nvs > 0;
    int left = -h->hmpre * f->mp, right = H + h->hmapp * f->mp, top = -h->vpre, bottom = V + h->vapp;
    bool exceed = h->mknown && (r.hskip < left || r.hskip + nhs > right || r.vskip < top || r.vskip + nvs > bottom);
    bool shrink = r.hskip >= 0 && r.vskip >= 0 && r.hskip + nhs <= H && r.vskip + nvs <= V;
    bool overlap = r.hskip < H && r.vskip < V && r.hskip + nhs > 0 && r.vskip + nvs > 0;
    bool noop = !r.hskip && !r.vskip && nhs == H && nvs == V;
    const char *why = (gran && nhs > 0 && nvs > 0) ? "resize-granularity" : (defined && exceed) ? "resize-beyond-allocation" : NULL;
    bool must_accept = defined && overlap && (shrink || (h->mknown && !exceed && single(c, h)));
    c->hash = vp_hash_mix(c->hash, 0x300 + hi);
    c->hash = vp_hash_mix(c->hash, ((uint64_t)(uint16_t)r.hskip << 48) | ((uint64_t)(uint16_t)r.vskip << 32) | ((uint64_t)(uint16_t)r.nhs << 16) | (uint16_t)r.nvs);
    int err = ubuf_pic_resize(h->u, r.hskip, r.vskip, r.nhs, r.nvs);
    char what[128];
    snprintf(what, sizeof what, "ubuf_pic_resize(h%d %dx%d margins %s%d,%d,%d,%d px/lines, %d,%d,%d,%d)", hi, H, V, h->mknown ? "" : "unknown ",
             h->hmpre * f->mp, h->hmapp * f->mp, h->vpre, h->vapp, r.hskip, r.vskip, r.nhs, r.nvs);
    R("  %s -> %d%s%s%s\n", what, err, why ? " [must be refused: " : "", why ? why : "", why ? "]" : "");
    if (!ubase_check(err)) {
        CL(CL_RESIZE_REFUSED);
        if (gran) CL(CL_RESIZE_GRAN);
        if (must_accept) FAIL("C19/domain/resize", "%s is refused (error %d) although the new window [%d,%d)x[%d,%d) respects the granularity %dx%d and %s",
                              what, err, r.hskip, r.hskip + nhs, r.vskip, r.vskip + nvs, G, GV, shrink ? "only shrinks the picture" : "stays inside the margins of a buffer that is not shared");
        verify_all(c, "resize-refused", what);
        return;
    }
    if (why) {
        char key[64]; snprintf(key, sizeof key, "C19/refuse/%s", why);
        FAIL(key, "%s is accepted: new window [%d,%d)x[%d,%d) in the coordinates of the old one; granularity %dx%d; allocated rectangle [%d,%d)x[%d,%d)",
             what, r.hskip, r.hskip + nhs, r.vskip, r.vskip + nvs, G, GV, left, right, top, bottom);
        return;
    }
    if (!defined) {        /* accepted a request with no documented meaning (empty / negative size): retire the handle */
        CL(CL_OUTDOM); R("    (accepted outside the documented domain: handle retired)\n");
        drop(c, h); return;
    }
    bool ext = !shrink;
    model_window(c, hi, hi, h->hm, h->v, r.hskip / f->mp, r.vskip, nhs / f->mp, nvs);
    if (h->mknown) {
        int tot_h = h->hmpre + h->hm + h->hmapp, tot_v = h->vpre + h->v + h->vapp;
        h->hmpre += r.hskip / f->mp; h->hmapp = tot_h - h->hmpre - nhs / f->mp;
        h->vpre += r.vskip; h->vapp = tot_v - h->vpre - nvs;
    }
    h->hm = nhs / f->mp; h->v = nvs;
    if (!noop) {
        CL(CL_RESIZE_OK); h->nresize++;
        if (ext) { CL(CL_RESIZE_EXT); h->nextend++; if (!single(c, h)) CL(CL_EXT_SHARED); }
        if (h->nresize >= 2 && h->nextend >= 1) { CL(CL_CHAIN); c->chain = true; }
    }
    verify_all(c, "resize", what);
    if (!(tp_u8(&c->t) & 0x80)) { fill(c, h, "resize", what); verify_all(c, "resize", what); }
}

static void op_dup(struct ctx *c)
{
    int s = pick_live(c), slot = pick_free(c);
    if (s < 0 || slot < 0) return;
    struct fmt *f = &c->f;
    struct ubuf *u = ubuf_dup(c->h[s].u);
    R("  h%d=ubuf_dup(h%d) -> %s\n", slot, s, u ? "ok" : "NULL");
    c->hash = vp_hash_mix(c->hash, 0x400 + s);
    if (!u) { FAIL("C19/domain/dup", "ubuf_dup fails"); return; }
    c->h[slot] = c->h[s]; c->h[slot].u = u; c->h[slot].nresize = c->h[slot].nextend = 0;
    c->grefs[c->h[s].group]++;
    for (int p = 0; p < f->np; p++) {
        size_t n = (size_t)pw(c, &c->h[s], p) * ph(c, &c->h[s], p) * f->pl[p].mps;
        memcpy(g_val[slot][p], g_val[s][p], n); memcpy(g_known[slot][p], g_known[s][p], n);
    }
    CL(CL_DUP);
    char what[32]; snprintf(what, sizeof what, "h%d=dup(h%d)", slot, s);
    verify_all(c, "dup", what);
}

static void op_copy(struct ctx *c, bool replace)
{
    struct fmt *f = &c->f;
    int s = pick_live(c); if (s < 0) return;
    int slot = replace ? s : pick_free(c);
    if (slot < 0) return;
    struct hnd *h = &c->h[s];
    int H = h->hm * f->mp, V = h->v, G = f->G, GV = f->GV;
    int mi = (tp_u8(&c->t) & 1) && c->mg[1].mgr ? 1 : 0;
    struct rz r = gen_rz(c, h, true);
    int nhs = r.nhs == -1 ? H - r.hskip : r.nhs, nvs = r.nvs == -1 ? V - r.vskip : r.nvs;
    if (nhs / f->mp > MAX_HM - 2 * MAXMARGIN || nvs > MAX_V - 2 * MAXMARGIN) return;     /* keep the new picture within the model's arrays */
    bool gran = smod(r.hskip, G) || smod(nhs, G) || smod(r.vskip, GV) || smod(nvs, GV);
    bool defined = !gran && nhs > 0 && nvs > 0;
    bool overlap = r.hskip < H && r.vskip < V && r.hskip + nhs > 0 && r.vskip + nvs > 0;
    bool must_accept = defined && overlap;
    c->hash = vp_hash_mix(c->hash, 0x500 + s + replace * 8 + mi * 16);
    c->hash = vp_hash_mix(c->hash, ((uint64_t)(uint16_t)r.hskip << 48) | ((uint64_t)(uint16_t)r.vskip << 32) | ((uint64_t)(uint16_t)r.nhs << 16) | (uint16_t)r.nvs);
    struct ubuf *nu = NULL; int err = 0;
    if (replace) { struct ubuf *old = h->u; err = ubuf_pic_replace(c->mg[mi].mgr, &h->u, r.hskip, r.vskip, r.nhs, r.nvs); nu = ubase_check(err) ? h->u : NULL; if (!nu && h->u != old) { c->ret = vp_internal(c->rep, "replace failed but changed the pointer"); return; } }
    else nu = ubuf_pic_copy(c->mg[mi].mgr, h->u, r.hskip, r.vskip, r.nhs, r.nvs);
    c->mg[mi].used = true;
    char what[128];
    snprintf(what, sizeof what, "%sh%d %dx%d -> mgr%c, %d,%d,%d,%d)", replace ? "ubuf_pic_replace(" : "ubuf_pic_copy(", s, H, V, 'A' + mi, r.hskip, r.vskip, r.nhs, r.nvs);
    char lhs[8] = ""; if (!replace) snprintf(lhs, sizeof lhs, "h%d=", slot);
    R("  %s%s -> %s%s\n", lhs, what, nu ? "ok" : "failed", gran ? " [must be refused: granularity]" : "");
    if (!nu) {
        if (must_accept) FAIL("C19/domain/copy", "%s fails although the new window [%d,%d)x[%d,%d) respects the granularity %dx%d and overlaps the picture", what, r.hskip, r.hskip + nhs, r.vskip, r.vskip + nvs, G, GV);
        verify_all(c, "copy-refused", what);
        return;
    }
    if (gran && nhs > 0 && nvs > 0) {
        if (!replace) ubuf_free(nu);
        FAIL("C19/refuse/copy-granularity", "%s is accepted although skips and sizes must be multiples of %d pixels x %d lines", what, G, GV);
        return;
    }
    if (!defined) {
        CL(CL_OUTDOM); R("    (accepted outside the documented domain: result discarded)\n");
        if (replace) { c->grefs[h->group]--; h->u = NULL; }
        ubuf_free(nu); return;
    }
    struct hnd old = *h;
    model_window(c, s, slot, old.hm, old.v, r.hskip / f->mp, r.vskip, nhs / f->mp, nvs);
    if (replace) c->grefs[old.group]--;
    struct hnd *d = &c->h[slot];
    memset(d, 0, sizeof(*d));
    d->u = nu; d->m = mi; d->hm = nhs / f->mp; d->v = nvs;
    d->hmpre = c->mg[mi].hmpre; d->hmapp = c->mg[mi].hmapp; d->vpre = c->mg[mi].vpre; d->vapp = c->mg[mi].vapp; d->mknown = c->mg[mi].known;
    d->group = c->ngroups++; c->grefs[d->group] = 1;
    CL(CL_COPY);
    if (r.hskip < 0 || r.vskip < 0 || r.hskip + nhs > H || r.vskip + nvs > V) CL(CL_COPY_EXT);
    learn_span(c, d, what);
    if (c->ret) return;
    verify_all(c, replace ? "replace" : "copy", what);
    if (tp_u8(&c->t) & 0x80) { fill(c, d, "copy", what); verify_all(c, "copy", what); }
}

/* ubuf_split_fields: two more handles on the same memory, each showing every other line.  Row j of field f (0 = even/top, 1 = odd)
 * is line 2j+f of the picture: it has to be one of the picture's lines, at that line's address; at most one line (the last one of a
 * picture with an odd number of lines) is shown by neither field. */
static void op_fields(struct ctx *c)
{
    struct fmt *f = &c->f;
    int s = pick_live(c); if (s < 0) return;
    struct hnd *h = &c->h[s];
    if (h->v < 2) return;
    c->hash = vp_hash_mix(c->hash, 0x900 + s);
    struct ubuf *fld[2] = { NULL, NULL };      /* [1] = odd */
    int err = ubuf_split_fields(h->u, &fld[1], &fld[0]);
    char what[64]; snprintf(what, sizeof what, "ubuf_split_fields(h%d %dx%d)", s, h->hm * f->mp, h->v);
    R("  %s -> %d\n", what, err);
    if (!ubase_check(err) || !fld[0] || !fld[1]) { FAIL("C19/domain/fields", "%s fails (%d)", what, err); return; }
    CL(CL_FIELDS); if (h->v & 1) CL(CL_FIELDS_ODD_HEIGHT);
    int shown = 0;
    for (int k = 0; k < 2 && !c->ret; k++) {
        size_t hs = 0, vs = 0; uint8_t mp = 0;
        if (!ubase_check(ubuf_pic_size(fld[k], &hs, &vs, &mp)) || (int)hs != h->hm * f->mp || mp != f->mp) { FAIL("C19/size/fields", "%s: field %d says %zu pixels per line, macropixel %u", what, k, hs, mp); break; }
        if ((int)vs > (h->v + 1 - k) / 2) { FAIL("C19/size/fields", "%s: the %s field announces %zu lines, the picture has %d lines of that parity", what, k ? "odd" : "even", vs, (h->v + 1 - k) / 2); break; }
        shown += (int)vs;
        for (int p = 0; p < f->np && !c->ret; p++) {
            size_t so = 0, sf = 0; uint8_t hsub, vsub, mps;
            const uint8_t *qo = NULL, *qf = NULL;
            if (!ubase_check(ubuf_pic_plane_size(h->u, f->pl[p].chroma, &so, &hsub, &vsub, &mps)) ||
                !ubase_check(ubuf_pic_plane_size(fld[k], f->pl[p].chroma, &sf, &hsub, &vsub, &mps)) ||
                !ubase_check(ubuf_pic_plane_read(h->u, f->pl[p].chroma, 0, 0, -1, -1, &qo))) { c->ret = vp_internal(c->rep, "plane %s of the picture", f->pl[p].chroma); break; }
            /* a field with a number of lines that the vertical subsampling does not divide is mapped without its last line */
            int rows = (int)vs / vsub, orows = ph(c, h, p);
            if (rows == 0) { ubuf_pic_plane_unmap(h->u, f->pl[p].chroma, 0, 0, -1, -1); continue; }
            if (!ubase_check(ubuf_pic_plane_read(fld[k], f->pl[p].chroma, 0, 0, -1, rows * vsub, &qf))) {
                ubuf_pic_plane_unmap(h->u, f->pl[p].chroma, 0, 0, -1, -1);
                FAIL("C19/domain/fields", "%s: mapping %d lines of plane %s of field %d (%zu lines) fails", what, rows * vsub, f->pl[p].chroma, k, vs); break;
            }
            size_t rb = (size_t)pw(c, h, p) * mps;
            for (int j = 0; j < rows && !c->ret; j++) {
                const uint8_t *row = qf + (size_t)j * sf;
                if (2 * j + k >= orows || !inside(h, row, rb))
                    FAIL("C19/bounds/fields", "%s: row %d of plane %s of the %s field is not a line of the picture (the plane has %d lines)", what, j, f->pl[p].chroma, k ? "odd" : "even", orows);
                else if (row != qo + (size_t)(2 * j + k) * so)
                    FAIL("C19/alias/fields", "%s: row %d of plane %s of the %s field is at offset %td of the area, line %d of the picture is at %td", what, j, f->pl[p].chroma, k ? "odd" : "even",
                         row - h->base, 2 * j + k, qo + (size_t)(2 * j + k) * so - h->base);
            }
            ubuf_pic_plane_unmap(fld[k], f->pl[p].chroma, 0, 0, -1, rows * vsub);
            ubuf_pic_plane_unmap(h->u, f->pl[p].chroma, 0, 0, -1, -1);
        }
    }
    if (!c->ret && shown < h->v - 1) FAIL("C19/size/fields", "%s: the two fields show %d of the %d lines", what, shown, h->v);
    ubuf_free(fld[0]); ubuf_free(fld[1]);
    if (!c->ret) verify_all(c, "fields", what);
}

/* a plane re-exported as a block (ubuf_block_mem_alloc_from_pic, what upipe_convert_to_block does): the block starts at the first
 * visible pixel of the plane and ends with the last visible one -- inside the plane, inside the allocation, not reaching the next plane */
static void op_export(struct ctx *c)
{
    struct fmt *f = &c->f;
    int s = pick_live(c); if (s < 0) return;
    struct hnd *h = &c->h[s];
    int p = tp_u8(&c->t) % f->np;
    c->hash = vp_hash_mix(c->hash, 0xa00 + s * 8 + p);
    size_t stride = 0; uint8_t hsub, vsub, mps; const uint8_t *q = NULL;
    if (!ubase_check(ubuf_pic_plane_size(h->u, f->pl[p].chroma, &stride, &hsub, &vsub, &mps)) ||
        !ubase_check(ubuf_pic_plane_read(h->u, f->pl[p].chroma, 0, 0, -1, -1, &q))) { c->ret = vp_internal(c->rep, "plane %s of the picture", f->pl[p].chroma); return; }
    ubuf_pic_plane_unmap(h->u, f->pl[p].chroma, 0, 0, -1, -1);
    int rows = ph(c, h, p); size_t rb = (size_t)pw(c, h, p) * mps;
    struct ubuf *b = ubuf_block_mem_alloc_from_pic(c->fm.block_mgr, h->u, f->pl[p].chroma);
    char what[80]; snprintf(what, sizeof what, "ubuf_block_mem_alloc_from_pic(h%d %dx%d, %s)", s, h->hm * f->mp, h->v, f->pl[p].chroma);
    R("  %s -> %s\n", what, b ? "ok" : "NULL");
    if (b == NULL) { FAIL("C19/domain/export", "%s fails", what); return; }
    CL(CL_EXPORT); if (hsub > 1) CL(CL_EXPORT_SUBSAMPLED);
    size_t bs = 0; const uint8_t *bp = NULL; int sz = -1;
    if (!ubase_check(ubuf_block_size(b, &bs)) || !ubase_check(ubuf_block_read(b, 0, &sz, &bp))) { ubuf_free(b); FAIL("C19/domain/export", "%s: the block cannot be read", what); return; }
    size_t want = rows > 0 ? (size_t)(rows - 1) * stride + rb : 0;
    if ((size_t)sz != bs) { /* (one segment expected) */ }
    if (bp != q || !inside(h, bp, bs))
        FAIL("C19/bounds/export", "%s: the block occupies [%td, %td) of the area of %zu octets, the plane's first visible pixel is at %td", what, bp - h->base, bp - h->base + (ptrdiff_t)bs, h->asize, q - h->base);
    else if (bs != want)
        FAIL("C19/bounds/export", "%s: the block has %zu octets; from the first visible pixel of the plane to the last one there are %zu (%d rows, stride %zu, %zu octets per row)", what, bs, want, rows, stride, rb);
    ubuf_block_unmap(b, 0);
    ubuf_free(b);
    if (!c->ret) verify_all(c, "export", what);
}

static int run(const uint8_t *tp_, size_t len, struct vp_report *rep, unsigned flags)
{
    static struct ctx ctx;
    struct ctx *c = &ctx;
    memset(c, 0, sizeof(*c));
    tp_init(&c->t, tp_, len);
    c->rep = rep; c->render = flags & VP_RENDER; c->thorough = flags & VP_THOROUGH; c->hash = VP_HASH_INIT;
    if (fix_mem_init(&c->fm, 0, 0, 0) != 0) return vp_internal(rep, "fixture init");

    decode_format(c);
    struct fmt *f = &c->f;
    if (c->render && c->ret != 2) {
        vp_render(rep, "C19 pic: format %s macropixel=%u planes:", f->name, f->mp);
        for (int p = 0; p < f->np; p++) vp_render(rep, " %s(hsub %u vsub %u macropixel_size %u)", f->pl[p].chroma, f->pl[p].hsub, f->pl[p].vsub, f->pl[p].mps);
        vp_render(rep, "  granularity %dx%d\n", f->G, f->GV);
    }
    if (!c->ret) build_mgr(c, 0, NULL);
    if (!c->ret) {
        uint8_t bsel = tp_u8(&c->t);
        build_mgr(c, 1, bsel == 0 ? &c->mg[0] : NULL);
    }

    int nops = 0;
    while (!c->ret && nops < MAXOPS && (!tp_done(&c->t) || nops == 0)) {
        nops++;
        uint8_t opb = tp_u8(&c->t), op = opb % 16;
        if (!any_live(c)) op = 0;
        if (op == 15 && (opb & 0x10)) { op_clear(c); continue; }
        if (op == 14 && (opb & 0x30) == 0x30) { op_fields(c); continue; }
        if (op == 14 && (opb & 0x30) == 0x20) { op_export(c); continue; }
        switch (op) {
        case 0: op_alloc(c); break;
        case 1: case 2: case 3: case 4: op_resize(c); break;
        case 5: case 6: case 7: op_map(c, false); break;
        case 8: case 9: op_map(c, true); break;
        case 10: op_dup(c); break;
        case 11: case 12: op_copy(c, false); break;
        case 13: op_copy(c, true); break;
        case 14: { int a = pick_live(c); if (a >= 0) { R("  free(h%d)\n", a); c->hash = vp_hash_mix(c->hash, 0x600 + a); drop(c, &c->h[a]); verify_all(c, "free", "free"); } break; }
        default: { int a = pick_live(c); if (a >= 0 && single(c, &c->h[a])) { char w[24]; snprintf(w, sizeof w, "fill(h%d)", a); R("  %s\n", w); c->hash = vp_hash_mix(c->hash, 0x700 + a); fill(c, &c->h[a], "fill", w); verify_all(c, "fill", w); } break; }
        }
    }
    for (int i = 0; i < MAXH; i++) drop(c, &c->h[i]);
    for (int i = 0; i < 2; i++) if (c->mg[i].mgr) {
        if (!urefcount_single(c->mg[i].mgr->refcount) && !c->ret) c->ret = vp_internal(rep, "picture manager %c still referenced at the end of the case", 'A' + i);
        ubuf_mgr_release(c->mg[i].mgr);
    }
    const char *leak = fix_mem_clean(&c->fm);
    if (leak && !c->ret) c->ret = vp_internal(rep, "memory audit: %s", leak);
    if (c->mg[0].used && c->mg[1].used) CL(CL_TWO_MGR);
    rep->case_hash = c->hash;
    rep->classes = c->cl;
    rep->nontrivial = (c->cl & ((1u << CL_SUB) | (1u << CL_MP))) && (c->cl & (1u << CL_MARGIN)) && c->chain;
    return c->ret;
}

const struct vp_executor vp_executor = { "C19", "pic", 160, class_names, run, NULL };

/* C14 — stream re-chunking pipes conserve bytes and ignore chunk boundaries.
 * One executor, the pipe under test is chosen by the tape: aggregate, chunk_stream, ts_sync,
 * ts_check, ts_align (sync mode and check mode). Oracles: reference implementations of the
 * documented unit rules, metamorphic equality of the output units under 2-3 cuttings of the same
 * byte stream (stream parsers), byte conservation, unit sizes, termination of release/flush. */
#include "vp.h"
#include "tape.h"
#include "pipefix.h"
#include "upipe/uref_block_flow.h"
#include "upipe/uref_clock.h"
#include "upipe-modules/upipe_aggregate.h"
#include "upipe-modules/upipe_chunk_stream.h"
#include "upipe-ts/upipe_ts_sync.h"
#include "upipe-ts/upipe_ts_check.h"
#include "upipe-ts/upipe_ts_align.h"
#include <stdlib.h>
#include <stdio.h>

enum { K_AGG, K_CHUNK, K_TSSYNC, K_TSCHECK, K_TSALIGN_SYNC, K_TSALIGN_CHECK, K_N };
static const char *const kname[] = { "aggregate", "chunk_stream", "ts_sync", "ts_check", "ts_align(sync)", "ts_align(check)" };

enum { CL_AGG, CL_CHUNK, CL_TSSYNC, CL_TSCHECK, CL_TSALIGN, CL_CUT_INSIDE_UNIT, CL_EMPTY_BUF, CL_ONEBYTE_BUF, CL_SEGMENTED, CL_GARBAGE, CL_FALSE_SYNC, CL_TAIL_DROPPED, CL_CUTTINGS_DIFFER, CL_RELEASE_MID, CL_AGG_FDSIZE, CL_SPLIT_HEAD, CL_CHUNK_RECONF, CL_AGG_REDEF, CL_CHUNK_BADCONF, CL_TSALIGN_REDEF, CL_SIZE_BACK_AND_FORTH, CL_SYNC_COUNT_ONE };
static const char *const class_names[] = { "aggregate", "chunk_stream", "ts_sync", "ts_check", "ts_align", "buffer_boundary_inside_output_unit",
    "empty_buffer", "one_byte_buffer", "segmented_buffer", "garbage_before_or_between_packets", "false_sync_in_payload", "unaligned_tail_dropped",
    "cuttings_differ", "release_before_end_of_stream", "aggregate_flow_def_announces_block_size", "buffer_is_head_of_a_split_block", "chunk_stream_set_mtu_before_release",
    "aggregate_flow_def_set_again_in_mid_stream", "chunk_stream_invalid_set_mtu_before_release", "ts_align_flow_def_of_another_category_first",
    "output_size_set_to_another_value_and_back_after_flow_def", "ts_sync_set_sync_one_tried", NULL };

#define MAXSTREAM 4096
#define MAXUNITS (MAXSTREAM + 32)
#define MAXBUFS 200

struct units { int n; int off[MAXUNITS]; int len[MAXUNITS]; uint8_t data[MAXSTREAM + 64]; int used; };

struct ctx {
    struct tape t;
    struct vp_report *rep;
    bool render;
    struct pfx pfx;
    int kind;
    uint8_t stream[MAXSTREAM];
    int slen;
    int P, N;               /* packet size, sync count */
    int mtu, align;         /* agg MTU / chunk mtu + align */
    int fdsize;             /* agg: block size announced in the flow definition (0: none) */
    int refd_at;            /* agg: a changed flow definition is set again before this buffer (-1: never); what is pending stays pending */
    bool resize, try_one;
    int predef;             /* ts_align: a flow definition of another category is set first (1: block.mpegts., 2: the other of aligned / raw); the pipe must behave as its LAST definition says */
    int bad_mtu;            /* chunk_stream: an invalid set_mtu (index + 1 into a table) issued before the release: refused, and nothing changes */
    int mtu2, align2;       /* chunk_stream: configuration set after the last buffer, before the release (0: unchanged) */
    int ret;
    uint32_t classes;
};
#define R(...) do { if (c->render) vp_render(c->rep, __VA_ARGS__); } while (0)
#define FAIL(key, ...) do { if (!c->ret) c->ret = vp_fail(c->rep, "C14/" key, __VA_ARGS__); } while (0)

static struct uref *mk_buf_plain(struct ctx *c, const uint8_t *p, int len, int nseg);

/* nseg 4: the buffer is the head of a larger segmented block that was split (ubuf_block_split), as depacketisers produce them */
static struct uref *mk_buf(struct ctx *c, const uint8_t *p, int len, int nseg)
{
    if (nseg != 4 || len < 2) return mk_buf_plain(c, p, len, nseg == 4 ? 1 : nseg);
    uint8_t tmp[MAXSTREAM + 8];
    memcpy(tmp, p, len);
    tmp[len] = 0xee; tmp[len + 1] = 0xee; tmp[len + 2] = 0xee;
    struct uref *uref = mk_buf_plain(c, tmp, len + 3, 3);
    if (!uref) return NULL;
    struct ubuf *tail = ubuf_block_split(uref->ubuf, len);
    if (tail == NULL) { uref_free(uref); return mk_buf_plain(c, p, len, 2); }
    ubuf_free(tail);
    c->classes |= 1u << CL_SPLIT_HEAD;
    return uref;
}

static struct uref *mk_buf_plain(struct ctx *c, const uint8_t *p, int len, int nseg)
{
    if (nseg < 1) nseg = 1;
    if (nseg > len) nseg = len ? len : 1;
    int first = len / nseg + len % nseg;
    struct uref *uref = uref_block_alloc(c->pfx.fm.uref_mgr, c->pfx.fm.block_mgr, first);
    if (!uref) return NULL;
    int pos = 0;
    for (int k = 0; k < nseg; k++) {
        int seg = k == 0 ? first : len / nseg;
        struct ubuf *ubuf = k == 0 ? uref->ubuf : ubuf_block_alloc(c->pfx.fm.block_mgr, seg);
        if (seg) { int s = -1; uint8_t *w; ubuf_block_write(ubuf, 0, &s, &w); memcpy(w, p + pos, seg); ubuf_block_unmap(ubuf, 0); }
        if (k) ubuf_block_append(uref->ubuf, ubuf);
        pos += seg;
    }
    return uref;
}

/* collect what sink `sid` received (from record index rec_from) as a unit list */
static void collect(struct ctx *c, int sid, int rec_from, struct units *u)
{
    u->n = 0; u->used = 0;
    for (int i = rec_from; i < c->pfx.nrecs; i++) {
        struct pfx_rec *r = &c->pfx.recs[i];
        if (r->sink != sid || r->kind != PFX_INPUT || !r->uref) continue;
        size_t size = 0;
        uref_block_size(r->uref, &size);
        if (u->n >= c->slen + 16 || u->n >= MAXUNITS || u->used + (int)size > MAXSTREAM + 32) { FAIL("termination/budget", "%s delivered more octets (> %d in %d units) than it was given (%d): flush/release does not terminate or duplicates data", kname[c->kind], u->used, u->n, c->slen); return; }
        if (size) uref_block_extract(r->uref, 0, size, u->data + u->used);
        /* a delivered unit is a whole block: what a consumer appends to it comes right behind its last octet (an aggregating pipe
         * downstream does just that); judged on a duplicate with a 3-octet marker */
        if (size && size <= 4096 && !c->ret) {
            struct ubuf *d = ubuf_dup(r->uref->ubuf), *m = ubuf_block_alloc(c->pfx.fm.block_mgr, 3);
            static uint8_t back[4096 + 3];
            uint8_t *wp; int ws = -1;
            if (d && m && ubase_check(ubuf_block_write(m, 0, &ws, &wp)) && ws == 3) {
                wp[0] = 0xa1; wp[1] = 0xb2; wp[2] = 0xc3; ubuf_block_unmap(m, 0);
                if (ubase_check(ubuf_block_append(d, m))) {
                    m = NULL;
                    size_t ds = 0;
                    if (!ubase_check(ubuf_block_size(d, &ds)) || ds != size + 3 || !ubase_check(ubuf_block_extract(d, 0, -1, back)) ||
                        memcmp(back, u->data + u->used, size) || back[size] != 0xa1 || back[size + 1] != 0xb2 || back[size + 2] != 0xc3)
                        FAIL("unit/not-a-whole-block", "%s: unit %d of %zu octets, duplicated and extended by 3 octets, does not read back as its octets followed by the 3 (size %zu)", kname[c->kind], u->n, size, ds);
                }
            }
            if (m) ubuf_free(m);
            if (d) ubuf_free(d);
        }
        u->off[u->n] = u->used; u->len[u->n] = size; u->n++; u->used += size;
    }
}

/* ---- references ---- */
static void ref_chunk(struct ctx *c, const uint8_t *s, int len, struct units *u)
{
    int size = (c->mtu / c->align) * c->align, pos = 0, align = c->align;
    u->n = 0; u->used = 0;
    while (len - pos >= size) { u->off[u->n] = pos; u->len[u->n++] = size; pos += size; }
    if (c->mtu2) {
        /* the configuration was changed after the last buffer, before the release: what is still pending (less than one old
         * chunk) is flushed with the NEW chunk size and alignment (upipe_chunk_stream.h: set_mtu applies to what follows) */
        align = c->align2; size = (c->mtu2 / align) * align;
        while (len - pos >= size) { u->off[u->n] = pos; u->len[u->n++] = size; pos += size; }
    }
    int rem = len - pos, tail = (rem / align) * align;
    if (tail > 0) { u->off[u->n] = pos; u->len[u->n++] = tail; pos += tail; }
    if (len - pos > 0) c->classes |= 1u << CL_TAIL_DROPPED;
    memcpy(u->data, s, len); u->used = len;
}

static void ref_tssync(struct ctx *c, const uint8_t *s, int len, struct units *u)
{
    int P = c->P, N = c->N, pos = 0; bool acquired = false;
    u->n = 0; memcpy(u->data, s, len); u->used = len;
    for (;;) {
        if (pos >= len) break;
        int o = pos; bool ok = false, wait = false;
        for (;;) {
            while (o < len && s[o] != 0x47) o++;
            if (o >= len) break;                         /* no sync word at all: everything is dropped */
            int k;
            for (k = 1; k < N; k++) {
                int idx = o + k * P;
                if (idx >= len) { wait = true; break; }  /* not enough sync words could be tested */
                if (s[idx] != 0x47) break;
            }
            if (wait) break;
            if (k == N) { ok = true; break; }
            o++;
        }
        if (o > pos) acquired = false;                    /* octets dropped: sync lost */
        pos = o;
        if (!ok) break;
        acquired = true;
        u->off[u->n] = pos; u->len[u->n++] = P; pos += P;
        if (u->n >= MAXUNITS) break;
    }
    /* end of stream (release): only when locked, whole packets that start with the sync word */
    if (acquired)
        while (len - pos >= P && s[pos] == 0x47 && u->n < MAXUNITS) { u->off[u->n] = pos; u->len[u->n++] = P; pos += P; }
}

static bool units_equal(struct ctx *c, const struct units *a, const uint8_t *adata, const struct units *b, const uint8_t *bdata, char *msg, size_t msz)
{
    if (a->n != b->n) { snprintf(msg, msz, "%d units vs %d units", a->n, b->n); return false; }
    for (int i = 0; i < a->n; i++) {
        if (a->len[i] != b->len[i]) { snprintf(msg, msz, "unit %d has %d octets vs %d", i, a->len[i], b->len[i]); return false; }
        if (memcmp(adata + a->off[i], bdata + b->off[i], a->len[i])) { snprintf(msg, msz, "unit %d differs in content", i); return false; }
    }
    return true;
}

/* ---- one run of the pipe over one cutting ---- */
struct cutting { int n; int len[MAXBUFS]; uint8_t nseg[MAXBUFS]; int feed; /* number of buffers fed before release */ };

static void run_pipe(struct ctx *c, const struct cutting *cut, struct units *out, int *probe_id)
{
    struct pfx *pfx = &c->pfx;
    int sid;
    struct upipe *sink = pfx_sink_alloc(pfx, &sid);
    pfx_sink(pfx, sid)->uref_policy = PFX_SINK_KEEP;
    int rec_from = pfx->nrecs;
    struct upipe_mgr *mgr = c->kind == K_AGG ? upipe_agg_mgr_alloc() : c->kind == K_CHUNK ? upipe_chunk_stream_mgr_alloc() :
        c->kind == K_TSSYNC ? upipe_ts_sync_mgr_alloc() : c->kind == K_TSCHECK ? upipe_ts_check_mgr_alloc() : upipe_ts_align_mgr_alloc();
    struct upipe *p = upipe_void_alloc(mgr, pfx_probe_alloc(pfx, probe_id));
    if (!p) { c->ret = vp_internal(c->rep, "alloc %s", kname[c->kind]); upipe_release(sink); return; }
    int err = UBASE_ERR_NONE;
    /* configuration before the flow definition, as the real callers do */
    switch (c->kind) {
    case K_AGG: err = upipe_set_output_size(p, c->mtu); break;
    case K_CHUNK: err = upipe_chunk_stream_set_mtu(p, c->mtu, c->align); break;
    case K_TSSYNC: err = upipe_set_output_size(p, c->P);
        if (ubase_check(err) && c->try_one) {
            /* a count the pipe may refuse; when it accepts it, that count is the configuration the units are judged by */
            int e1 = upipe_ts_sync_set_sync(p, 1), got = 0;
            if (!ubase_check(upipe_ts_sync_get_sync(p, &got)) || got != (ubase_check(e1) ? 1 : 2))
                FAIL("config", "ts_sync reports %d sync words after set_sync(1) returned %d on a new pipe", got, e1);
            c->N = ubase_check(e1) ? 1 : 2;
            c->classes |= 1u << CL_SYNC_COUNT_ONE;
        } else if (ubase_check(err)) err = upipe_ts_sync_set_sync(p, c->N);
        break;
    case K_TSCHECK: err = upipe_set_output_size(p, c->P); break;
    default: break;
    }
    if (!ubase_check(err)) { FAIL("config", "%s refused a valid configuration (%d)", kname[c->kind], err); }
    if (c->kind >= K_TSALIGN_SYNC && c->predef) {
        struct uref *fd0 = pfx_flow_def_block(pfx, c->predef == 1 ? "mpegts." : c->kind == K_TSALIGN_CHECK ? "foo." : "mpegtsaligned.");
        int e0 = upipe_set_flow_def(p, fd0);
        uref_free(fd0);
        if (!ubase_check(e0)) FAIL("flowdef", "%s refused a block flow definition (%d)", kname[c->kind], e0);
    }
    struct uref *fd = pfx_flow_def_block(pfx, c->kind == K_TSALIGN_CHECK ? "mpegtsaligned." : "foo.");
    /* aggregate anticipates the next packet with the block size announced by the flow definition, when there is one;
     * the packets themselves may be smaller or larger than announced */
    if (fd != NULL && c->kind == K_AGG && c->fdsize > 0) uref_block_flow_set_size(fd, c->fdsize);
    err = upipe_set_flow_def(p, fd);
    uref_free(fd);
    if (!ubase_check(err)) FAIL("flowdef", "%s refused a block flow definition (%d)", kname[c->kind], err);
    upipe_set_output(p, sink);
    if (c->resize && !c->ret) {
        /* the size is set to another value and back once the flow definition is known: the last accepted value is in force */
        unsigned other = c->kind == K_AGG ? (unsigned)c->mtu + 5 : c->P == 188 ? 204 : 188;
        unsigned mine = c->kind == K_AGG ? (unsigned)c->mtu : (unsigned)c->P, got = 0;
        int e1 = upipe_set_output_size(p, other), e2 = upipe_set_output_size(p, mine);
        if (!ubase_check(e1) || !ubase_check(e2)) FAIL("config", "%s refused set_output_size(%u) then (%u): %d %d", kname[c->kind], other, mine, e1, e2);
        if (!ubase_check(upipe_get_output_size(p, &got)) || got != mine)
            FAIL("config", "%s reports output size %u after set_output_size(%u) was accepted", kname[c->kind], got, mine);
        c->classes |= 1u << CL_SIZE_BACK_AND_FORTH;
    }
    int pos = 0;
    for (int i = 0; i < cut->n && i < cut->feed && !c->ret; i++) {
        if (i == c->refd_at && i > 0) {
            /* the flow definition changes in mid-stream (another latency): octets already accepted stay accepted */
            struct uref *fd2 = pfx_flow_def_block(pfx, "foo.");
            if (fd2 != NULL && c->fdsize > 0) uref_block_flow_set_size(fd2, c->fdsize);
            if (fd2 != NULL) uref_clock_set_latency(fd2, 27000);
            int e2 = upipe_set_flow_def(p, fd2);
            uref_free(fd2);
            if (!ubase_check(e2)) FAIL("flowdef", "%s refused a block flow definition in mid-stream (%d)", kname[c->kind], e2);
            c->classes |= 1u << CL_AGG_REDEF;
        }
        struct uref *uref = mk_buf(c, c->stream + pos, cut->len[i], cut->nseg[i]);
        pos += cut->len[i];
        if (!uref) { c->ret = vp_internal(c->rep, "mk_buf"); break; }
        upipe_input(p, uref, NULL);
        if (pfx->nrecs - rec_from > 2 * MAXSTREAM / 1 || pfx->overflow) { FAIL("termination/budget", "%s keeps emitting buffers", kname[c->kind]); break; }
    }
    if (c->kind == K_CHUNK && c->bad_mtu && !c->ret) {
        /* "a rejected setter leaves the previous value in force": the pending tail is flushed with the configuration that was accepted */
        static const unsigned bm[4][2] = { { 0, 1 }, { 5, 0 }, { 4, 4 }, { 3, 7 } };
        int e2 = upipe_chunk_stream_set_mtu(p, bm[c->bad_mtu - 1][0], bm[c->bad_mtu - 1][1]);
        if (ubase_check(e2)) FAIL("config", "chunk_stream accepted set_mtu(%u, %u)", bm[c->bad_mtu - 1][0], bm[c->bad_mtu - 1][1]);
        c->classes |= 1u << CL_CHUNK_BADCONF;
    }
    if (c->kind == K_CHUNK && c->mtu2 && !c->ret) {
        int e2 = upipe_chunk_stream_set_mtu(p, c->mtu2, c->align2);
        if (!ubase_check(e2)) FAIL("config", "chunk_stream refused set_mtu(%d, %d) in mid-stream (%d)", c->mtu2, c->align2, e2);
    }
    upipe_release(p);         /* release = flush */
    collect(c, sid, rec_from, out);
    pfx_sink_drop_kept(pfx, sid);
    upipe_release(sink);
}

static int run(const uint8_t *tp_, size_t len, struct vp_report *rep, unsigned flags)
{
    static struct ctx ctx;
    struct ctx *c = &ctx;
    memset(c, 0, sizeof(*c));
    tp_init(&c->t, tp_, len);
    c->rep = rep; c->render = flags & VP_RENDER;
    uint64_t h = VP_HASH_INIT;

    uint8_t cfgb = tp_u8(&c->t);
    c->kind = cfgb % K_N;
    struct pfx_cfg cfg = { .pool_depth = (cfgb / K_N) % 2 ? 2 : 0, .prepend = 0, .append = 0, .align = 0,
                           .with_uref_mgr = true, .with_ubuf_mem = true, .with_upump_mgr = true, .with_uclock = true };
    if (pfx_init(&c->pfx, &cfg) != 0) return vp_internal(rep, "pfx_init");
    c->classes |= 1u << (c->kind >= K_TSALIGN_SYNC ? CL_TSALIGN : c->kind);
    uint8_t cb = tp_u8(&c->t);
    static const int Ps[] = { 188, 192, 204, 16 };
    c->P = Ps[cb % 4]; c->N = 2 + (cb / 4) % 4;
    static const int mtus[] = { 8, 7, 16, 188, 1316, 64, 3, 100 };
    c->mtu = mtus[(cb / 16) % 8];
    static const int aligns[] = { 1, 2, 4, 3, 7, 16 };
    c->align = aligns[tp_u8(&c->t) % 6];
    if (c->align >= c->mtu) c->align = 1;
    if (c->kind == K_CHUNK && (cfgb / (K_N * 2)) % 4 == 3) {
        static const int m2[] = { 10, 5, 3, 50, 7, 2 }, a2[] = { 3, 1, 2, 4, 1, 1 };
        int q = (cb + cfgb) % 6;
        c->mtu2 = m2[q]; c->align2 = a2[q];
        if (c->align2 >= c->mtu2) c->align2 = 1;
        c->classes |= 1u << CL_CHUNK_RECONF;
    }
    if (c->kind >= K_TSALIGN_SYNC) { c->predef = (cb + cfgb * 3) % 3; if (c->predef) c->classes |= 1u << CL_TSALIGN_REDEF; }
    if (c->kind == K_CHUNK && (cfgb / (K_N * 2)) % 4 == 2) c->bad_mtu = 1 + (cb + cfgb) % 4;
    { unsigned q = (cfgb / (K_N * 2)) % 4; c->fdsize = q == 0 ? 0 : q == 1 ? 1 : q == 2 ? (c->mtu + 1) / 2 : c->mtu; if (c->kind == K_AGG && c->fdsize) c->classes |= 1u << CL_AGG_FDSIZE; }
    c->refd_at = (c->kind == K_AGG && (cb + cfgb * 7) % 5 < 2) ? ((cb >> 3) + cfgb) % 8 : -1;      /* (uses no tape octet) */
    c->resize = (c->kind == K_AGG || c->kind == K_TSCHECK || c->kind == K_TSSYNC) && (cfgb / (K_N * 8)) % 2 == 1;
    c->try_one = c->kind == K_TSSYNC && c->N == 5 && cfgb / (K_N * 8) >= 3;
    h = vp_hash_mix(h, cfgb); h = vp_hash_mix(h, cb); h = vp_hash_mix(h, c->align);
    if (c->kind >= K_TSALIGN_SYNC) { c->P = 188; c->N = 2; }   /* ts_align exposes neither setter: defaults */
    bool is_ts = c->kind >= K_TSSYNC;
    bool parser = c->kind == K_CHUNK || c->kind == K_TSSYNC || c->kind == K_TSALIGN_SYNC;   /* stream parsers: cutting-independent */
    R("C14 %s: P=%d N=%d mtu=%d align=%d pool=%d\n", kname[c->kind], c->P, c->N, c->mtu, c->align, cfg.pool_depth);

    /* ---- the byte stream ---- */
    int nel = 1 + tp_u8(&c->t) % 12;
    int unit_bounds[64], nub = 0;     /* for ts_check / agg: element boundaries */
    for (int e = 0; e < nel && c->slen < MAXSTREAM - 1400; e++) {   /* the largest element is MTU + 1 = 1317 octets */
        uint8_t sel = tp_u8(&c->t);
        int kind = sel % 8, l;
        uint8_t seed = tp_u8(&c->t);
        if (!is_ts) {
            static const int ls[] = { 5, 1, 0, 8, 16, 3, 200, 33 };
            l = ls[kind];
            if (c->kind == K_AGG && kind == 6) l = c->mtu + 1;
            for (int i = 0; i < l; i++) c->stream[c->slen + i] = (uint8_t)(seed + i * 13 + e * 31);
        } else if (kind <= 3) {                 /* a whole packet */
            l = c->P;
            c->stream[c->slen] = 0x47;
            for (int i = 1; i < l; i++) c->stream[c->slen + i] = (uint8_t)(seed + i * 7) == 0x47 ? 0x48 : (uint8_t)(seed + i * 7);
            if (kind == 3) { c->stream[c->slen + 1 + seed % (l - 1)] = 0x47; c->classes |= 1u << CL_FALSE_SYNC; }
        } else if (kind == 4) {                 /* garbage without sync words */
            l = 1 + seed % 40;
            for (int i = 0; i < l; i++) c->stream[c->slen + i] = 0x10 + (i & 15);
            c->classes |= 1u << CL_GARBAGE;
        } else if (kind == 5) {                 /* garbage with sync words, one packet apart from each other (false lock candidates) */
            l = c->P + 1 + seed % 60;
            for (int i = 0; i < l; i++) c->stream[c->slen + i] = (i % c->P == (seed % 7)) ? 0x47 : 0x20 + (i & 7);
            c->classes |= 1u << CL_GARBAGE | 1u << CL_FALSE_SYNC;
        } else if (kind == 6) {                 /* truncated packet */
            l = 1 + seed % (c->P - 1);
            c->stream[c->slen] = 0x47;
            for (int i = 1; i < l; i++) c->stream[c->slen + i] = 0x30 + (i & 7);
        } else {                                /* packet with a wrong sync word */
            l = c->P;
            for (int i = 0; i < l; i++) c->stream[c->slen + i] = 0x50 + (i & 7);
        }
        c->slen += l;
        if (nub < 64) unit_bounds[nub++] = c->slen;
        h = vp_hash_mix(h, sel * 256 + seed);
    }
    R("  stream of %d octets in %d elements\n", c->slen, nel);

    /* ---- cuttings ---- */
    int ncut = parser ? 2 + tp_u8(&c->t) % 2 : 1;
    static struct cutting cuts[3];
    for (int k = 0; k < ncut; k++) {
        struct cutting *cut = &cuts[k];
        cut->n = 0;
        int pos = 0;
        if (!parser) {
            /* unit-based pipes: one buffer per element (agg: the elements are the input units; ts_check: groups of elements) */
            int start = 0;
            for (int e = 0; e < nub; e++) {
                int group = (c->kind != K_AGG && (tp_u8(&c->t) & 1) && e + 1 < nub) ? 1 : 0;   /* join with the next element */
                if (group) continue;
                cut->len[cut->n] = unit_bounds[e] - start; cut->nseg[cut->n] = 1 + tp_u8(&c->t) % 3; cut->n++;
                start = unit_bounds[e];
            }
        } else {
            uint8_t mode = tp_u8(&c->t) % 5;
            while (pos < c->slen && cut->n < MAXBUFS - 1) {
                int l;
                uint8_t s = tp_u8(&c->t);
                switch (mode) {
                case 0: l = c->slen; break;                       /* one buffer */
                case 1: l = 1; break;                             /* one-byte buffers */
                case 2: l = s % 9; break;                         /* small, incl. empty */
                case 3: l = is_ts ? c->P + (int)(s % 5) - 2 : c->mtu + (int)(s % 5) - 2; if (l < 0) l = 0; break;
                default: l = s % 64 ? s * 3 : 0; break;
                }
                if (l > c->slen - pos) l = c->slen - pos;
                if (cut->n > 150 && l < 8) l = c->slen - pos;
                cut->len[cut->n] = l; cut->nseg[cut->n] = (s >> 6) == 3 ? 4 : 1 + (s >> 6) % 3;
                if (l == 0) c->classes |= 1u << CL_EMPTY_BUF;
                if (l == 1) c->classes |= 1u << CL_ONEBYTE_BUF;
                if (cut->nseg[cut->n] > 1 && l > 1) c->classes |= 1u << CL_SEGMENTED;
                cut->n++; pos += l;
            }
            if (pos < c->slen) { cut->len[cut->n] = c->slen - pos; cut->nseg[cut->n] = 1; cut->n++; }
        }
        cut->feed = cut->n;
        h = vp_hash_mix(h, cut->n);
    }
    /* release before the end of the stream: the same prefix of the stream under every cutting is not
     * expressible when cuttings differ, so a mid-stream release is generated for single-cutting runs */
    int fed_len = c->slen;
    if (ncut == 1 && (tp_u8(&c->t) % 4 == 0) && cuts[0].n > 1) {
        cuts[0].feed = 1 + tp_u8(&c->t) % (cuts[0].n - 1);
        fed_len = 0; for (int i = 0; i < cuts[0].feed; i++) fed_len += cuts[0].len[i];
        c->classes |= 1u << CL_RELEASE_MID;
    }
    if (ncut > 1) {
        bool differ = false;
        for (int k = 1; k < ncut; k++) { if (cuts[k].n != cuts[0].n) differ = true; else for (int i = 0; i < cuts[0].n; i++) if (cuts[k].len[i] != cuts[0].len[i]) differ = true; }
        if (differ) c->classes |= 1u << CL_CUTTINGS_DIFFER;
    }

    /* ---- run ---- */
    static struct units outs[3], ref;
    int probe_ids[3];
    for (int k = 0; k < ncut && !c->ret; k++) {
        run_pipe(c, &cuts[k], &outs[k], &probe_ids[k]);
        if (c->render) { vp_render(rep, "  cutting %d: %d buffers [", k, cuts[k].n); for (int i = 0; i < cuts[k].n && i < 24; i++) vp_render(rep, "%d%s ", cuts[k].len[i], cuts[k].nseg[i] > 1 ? "s" : ""); vp_render(rep, "%s] fed %d -> %d units [", cuts[k].n > 24 ? "..." : "", cuts[k].feed, outs[k].n); for (int i = 0; i < outs[k].n && i < 24; i++) vp_render(rep, "%d ", outs[k].len[i]); vp_render(rep, "]\n"); }
    }
    char msg[160];
    /* ---- oracles ---- */
    if (!c->ret) {
        const uint8_t *s = c->stream;
        switch (c->kind) {
        case K_CHUNK:
            ref_chunk(c, s, fed_len, &ref);
            if (!units_equal(c, &outs[0], outs[0].data, &ref, ref.data, msg, sizeof msg))
                FAIL("chunk/reference", "chunk_stream(mtu %d, align %d) over %d octets: %s (pipe vs reference chunker)", c->mtu, c->align, fed_len, msg);
            break;
        case K_TSSYNC: case K_TSALIGN_SYNC:
            ref_tssync(c, s, fed_len, &ref);
            if (!units_equal(c, &outs[0], outs[0].data, &ref, ref.data, msg, sizeof msg))
                FAIL("tssync/reference", "%s(packet %d, sync %d) over %d octets: %s (pipe vs reference lock rule)", kname[c->kind], c->P, c->N, fed_len, msg);
            break;
        case K_TSCHECK: case K_TSALIGN_CHECK: {
            /* whole packets starting with the sync word, taken in order and without overlap from the input buffers */
            int bi = 0, boff = 0;      /* cursor: input buffer index, packet-aligned offset inside it */
            for (int i = 0; i < outs[0].n && !c->ret; i++) {
                if (outs[0].len[i] != c->P) { FAIL("tscheck/size", "%s output unit %d has %d octets, packet size is %d", kname[c->kind], i, outs[0].len[i], c->P); break; }
                if (outs[0].data[outs[0].off[i]] != 0x47) { FAIL("tscheck/sync", "%s output unit %d does not start with the sync word", kname[c->kind], i); break; }
                bool found = false;
                while (bi < cuts[0].feed && !found) {
                    int bstart = 0; for (int q = 0; q < bi; q++) bstart += cuts[0].len[q];
                    while (boff + c->P <= cuts[0].len[bi]) {
                        bool eq = !memcmp(s + bstart + boff, outs[0].data + outs[0].off[i], c->P);
                        boff += c->P;
                        if (eq) { found = true; break; }
                    }
                    if (!found) { bi++; boff = 0; }
                }
                if (!found) FAIL("tscheck/conservation", "%s output unit %d is not a packet-aligned part of the remaining input", kname[c->kind], i);
            }
            break; }
        case K_AGG: {
            /* accepted units: 0 < size <= mtu; outputs = concatenation of accepted units, no unit split, each <= mtu */
            int ui = 0, start = 0, acc_total = 0;
            int acc_off[64], acc_len[64], na = 0;
            for (int i = 0; i < cuts[0].feed; i++) { int l = cuts[0].len[i]; if (l > 0 && l <= c->mtu) { acc_off[na] = start; acc_len[na] = l; na++; acc_total += l; } start += l; }
            for (int i = 0; i < outs[0].n && !c->ret; i++) {
                int l = outs[0].len[i], got = 0;
                if (l > c->mtu) { FAIL("agg/mtu", "aggregate output unit %d has %d octets, MTU is %d", i, l, c->mtu); break; }
                if (l == 0) { FAIL("agg/empty", "aggregate emitted an empty buffer"); break; }
                while (got < l && ui < na) {
                    if (got + acc_len[ui] > l) { FAIL("agg/split", "aggregate output unit %d splits input unit %d", i, ui); break; }
                    if (memcmp(outs[0].data + outs[0].off[i] + got, s + acc_off[ui], acc_len[ui])) { FAIL("agg/conservation", "aggregate output unit %d does not carry input unit %d at offset %d", i, ui, got); break; }
                    got += acc_len[ui]; ui++;
                }
                if (!c->ret && got != l) FAIL("agg/conservation", "aggregate output unit %d carries %d octets that are not input units", i, l - got);
            }
            if (!c->ret && ui != na) FAIL("agg/lost", "aggregate output %d of the %d accepted input units (%d octets accepted) by the time it was released", ui, na, acc_total);
            break; }
        }
        /* cutting independence (stream parsers) */
        for (int k = 1; k < ncut && !c->ret; k++)
            if (!units_equal(c, &outs[0], outs[0].data, &outs[k], outs[k].data, msg, sizeof msg))
                FAIL("metamorphic/cutting", "%s: the same %d-octet stream cut differently gives different output units: %s (cutting 0 vs %d)", kname[c->kind], c->slen, msg, k);
        /* a buffer boundary inside an output unit? */
        if (ncut >= 1 && outs[0].n > 0 && parser) {
            int bpos = 0;
            for (int i = 0; i < cuts[0].n; i++) {
                bpos += cuts[0].len[i];
                for (int q = 0; q < ref.n; q++) if (bpos > ref.off[q] && bpos < ref.off[q] + ref.len[q]) c->classes |= 1u << CL_CUT_INSIDE_UNIT;
            }
        }
    }
    /* events of the pipes under test */
    for (int k = 0; k < ncut && !c->ret; k++) {
        struct pfx_probe *p = pfx_probe(&c->pfx, probe_ids[k]);
        if (p && p->ntracks > 0 && p->tracks[0].dead_count != 1) FAIL("release", "%s did not die when released", kname[c->kind]);
    }
    const char *audit = pfx_clean(&c->pfx);
    if (audit && !c->ret) {
        if (!strncmp(audit, "INTERNAL", 8)) c->ret = vp_internal(rep, "%s", audit);
        else FAIL("audit", "%s: %s", kname[c->kind], audit);
    }
    rep->case_hash = h;
    rep->classes = c->classes;
    rep->nontrivial = parser ? ((c->classes >> CL_CUTTINGS_DIFFER) & 1) && ((c->classes >> CL_CUT_INSIDE_UNIT) & 1)
                             : (outs[0].n >= 2);
    return c->ret;
}

const struct vp_executor vp_executor = { "C14", "rechunk", 260, class_names, run, NULL };

/* C15 / decaps — reference-packetised, well-formed TS packet sequences through
 * [ts_pid_filter] -> [ts_split] -> ts_decaps -> (tee) -> ts_pes_decaps -> sink.
 *
 * The packets and PES headers are produced by the independent bit-level writer of C15_ref.h
 * (no shim): adaptation fields of every length 0..182 with payload and 183 without, stuffing,
 * PCR / OPCR / splice countdown / private data, random access and discontinuity indicators,
 * adaptation-only packets (counter not incremented), duplicate packets (identical, or with a
 * new PCR value), missing packets (1..14), packets of other PIDs.
 *
 * Oracles (ISO/IEC 13818-1 2.4.3.3 semantics of continuity_counter, duplicates, adaptation
 * field; 2.4.3.7 PES header):
 *  decaps level (tee): one chunk per delivered, non-duplicate, payload-carrying packet of the
 *   PID, in order, with exactly the payload octets; unit start <=> payload_unit_start;
 *   random <=> random_access_indicator; discontinuity required after a gap in the counters
 *   (also when the gap is revealed by an adaptation-only packet) and on
 *   discontinuity_indicator, forbidden otherwise (free on the very first packet);
 *   one clock_ref event with base*300+ext per PCR.
 *  PES level (sink), when no packet carrying PES header octets was lost: one unit per PES with
 *   an optional-header or header-less stream id (none for the padding stream), payload exact
 *   (minus lost packets), DTS/PTS from the header, random flag of the first packet, the chunk
 *   after a gap flagged.
 *
 * Extension block (decoded after the packets; an exhausted tape gives none): control paths that decide which packet reaches
 * which output and what ts_decaps reports:
 *  - flow definitions the pipes must refuse (NULL, not "block.mpegts.") before the valid one;
 *  - getters (flow definition / output of ts_decaps and of a ts_split output) and unknown commands;
 *  - up to three more ts_split outputs created and released in mid-stream on the main PID, the other PID, a PID never sent or
 *    no PID at all: each receives exactly the packets of its PID delivered during its life, unaltered, in order ("carry the
 *    configured PID"), and the add_pid / del_pid events, replayed as set operations, always equal the set of subscribed PIDs;
 *  - ts_pid_filter add_pid / del_pid of the other PID in mid-stream;
 *  - the flow definition of ts_decaps set again in mid-stream: announced downstream, no packet lost, no discontinuity invented;
 *  - upipe_ts_decaps_get_packets_lost: number of missing packets implied by the continuity counters since the last call
 *    (checked when every gap is a plain one: not announced by discontinuity_indicator, not compounded with a pending one). */
#include "C15_fixture.h"
#include "C15_ref.h"

enum {
    CL_AF0, CL_AF1, CL_AFLONG, CL_PCR, CL_AFEXTRA, CL_AFONLY, CL_DUP, CL_DUPPCR, CL_MISSING,
    CL_MISS_AFONLY, CL_GAPHDR, CL_HDRSPLIT, CL_WRAP, CL_UNBOUNDED, CL_PIDF, CL_SPLIT, CL_NOISE,
    CL_NOOPT, CL_AU3AF, CL_DI, CL_PADDING, CL_BIGDELAY,
    CL_Y_BADFD, CL_Y_GETTERS, CL_Y_DYNSUB, CL_Y_DYNSUB_MAINPID, CL_Y_DYNSUB_REMOVED, CL_Y_DYNPIDF, CL_Y_REFLOW, CL_Y_LOST, CL_Y_LOST_NONZERO
};
static const char *const class_names[] = {
    "af_length_0", "af_length_1", "af_leaves_payload_le_8", "af_pcr", "af_opcr_splice_private",
    "af_only_packet", "duplicate", "duplicate_with_new_pcr", "missing_packet",
    "missing_then_af_only_packet", "gap_in_pes_header", "pes_header_split_over_packets",
    "pts_dts_33bit_wrap", "pes_unbounded_length", "front_pid_filter", "front_split", "other_pid_packets",
    "pes_without_optional_header", "pes_ge3_packets_af_in_last", "discontinuity_indicator",
    "padding_stream", "pts_dts_delay_gt_60s",
    "y_refused_flow_defs", "y_getters", "y_split_output_added_midstream", "y_extra_output_on_main_pid", "y_split_output_removed_midstream",
    "y_pid_filter_changed_midstream", "y_decaps_flow_def_set_again", "y_get_packets_lost", "y_packets_lost_nonzero", NULL };

#define P_PIDF 0
#define P_SPLIT 1
#define P_SUBM 2
#define P_SUBN 3
#define P_DECAPS 4
#define P_TEE 5
#define P_PESD 6
#define P_SINK 7
#define P_NOISE 8
#define P_X0 9        /* recorders of the extra ts_split outputs: 9, 10, 11 */
#define NXSUB 3
#define MAXYOP 8

#define MAXPES 12

struct pkt {
    uint8_t b[R_TS];
    bool main, deliver, is_dup, has_payload, pusi, rai, di, pcr_f, hdr_octets, passed;
    uint64_t pcr27;
    unsigned cc, pay_off, pay_len, afl;
    bool has_af;
    int pes;
    size_t pes_off;
};

struct pes {
    uint8_t *bytes;
    size_t n, hdr;
    struct wpes w;
    bool opt, padding, bigdelay;
    int first_pkt, npkts;
};

struct yop { int kind, j; size_t at; int pidsel; bool done; };      /* kind 0: toggle extra output j; 1: toggle the other PID in the pid filter */
struct xsub { struct upipe *sub; bool has_pid; unsigned pid; size_t *want; size_t nwant, capwant; };

struct ctx {
    struct fx fx;
    struct fx_rec tee, sink, noise;
    struct fx_rec xrec[NXSUB];
    struct xsub xs[NXSUB];
    struct pkt *pk;
    size_t npk, cappk;
    struct pes pes[MAXPES];
    int npes;
};
static struct ctx C;

static struct pkt *pkt_new(struct ctx *c)
{
    if (c->npk == c->cappk) {
        size_t nc = c->cappk ? c->cappk * 2 : 256;
        struct pkt *p = realloc(c->pk, nc * sizeof(*p));
        if (!p) return NULL;
        c->pk = p; c->cappk = nc;
    }
    struct pkt *p = &c->pk[c->npk++];
    memset(p, 0, sizeof *p);
    p->pes = -1;
    return p;
}

static uint32_t xs(uint32_t *s) { uint32_t x = *s; x ^= x << 13; x ^= x >> 17; x ^= x << 5; return *s = x ? x : 0x9e3779b9; }

static uint64_t pick_ts(struct tape *t)
{
    switch (tp_u8(t) % 8) {
    case 0: return 0;
    case 1: return R_POW33 - 1;
    case 2: return R_POW33 - 1 - tp_u16(t);
    case 3: return tp_u16(t);
    case 4: return 0x112121212ULL;
    case 5: return (uint64_t)tp_u32(t) << 1;
    default: return (((uint64_t)tp_u32(t) << 8) | tp_u8(t)) & (R_POW33 - 1);
    }
}

#define R(...) do { if (render) vp_render(rep, __VA_ARGS__); } while (0)
#define FAIL(key, ...) do { if (!ret) ret = vp_fail(rep, key, __VA_ARGS__); } while (0)

static int run(const uint8_t *tape_, size_t len, struct vp_report *rep, unsigned flags)
{
    struct ctx *c = &C;
    struct tape t;
    tp_init(&t, tape_, len);
    bool render = flags & VP_RENDER;
    bool thorough = flags & VP_THOROUGH;
    int ret = 0;
    uint32_t cls = 0;
    uint64_t h = VP_HASH_INIT;

    c->npk = 0; c->npes = 0;
    memset(c->pes, 0, sizeof c->pes);
    if (fx_init(&c->fx) != 0) return vp_internal(rep, "fx_init");
    struct fx *fx = &c->fx;

    /* ---------------- decode the case ---------------- */
    unsigned front = tp_u8(&t) % 4;          /* 0 direct, 1 pid filter, 2 split, 3 both */
    static const uint16_t pids[] = { 68, 0x100, 0, 1, 0x1ffe, 0x1fff, 0x1000, 0x0fff };
    uint8_t psel = tp_u8(&t);
    unsigned pid = (psel & 0x80) ? (tp_u16(&t) & 0x1fff) : pids[psel % 8];
    unsigned noise_pid = (pid + 1 + tp_u8(&t) % 7) & 0x1fff;
    if (noise_pid == pid) noise_pid = (pid + 1) & 0x1fff;
    unsigned cc = tp_u8(&t) % 16;            /* counter of the last packet "sent" before the case */
    unsigned noise_cc = 0;
    int npes = 1 + tp_u8(&t) % (thorough ? MAXPES : 6);
    unsigned loss = tp_u8(&t) % 4;           /* 0: no packet is lost; 1, 2: only packets without PES header octets; 3: any */
    h = vp_hash_mix(h, front | pid << 4 | cc << 20 | (uint64_t)npes << 24 | (uint64_t)loss << 32);
    if (front & 1) cls |= 1u << CL_PIDF;
    if (front & 2) cls |= 1u << CL_SPLIT;
    R("C15/decaps front=%s pid=%u noise_pid=%u first_cc=%u pes=%d loss=%s\n",
      front == 0 ? "none" : front == 1 ? "pid_filter" : front == 2 ? "split" : "pid_filter+split", pid, noise_pid, (cc + 1) & 15, npes,
      loss == 0 ? "none" : loss == 3 ? "anywhere" : "payload-only packets");

    int drop_run = 0, consecutive_drops = 0;
    bool harness_fail = false;
    for (int i = 0; i < npes && !harness_fail; i++) {
        struct pes *pe = &c->pes[i];
        c->npes = i + 1;
        struct wpes *w = &pe->w;
        uint8_t ssel = tp_u8(&t);
        switch (ssel % 10) {
        case 0: case 1: case 2: w->stream_id = 0xe0; break;
        case 3: w->stream_id = 0xc0; break;
        case 4: w->stream_id = 0xbd; break;
        case 5: w->stream_id = 0xbf; break;                    /* private_stream_2: no optional header */
        case 6: w->stream_id = 0xe0 + (ssel / 10) % 16; break;
        case 7: w->stream_id = 0xc0 + (ssel / 10) % 32; break;
        case 8: { static const uint8_t ids[] = { 0xbe, 0xbc, 0xf0, 0xf1, 0xff, 0xf2, 0xf8, 0xbe };
                  w->stream_id = ids[(ssel / 10) % 8]; break; }
        default: w->stream_id = 0xfd; break;
        }
        pe->opt = rpes_has_opt_header(w->stream_id);
        pe->padding = w->stream_id == 0xbe;
        uint8_t fsel = tp_u8(&t);
        if (pe->opt) {
            w->has_pts = (fsel & 3) != 0;
            w->has_dts = (fsel & 3) == 3;
            w->align = fsel & 4; w->prio = fsel & 8; w->copyright = fsel & 16; w->original = fsel & 32;
            uint8_t xsel = tp_u8(&t);
            w->escr_f = (xsel & 7) == 7; w->esrate_f = (xsel & 0x38) == 0x38;
            switch (xsel >> 6) { case 0: w->stuffing = 0; break; case 1: w->stuffing = 1; break;
                                 case 2: w->stuffing = tp_u8(&t) % 32; break; default: w->stuffing = 160 + tp_u8(&t) % 60; break; }
            if (w->has_pts) {
                w->pts = pick_ts(&t);
                if (w->has_dts) {
                    uint64_t delta;
                    switch (tp_u8(&t) % 6) {
                    case 0: delta = 1; break;
                    case 1: delta = 3600; break;
                    case 2: delta = 90000ULL * 60; break;              /* exactly 60 s */
                    case 3: delta = tp_u16(&t) + 1; break;
                    case 4: delta = 90000ULL * 60 + 1 + tp_u16(&t); pe->bigdelay = true; break;
                    default: delta = (tp_u32(&t) % (90000ULL * 60)) + 1; break;
                    }
                    w->dts = (w->pts + R_POW33 - delta) & (R_POW33 - 1);
                    if (w->dts > w->pts) cls |= 1u << CL_WRAP;
                    if (pe->bigdelay) cls |= 1u << CL_BIGDELAY;
                }
            }
        }
        size_t hs = wpes_hdr_size(w);
        /* payload size, biased to packet boundaries (184 octets of TS payload per packet) */
        size_t psz;
        uint8_t zsel = tp_u8(&t);
        /* thresholds, not modulo: a smaller selector octet is a smaller PES (shrinking = simplifying) */
        if (zsel < 16) psz = 1;
        else if (zsel < 24) psz = 0;
        else if (zsel < 56) psz = tp_u8(&t);
        else if (zsel < 120) { int k = 1 + (zsel - 56) / 11; int d = (int)(tp_u8(&t) % 7) - 3; long v = (long)k * 184 - (long)hs + d; psz = v < 0 ? 0 : v; }
        else if (zsel < 150) { long v = 184L * (1 + (zsel - 120) / 8) - (long)hs; while (v < 0) v += 184; psz = v; }
        else if (zsel < 200) psz = tp_u16(&t) % 2000;
        else if (zsel < 232) psz = thorough ? tp_u32(&t) % 70001 : tp_u16(&t) % 6000;
        else { int d = (int)(tp_u8(&t) % 9) - 4; long v = 65535 + 6 - (long)hs + d; psz = v; }   /* around the 16-bit length limit */
        size_t total = hs + psz;
        bool unbounded = total - 6 > 65535;
        if (!unbounded && (w->stream_id & 0xf0) == 0xe0 && (tp_u8(&t) % 4) == 3) unbounded = true;
        if (unbounded && (w->stream_id & 0xf0) != 0xe0) {       /* length 0 is only allowed for video */
            psz = 65535 + 6 - hs; total = hs + psz; unbounded = false;
        }
        w->length = unbounded ? 0 : total - 6;
        if (unbounded) cls |= 1u << CL_UNBOUNDED;
        if (!pe->opt) cls |= 1u << CL_NOOPT;
        if (pe->padding) cls |= 1u << CL_PADDING;
        pe->bytes = malloc(total ? total : 1);
        if (!pe->bytes) { harness_fail = true; break; }
        pe->n = total; pe->hdr = hs;
        if (!wpes_build(w, pe->bytes)) { harness_fail = true; break; }
        uint8_t fill = tp_u8(&t);
        uint32_t seed = 0x1234567u + i * 7919u + fill;
        for (size_t k = hs; k < total; k++)
            pe->bytes[k] = (fill % 4 == 3) ? (uint8_t)(fill >> 2) : (uint8_t)(xs(&seed) >> 8);
        h = vp_hash_mix(h, (uint64_t)w->stream_id << 40 | (uint64_t)hs << 24 | psz);
        h = vp_hash_mix(h, w->has_pts ? w->pts : 1); h = vp_hash_mix(h, w->has_dts ? w->dts : 2);
        R(" pes%d stream_id=0x%02x hdr=%zu payload=%zu length_field=%u%s%s pts=%s%llx dts=%s%llx stuffing=%u%s%s fill=%s\n",
          i, w->stream_id, hs, psz, w->length, w->align ? " align" : "", pe->opt ? "" : " (no optional header)",
          w->has_pts ? "0x" : "-", (unsigned long long)(w->has_pts ? w->pts : 0), w->has_dts ? "0x" : "-",
          (unsigned long long)(w->has_dts ? w->dts : 0), w->stuffing, w->escr_f ? " escr" : "", w->esrate_f ? " es_rate" : "",
          fill % 4 == 3 ? "constant" : "prng");

        /* ---- packetise ---- */
        pe->first_pkt = c->npk;
        size_t pos = 0;
        bool first = true;
        while (pos < total || first) {
            bool calm = c->npk > (thorough ? 6000u : 1500u);   /* bound the case: no more shapes/events */
            uint8_t s = calm ? 0 : tp_u8(&t), e = calm ? 0 : tp_u8(&t);
            struct wts wt;
            memset(&wt, 0, sizeof wt);
            wt.pid = pid; wt.pusi = first; wt.has_payload = true;
            wt.prio = (s & 0x80) && (s & 0x40);
            unsigned want_af = 0;    /* 0: none unless needed; else minimal adaptation_field_length + 1 */
            bool anyaf = false;
            switch (s % 8) {
            case 0: break;
            case 1: anyaf = true; want_af = 0; break;                                   /* length 0 */
            case 2: anyaf = true; want_af = 1 + (s >> 3) % 8; break;
            case 3: anyaf = true; want_af = 1; wt.rai = s & 8; wt.di = (s & 0x30) == 0x30; wt.espi = s & 0x40; break;
            case 4: anyaf = true; wt.pcr_f = true; wt.rai = s & 8; break;
            case 5: anyaf = true; want_af = 183 - (1 + (s >> 3) % 8); break;             /* payload of 1..8 octets */
            case 6: anyaf = true; wt.opcr_f = s & 8; wt.sp_f = s & 16; wt.priv_f = s & 32; wt.priv_len = (s >> 6) * 3; wt.pcr_f = s & 64; wt.priv_byte = s; break;
            default: anyaf = true; want_af = 1 + tp_u8(&t) % 182; break;
            }
            if (first && (fsel & 0x40)) { anyaf = true; wt.rai = true; }
            if (wt.pcr_f) { uint64_t v = pick_ts(&t); wt.pcr_base = v; wt.pcr_ext = tp_u16(&t) % 300; }
            if (wt.opcr_f) { wt.opcr_base = 0x155555555ULL; wt.opcr_ext = 299; }
            unsigned need = anyaf ? wts_af_need(&wt) : 0;
            bool flagsset = wt.rai || wt.di || wt.espi || wt.pcr_f || wt.opcr_f || wt.sp_f || wt.priv_f;
            unsigned afl = 0;
            if (anyaf) {
                afl = want_af;
                if (flagsset && afl < need) afl = need;
                if (afl > 182) afl = 182;
            }
            size_t rest = total - pos;
            unsigned cap = anyaf ? 183 - afl : 184;
            unsigned n = rest < cap ? rest : cap;
            if (n < 184) { anyaf = true; afl = 183 - n; }
            if (n == 0) break;       /* cannot happen: a PES has at least its 6 header octets */
            if (anyaf && afl > 0 && afl < need) {
                /* the optional fields do not fit beside this much payload: drop them */
                wt.pcr_f = wt.opcr_f = wt.sp_f = wt.priv_f = false; wt.priv_len = 0;
            }
            if (anyaf && afl == 0) { wt.rai = wt.di = wt.espi = false; }
            wt.has_af = anyaf; wt.afl = afl;
            cc = (cc + 1) & 15;
            wt.cc = cc;
            wt.payload = pe->bytes + pos; wt.pay_len = n;
            struct pkt *p = pkt_new(c);
            if (!p || !wts_build(&wt, p->b)) { harness_fail = true; break; }
            p->main = true; p->deliver = true; p->has_payload = true; p->pusi = first;
            p->has_af = anyaf; p->afl = afl;
            p->rai = anyaf && afl > 0 && wt.rai; p->di = anyaf && afl > 0 && wt.di;
            p->pcr_f = anyaf && afl > 0 && wt.pcr_f; p->pcr27 = wt.pcr_base * 300 + wt.pcr_ext;
            p->cc = cc; p->pay_off = R_TS - n; p->pay_len = n; p->pes = i; p->pes_off = pos;
            p->hdr_octets = pos < hs;
            if (anyaf && afl == 0) cls |= 1u << CL_AF0;
            if (anyaf && afl == 1) cls |= 1u << CL_AF1;
            if (n <= 8) cls |= 1u << CL_AFLONG;
            if (p->pcr_f) cls |= 1u << CL_PCR;
            if (anyaf && afl > 0 && (wt.opcr_f || wt.sp_f || wt.priv_f)) cls |= 1u << CL_AFEXTRA;
            if (p->di) cls |= 1u << CL_DI;
            if (p->hdr_octets && !first) cls |= 1u << CL_HDRSPLIT;
            h = vp_hash_mix(h, (uint64_t)afl << 32 | (uint64_t)n << 16 | (anyaf << 8) | e % 16);
            pos += n;
            first = false;
            pe->npkts++;
            if (pos >= total && pe->npkts >= 3 && anyaf) cls |= 1u << CL_AU3AF;

            /* ---- what happens to this packet / after it ---- */
            size_t me = c->npk - 1;
            bool drop = false;
            if (drop_run > 0) { drop = true; drop_run--; }
            switch (e % 16) {
            case 10: case 14: if (!drop) {
                struct pkt *d = pkt_new(c);
                if (!d) { harness_fail = true; break; }
                *d = c->pk[me]; d->is_dup = true;
                cls |= 1u << CL_DUP;
                if (e % 16 == 14 && d->pcr_f) {
                    wt.pcr_base = (wt.pcr_base + 1 + (e >> 4)) & (R_POW33 - 1);
                    wts_build(&wt, d->b); d->pcr27 = wt.pcr_base * 300 + wt.pcr_ext;
                    cls |= 1u << CL_DUPPCR;
                }
                } break;
            case 8: drop = true; /* fallthrough: missing packet, then an adaptation-only packet */
            case 11: case 9: {
                struct wts wa; memset(&wa, 0, sizeof wa);
                wa.pid = pid; wa.has_af = true; wa.afl = 183; wa.cc = cc;
                wa.pcr_f = e & 16; wa.pcr_base = pick_ts(&t); wa.pcr_ext = (e >> 5) * 37;
                struct pkt *a = pkt_new(c);
                if (!a || !wts_build(&wa, a->b)) { harness_fail = true; break; }
                a->main = true; a->deliver = true; a->has_af = true; a->afl = 183; a->cc = cc;
                a->pcr_f = wa.pcr_f; a->pcr27 = wa.pcr_base * 300 + wa.pcr_ext; a->pes = i;
                cls |= 1u << CL_AFONLY;
                if (a->pcr_f) cls |= 1u << CL_PCR;
                } break;
            case 12: drop = true; break;
            case 15: drop = true; drop_run = (e >> 4) % 6; break;
            case 13: if (front != 0) {
                int nn = 1 + (e >> 4) % 3;
                for (int q = 0; q < nn; q++) {
                    struct wts wn; memset(&wn, 0, sizeof wn);
                    uint8_t pay[184];
                    for (int z = 0; z < 184; z++) pay[z] = (uint8_t)(c->npk * 3 + z);
                    noise_cc = (noise_cc + 1) & 15;
                    wn.pid = noise_pid; wn.cc = noise_cc; wn.has_payload = true; wn.payload = pay; wn.pay_len = 184; wn.pusi = q == 0;
                    struct pkt *np = pkt_new(c);
                    if (!np || !wts_build(&wn, np->b)) { harness_fail = true; break; }
                    np->deliver = true; np->has_payload = true; np->pay_off = 4; np->pay_len = 184; np->cc = noise_cc;
                    cls |= 1u << CL_NOISE;
                }
                } break;
            default: break;
            }
            if (harness_fail) break;
            if (drop && (loss == 0 || (loss < 3 && c->pk[me].hdr_octets))) drop = false;
            if (drop && consecutive_drops < 14) {
                c->pk[me].deliver = false;
                consecutive_drops++;
                cls |= 1u << CL_MISSING;
                if (c->pk[me].hdr_octets) cls |= 1u << CL_GAPHDR;
            } else {
                consecutive_drops = 0; drop_run = 0;
            }
        }
    }
    if (harness_fail) {
        for (int i = 0; i < c->npes; i++) free(c->pes[i].bytes);
        fx_clean(fx);
        return vp_internal(rep, "case construction failed (allocation or writer)");
    }

    if (render)
        for (size_t k = 0; k < c->npk; k++) {
            struct pkt *p = &c->pk[k];
            char afs[16];
            if (p->has_af) snprintf(afs, sizeof afs, "%u", p->afl); else snprintf(afs, sizeof afs, "none");
            R("  #%zu pid=%u cc=%u %s%saf=%s payload=%u%s%s%s%s%s%s\n", k, p->main ? pid : noise_pid, p->cc,
              p->pusi ? "PUSI " : "", p->main ? "" : "(other pid) ", afs,
              p->pay_len, p->rai ? " RAI" : "", p->di ? " DI" : "", p->pcr_f ? " PCR" : "", p->is_dup ? " DUPLICATE" : "",
              p->deliver ? "" : " [NOT DELIVERED]", p->hdr_octets ? " (pes header octets)" : "");
        }

    /* ---------------- reference self-check: our own parser reads back our own writer ---------------- */
    for (size_t k = 0; k < c->npk && !ret; k++) {
        struct rts r;
        rts_parse(c->pk[k].b, &r);
        if (r.bad || r.cc != c->pk[k].cc || r.pay_len != c->pk[k].pay_len || (r.pcr_f && r.pcr27 != c->pk[k].pcr27) || !r.stuffing_ok)
            ret = vp_internal(rep, "reference writer/parser disagree on packet %zu: %s", k, r.bad ? r.bad : "field mismatch");
    }

    /* ---------------- build the pipeline ---------------- */
    struct upipe *pidf = NULL, *split = NULL, *subm = NULL, *subn = NULL, *decaps = NULL, *pesd = NULL, *head = NULL;
    bool noise_sub = (front & 2) && (tp_u8(&t) & 1);
    if (!ret) {
        fx_rec_init(fx, &c->sink, P_SINK, NULL);
        pesd = upipe_void_alloc(upipe_ts_pesd_mgr_alloc(), fx_probe(fx, P_PESD));
        decaps = upipe_void_alloc(upipe_ts_decaps_mgr_alloc(), fx_probe(fx, P_DECAPS));
        if (!pesd || !decaps) ret = vp_internal(rep, "pipe allocation");
    }
    if (!ret) {
        fx_rec_init(fx, &c->tee, P_TEE, pesd);
        fx_rec_init(fx, &c->noise, P_NOISE, NULL);
        if (!ubase_check(upipe_set_output(pesd, &c->sink.upipe)) || !ubase_check(upipe_set_output(decaps, &c->tee.upipe)))
            ret = vp_internal(rep, "set_output");
        head = decaps;
    }
    struct uref *fd = NULL;
    if (!ret) {
        fd = uref_block_flow_alloc_def(fx->fm.uref_mgr, "mpegts.mpegtspes.");
        if (!fd) ret = vp_internal(rep, "flow def");
    }
    if (!ret && (front & 2)) {
        split = upipe_void_alloc(upipe_ts_split_mgr_alloc(), fx_probe(fx, P_SPLIT));
        if (!split) ret = vp_internal(rep, "split alloc");
        else {
            struct uref *sfd = uref_dup(fd);
            uref_ts_flow_set_pid(sfd, pid);
            subm = upipe_flow_alloc_sub(split, fx_probe(fx, P_SUBM), sfd);
            if (!subm || !ubase_check(upipe_set_output(subm, decaps))) ret = vp_internal(rep, "split sub");
            if (!ret && noise_sub) {
                uref_ts_flow_set_pid(sfd, noise_pid);
                subn = upipe_flow_alloc_sub(split, fx_probe(fx, P_SUBN), sfd);
                if (!subn || !ubase_check(upipe_set_output(subn, &c->noise.upipe))) ret = vp_internal(rep, "split noise sub");
            }
            uref_free(sfd);
            head = split;
        }
    }
    if (!ret && (front & 1)) {
        pidf = upipe_void_alloc(upipe_ts_pidf_mgr_alloc(), fx_probe(fx, P_PIDF));
        if (!pidf) ret = vp_internal(rep, "pidf alloc");
        else {
            if (!ubase_check(upipe_set_output(pidf, head))) ret = vp_internal(rep, "pidf output");
            upipe_ts_pidf_add_pid(pidf, pid);
            if (noise_sub) upipe_ts_pidf_add_pid(pidf, noise_pid);
            else { uint8_t pb = tp_u8(&t);
                   if (pb & 1) { upipe_ts_pidf_add_pid(pidf, noise_pid); upipe_ts_pidf_del_pid(pidf, noise_pid); }
                   if (pb & 2) upipe_ts_pidf_del_pid(pidf, noise_pid);          /* del of a PID that is not in the filter: still not in */
                   if (pb & 4) upipe_ts_pidf_add_pid(pidf, pid); }              /* add of one that is: still in */
            head = pidf;
        }
    }
    /* ---------------- extension block (an exhausted tape gives none) ---------------- */
    uint8_t y0 = ret ? 0 : tp_u8(&t);
    bool y_badfd = y0 & 1, y_get = y0 & 2, y_dyn = (y0 & 4) && split, y_pidf = (y0 & 8) && pidf && split, y_reflow = y0 & 16, y_lost = y0 & 32;
    struct yop yop[MAXYOP];
    int nyop = 0;
    size_t reflow_at = 0, lost_at = c->npk;
    unsigned third_pid = (pid + 9) & 0x1fff;
    if (third_pid == noise_pid) third_pid = (third_pid + 1) & 0x1fff;
    memset(c->xs, 0, sizeof c->xs);
    if (y_dyn || y_pidf) {
        nyop = 1 + tp_u8(&t) % MAXYOP;
        for (int q = 0; q < nyop; q++) {
            uint8_t b = tp_u8(&t);
            yop[q].at = tp_u16(&t) % (c->npk + 1);
            yop[q].kind = y_dyn && y_pidf ? (b & 1) : y_pidf ? 1 : 0;
            yop[q].j = (b >> 1) % NXSUB; yop[q].pidsel = (b >> 3) % 4; yop[q].done = false;
            h = vp_hash_mix(h, yop[q].kind | yop[q].j << 2 | yop[q].pidsel << 4 | (uint64_t)yop[q].at << 8);
        }
    }
    if (y_reflow) reflow_at = tp_u16(&t) % (c->npk + 1);
    if (y_lost && (tp_u8(&t) & 1)) lost_at = tp_u16(&t) % (c->npk + 1);
    h = vp_hash_mix(h, y0 | (uint64_t)reflow_at << 8 | (uint64_t)lost_at << 32);
    if (y0) R(" extension:%s%s%s%s%s%s\n", y_badfd ? " refused-flow-defs" : "", y_get ? " getters" : "", y_dyn ? " split-outputs-in-mid-stream" : "",
              y_pidf ? " pid-filter-in-mid-stream" : "", y_reflow ? " decaps-flow-def-again" : "", y_lost ? " get_packets_lost" : "");
    if (y_badfd) cls |= 1u << CL_Y_BADFD;
    if (y_get) cls |= 1u << CL_Y_GETTERS;
    if (y_lost) cls |= 1u << CL_Y_LOST;
    if (!ret && y_badfd) {
        /* every pipe of the chain documents block.mpegts. as its input */
        struct upipe *tg[3] = { decaps, split, pidf };
        static const char *const tn[3] = { "ts_decaps", "ts_split", "ts_pid_filter" };
        for (int q = 0; q < 3 && !ret; q++) {
            if (!tg[q]) continue;
            struct uref *bad = uref_dup(fd);
            if (!bad) { ret = vp_internal(rep, "uref_dup"); break; }
            if (ubase_check(upipe_set_flow_def(tg[q], NULL))) FAIL("C15/flowdef/accepted", "%s accepted a NULL flow definition", tn[q]);
            uref_flow_set_def(bad, "block.mpegtspes.");
            if (ubase_check(upipe_set_flow_def(tg[q], bad))) FAIL("C15/flowdef/accepted", "%s accepted the flow definition block.mpegtspes. (not TS packets)", tn[q]);
            uref_flow_set_def(bad, "pic.");
            if (ubase_check(upipe_set_flow_def(tg[q], bad))) FAIL("C15/flowdef/accepted", "%s accepted the flow definition pic.", tn[q]);
            uref_free(bad);
        }
    }
    if (!ret && !ubase_check(upipe_set_flow_def(head, fd))) ret = vp_internal(rep, "set_flow_def refused on the head pipe");
    for (int j = 0; j < NXSUB; j++) fx_rec_init(fx, &c->xrec[j], P_X0 + j, NULL);

    /* the PIDs ts_split declares needed, from its add_pid / del_pid events replayed as set operations, against the model */
#define CHECK_NEEDED(when) do { \
        unsigned pv_[3] = { pid, noise_pid, third_pid }; \
        for (int z_ = 0; z_ < 3 && !ret && split; z_++) { \
            bool ev_ = false; int model_ = 0; \
            for (size_t e_ = 0; e_ < fx->nev; e_++) \
                if (fx->ev[e_].pipe == P_SPLIT && fx->ev[e_].a == pv_[z_]) { if (fx->ev[e_].kind == FXE_ADD_PID) ev_ = true; else if (fx->ev[e_].kind == FXE_DEL_PID) ev_ = false; } \
            if (subm && pv_[z_] == pid) model_++; \
            if (subn && pv_[z_] == noise_pid) model_++; \
            for (int j_ = 0; j_ < NXSUB; j_++) if (c->xs[j_].sub && c->xs[j_].has_pid && c->xs[j_].pid == pv_[z_]) model_++; \
            if (ev_ != (model_ > 0)) FAIL("C15/split/pid-events", "%s: PID %u has %d outputs, the add_pid/del_pid events of ts_split say it is %sneeded", when, pv_[z_], model_, ev_ ? "" : "not "); \
        } } while (0)

    /* ---------------- feed ---------------- */
    size_t delivered = 0;
    bool noise_in_pidf = noise_sub;
    uint64_t lost_got[2] = { 0, 0 };
    bool lost_mid_called = false;
    if (!ret) CHECK_NEEDED("after the setup");
    for (size_t k = 0; k <= c->npk && !ret; k++) {
        for (int q = 0; q < nyop && !ret; q++) {
            struct yop *o = &yop[q];
            if (o->done || o->at != k) continue;
            o->done = true;
            if (o->kind == 1) {
                /* one operation in four repeats the state the PID is in (add of a PID that passes already, del of one that does
                 * not): the set of PIDs that pass must not change */
                bool again = o->pidsel == 2;
                if (!again) noise_in_pidf = !noise_in_pidf;
                R("  before #%zu: ts_pid_filter %s PID %u%s\n", k, noise_in_pidf ? "add" : "del", noise_pid, again ? " (again)" : "");
                int err = noise_in_pidf ? upipe_ts_pidf_add_pid(pidf, noise_pid) : upipe_ts_pidf_del_pid(pidf, noise_pid);
                if (!ubase_check(err) && !again) FAIL("C15/pidf/control", "ts_pid_filter add/del_pid(%u) failed", noise_pid);
                cls |= 1u << CL_Y_DYNPIDF;
            } else {
                struct xsub *x = &c->xs[o->j];
                if (!x->sub) {
                    struct uref *sfd = uref_dup(fd);
                    if (!sfd) { ret = vp_internal(rep, "uref_dup"); break; }
                    x->has_pid = o->pidsel != 3;
                    x->pid = o->pidsel == 0 ? pid : o->pidsel == 1 ? noise_pid : third_pid;
                    if (x->has_pid) uref_ts_flow_set_pid(sfd, x->pid);
                    x->sub = upipe_flow_alloc_sub(split, fx_probe(fx, P_SUBN), sfd);
                    uref_free(sfd);
                    if (!x->sub || !ubase_check(upipe_set_output(x->sub, &c->xrec[o->j].upipe))) { ret = vp_internal(rep, "extra split output"); break; }
                    if (x->has_pid) R("  before #%zu: new ts_split output %d on PID %u\n", k, o->j, x->pid); else R("  before #%zu: new ts_split output %d without PID\n", k, o->j);
                    cls |= 1u << CL_Y_DYNSUB;
                    if (x->has_pid && x->pid == pid) cls |= 1u << CL_Y_DYNSUB_MAINPID;
                } else {
                    R("  before #%zu: ts_split output %d released\n", k, o->j);
                    upipe_release(x->sub); x->sub = NULL;
                    cls |= 1u << CL_Y_DYNSUB_REMOVED;
                }
                CHECK_NEEDED("after adding / releasing an output in mid-stream");
            }
        }
        if (ret) break;
        if (y_reflow && k == reflow_at) {
            R("  before #%zu: set_flow_def on ts_decaps again\n", k);
            /* (a changed one: an identical flow definition need not be announced again) */
            struct uref *fd2 = uref_dup(fd);
            if (!fd2 || !ubase_check(uref_flow_set_id(fd2, 42))) { if (fd2) uref_free(fd2); ret = vp_internal(rep, "uref_dup"); break; }
            if (!ubase_check(upipe_set_flow_def(decaps, fd2))) FAIL("C15/decaps/flow-def-again", "ts_decaps refused a new flow definition block.mpegts.mpegtspes. in mid-stream");
            uref_free(fd2);
            cls |= 1u << CL_Y_REFLOW;
        }
        if (y_lost && k == lost_at && k < c->npk) {
            if (!ubase_check(upipe_ts_decaps_get_packets_lost(decaps, &lost_got[0]))) FAIL("C15/decaps/packets-lost", "get_packets_lost failed");
            lost_mid_called = true;
        }
        if (k == c->npk) break;
        struct pkt *p = &c->pk[k];
        if (!p->deliver) continue;
        p->passed = !pidf || p->main || noise_in_pidf;
        if (p->passed && split)
            for (int j = 0; j < NXSUB; j++) {
                struct xsub *x = &c->xs[j];
                if (!x->sub || !x->has_pid || x->pid != (p->main ? pid : noise_pid)) continue;
                if (x->nwant == x->capwant) {
                    size_t nc = x->capwant ? x->capwant * 2 : 64;
                    size_t *w = realloc(x->want, nc * sizeof(*w));
                    if (!w) { ret = vp_internal(rep, "malloc"); break; }
                    x->want = w; x->capwant = nc;
                }
                x->want[x->nwant++] = k;
            }
        if (ret) break;
        bool exact;
        struct uref *uref = fx_uref_exact(fx, p->b, R_TS, &exact);
        if (!uref) { ret = vp_internal(rep, "uref allocation"); break; }
        if (!exact) { uref_free(uref); ret = vp_internal(rep, "packet area is not exactly 188 octets"); break; }
        fx->tag = k;
        upipe_input(head, uref, NULL);
        delivered++;
    }
    fx->tag = -1;
    if (!ret && y_lost) {
        uint64_t again = 77;
        if (!ubase_check(upipe_ts_decaps_get_packets_lost(decaps, &lost_got[1])) || !ubase_check(upipe_ts_decaps_get_packets_lost(decaps, &again)))
            FAIL("C15/decaps/packets-lost", "get_packets_lost failed");
        else if (again != 0) FAIL("C15/decaps/packets-lost-reset", "get_packets_lost gives %llu right after a call that must have reset the counter", (unsigned long long)again);
    }
    if (!ret && y_get) {
        struct uref *g = NULL; const char *def = NULL; struct upipe *o = NULL; uint64_t gp = 0;
        if (c->tee.nchunks && (!ubase_check(upipe_get_flow_def(decaps, &g)) || !g || !ubase_check(uref_flow_get_def(g, &def)) || strcmp(def, "block.mpegtspes.")))
            FAIL("C15/decaps/get-flow-def", "ts_decaps fed block.mpegts.mpegtspes. reports the output flow definition '%s', expected block.mpegtspes.", def ? def : "(none)");
        if (!ubase_check(upipe_get_output(decaps, &o)) || o != &c->tee.upipe) FAIL("C15/decaps/get-output", "get_output of ts_decaps does not return the pipe given to set_output");
        if (subm) {
            g = NULL; o = NULL;
            if (!ubase_check(upipe_get_flow_def(subm, &g)) || !g || !ubase_check(uref_ts_flow_get_pid(g, &gp)) || gp != pid)
                FAIL("C15/split/get-flow-def", "the flow definition of the ts_split output for PID %u says PID %llu", pid, (unsigned long long)gp);
            if (!ubase_check(upipe_get_output(subm, &o)) || o != decaps) FAIL("C15/split/get-output", "get_output of the ts_split output does not return the pipe given to set_output");
            if (ubase_check(upipe_control(subm, UPIPE_END_PREROLL))) FAIL("C15/split/unknown-command", "a ts_split output accepted an unknown command");
        }
        if (split && ubase_check(upipe_control(split, UPIPE_END_PREROLL))) FAIL("C15/split/unknown-command", "ts_split accepted an unknown command");
        if (pidf && ubase_check(upipe_control(pidf, UPIPE_END_PREROLL))) FAIL("C15/pidf/unknown-command", "ts_pid_filter accepted an unknown command");
        if (ubase_check(upipe_control(decaps, UPIPE_END_PREROLL))) FAIL("C15/decaps/unknown-command", "ts_decaps accepted an unknown command");
        /* a request of an upstream pipe entering the chain at its head is answered (ts_split answers through its probe) */
        if (!ret) { const char *bad = fx_request_roundtrip(head, fd, true); if (bad) FAIL("C15/chain/request", "%s", bad); }
    }
    for (int j = 0; j < NXSUB; j++) if (c->xs[j].sub) { upipe_release(c->xs[j].sub); c->xs[j].sub = NULL; }
    if (!ret) CHECK_NEEDED("after releasing the outputs added in mid-stream");
    if (pidf) upipe_release(pidf);
    if (subm) { upipe_release(subm); subm = NULL; }
    if (subn) { upipe_release(subn); subn = NULL; }
    if (!ret) CHECK_NEEDED("after releasing every output");
#undef CHECK_NEEDED
    if (split) upipe_release(split);
    if (decaps) upipe_release(decaps);
    if (pesd) upipe_release(pesd);
    if (fd) uref_free(fd);
    /* each output added in mid-stream received exactly the packets of its PID delivered during its life */
    for (int j = 0; j < NXSUB && !ret; j++) {
        struct fx_rec *X = &c->xrec[j];
        struct xsub *x = &c->xs[j];
        if (X->nchunks != x->nwant) { FAIL("C15/split/dynamic-output", "ts_split output %d added in mid-stream should have received %zu packets, it received %zu", j, x->nwant, X->nchunks); break; }
        for (size_t q = 0; q < x->nwant && !ret; q++) {
            struct fx_chunk *ch = &X->chunks[q];
            if (ch->tag != (int32_t)x->want[q] || ch->len != R_TS || memcmp(X->bytes + ch->off, c->pk[x->want[q]].b, R_TS))
                FAIL("C15/split/dynamic-output", "ts_split output %d: buffer %zu is not packet #%zu unaltered (it came with packet #%d, %zu octets)", j, q, x->want[q], ch->tag, ch->len);
        }
    }
    if (!ret && (fx->harness_oom || fx->ev_overflow)) ret = vp_internal(rep, "harness recorder overflow");
    if (!ret && c->tee.flowdef_err) ret = vp_internal(rep, "ts_pes_decaps refused the flow definition of ts_decaps (%s)", c->tee.flowdef);

    /* ---------------- decaps-level oracle ---------------- */
    bool gap_in_header = false;
    if (!ret) {
        int last_cc = -1;
        uint64_t lostm[2] = { 0, 0 };
        bool lost_exact = true;
        bool pending = false;        /* gap revealed by an adaptation-only packet, not yet flagged */
        bool may_pending = false;    /* discontinuity_indicator on an adaptation-only packet: flagging the next payload is allowed */
        bool any_output = false;     /* the very first output may carry the flag (convention of the pipe) */
        const struct pkt *prev = NULL;
        size_t ci = 0;
        struct fx_rec *T = &c->tee;
        for (size_t k = 0; k < c->npk && !ret; k++) {
            struct pkt *p = &c->pk[k];
            if (!p->main) continue;
            if (!p->deliver) { if (p->hdr_octets) gap_in_header = true; continue; }
            /* PCR -> clock_ref */
            size_t nref = 0; uint64_t refv = 0;
            for (size_t e = 0; e < fx->nev; e++)
                if (fx->ev[e].pipe == P_DECAPS && fx->ev[e].kind == FXE_CLOCK_REF && fx->ev[e].tag == (int32_t)k) { nref++; refv = fx->ev[e].a; }
            if (p->pcr_f) {
                if (nref > 1 || (nref == 0 && !p->is_dup))
                    FAIL("C15/decaps/pcr-event", "packet #%zu carries a PCR but ts_decaps threw %zu clock_ref events", k, nref);
                else if (nref == 1 && refv != p->pcr27)
                    FAIL("C15/decaps/pcr-value", "packet #%zu: PCR base*300+ext = %llu, clock_ref says %llu", k, (unsigned long long)p->pcr27, (unsigned long long)refv);
            } else if (nref)
                FAIL("C15/decaps/pcr-event", "packet #%zu has no PCR but ts_decaps threw clock_ref", k);
            if (ret) break;
            bool here = ci < T->nchunks && T->chunks[ci].tag == (int32_t)k;
            int li = (lost_mid_called && k < lost_at) ? 0 : 1;
            if (!p->has_payload) {
                if (last_cc != -1 && !p->di && (int)p->cc != last_cc) {
                    /* (before the first payload the pipe is still in its initial discontinuity: nothing is presumed) */
                    if (!pending && !may_pending && any_output) lostm[li] += (p->cc - last_cc) & 15; else lost_exact = false;
                    pending = true; cls |= 1u << CL_MISS_AFONLY;
                }
                if (p->di) may_pending = true;
                last_cc = p->cc;
                if (here) FAIL("C15/decaps/af-only", "adaptation-only packet #%zu produced output", k);
                continue;
            }
            bool dup = last_cc != -1 && (int)p->cc == last_cc && prev && prev->pay_len == p->pay_len &&
                       !memcmp(prev->b + prev->pay_off, p->b + p->pay_off, p->pay_len);
            if (dup) {
                if (here) FAIL("C15/decaps/duplicate", "duplicate packet #%zu (same counter %u, same payload) was output again", k, p->cc);
                continue;
            }
            bool gap = last_cc != -1 && !p->di && (int)p->cc != ((last_cc + 1) & 15);
            if (gap) { if (!pending && !may_pending && any_output && (int)p->cc != last_cc) lostm[li] += (p->cc - last_cc - 1) & 15; else lost_exact = false; }
            bool must = pending || gap || p->di;
            bool may = must || may_pending || !any_output;
            if (!here) { FAIL("C15/decaps/lost", "packet #%zu (cc %u, %u payload octets) produced no output", k, p->cc, p->pay_len); break; }
            struct fx_chunk *ch = &T->chunks[ci++];
            if (ci < T->nchunks && T->chunks[ci].tag == (int32_t)k) { FAIL("C15/decaps/extra", "packet #%zu produced more than one output", k); break; }
            if (ch->len != p->pay_len || memcmp(T->bytes + ch->off, p->b + p->pay_off, p->pay_len)) {
                size_t d = 0; while (d < ch->len && d < p->pay_len && T->bytes[ch->off + d] == p->b[p->pay_off + d]) d++;
                FAIL("C15/decaps/payload", "packet #%zu (af %s%u): output has %zu octets, carried payload %u; first difference at %zu",
                     k, p->has_af ? "" : "-", p->afl, ch->len, p->pay_len, d);
                break;
            }
            if (!!(ch->flags & FXC_START) != p->pusi) FAIL("C15/decaps/unit-start", "packet #%zu: payload_unit_start=%d, output start flag=%d", k, p->pusi, !!(ch->flags & FXC_START));
            if (!!(ch->flags & FXC_RAND) != p->rai) FAIL("C15/decaps/random", "packet #%zu: random_access_indicator=%d, output random flag=%d", k, p->rai, !!(ch->flags & FXC_RAND));
            if (must && !(ch->flags & FXC_DISC))
                FAIL(pending && !gap && !p->di ? "C15/decaps/gap-after-af-only" : p->di && !gap && !pending ? "C15/decaps/discontinuity-indicator" : "C15/decaps/gap-not-flagged",
                     "packet #%zu (cc %u after %d%s): discontinuity not flagged on the output", k, p->cc, last_cc,
                     pending ? ", gap revealed by an adaptation-only packet whose counter differs from the last payload packet's" : "");
            if (!may && (ch->flags & FXC_DISC)) FAIL("C15/decaps/spurious-discontinuity", "packet #%zu (cc %u after %d): discontinuity flagged without a gap", k, p->cc, last_cc);
            if (ch->flags & FXC_ERROR) FAIL("C15/decaps/error-flag", "packet #%zu: error flag without transport_error_indicator", k);
            pending = may_pending = false; any_output = true; last_cc = p->cc; prev = p;
        }
        /* the flow definition is announced downstream once before the first output, and once more before the first output
         * that follows a new set_flow_def */
        if (!ret) {
            size_t before = 0, after = 0;
            for (size_t q = 0; q < T->nchunks; q++) if (y_reflow && (size_t)T->chunks[q].tag >= reflow_at) after++; else before++;
            int want = (before ? 1 : 0) + (after ? 1 : 0);
            if (T->nflowdef != want)
                FAIL("C15/decaps/flow-def-announced", "the pipe after ts_decaps received %d flow definitions, expected %d (%zu outputs before, %zu after the flow definition was set again)", T->nflowdef, want, before, after);
            else if (want && strcmp(T->flowdef, "block.mpegtspes."))
                FAIL("C15/decaps/flow-def-announced", "ts_decaps fed block.mpegts.mpegtspes. announces '%s' downstream, expected block.mpegtspes.", T->flowdef);
        }
        /* packets presumed lost: the sum of the counter gaps (plain gaps only, see the head of the file) */
        if (!ret && y_lost && lost_exact) {
            if (lost_mid_called && lost_got[0] != lostm[0])
                FAIL("C15/decaps/packets-lost", "get_packets_lost before packet #%zu gives %llu, the continuity counters of the packets delivered until then imply %llu missing", lost_at, (unsigned long long)lost_got[0], (unsigned long long)lostm[0]);
            else if (lost_got[1] != lostm[1])
                FAIL("C15/decaps/packets-lost", "get_packets_lost at the end gives %llu, the continuity counters of the packets delivered since the last call imply %llu missing", (unsigned long long)lost_got[1], (unsigned long long)lostm[1]);
            if (lostm[0] + lostm[1]) cls |= 1u << CL_Y_LOST_NONZERO;
        }
        if (!ret && ci != T->nchunks)
            FAIL("C15/decaps/extra", "ts_decaps output %zu chunks, %zu expected (chunk %zu has tag %d)", T->nchunks, ci, ci, T->chunks[ci].tag);
    }
    /* other PID: routed to its own output untouched, or filtered */
    if (!ret && front != 0) {
        size_t want = 0;
        for (size_t k = 0; k < c->npk; k++) if (!c->pk[k].main && c->pk[k].deliver && c->pk[k].passed) want++;
        if (noise_sub) {
            if (c->noise.nchunks != want) FAIL("C15/split/other-pid", "%zu packets of PID %u sent, its ts_split output received %zu", want, noise_pid, c->noise.nchunks);
            else {
                size_t q = 0;
                for (size_t k = 0; k < c->npk && !ret; k++)
                    if (!c->pk[k].main && c->pk[k].deliver && c->pk[k].passed) {
                        struct fx_chunk *ch = &c->noise.chunks[q++];
                        if (ch->len != R_TS || memcmp(c->noise.bytes + ch->off, c->pk[k].b, R_TS))
                            FAIL("C15/split/other-pid", "packet #%zu of PID %u altered or misrouted by ts_split", k, noise_pid);
                    }
            }
        } else if (c->noise.nchunks) FAIL("C15/split/other-pid", "noise sink received data without a sub-pipe");
    }

    /* ---------------- PES-level oracle ---------------- */
    if (!ret && !gap_in_header) {
        struct fx_rec *S = &c->sink;
        size_t ci = 0;
        for (int i = 0; i < c->npes && !ret; i++) {
            struct pes *pe = &c->pes[i];
            if (pe->padding) continue;
            /* expected payload = delivered, non-duplicate pieces beyond the header */
            size_t explen = 0;
            uint8_t *exp = malloc(pe->n ? pe->n : 1);
            if (!exp) { ret = vp_internal(rep, "malloc"); break; }
            bool first_rai = false; int gap_tag_pending = 0;
            int last_cc = -2; const struct pkt *prev = NULL;
            for (int k = pe->first_pkt; k < (int)c->npk; k++) {
                struct pkt *p = &c->pk[k];
                if (!p->main || p->pes != i || !p->has_payload) { if (p->main && p->pes > i) break; continue; }
                if (!p->deliver) continue;
                if (prev && (int)p->cc == last_cc && prev->pay_len == p->pay_len && !memcmp(prev->b + prev->pay_off, p->b + p->pay_off, p->pay_len)) continue;
                if (p->pusi) first_rai = p->rai;
                size_t a = p->pes_off, b = p->pes_off + p->pay_len;
                if (a < pe->hdr) a = pe->hdr;
                if (b > a) { memcpy(exp + explen, pe->bytes + a, b - a); explen += b - a; }
                last_cc = p->cc; prev = p;
            }
            (void)gap_tag_pending;
            if (ci >= S->nchunks || !(S->chunks[ci].flags & FXC_START)) {
                FAIL("C15/pesd/missing-unit", "pes%d (stream_id 0x%02x): no unit start at the output (chunk %zu of %zu)", i, pe->w.stream_id, ci, S->nchunks);
                free(exp); break;
            }
            struct fx_chunk *fc = &S->chunks[ci];
            size_t got = 0, start = fc->off;
            size_t cj = ci;
            do { got += S->chunks[cj].len; cj++; } while (cj < S->nchunks && !(S->chunks[cj].flags & FXC_START));
            if (got != explen || memcmp(S->bytes + start, exp, explen)) {
                size_t d = 0; while (d < got && d < explen && S->bytes[start + d] == exp[d]) d++;
                FAIL("C15/pesd/payload", "pes%d (stream_id 0x%02x, header %zu): decapsulated %zu octets, carried %zu; first difference at %zu",
                     i, pe->w.stream_id, pe->hdr, got, explen, d);
            }
            bool want_ts = pe->opt && pe->w.has_pts;
            if (!ret && want_ts != !!(fc->flags & FXC_DTS))
                FAIL("C15/pesd/timestamp-presence", "pes%d: PTS in header=%d, dts_orig on output=%d", i, want_ts, !!(fc->flags & FXC_DTS));
            if (!ret && want_ts) {
                uint64_t dts = pe->w.has_dts ? pe->w.dts : pe->w.pts;
                uint64_t delta = (pe->w.pts + R_POW33 - dts) & (R_POW33 - 1);
                if (fc->dts_orig != dts * 300)
                    FAIL("C15/pesd/dts", "pes%d: DTS field 0x%llx, dts_orig/300 = 0x%llx", i, (unsigned long long)dts, (unsigned long long)(fc->dts_orig / 300));
                else if (!pe->bigdelay && (!(fc->flags & FXC_PTS) || fc->pts_orig != (dts + delta) * 300))
                    FAIL("C15/pesd/pts", "pes%d: PTS field 0x%llx DTS 0x%llx, pts_orig/300 = 0x%llx", i, (unsigned long long)pe->w.pts,
                         (unsigned long long)dts, (unsigned long long)(fc->pts_orig / 300));
            }
            if (!ret && first_rai != !!(fc->flags & FXC_RAND))
                FAIL("C15/pesd/random", "pes%d: random_access_indicator of the first packet=%d, random flag of the unit=%d", i, first_rai, !!(fc->flags & FXC_RAND));
            free(exp);
            ci = cj;
        }
        if (!ret && ci != S->nchunks)
            FAIL("C15/pesd/extra-unit", "ts_pes_decaps output %zu chunks beyond the %d PES sent", S->nchunks - ci, c->npes);
        /* chunk following a gap in the payload region is flagged */
        if (!ret) {
            bool gap = false;
            for (size_t k = 0; k < c->npk && !ret; k++) {
                struct pkt *p = &c->pk[k];
                if (!p->main || !p->has_payload) continue;
                if (!p->deliver) { gap = true; continue; }
                if (p->is_dup) continue;
                if (gap && !c->pes[p->pes].padding && !p->hdr_octets) {
                    bool found = false;
                    for (size_t q = 0; q < S->nchunks; q++)
                        if (S->chunks[q].tag == (int32_t)k && (S->chunks[q].flags & FXC_DISC)) found = true;
                    if (!found) FAIL("C15/pesd/gap-not-flagged", "packet #%zu follows a gap inside a PES payload; no discontinuity on the decapsulated chunk", k);
                }
                gap = false;
            }
        }
    }

    /* ---------------- teardown ---------------- */
    fx_rec_clean(&c->tee); fx_rec_clean(&c->sink); fx_rec_clean(&c->noise);
    for (int j = 0; j < NXSUB; j++) { fx_rec_clean(&c->xrec[j]); free(c->xs[j].want); c->xs[j].want = NULL; }
    for (int i = 0; i < c->npes; i++) { free(c->pes[i].bytes); c->pes[i].bytes = NULL; }
    const char *leak = fx_clean(fx);
    if (leak && !ret) ret = vp_fail(rep, "C15/leak/decaps", "after releasing every pipe: %s", leak);

    rep->case_hash = h;
    rep->classes = cls;
    rep->nontrivial = (cls & (1u << CL_AU3AF | 1u << CL_DUP | 1u << CL_MISSING)) != 0;
    (void)delivered;
    return ret;
}

const struct vp_executor vp_executor = { "C15", "decaps", 700, class_names, run, NULL };

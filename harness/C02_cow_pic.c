/* C02 / cow_pic — copy-on-write isolation over picture handles sharing one memory area
 * (dup, crop/extend, plane write mapping, copy) and over blocks re-exported from their planes
 * with ubuf_block_mem_alloc_from_pic (which then take part in all block operations).
 * See C02_model.h for the model and the oracle. */
#define C2_MAXSZ 4096
#include "C02_model.h"
#include "upipe/ubuf_pic.h"
#include "upipe/ubuf_pic_mem.h"

#define MAXOPS 40
#define MAXOPS_THOROUGH 64
#define P_MAXPL 3
#define P_LINES 32
#define P_LB 128
#define P_MAXH 48     /* model capacity: pixels per line, lines */
#define P_MAXV 24

enum { CLP_EXTENDED = CL_EXEC0, CLP_RESIZE_REFUSED };
static const char *const class_names[] = { C2_COMMON_CLASS_NAMES, C2_PLANAR_CLASS_NAMES,
    "resize_extended_into_margin", "resize_refused", C2_FAULT_CLASS_NAMES, NULL };

struct plfmt { const char *chroma; int hsub, vsub, mps; };
struct fmt { const char *name; int macropixel, np; struct plfmt pl[P_MAXPL]; };
static const struct fmt fmts[] = {
    { "y8",        1, 1, { { "y8", 1, 1, 1 } } },
    { "I420",      1, 3, { { "y8", 1, 1, 1 }, { "u8", 2, 2, 1 }, { "v8", 2, 2, 1 } } },
    { "YUYV",      2, 1, { { "y8u8y8v8", 1, 1, 4 } } },
    { "yuv422p16", 1, 3, { { "y16l", 1, 1, 2 }, { "u16l", 2, 1, 2 }, { "v16l", 2, 1, 2 } } },
};

struct pic { int hs, vs; uint8_t m[P_MAXPL][P_LINES][P_LB], wild[P_MAXPL][P_LINES][P_LB]; };
static struct pic pics[C2_MAXH], tmp_pic;
static const struct fmt *F;
static int hg, vg;            /* granularity valid for every plane */

static int pl_lines(const struct pic *p, int pl) { return p->vs / F->pl[pl].vsub; }
static int pl_lb(const struct pic *p, int pl) { return p->hs / F->macropixel / F->pl[pl].hsub * F->pl[pl].mps; }
static int px2b(int pl, int px) { return px / F->macropixel / F->pl[pl].hsub * F->pl[pl].mps; }

static void pic_check(struct c2_ctx *c, int hi, const char *after)
{
    struct c2_hnd *h = &c->h[hi];
    struct pic *p = &pics[hi];
    size_t hs = 0, vs = 0; uint8_t mp = 0;
    if (!ubase_check(ubuf_pic_size(h->u, &hs, &vs, &mp)) || (int)hs != p->hs || (int)vs != p->vs) {
        FAIL("C02/isolation/pic-size", "after %s: picture handle h%d is %zux%zu, its model copy says %dx%d", after, hi, hs, vs, p->hs, p->vs);
        return;
    }
    for (int pl = 0; pl < F->np && !c->ret; pl++) {
        const uint8_t *r; size_t stride = 0;
        if (!ubase_check(ubuf_pic_plane_size(h->u, F->pl[pl].chroma, &stride, NULL, NULL, NULL)) ||
            !ubase_check(ubuf_pic_plane_read(h->u, F->pl[pl].chroma, 0, 0, -1, -1, &r))) {
            FAIL("C02/isolation/pic-read", "after %s: plane %s of picture handle h%d cannot be mapped for reading", after, F->pl[pl].chroma, hi);
            return;
        }
        int lines = pl_lines(p, pl), lb = pl_lb(p, pl);
        for (int y = 0; y < lines && !c->ret; y++)
            for (int x = 0; x < lb; x++) {
                uint8_t v = r[(size_t)y * stride + x];
                if (p->wild[pl][y][x]) { p->m[pl][y][x] = v; p->wild[pl][y][x] = 0; }
                else if (p->m[pl][y][x] != v) {
                    FAIL("C02/isolation/pic-content", "after %s: plane %s line %d octet %d of picture handle h%d (area a%d) reads %02x, its model copy says %02x",
                         after, F->pl[pl].chroma, y, x, hi, h->parea, v, p->m[pl][y][x]);
                    break;
                }
            }
        ubuf_pic_plane_unmap(h->u, F->pl[pl].chroma, 0, 0, -1, -1);
    }
}

/* write mapping of a window of one plane; window given in pixels / lines, already in the documented domain */
static bool pic_write(struct c2_ctx *c, int hi, int pl, int ho, int vo, int hsz, int vsz, const char *what, bool count)
{
    struct c2_hnd *h = &c->h[hi];
    struct pic *p = &pics[hi];
    int who, dec = c2_planar_decide(c, hi, &who);
    uint8_t *w = NULL;
    int err = ubuf_pic_plane_write(h->u, F->pl[pl].chroma, ho, vo, hsz, vsz, &w);
    if (!c2_planar_answer(c, hi, dec, who, err, what, "C02/write-refused/pic")) return false;
    size_t stride = 0;
    ubuf_pic_plane_size(h->u, F->pl[pl].chroma, &stride, NULL, NULL, NULL);
    int nho = ho < 0 ? ho + p->hs : ho, nvo = vo < 0 ? vo + p->vs : vo;
    int nhs = hsz < 0 ? p->hs - nho : hsz, nvs = vsz < 0 ? p->vs - nvo : vsz;
    int x0 = px2b(pl, nho), lb = px2b(pl, nhs), y0 = nvo / F->pl[pl].vsub, lines = nvs / F->pl[pl].vsub;
    for (int y = 0; y < lines; y++)
        for (int x = 0; x < lb; x++) {
            uint8_t *q = w + (size_t)y * stride + x;
            uint8_t old = p->wild[pl][y0 + y][x0 + x] ? *q : p->m[pl][y0 + y][x0 + x];
            *q = c2_fresh(c, old);
            p->m[pl][y0 + y][x0 + x] = *q; p->wild[pl][y0 + y][x0 + x] = 0;
        }
    ubuf_pic_plane_unmap(h->u, F->pl[pl].chroma, ho, vo, hsz, vsz);
    c2_planar_written(c, hi, dec, who, what, "C02/write-granted/pic", count);
    return true;
}

static int op_pic_alloc(struct c2_ctx *c, char *what, size_t wn)
{
    int slot = c2_pick_free(c);
    uint8_t b = tp_u8(&c->t);
    int hs = hg * (1 + (b % 16) % (32 / hg)), vs = vg * (1 + (b / 16) % (16 / vg));
    c->hash = vp_hash_mix(c->hash, b);
    if (slot < 0 || c->nareas >= C2_MAXAREA) return -1;
    int X = c2_new_area(c);
    struct ubuf *u = ubuf_pic_alloc(c->planar_mgr, hs, vs);
    snprintf(what, wn, "h%d=pic_alloc(%d,%d)+fill [area a%d]", slot, hs, vs, X);
    if (!u) { R("  %s -> NULL\n", what); DOMFAIL("C02/domain/pic-alloc", "ubuf_pic_alloc(%d,%d) failed", hs, vs); return -1; }
    struct c2_hnd *h = &c->h[slot];
    c2_planar_init(h, u, X);
    struct pic *p = &pics[slot];
    p->hs = hs; p->vs = vs;
    memset(p->wild, 1, sizeof p->wild);
    for (int pl = 0; pl < F->np && !c->ret; pl++) {
        char w2[160]; snprintf(w2, sizeof w2, "%s: plane_write(h%d,%s,0,0,-1,-1)", what, slot, F->pl[pl].chroma);
        if (!pic_write(c, slot, pl, 0, 0, -1, -1, w2, false) && !c->ret)
            FAIL("C02/write-refused/fresh", "%s: write mapping refused on a freshly allocated picture", w2);
    }
    return slot;
}

static int op_pic_dup(struct c2_ctx *c, bool copy, char *what, size_t wn)
{
    int s = c2_pick_kind(c, C2_PLANAR), slot = c2_pick_free(c);
    if (s < 0 || slot < 0) return -1;
    int X = c->h[s].parea;
    struct ubuf *u;
    if (copy) {
        if (c->nareas >= C2_MAXAREA) return -1;
        X = c2_new_area(c);
        snprintf(what, wn, "h%d=pic_copy(h%d,0,0,-1,-1) [area a%d]", slot, s, X);
        u = ubuf_pic_copy(c->planar_mgr, c->h[s].u, 0, 0, -1, -1);
        CL(CL_COPY);
    } else {
        snprintf(what, wn, "h%d=dup(h%d)", slot, s);
        u = ubuf_dup(c->h[s].u);
    }
    R("  %s -> %s\n", what, u ? "ok" : "NULL");
    if (!u) { DOMFAIL(copy ? "C02/domain/pic-copy" : "C02/domain/dup", "%s fails", what); return -1; }
    c2_planar_init(&c->h[slot], u, X);
    pics[slot] = pics[s];
    return slot;
}

static int op_pic_resize(struct c2_ctx *c, char *what, size_t wn)
{
    int ai = c2_pick_kind(c, C2_PLANAR);
    if (ai < 0) return -1;
    struct c2_hnd *h = &c->h[ai];
    struct pic *p = &pics[ai];
    static const int d5[] = { 0, 1, -1, 2, -2 };
    uint8_t bh = tp_u8(&c->t), bv = tp_u8(&c->t);
    int dl = d5[bh % 5] * hg, dr = d5[(bh / 5) % 5] * hg, dt = d5[bv % 5] * vg, db = d5[(bv / 5) % 5] * vg;
    int nh = p->hs - dl - dr, nv = p->vs - dt - db;
    if (nh < hg || nv < vg || nh > P_MAXH || nv > P_MAXV || dl > p->hs || dt > p->vs) return -1;
    int ah = (dr == 0 && (bh / 25) % 2) ? -1 : nh, av = (db == 0 && (bv / 25) % 2) ? -1 : nv;
    c->hash = vp_hash_mix(c->hash, bh * 256 + bv);
    snprintf(what, wn, "pic_resize(h%d,%d,%d,%d,%d)", ai, dl, dt, ah, av);
    int err = ubuf_pic_resize(h->u, dl, dt, ah, av);
    R("  %s -> %d   [%dx%d -> %dx%d]\n", what, err, p->hs, p->vs, ubase_check(err) ? nh : p->hs, ubase_check(err) ? nv : p->vs);
    if (!ubase_check(err)) { CL(CLP_RESIZE_REFUSED); return ai; }   /* no room (or refused because shared): nothing may have changed */
    if (dl < 0 || dr < 0 || dt < 0 || db < 0) CL(CLP_EXTENDED);
    if (dl > 0 || dr > 0 || dt > 0 || db > 0) CL(CL_CROPPED);
    struct pic *q = &tmp_pic;
    q->hs = nh; q->vs = nv;
    memset(q->wild, 1, sizeof q->wild);
    for (int pl = 0; pl < F->np; pl++) {
        int lines = pl_lines(q, pl), lb = pl_lb(q, pl), olines = pl_lines(p, pl), olb = pl_lb(p, pl);
        int ys = dt / F->pl[pl].vsub, xs = dl / F->macropixel / F->pl[pl].hsub * F->pl[pl].mps;
        for (int y = 0; y < lines; y++)
            for (int x = 0; x < lb; x++) {
                int oy = y + ys, ox = x + xs;
                if (oy >= 0 && oy < olines && ox >= 0 && ox < olb) { q->m[pl][y][x] = p->m[pl][oy][ox]; q->wild[pl][y][x] = p->wild[pl][oy][ox]; }
            }
    }
    *p = *q;
    return ai;
}

static int op_pic_write(struct c2_ctx *c, char *what, size_t wn)
{
    uint8_t strat = tp_u8(&c->t) % 4;
    int ai = -1;
    if (!(strat == 1 && c2_find_planar_target(c, C2_MUST_GRANT, &ai))) ai = c2_pick_kind(c, C2_PLANAR);
    if (ai < 0) return -1;
    struct pic *p = &pics[ai];
    int pl = tp_u8(&c->t) % F->np;
    int phg = F->macropixel * F->pl[pl].hsub, pvg = F->pl[pl].vsub;
    uint8_t b = tp_u8(&c->t);
    int ho = 0, vo = 0, hsz = -1, vsz = -1;
    if (b % 4) {    /* a proper window */
        int nhu = p->hs / phg, nvu = p->vs / pvg;
        uint8_t b2 = tp_u8(&c->t), b3 = tp_u8(&c->t);
        int hu = b2 % nhu, vu = b3 % nvu;
        ho = hu * phg; vo = vu * pvg;
        hsz = (b2 / 64) % 2 ? -1 : phg * (1 + (b2 / 16) % (nhu - hu));
        vsz = (b3 / 64) % 2 ? -1 : pvg * (1 + (b3 / 16) % (nvu - vu));
        if (b % 4 == 3) { if (ho) ho -= p->hs; if (vo) vo -= p->vs; if (ho < 0 || vo < 0) CL(CL_NEGOFF); }
        c->hash = vp_hash_mix(c->hash, b2 * 256 + b3);
    }
    c->hash = vp_hash_mix(c->hash, (pl * 4 + b % 4) * 8 + ai);
    snprintf(what, wn, "plane_write(h%d,%s,%d,%d,%d,%d)", ai, F->pl[pl].chroma, ho, vo, hsz, vsz);
    pic_write(c, ai, pl, ho, vo, hsz, vsz, what, true);
    return ai;
}

static int op_reexport(struct c2_ctx *c, char *what, size_t wn)
{
    int s = c2_pick_kind(c, C2_PLANAR), slot = c2_pick_free(c);
    int pl = tp_u8(&c->t) % F->np;
    c->hash = vp_hash_mix(c->hash, pl);
    if (s < 0 || slot < 0) return -1;
    struct c2_hnd *a = &c->h[s], *h = &c->h[slot];
    struct pic *p = &pics[s];
    snprintf(what, wn, "h%d=block_mem_alloc_from_pic(h%d,%s)", slot, s, F->pl[pl].chroma);
    struct ubuf *u = ubuf_block_mem_alloc_from_pic(c->block_mgr, a->u, F->pl[pl].chroma);
    if (!u) { R("  %s -> NULL\n", what); CL(CL_REEXPORT_FAILED); return -1; }   /* callers fall back to a copy */
    size_t n = 0, stride = 0;
    ubuf_block_size(u, &n);
    ubuf_pic_plane_size(a->u, F->pl[pl].chroma, &stride, NULL, NULL, NULL);
    R("  %s -> ok, %zu octets (stride %zu)\n", what, n, stride);
    if (n > C2_MAXSZ || stride == 0) { ubuf_free(u); return -1; }
    c2_block_init(h, u);
    h->n = n; h->may = ABIT(a->parea); h->head_area = a->parea;
    memset(h->area, a->parea, n);
    int lines = pl_lines(p, pl), lb = pl_lb(p, pl);
    /* the block starts at the first visible pixel of the plane and runs on with the plane's stride
     * (what upipe_convert_to_block's copy fallback produces); octets between lines are margin: unknown */
    for (size_t i = 0; i < n; i++) {
        size_t y = i / stride, x = i % stride;
        if ((int)y < lines && (int)x < lb && !p->wild[pl][y][x]) { h->m[i] = p->m[pl][y][x]; h->wild[i] = 0; }
        else h->wild[i] = 1;
    }
    CL(CL_REEXPORT);
    return slot;
}

/* weights (of 32): pic alloc 1, dup 3, resize 2, plane write 5, re-export 3, pic copy 1, free 2, free_sharers 3;
 * block: alloc 1, dup 1, splice 2, write 2, split 1, append 1, insert 1, delete 1, truncate 1, prepend 1 */
enum { P_ALLOC = 32, P_DUP, P_RESIZE, P_WRITE, P_REEXPORT, P_COPY };
static const uint8_t optab[32] = { P_ALLOC, 9, P_DUP, P_DUP, P_DUP, P_RESIZE, P_RESIZE, P_WRITE, P_WRITE, P_WRITE, P_WRITE, P_WRITE,
    P_REEXPORT, P_REEXPORT, P_REEXPORT, P_COPY, 4, 4, 14, 14, 14, 0, 1, 2, 2, 3, 3, 11, 5, 7, 6, 8 };

static int run(const uint8_t *tp_, size_t len, struct vp_report *rep, unsigned flags)
{
    static struct c2_ctx ctx;
    struct c2_ctx *c = &ctx;
    memset(c, 0, sizeof(*c));
    tp_init(&c->t, tp_, len);
    c->rep = rep; c->render = flags & VP_RENDER; c->flags = flags; c->pat = 2463534242u; c->hash = VP_HASH_INIT;
    c->max_alloc = 64;
    c->planar_check = pic_check;
    int maxops = (flags & VP_THOROUGH) ? MAXOPS_THOROUGH : MAXOPS;

    static const int depths[] = { 0, 1, 4 }, marg[] = { 0, 4, 8 }, vmarg[] = { 0, 2, 4 }, aligns[] = { 0, 16, 64 }, hmoffs[] = { 0, 2, -2 };
    uint8_t cfg = tp_u8(&c->t), mg = tp_u8(&c->t);
    int depth = depths[cfg % 3];
    F = &fmts[(cfg / 3) % 4];
    int align = aligns[(cfg / 12) % 3], hmoff = align ? hmoffs[(cfg / 36) % 3] : 0;
    int hprep = marg[mg % 3], happ = marg[(mg / 3) % 3], vprep = vmarg[(mg / 9) % 3], vapp = vmarg[(mg / 27) % 3];
    hg = F->macropixel; vg = 1;
    for (int pl = 0; pl < F->np; pl++) {
        if (F->macropixel * F->pl[pl].hsub > hg) hg = F->macropixel * F->pl[pl].hsub;
        if (F->pl[pl].vsub > vg) vg = F->pl[pl].vsub;
    }
    if (c2_fix_init(c, depth, 8, 0, 0, 0) != 0) return vp_internal(rep, "fixture init");
    c->planar_mgr = ubuf_pic_mem_mgr_alloc(depth, depth, c->umem, F->macropixel, hprep, happ, vprep, vapp, align, hmoff);
    if (!c->planar_mgr) return vp_internal(rep, "pic manager");
    for (int pl = 0; pl < F->np; pl++)
        if (!ubase_check(ubuf_pic_mem_mgr_add_plane(c->planar_mgr, F->pl[pl].chroma, F->pl[pl].hsub, F->pl[pl].vsub, F->pl[pl].mps)))
            return vp_internal(rep, "add_plane");
    R("C02/cow_pic config: pool_depth=%d format=%s hprepend=%d happend=%d vprepend=%d vappend=%d align=%d align_hmoffset=%d\n",
      depth, F->name, hprep, happ, vprep, vapp, align, hmoff);
    c->faultmode = cfg >= 216;          /* (216..255 alias other configurations) */
    if (c->faultmode) R("  [allocation faults]\n");
    c->hash = vp_hash_mix(c->hash, cfg * 256 + mg);
    if (depth) CL(CL_POOL);
    if (align) CL(CL_ALIGN);

    int nops = 0;
    while (!tp_done(&c->t) && nops < maxops && !c->ret) {
        nops++;
        uint8_t opbyte = tp_u8(&c->t);
        unsigned code = optab[opbyte % 32];
        bool anypic = false, anyblock = false;
        for (int i = 0; i < C2_MAXH; i++) { if (c->h[i].kind == C2_PLANAR) anypic = true; if (c->h[i].kind == C2_BLOCK) anyblock = true; }
        if (c2_nlive(c) == 0) code = P_ALLOC;
        else if (code < 32 && code != 0 && code != 4 && code != 14 && !anyblock) code = anypic ? P_REEXPORT : P_ALLOC;
        else if (code > 32 && !anypic) code = P_ALLOC;
        c->hash = vp_hash_mix(c->hash, code);
        char what[200] = "";
        int hi;
        c2_fault_begin(c, opbyte);
        switch (code) {
        case P_ALLOC: hi = op_pic_alloc(c, what, sizeof what); break;
        case P_DUP: hi = op_pic_dup(c, false, what, sizeof what); break;
        case P_COPY: hi = op_pic_dup(c, true, what, sizeof what); break;
        case P_RESIZE: hi = op_pic_resize(c, what, sizeof what); break;
        case P_WRITE: hi = op_pic_write(c, what, sizeof what); break;
        case P_REEXPORT: hi = op_reexport(c, what, sizeof what); break;
        default: hi = c2_block_op(c, code, what, sizeof what); break;
        }
        hi = c2_fault_end(c, hi);
        if (hi >= 0 && !c->ret) c2_check_all(c, what);
    }
    for (int i = 0; i < C2_MAXH; i++) c2_release(c, i);
    const char *leak = c2_fix_clean(c);
    if (leak && !c->ret) c->ret = vp_fail(rep, "C02/owners/leak", "%s", leak);

    rep->case_hash = c->hash;
    rep->classes = c->cl;
    C2_FAULT_CLASSES(rep, c, 24);
    rep->nontrivial = (c->cl & (1u << CL_REEXPORT)) && (c->cl & ((1u << CL_REFUSED_SHARED) | (1u << CL_PLANAR_REFUSED))) &&
                      (c->cl & (1u << CL_GRANTED_AFTER_FREE));
    return c->ret;
}

#ifndef C02_EXEC_NAME
#define C02_EXEC_NAME "cow_pic"
#endif
const struct vp_executor vp_executor = { "C02", C02_EXEC_NAME, 200, class_names, run, NULL };

/* C07 — lock-free FIFO, LIFO and pool are linearizable under any interleaving.
 *
 * Case = client program (structure kind ufifo/ulifo/upool, capacity 1-3, sequential prefill,
 * 2-3 logical threads x 1-4 operations) + schedule, both decoded from the tape. The threads are
 * coroutines of engine/sched.c running the real inline code of uring.h/ufifo.h/ulifo.h/upool.h; the
 * UPIPE_VERIF hooks yield before every uatomic operation and every plain ring-element access.
 * After the threads have finished a further logical thread drains the structure, refills it with
 * capacity+1 elements and drains it again (sequentially). The whole invocation/response history is
 * checked by engine/lin.c against the bounded FIFO / LIFO / bag specification with the push-failure
 * rule of the property; for the pool the harness also tracks holders.
 *
 * Extra mode:  --extra enum --template NAME|all --bound K [--jobs J] [--max N] --out DIR
 * enumerates every schedule with <= K preemptions of a template program (engine/sched.c vs_enumerate).
 *
 * Built without ASan (san=none): the oracle is semantic, the structures live in static storage and the
 * code under test does not allocate; asserts of uring.h stay enabled.
 */
#undef NDEBUG
#include "vp.h"
#include "tape.h"
#include "vsched.h"
#include "lin.h"

#include "upipe/ubase.h"
#include "upipe/uatomic.h"
#include "upipe/urefcount.h"
#include "upipe/uring.h"
#include "upipe/ufifo.h"
#include "upipe/ulifo.h"
#include "upipe/upool.h"

#include <stdio.h>
#include <stdlib.h>
#include <string.h>

enum { K_FIFO = 0, K_LIFO = 1, K_POOL = 2 };
static const char *const kind_name[] = { "ufifo", "ulifo", "upool" };
enum { OP_PUSH = 0, OP_POP = 1 };     /* pool: free = push, alloc = pop */
#define MAXT 3
#define MAXOPS 4
#define MAXCAP 3
#define NVALS 64
#define STEP_BOUND 4000

enum { CL_SWITCH_IN_OP, CL_OVERLAP, CL_CAS_RETRY, CL_PUSH_FULL, CL_POP_EMPTY, CL_FIFO, CL_LIFO, CL_POOL,
       CL_3THREADS, CL_POL_TAPE, CL_POL_PCT, CL_POL_PREFIX, CL_PREEMPT3, CL_FAIL_INFLIGHT, CL_FIND_RESTART,
       CL_CAP1, CL_PREEMPT_LE2 };
static const char *const class_names[] = {
    "context_switch_inside_operation", "overlapping_operations", "cas_retry", "push_refused_full",
    "pop_returned_nothing", "kind_ufifo", "kind_ulifo", "kind_upool", "three_threads",
    "policy_tape", "policy_pct", "policy_prefix", "preemptions_ge_3", "push_refused_with_operation_in_flight",
    "fifo_pop_restarted_search", "capacity_1", "preemptions_1_or_2", NULL };

struct prog {
    int kind, cap, prefill, nthreads;
    int nops[MAXT];
    uint8_t ops[MAXT][MAXOPS];        /* 1 = push/free, 0 = pop/alloc */
};

struct sched_spec {
    int policy;                       /* enum vs_policy */
    int shift, pct_d;
    struct tape *tape;
    const uint8_t *prefix; size_t prefix_len;
};

struct obj { int id; int holder; bool destroyed; };   /* pool objects; holder -1 = nobody */

static struct {
    struct prog p;
    struct ufifo fifo;
    struct ulifo lifo;
    struct upool pool;
    struct urefcount pool_rc;
    uint8_t extra[uring_sizeof(8)] __attribute__((aligned(16)));
    int vals[NVALS];                  /* pushed elements are &vals[id] */
    struct obj objs[NVALS];
    int nobj;
    int fresh_id[MAXT + 2];           /* per context (thread+1, 0 = sequential): object created by alloc_cb during the current alloc */
    int destroyed_flag[MAXT + 2];     /* free_cb ran during the current free */
    bool in_vacuum;
    int held[MAXT][MAXOPS + 1], nheld[MAXT];
    int alloc_fresh_of_op[VS_MAX_OPS];/* rendering: id of the fresh object an alloc returned */
    /* oracle failures detected inside the threads */
    char fkey[96], fmsg[256];
} cx;

static int ctx_index(void) { return vs_self() + 1; }

static void fail_inside(const char *key, const char *fmt, int a, int b)
{
    if (cx.fkey[0]) return;
    snprintf(cx.fkey, sizeof(cx.fkey), "%s", key);
    snprintf(cx.fmsg, sizeof(cx.fmsg), fmt, a, b);
}

/* ---------------------------------------------------------------- the structure under test */

static void *pool_alloc_cb(struct upool *upool)
{
    (void)upool;
    if (cx.nobj >= NVALS - 1) return NULL;
    struct obj *o = &cx.objs[++cx.nobj];
    o->id = cx.nobj;
    o->holder = -1;
    o->destroyed = false;
    cx.fresh_id[ctx_index()] = o->id;
    return o;
}

static void pool_free_cb(struct upool *upool, void *p)
{
    (void)upool;
    struct obj *o = p;
    int id = (o >= &cx.objs[1] && o <= &cx.objs[NVALS - 1]) ? (int)(o - cx.objs) : -1;
    if (cx.in_vacuum) {
        vs_op_log(OP_POP, 0, 1, id);
        if (id > 0) cx.objs[id].destroyed = true;
        return;
    }
    cx.destroyed_flag[ctx_index()] = 1;
    if (id > 0) {
        if (cx.objs[id].destroyed)
            fail_inside("C07/pool/double-destroy", "object %d released to its allocator twice%.0d", id, 0);
        cx.objs[id].destroyed = true;
    }
}

static void pool_rc_cb(struct urefcount *rc) { (void)rc; }

static void structure_init(void)
{
    const struct prog *p = &cx.p;
    memset(cx.extra, 0, sizeof(cx.extra));
    switch (p->kind) {
    case K_FIFO: ufifo_init(&cx.fifo, p->cap, cx.extra); break;
    case K_LIFO: ulifo_init(&cx.lifo, p->cap, cx.extra); break;
    default:
        urefcount_init(&cx.pool_rc, pool_rc_cb);
        upool_init(&cx.pool, &cx.pool_rc, p->cap, cx.extra, pool_alloc_cb, pool_free_cb);
        break;
    }
}

static int ptr_to_id(void *p)
{
    if (p == NULL) return 0;
    if ((int *)p >= &cx.vals[1] && (int *)p <= &cx.vals[NVALS - 1]) return (int)((int *)p - cx.vals);
    return -1;
}

static void do_push(int v)
{
    vs_op_begin(OP_PUSH, v, 0);
    bool ok = cx.p.kind == K_FIFO ? ufifo_push(&cx.fifo, &cx.vals[v]) : ulifo_push(&cx.lifo, &cx.vals[v]);
    vs_op_end(ok);
}

static int do_pop(void)
{
    vs_op_begin(OP_POP, 0, 0);
    void *p = cx.p.kind == K_FIFO ? ufifo_pop(&cx.fifo, void *) : ulifo_pop(&cx.lifo, void *);
    int id = ptr_to_id(p);
    vs_op_end(id);
    return id;
}

/* pool: returns the object id; logged as pop -> id (recycled) or pop -> nothing (created) */
static int do_alloc(int holder)
{
    int ci = ctx_index();
    cx.fresh_id[ci] = 0;
    int h = vs_op_begin(OP_POP, 0, 0);
    struct obj *o = upool_alloc(&cx.pool, struct obj *);
    int id = (o >= &cx.objs[1] && o <= &cx.objs[NVALS - 1]) ? (int)(o - cx.objs) : -1;
    bool fresh = cx.fresh_id[ci] != 0 && cx.fresh_id[ci] == id;
    vs_op_end(fresh ? 0 : id);
    if (h >= 0) cx.alloc_fresh_of_op[h] = fresh ? id : 0;
    if (id > 0) {
        if (cx.objs[id].destroyed)
            fail_inside("C07/pool/destroyed-object", "alloc returned object %d which had been released to its allocator%.0d", id, 0);
        else if (cx.objs[id].holder != -1)
            fail_inside("C07/pool/two-holders", "alloc handed object %d to a second holder while context %d holds it", id, cx.objs[id].holder);
        cx.objs[id].holder = holder;
    } else
        fail_inside("C07/pool/invented", "alloc returned a pointer that is no pool object%.0d%.0d", 0, 0);
    return id;
}

static void do_free(int id)
{
    int ci = ctx_index();
    cx.destroyed_flag[ci] = 0;
    cx.objs[id].holder = -1;            /* the holder lets go when it invokes free */
    vs_op_begin(OP_PUSH, id, 0);
    upool_free(&cx.pool, &cx.objs[id]);
    vs_op_end(!cx.destroyed_flag[ci]);
}

static void do_vacuum(void)
{
    cx.in_vacuum = true;
    upool_vacuum(&cx.pool);
    cx.in_vacuum = false;
    vs_op_log(OP_POP, 0, 1, 0);         /* the pop that found the pool empty and ended the vacuum */
}

#define VAL_PREFILL(i)   (1 + (i))                  /* 1..3 */
#define VAL_THREAD(t, j) (4 + (t) * MAXOPS + (j))   /* 4..15 */
#define VAL_REFILL(i)    (16 + (i))                 /* 16..19 */

static void worker(void *arg)
{
    int t = (int)(intptr_t)arg;
    const struct prog *p = &cx.p;
    for (int j = 0; j < p->nops[t]; j++) {
        if (p->kind == K_POOL) {
            if (p->ops[t][j] && cx.nheld[t] > 0)
                do_free(cx.held[t][--cx.nheld[t]]);
            else {
                int id = do_alloc(t);
                if (id > 0) cx.held[t][cx.nheld[t]++] = id;
            }
        } else if (p->ops[t][j])
            do_push(VAL_THREAD(t, j));
        else
            do_pop();
        if (cx.fkey[0]) vs_abort();
    }
}

/* sequential epilogue, run as a single logical thread so that the step bound also covers it */
static void epilogue(void *arg)
{
    (void)arg;
    const struct prog *p = &cx.p;
    if (p->kind == K_POOL) {
        for (int t = 0; t < p->nthreads; t++)
            while (cx.nheld[t] > 0)
                do_free(cx.held[t][--cx.nheld[t]]);
        do_vacuum();
        int ids[MAXCAP + 1];
        for (int i = 0; i <= p->cap; i++) ids[i] = do_alloc(MAXT);
        for (int i = 0; i <= p->cap; i++) if (ids[i] > 0) do_free(ids[i]);
        do_vacuum();
    } else {
        for (int i = 0; i < p->cap + 2; i++) if (do_pop() == 0) break;
        for (int i = 0; i <= p->cap; i++) do_push(VAL_REFILL(i));
        for (int i = 0; i < p->cap + 2; i++) if (do_pop() == 0) break;
    }
}

/* ---------------------------------------------------------------- rendering */

static const char *name_addr(const volatile void *a, char *buf, size_t n)
{
    const struct prog *p = &cx.p;
    struct uring *ur = p->kind == K_FIFO ? &cx.fifo.uring : p->kind == K_LIFO ? &cx.lifo.uring : &cx.pool.lifo.uring;
    if (a == (void *)&cx.fifo.fifo_carrier && p->kind == K_FIFO) return "fifo_carrier";
    if (a == (void *)&cx.fifo.lifo_empty && p->kind == K_FIFO) return "lifo_empty";
    if (a == (void *)&cx.lifo.lifo_carrier && p->kind == K_LIFO) return "lifo_carrier";
    if (a == (void *)&cx.lifo.lifo_empty && p->kind == K_LIFO) return "lifo_empty";
    if (a == (void *)&cx.pool.lifo.lifo_carrier && p->kind == K_POOL) return "lifo_carrier";
    if (a == (void *)&cx.pool.lifo.lifo_empty && p->kind == K_POOL) return "lifo_empty";
    if (a == (void *)&cx.pool_rc.refcount) return "pool refcount";
    for (int i = 0; i < ur->length; i++) {
        struct uring_elem *e = &ur->elems[i];
        const char *f = a == (void *)&e->tag ? "tag" : a == (void *)&e->next ? "next" : a == (void *)&e->opaque ? "opaque" : NULL;
        if (f) { snprintf(buf, n, "slot%d.%s", i + 1, f); return buf; }
    }
    return NULL;
}

static void render_op(struct vp_report *rep, int i)
{
    const struct vs_op *o = &vs_hist[i];
    const struct prog *p = &cx.p;
    char who[8];
    if (o->thread == 0xff) snprintf(who, sizeof(who), "seq");
    else if (o->thread >= p->nthreads) snprintf(who, sizeof(who), "post");
    else snprintf(who, sizeof(who), "T%u", o->thread);
    char what[64];
    if (p->kind == K_POOL) {
        if (o->kind == OP_PUSH) snprintf(what, sizeof(what), "free(o%ld) -> %s", (long)o->arg, !o->done ? "?" : o->ret ? "cached" : "destroyed (pool full)");
        else if (o->obj == 1 && o->ret > 0) snprintf(what, sizeof(what), "vacuum: o%ld taken out and destroyed", (long)o->ret);
        else if (o->obj == 1) snprintf(what, sizeof(what), "vacuum: pool empty");
        else if (!o->done) snprintf(what, sizeof(what), "alloc -> ?");
        else if (o->ret > 0) snprintf(what, sizeof(what), "alloc -> o%ld (recycled)", (long)o->ret);
        else if (o->ret == 0 && cx.alloc_fresh_of_op[i]) snprintf(what, sizeof(what), "alloc -> o%d (created, pool empty)", cx.alloc_fresh_of_op[i]);
        else snprintf(what, sizeof(what), "alloc -> foreign pointer");
    } else {
        if (o->kind == OP_PUSH) snprintf(what, sizeof(what), "push(%ld) -> %s", (long)o->arg, !o->done ? "?" : o->ret ? "true" : "false");
        else if (!o->done) snprintf(what, sizeof(what), "pop -> ?");
        else if (o->ret > 0) snprintf(what, sizeof(what), "pop -> %ld", (long)o->ret);
        else if (o->ret == 0) snprintf(what, sizeof(what), "pop -> NULL");
        else snprintf(what, sizeof(what), "pop -> foreign pointer");
    }
    vp_render(rep, "  #%-2d %-4s %-38s steps %u..%u%s\n", i, who, what, o->inv_step, o->res_step,
              o->n_cas > 2 ? "  (CAS retried)" : "");
}

static void render_case(struct vp_report *rep, const struct sched_spec *ss, bool steps)
{
    const struct prog *p = &cx.p;
    vp_render(rep, "C07 %s capacity=%d prefill=%d threads=%d\n", kind_name[p->kind], p->cap, p->prefill, p->nthreads);
    for (int t = 0; t < p->nthreads; t++) {
        vp_render(rep, "  T%d:", t);
        for (int j = 0; j < p->nops[t]; j++) {
            if (p->kind == K_POOL) vp_render(rep, " %s", p->ops[t][j] ? "free|alloc" : "alloc");
            else if (p->ops[t][j]) vp_render(rep, " push(%d)", VAL_THREAD(t, j));
            else vp_render(rep, " pop");
        }
        vp_render(rep, "\n");
    }
    vp_render(rep, "  schedule policy=%s", ss->policy == VS_TAPE ? "tape" : ss->policy == VS_PCT ? "pct" : "prefix");
    if (ss->policy == VS_TAPE) vp_render(rep, "(shift %d)", ss->shift);
    if (ss->policy == VS_PCT) vp_render(rep, "(d=%d)", ss->pct_d);
    vp_render(rep, " steps=%u preemptions=%u:", vs_first_run_steps, vs_stats.preemptions);
    vs_render_schedule(rep, 0, vs_first_run_steps);
    vp_render(rep, "  history (then sequential epilogue: drain, refill capacity+1, drain):\n");
    for (int i = 0; i < vs_nhist; i++) render_op(rep, i);
    if (steps) {
        vp_render(rep, "  shared accesses of the concurrent phase:\n");
        vs_render_steps(rep, 0, vs_first_run_steps > 300 ? 300 : vs_first_run_steps, name_addr);
        if (vs_first_run_steps > 300) vp_render(rep, "    ... (%u more steps)\n", vs_first_run_steps - 300);
    }
}

/* ---------------------------------------------------------------- one case */

static int run_case(const struct prog *prog, const struct sched_spec *ss, struct vp_report *rep, unsigned flags)
{
    memset(&cx, 0, sizeof(cx));
    cx.p = *prog;
    const struct prog *p = &cx.p;
    int ret = 0;

    vs_reset();
    structure_init();
    /* sequential prefill (logged: it is part of the history) */
    if (p->kind == K_POOL) {
        int ids[MAXCAP];
        for (int i = 0; i < p->prefill; i++) ids[i] = do_alloc(MAXT + 1);
        for (int i = 0; i < p->prefill; i++) if (ids[i] > 0) do_free(ids[i]);
    } else
        for (int i = 0; i < p->prefill; i++) do_push(VAL_PREFILL(i));

    for (int t = 0; t < p->nthreads; t++)
        vs_spawn(worker, (void *)(intptr_t)t);
    unsigned nominal = 0;
    for (int t = 0; t < p->nthreads; t++) nominal += 14 * p->nops[t];
    struct vs_config cfg;
    memset(&cfg, 0, sizeof(cfg));
    cfg.policy = ss->policy;
    cfg.tape = ss->tape;
    cfg.tape_shift = ss->shift;
    cfg.pct_d = ss->pct_d;
    cfg.pct_est = nominal;
    cfg.prefix = ss->prefix;
    cfg.prefix_len = ss->prefix_len;
    cfg.step_bound = STEP_BOUND;
    int r1 = vs_run(&cfg);
    int r2 = VS_DONE;
    struct vs_stats st1 = vs_stats;
    if (r1 == VS_DONE) {
        vs_spawn(epilogue, NULL);
        struct vs_config c2;
        memset(&c2, 0, sizeof(c2));
        c2.policy = VS_ENUM;
        c2.step_bound = STEP_BOUND;
        r2 = vs_run(&c2);
    }
    vs_end();

    /* classes, non-triviality, hash */
    uint64_t h = VP_HASH_INIT;
    h = vp_hash_mix(h, (uint64_t)p->kind | (uint64_t)p->cap << 8 | (uint64_t)p->prefill << 16 | (uint64_t)p->nthreads << 24);
    for (int t = 0; t < p->nthreads; t++) {
        h = vp_hash_mix(h, (uint64_t)p->nops[t]);
        for (int j = 0; j < p->nops[t]; j++) h = vp_hash_mix(h, p->ops[t][j]);
    }
    h = vp_hash_bytes(h, vs_tr_thread, vs_first_run_steps);
    rep->case_hash = h;
    bool overlap = false, fail_inflight = false;
    for (int i = 0; i < vs_nhist; i++) {
        const struct vs_op *a = &vs_hist[i];
        if (a->thread >= p->nthreads || !a->done) continue;
        bool ov = false;
        for (int j = 0; j < vs_nhist; j++) {
            const struct vs_op *b = &vs_hist[j];
            if (j == i || b->thread >= p->nthreads || !b->done) continue;
            if (a->inv_seq < b->res_seq && b->inv_seq < a->res_seq) ov = true;
        }
        if (ov) overlap = true;
        if (a->kind == OP_PUSH && !a->ret) { rep->classes |= 1u << CL_PUSH_FULL; if (ov) fail_inflight = true; }
        if (a->kind == OP_POP && a->ret == 0) rep->classes |= 1u << CL_POP_EMPTY;
        if (a->n_cas > 2) rep->classes |= 1u << CL_CAS_RETRY;
        if (p->kind == K_FIFO && a->kind == OP_POP && a->n_load > 2) rep->classes |= 1u << CL_FIND_RESTART;
    }
    if (st1.switch_in_op) rep->classes |= 1u << CL_SWITCH_IN_OP;
    if (overlap) rep->classes |= 1u << CL_OVERLAP;
    if (fail_inflight) rep->classes |= 1u << CL_FAIL_INFLIGHT;
    rep->classes |= 1u << (CL_FIFO + p->kind);
    if (p->nthreads >= 3) rep->classes |= 1u << CL_3THREADS;
    rep->classes |= 1u << (ss->policy == VS_TAPE ? CL_POL_TAPE : ss->policy == VS_PCT ? CL_POL_PCT : CL_POL_PREFIX);
    if (st1.preemptions >= 3) rep->classes |= 1u << CL_PREEMPT3;
    else if (st1.preemptions >= 1) rep->classes |= 1u << CL_PREEMPT_LE2;
    if (p->cap == 1) rep->classes |= 1u << CL_CAP1;
    rep->nontrivial = st1.switch_in_op > 0 && overlap;

    /* oracle */
    struct lin_result lr;
    memset(&lr, 0, sizeof(lr));
    bool lin_failed = false;
    if (cx.fkey[0])
        ret = vp_fail(rep, cx.fkey, "%s", cx.fmsg);
    else if (r1 == VS_INTERNAL || r2 == VS_INTERNAL || vs_errmsg[0])
        ret = vp_internal(rep, "scheduler: %s", vs_errmsg);
    else if (r1 == VS_LIVELOCK || r2 == VS_LIVELOCK) {
        char key[64];
        snprintf(key, sizeof(key), "C07/livelock/%s", kind_name[p->kind]);
        ret = vp_fail(rep, key, "%s did not finish within %d steps (%s phase): an operation never returns",
                      kind_name[p->kind], STEP_BOUND, r1 == VS_LIVELOCK ? "concurrent" : "sequential drain/refill");
    } else if (r1 != VS_DONE || r2 != VS_DONE)
        ret = vp_internal(rep, "unexpected scheduler result %d/%d", r1, r2);
    else {
        struct lin_op lo[LIN_MAX_OPS];
        int n = 0;
        for (int i = 0; i < vs_nhist && ret == 0; i++) {
            const struct vs_op *o = &vs_hist[i];
            if (n >= LIN_MAX_OPS) { ret = vp_internal(rep, "history too long"); break; }
            if (o->kind == OP_POP && o->ret < 0) {
                char key[64];
                snprintf(key, sizeof(key), "C07/invented/%s", kind_name[p->kind]);
                ret = vp_fail(rep, key, "operation #%d returned a pointer that was never stored", i);
                break;
            }
            lo[n].kind = o->kind == OP_PUSH ? LIN_PUSH : LIN_POP;
            lo[n].ok = o->kind == OP_PUSH ? (o->ret != 0) : (o->ret > 0);
            lo[n].val = (uint8_t)(o->kind == OP_PUSH ? o->arg : o->ret > 0 ? o->ret : 0);
            lo[n].inv = o->inv_seq;
            lo[n].res = o->res_seq;
            n++;
        }
        if (ret == 0) {
            int k = lin_check(lo, n, p->kind == K_FIFO ? LIN_FIFO : p->kind == K_LIFO ? LIN_LIFO : LIN_BAG, p->cap, &lr);
            if (k < 0)
                ret = vp_internal(rep, "lin_check rejected the history");
            else if (k == 0) {
                lin_failed = true;
                char key[64], m[512];
                size_t l = 0;
                snprintf(key, sizeof(key), "C07/lin/%s", kind_name[p->kind]);
                l += (size_t)snprintf(m + l, sizeof(m) - l, "history of %d operations on a %s of capacity %d is not linearizable; longest consistent prefix:", n, kind_name[p->kind], p->cap);
                for (int i = 0; i < lr.n_order && l < sizeof(m) - 8; i++) l += (size_t)snprintf(m + l, sizeof(m) - l, " #%d", lr.order[i]);
                l += (size_t)snprintf(m + l, sizeof(m) - l, "; then none of");
                for (int i = 0; i < lr.n_stuck && l < sizeof(m) - 8; i++) l += (size_t)snprintf(m + l, sizeof(m) - l, " #%d", lr.stuck[i]);
                snprintf(m + l, sizeof(m) - l, " can take effect (see the rendering for the operations)");
                ret = vp_fail(rep, key, "%s", m);
            }
        }
    }
    if (flags & VP_RENDER) {
        struct vs_stats keep = vs_stats;
        vs_stats.preemptions = st1.preemptions;
        render_case(rep, ss, ret == 1);
        vs_stats = keep;
        if (lin_failed) vp_render(rep, "  NOT LINEARIZABLE (%u search states)\n", lr.states);
    }
    return ret;
}

/* ---------------------------------------------------------------- tape <-> program */

static void decode_prog(struct tape *t, struct prog *p)
{
    memset(p, 0, sizeof(*p));
    p->kind = tp_u8(t) % 3;
    p->cap = 1 + tp_u8(t) % MAXCAP;
    p->prefill = tp_u8(t) % (p->cap + 1);
    p->nthreads = 2 + tp_u8(t) % 2;
    for (int i = 0; i < p->nthreads; i++) {
        p->nops[i] = 1 + tp_u8(t) % MAXOPS;
        for (int j = 0; j < p->nops[i]; j++) p->ops[i][j] = tp_u8(t) & 1;
    }
}

static size_t encode_prog(const struct prog *p, uint8_t *out)
{
    size_t n = 0;
    out[n++] = (uint8_t)p->kind;
    out[n++] = (uint8_t)(p->cap - 1);
    out[n++] = (uint8_t)p->prefill;
    out[n++] = (uint8_t)(p->nthreads - 2);
    for (int i = 0; i < p->nthreads; i++) {
        out[n++] = (uint8_t)(p->nops[i] - 1);
        for (int j = 0; j < p->nops[i]; j++) out[n++] = p->ops[i][j];
    }
    return n;
}

static void decode_sched(struct tape *t, struct sched_spec *ss)
{
    memset(ss, 0, sizeof(*ss));
    ss->tape = t;
    switch (tp_u8(t) % 6) {
    case 0: ss->policy = VS_TAPE; ss->shift = 0; break;
    case 1: ss->policy = VS_ENUM; break;                       /* prefix read from the tape */
    case 2: ss->policy = VS_PCT; ss->pct_d = tp_u8(t) % 4; break;
    case 3: ss->policy = VS_TAPE; ss->shift = 2; break;
    case 4: ss->policy = VS_TAPE; ss->shift = 4; break;
    default: ss->policy = VS_PCT; ss->pct_d = 1 + tp_u8(t) % 3; break;
    }
}

static int run(const uint8_t *tp_, size_t len, struct vp_report *rep, unsigned flags)
{
    struct tape t;
    tp_init(&t, tp_, len);
    struct prog p;
    struct sched_spec ss;
    decode_prog(&t, &p);
    decode_sched(&t, &ss);
    return run_case(&p, &ss, rep, flags);
}

/* ---------------------------------------------------------------- templates and the enumeration mode */

struct tmpl { const char *name; const char *what; struct prog p; };
#define PUSH 1
#define POP 0
static const struct tmpl templates[] = {
    { "aba-top", "ABA on the LIFO top: T0 pop || T1 pop,pop,push",
      { K_LIFO, 3, 2, 2, { 1, 3 }, { { POP }, { POP, POP, PUSH } } } },
    { "aba-top3", "ABA on the LIFO top with a slot in flight: T0 pop || T1 pop,push || T2 push",
      { K_LIFO, 3, 1, 3, { 1, 2, 1 }, { { POP }, { POP, PUSH }, { PUSH } } } },
    { "aba-free", "ABA on the free-slot stack of a FIFO: T0 push || T1 push,push,pop",
      { K_FIFO, 3, 0, 2, { 1, 3 }, { { PUSH }, { PUSH, PUSH, POP } } } },
    { "aba-free-lifo", "ABA on the free-slot stack of a LIFO with a slot in flight: T0 push || T1 push,pop || T2 pop",
      { K_LIFO, 3, 1, 3, { 1, 2, 1 }, { { PUSH }, { PUSH, POP }, { POP } } } },
    { "head-aba", "head slot recycled as head while a pop holds its stale predecessor: T0 pop || T1 pop,push,pop on a full 2-element FIFO",
      { K_FIFO, 2, 2, 2, { 1, 3 }, { { POP }, { POP, PUSH, POP } } } },
    { "stale-next", "stale next in uring_fifo_find: T0 pop || T1 pop,push,pop on a full 3-element FIFO",
      { K_FIFO, 3, 3, 2, { 1, 3 }, { { POP }, { POP, PUSH, POP } } } },
    { "stale-next2", "stale next in uring_fifo_find: T0 pop || T1 pop,push,push on a 2-element FIFO of capacity 3",
      { K_FIFO, 3, 2, 2, { 1, 3 }, { { POP }, { POP, PUSH, PUSH } } } },
    { "stale-next3", "uring_fifo_find walking while two other threads pop and push: T0 pop || T1 pop,push || T2 pop,push on a full 3-element FIFO",
      { K_FIFO, 3, 3, 3, { 1, 2, 2 }, { { POP }, { POP, PUSH }, { POP, PUSH } } } },
    { "push-push-empty", "two pushes racing on an empty FIFO, then a pop",
      { K_FIFO, 2, 0, 2, { 2, 1 }, { { PUSH, POP }, { PUSH } } } },
    { "pop-push-one", "pop racing push on a one-element FIFO",
      { K_FIFO, 2, 1, 2, { 1, 2 }, { { POP }, { PUSH, POP } } } },
    { "pop-push-one-lifo", "pop racing push on a one-element LIFO",
      { K_LIFO, 2, 1, 2, { 1, 2 }, { { POP }, { PUSH, POP } } } },
    { "slot-exhaust", "slot exhaustion with an operation in flight: full FIFO of capacity 1, T0 pop || T1 push,push",
      { K_FIFO, 1, 1, 2, { 1, 2 }, { { POP }, { PUSH, PUSH } } } },
    { "slot-exhaust3", "slot exhaustion, capacity 2 with one element: T0 push || T1 push || T2 pop",
      { K_FIFO, 2, 1, 3, { 1, 1, 1 }, { { PUSH }, { PUSH }, { POP } } } },
    { "slot-exhaust-lifo", "slot exhaustion with an operation in flight: full LIFO of capacity 1, T0 pop || T1 push,push",
      { K_LIFO, 1, 1, 2, { 1, 2 }, { { POP }, { PUSH, PUSH } } } },
    { "pool-recycle", "pool of depth 1 holding one object: T0 alloc,free || T1 alloc,free",
      { K_POOL, 1, 1, 2, { 2, 2 }, { { POP, PUSH }, { POP, PUSH } } } },
    { "pool-full", "pool of depth 2 holding one object: T0 alloc,free || T1 alloc,free || T2 alloc",
      { K_POOL, 2, 1, 3, { 2, 2, 1 }, { { POP, PUSH }, { POP, PUSH }, { POP } } } },
};
#define NTEMPL (sizeof(templates) / sizeof(templates[0]))

static int enum_case(void *opaque, const uint8_t *prefix, size_t plen, struct vp_report *rep)
{
    const struct tmpl *tm = opaque;
    struct sched_spec ss;
    memset(&ss, 0, sizeof(ss));
    ss.policy = VS_ENUM;
    ss.prefix = prefix;
    ss.prefix_len = plen;
    static const uint8_t none[1] = { 0 };
    if (ss.prefix == NULL || plen == 0) { ss.prefix = none; ss.prefix_len = 0; }
    return run_case(&tm->p, &ss, rep, 0);
}

static void describe_prog(const struct prog *p, char *buf, size_t n)
{
    size_t l = (size_t)snprintf(buf, n, "%s capacity %d prefill %d;", kind_name[p->kind], p->cap, p->prefill);
    for (int t = 0; t < p->nthreads && l < n; t++) {
        l += (size_t)snprintf(buf + l, n - l, " T%d:", t);
        for (int j = 0; j < p->nops[t] && l < n; j++)
            l += (size_t)snprintf(buf + l, n - l, "%s%s", j ? "," : "",
                                  p->kind == K_POOL ? (p->ops[t][j] ? "free" : "alloc") : (p->ops[t][j] ? "push" : "pop"));
    }
}

static void json_str(FILE *f, const char *s)
{
    fputc('"', f);
    for (; *s; s++) {
        unsigned char c = (unsigned char)*s;
        if (c == '"' || c == '\\') { fputc('\\', f); fputc(c, f); }
        else if (c == '\n') fputs("\\n", f);
        else if (c < 0x20 || c >= 0x7f) fprintf(f, "\\u%04x", c);
        else fputc(c, f);
    }
    fputc('"', f);
}

static int extra(int argc, char **argv)
{
    const char *tname = "all", *out = ".";
    int bound = 2, jobs = 0;
    for (int i = 1; i < argc; i++) {
        if (!strcmp(argv[i], "--template") && i + 1 < argc) tname = argv[++i];
        else if (!strcmp(argv[i], "--bound") && i + 1 < argc) bound = atoi(argv[++i]);
        else if (!strcmp(argv[i], "--jobs") && i + 1 < argc) jobs = atoi(argv[++i]);
        else if (!strcmp(argv[i], "--out") && i + 1 < argc) out = argv[++i];
        else if (!strcmp(argv[i], "--seed") && i + 1 < argc) i++;
        else if (!strcmp(argv[i], "enum")) {}
        else if (!strcmp(argv[i], "list")) {
            for (size_t k = 0; k < NTEMPL; k++) printf("%s\t%s\n", templates[k].name, templates[k].what);
            return 0;
        }
    }
    if (jobs <= 0) {
        const char *e = getenv("VERIF_JOBS");
        jobs = e ? atoi(e) : (int)sysconf(_SC_NPROCESSORS_ONLN);
        if (jobs <= 0) jobs = 4;
    }
    static struct vs_enum_result total, r;
    memset(&total, 0, sizeof(total));
    total.complete = 1;
    char space[2048];
    size_t sl = 0;
    int matched = 0;
    char failtape[512] = "";
    for (size_t k = 0; k < NTEMPL; k++) {
        const struct tmpl *tm = &templates[k];
        if (strcmp(tname, "all") && strcmp(tname, tm->name)) continue;
        matched++;
        vs_enumerate(enum_case, (void *)tm, bound, jobs, &r);
        total.evaluations += r.evaluations;
        total.nontrivial += r.nontrivial;
        for (int b = 0; b < 32; b++) total.class_counts[b] += r.class_counts[b];
        if (!r.complete) total.complete = 0;
        char d[256];
        describe_prog(&tm->p, d, sizeof(d));
        if (sl < sizeof(space) - 300)
            sl += (size_t)snprintf(space + sl, sizeof(space) - sl, "%s[%s: %s (%llu schedules)]", sl ? " " : "", tm->name, d,
                                   (unsigned long long)r.evaluations);
        if (r.failed && !total.failed) {
            total.failed = r.failed;
            snprintf(total.key, sizeof(total.key), "%s", r.key);
            snprintf(total.msg, sizeof(total.msg), "%s", r.msg);
            /* the failing schedule as a replayable tape: program, policy 1 (prefix), thread+1 per step */
            uint8_t tape[64 + VS_MAX_STEPS];
            size_t n = encode_prog(&tm->p, tape);
            tape[n++] = 1;
            memcpy(tape + n, r.fail_prefix, r.fail_len);
            n += r.fail_len;
            while (n > 0 && tape[n - 1] == 0) n--;
            snprintf(failtape, sizeof(failtape), "%s/enum-%s-K%d.tape", out, tm->name, bound);
            FILE *f = fopen(failtape, "wb");
            if (f) { fwrite(tape, 1, n, f); fclose(f); }
            break;
        }
    }
    if (!matched) { fprintf(stderr, "unknown template %s\n", tname); return 2; }
    FILE *o = stdout;
    fprintf(o, "{\"evaluations\": %llu, \"distinct_nontrivial\": %llu, \"exhaustive\": %s, \"bound\": %d, \"space\": ",
            (unsigned long long)total.evaluations, (unsigned long long)total.nontrivial,
            total.complete && !total.failed ? "true" : "false", bound);
    char sp[2400];
    snprintf(sp, sizeof(sp), "C07 all schedules with <= %d preemptions (scheduling points: every uatomic operation and every plain ring-element access; sequentially consistent) of %s", bound, space);
    json_str(o, sp);
    fprintf(o, ", \"class_counts\": {");
    int first = 1;
    for (int b = 0; class_names[b]; b++) {
        fprintf(o, "%s\"%s\": %llu", first ? "" : ", ", class_names[b], (unsigned long long)total.class_counts[b]);
        first = 0;
    }
    fprintf(o, "}");
    if (total.failed) {
        fprintf(o, ", \"failure\": {\"tape\": ");
        json_str(o, failtape);
        fprintf(o, ", \"key\": ");
        json_str(o, total.failed == 2 ? "INTERNAL" : total.key);
        fprintf(o, ", \"msg\": ");
        json_str(o, total.msg);
        fprintf(o, "}");
    }
    fprintf(o, "}\n");
    fflush(o);
    return total.failed == 2 ? 2 : total.failed ? 1 : 0;
}

const struct vp_executor vp_executor = { "C07", "lin", 224, class_names, run, extra };

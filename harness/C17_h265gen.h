/* C17 reference H.265 stream generator: VPS / SPS / PPS / AUD / SEI / slice segments
 * (ITU-T H.265 7.3.1.2, 7.3.2.1-7.3.2.3, 7.3.2.5, 7.3.3, 7.3.6.1, 7.3.7), written bit by bit
 * with the harness' own writer, and the access unit boundaries of 7.4.2.4.4 computed from
 * the generated syntax elements. The slice segment payload after slice_type (and
 * pic_output_flag / colour_plane_id) is opaque filler. */
#ifndef C17_H265GEN_H_
#define C17_H265GEN_H_

#include "C17_enc.h"
#include "C17_h264gen.h"    /* g_rnd, sc_pick, tz_pick */
#include "tape.h"

/* set for the streams that will be mutated (kind 5): the SPS writer then also produces out-of-range counts */
static bool g265_bad_counts;
struct sps265 { bool valid; int nal; int vps_id; bool sep_plane; int addr_bits;
    /* VUI (E.2.1) as far as it changes the syntax of the picture timing SEI message */
    bool vui, frame_field, hrd, sub_pic; int crd_len, dod_len, du_len; };
struct pps265 { bool valid; int nal; int sps_id; bool dep_slices, out_flag; int extra_bits; };
struct g265 {
    bool vps_valid[16]; int vps_nal[16]; int vps_subl[16];
    struct sps265 sps[16];
    struct pps265 pps[64];
    uint32_t rnd;
    int nsps;
    uint8_t ptl[16][12];        /* general profile, tier and level octets of each VPS (repeated by the SPS) */
};

static void g265_hdr(uint8_t hdr[2], int type) { hdr[0] = type << 1; hdr[1] = 1; }

static void g265_ptl(struct rb *w, int max_subl_1, uint8_t a, uint8_t b)
{
    static const int levels[] = { 93, 30, 60, 63, 90, 120, 123, 150, 153, 156, 180, 183, 186, 93, 120, 150 };
    rb_u(w, 2, 0);                          /* general_profile_space */
    rb_u(w, 1, (a >> 1) & 1);               /* general_tier_flag */
    rb_u(w, 5, 1 + (a >> 2) % 2);           /* general_profile_idc: Main / Main 10 */
    rb_u(w, 16, 0x6000); rb_u(w, 16, 0);    /* general_profile_compatibility_flag[1], [2] */
    rb_u(w, 1, 1);                          /* general_progressive_source_flag */
    rb_u(w, 1, (a & 0x80) != 0);            /* general_interlaced_source_flag */
    rb_u(w, 1, 0);                          /* general_non_packed_constraint_flag */
    rb_u(w, 1, 1);                          /* general_frame_only_constraint_flag */
    rb_u(w, 16, 0); rb_u(w, 16, 0); rb_u(w, 11, 0);    /* general_reserved_zero_43bits */
    rb_u(w, 1, 0);                          /* general_inbld_flag / reserved */
    rb_u(w, 8, levels[b % 16]);             /* general_level_idc */
    bool sl_prof[8] = { false }, sl_lev[8] = { false };
    for (int i = 0; i < max_subl_1; i++) {
        sl_prof[i] = (b >> (4 + i)) & 1; sl_lev[i] = (b >> (5 + i)) & 1;
        rb_u(w, 1, sl_prof[i]); rb_u(w, 1, sl_lev[i]);
    }
    if (max_subl_1) for (int i = max_subl_1; i < 8; i++) rb_u(w, 2, 0);
    for (int i = 0; i < max_subl_1; i++) {
        if (sl_prof[i]) {
            rb_u(w, 8, 1); rb_u(w, 16, 0x6000); rb_u(w, 16, 0);
            rb_u(w, 4, 0x9); rb_u(w, 16, 0); rb_u(w, 16, 0); rb_u(w, 12, 0);
        }
        if (sl_lev[i]) rb_u(w, 8, 90);
    }
}

/* 7.3.4 scaling_list_data() */
static void g265_scaling_list_data(struct rb *w, uint32_t *xs)
{
    uint32_t dense = ext_rnd(xs) & 3;       /* how many of the 20 lists are coded coefficient by coefficient */
    for (int size_id = 0; size_id < 4; size_id++)
        for (int matrix_id = 0; matrix_id < 6; matrix_id += size_id == 3 ? 3 : 1) {
            uint32_t r = ext_rnd(xs);
            bool pred_mode = dense == 3 ? (r & 3) != 0 : dense == 0 ? (r & 15) == 0 : (r & 3) == 0;
            rb_u(w, 1, pred_mode);          /* scaling_list_pred_mode_flag */
            if (!pred_mode) {
                int maxd = size_id == 3 ? matrix_id / 3 : matrix_id;
                rb_ue(w, (r >> 2) % (maxd + 1));    /* scaling_list_pred_matrix_id_delta */
            } else {
                int coef_num = 1 << (4 + (size_id << 1)); if (coef_num > 64) coef_num = 64;
                int next = 8;
                if (size_id > 1) { int dc = (int)((r >> 4) % 255) - 7; rb_se(w, dc); next = dc + 8; }   /* scaling_list_dc_coef_minus8 */
                bool wide = (r & 0x3000) == 0;
                for (int i = 0; i < coef_num; i++) {
                    uint32_t q = ext_rnd(xs);
                    int delta = wide ? (int)(q % 256) - 128 : (int)(q % 9) - 4;
                    if ((next + delta + 256) % 256 == 0) delta++;   /* ScalingFactor shall be greater than 0 */
                    if (delta > 127) delta = -128 + 1;
                    rb_se(w, delta);        /* scaling_list_delta_coef */
                    next = (next + delta + 256) % 256;
                }
            }
        }
}

/* E.2.3 sub_layer_hrd_parameters() */
static void g265_sub_layer_hrd(struct rb *w, uint32_t *xs, int cpb_cnt, bool sub_pic)
{
    for (int i = 0; i < cpb_cnt; i++) {
        uint32_t q = ext_rnd(xs);
        rb_ue(w, (q & 31) == 31 ? 0xfffffffeu : q % 200000);        /* bit_rate_value_minus1 */
        rb_ue(w, (q & 0x3e0) == 0x3e0 ? 0xfffffffeu : (q >> 3) % 50000);    /* cpb_size_value_minus1 */
        if (sub_pic) { rb_ue(w, (q >> 5) % 3000); rb_ue(w, (q >> 7) % 90000); }
        rb_u(w, 1, (q >> 12) & 1);          /* cbr_flag */
    }
}

/* E.2.2 hrd_parameters(1, maxNumSubLayersMinus1) */
static void g265_hrd(struct rb *w, uint32_t *xs, struct sps265 *s, int subl)
{
    uint32_t r = ext_rnd(xs);
    bool nal = (r & 3) != 0, vcl = (r & 12) == 12 || (r & 3) == 0 && (r & 4);
    s->sub_pic = false;
    rb_u(w, 1, nal); rb_u(w, 1, vcl);
    if (nal || vcl) {
        s->sub_pic = (r & 0x30) == 0x30;
        rb_u(w, 1, s->sub_pic);             /* sub_pic_hrd_params_present_flag */
        s->du_len = 1 + (r >> 20) % 32;
        if (s->sub_pic) { rb_u(w, 8, (r >> 6) & 0xff); rb_u(w, 5, (r >> 14) % 32); rb_u(w, 1, 0); rb_u(w, 5, s->du_len - 1); }
        rb_u(w, 4, (r >> 6) & 15); rb_u(w, 4, (r >> 10) & 15);  /* bit_rate_scale, cpb_size_scale */
        if (s->sub_pic) rb_u(w, 4, (r >> 14) & 15);             /* cpb_size_du_scale */
        s->crd_len = 1 + (r >> 15) % 32; s->dod_len = 1 + (r >> 9) % 32;
        rb_u(w, 5, (r >> 3) % 32);          /* initial_cpb_removal_delay_length_minus1 */
        rb_u(w, 5, s->crd_len - 1);         /* au_cpb_removal_delay_length_minus1 */
        rb_u(w, 5, s->dod_len - 1);         /* dpb_output_delay_length_minus1 */
        s->hrd = true;
    }
    for (int i = 0; i <= subl; i++) {
        uint32_t q = ext_rnd(xs);
        bool fixed_general = q & 1, fixed_cvs = fixed_general || (q & 2), low_delay = false;
        int cpb_cnt = 1;
        rb_u(w, 1, fixed_general);
        if (!fixed_general) rb_u(w, 1, fixed_cvs);
        if (fixed_cvs) rb_ue(w, (q >> 2) % 2048);   /* elemental_duration_in_tc_minus1 */
        else { low_delay = (q >> 2) & 1; rb_u(w, 1, low_delay); }
        if (!low_delay) { cpb_cnt = (q & 0xf00) == 0xf00 ? 32 : 1 + (q >> 4) % 4; rb_ue(w, cpb_cnt - 1); }
        if (nal) g265_sub_layer_hrd(w, xs, cpb_cnt, s->sub_pic);
        if (vcl) g265_sub_layer_hrd(w, xs, cpb_cnt, s->sub_pic);
    }
}

/* E.2.1 vui_parameters() */
static void g265_vui(struct es *e, struct rb *w, uint32_t *xs, struct sps265 *s, int subl)
{
    uint32_t r = ext_rnd(xs);
    bool ar = r & 1, overscan = r & 2, signal = r & 4, colour = r & 8, chroma_loc = r & 16, ddw = (r & 0x60) == 0x60;
    bool timing = (r & 0x180) != 0, hrd = timing && (r & 0x600) != 0, restr = r & 0x1000;
    rb_u(w, 1, ar);
    if (ar) {
        uint32_t q = ext_rnd(xs);
        int idc = (q & 3) == 0 ? 255 : (q & 3) == 1 ? 17 + (q >> 2) % 200 : 1 + (q >> 2) % 16;
        rb_u(w, 8, idc);
        if (idc == 255) { rb_u(w, 16, 1 + (q >> 8) % 4000); rb_u(w, 16, (q >> 4) % 3000); }
    }
    rb_u(w, 1, overscan);
    if (overscan) rb_u(w, 1, (r >> 13) & 1);
    rb_u(w, 1, signal);
    if (signal) {
        rb_u(w, 3, (r >> 14) % 6); rb_u(w, 1, (r >> 17) & 1); rb_u(w, 1, colour);
        if (colour) { uint32_t q = ext_rnd(xs); rb_u(w, 8, 1 + q % 12); rb_u(w, 8, 1 + (q >> 4) % 18); rb_u(w, 8, (q >> 9) % 15); }
    }
    rb_u(w, 1, chroma_loc);
    if (chroma_loc) { rb_ue(w, (r >> 18) % 6); rb_ue(w, (r >> 21) % 6); }
    rb_u(w, 1, 0);                          /* neutral_chroma_indication_flag */
    bool field_seq = (r & 0x6000) == 0x6000;
    s->frame_field = field_seq || (r & 0x800);
    rb_u(w, 1, field_seq);                  /* field_seq_flag */
    rb_u(w, 1, s->frame_field);             /* frame_field_info_present_flag */
    rb_u(w, 1, ddw);                        /* default_display_window_flag */
    if (ddw) { rb_ue(w, 0); rb_ue(w, (r >> 3) % 5); rb_ue(w, 1); rb_ue(w, (r >> 7) % 5); }
    rb_u(w, 1, timing);                     /* vui_timing_info_present_flag */
    if (timing) {
        uint32_t q = ext_rnd(xs);
        static const uint32_t ticks[] = { 1, 1001, 1000, 3600, 0x01000001u, 90000, 2, 125 };
        static const uint32_t scales[] = { 50, 60000, 48000, 90000, 0xfffffffeu, 27000000, 25, 30000 };
        rb_u(w, 32, ticks[q % 8]); rb_u(w, 32, scales[(q >> 3) % 8]);
        bool poc_prop = (q >> 6) & 1;
        rb_u(w, 1, poc_prop);               /* vui_poc_proportional_to_timing_flag */
        if (poc_prop) rb_ue(w, (q >> 7) % 4);
        rb_u(w, 1, hrd);                    /* vui_hrd_parameters_present_flag */
        if (hrd) { g265_hrd(w, xs, s, subl); e->has_hrd = true; }
        e->has_timing = true;
    }
    rb_u(w, 1, restr);                      /* bitstream_restriction_flag */
    if (restr) {
        uint32_t q = ext_rnd(xs);
        rb_u(w, 1, q & 1); rb_u(w, 1, 1); rb_u(w, 1, (q >> 1) & 1);
        rb_ue(w, (q >> 2) % 4096); rb_ue(w, (q >> 5) % 17); rb_ue(w, (q >> 9) % 17); rb_ue(w, (q >> 13) % 16); rb_ue(w, (q >> 17) % 16);
    }
    e->has_vui = true;
}

static void g265_vps(struct es *e, struct g265 *g, struct tape *t, int id)
{
    uint8_t a = tp_u8(t), b = tp_u8(t);
    int subl = a % 8 == 7 ? 2 : a % 8 == 6 ? 1 : 0;
    g->vps_subl[id] = subl;
    struct rb w; rb_init(&w);
    rb_u(&w, 4, id);
    rb_u(&w, 1, 1); rb_u(&w, 1, 1);         /* vps_base_layer_internal_flag, _available_flag */
    rb_u(&w, 6, 0);                         /* vps_max_layers_minus1 */
    rb_u(&w, 3, subl);
    rb_u(&w, 1, 1);                         /* vps_temporal_id_nesting_flag */
    rb_u(&w, 16, 0xffff);
    { size_t at = w.bits / 8; g265_ptl(&w, subl, a, b); memcpy(g->ptl[id], w.b + at, 12); }
    rb_u(&w, 1, 0);                         /* vps_sub_layer_ordering_info_present_flag */
    rb_ue(&w, 4); rb_ue(&w, 2); rb_ue(&w, 0);
    rb_u(&w, 6, 0);                         /* vps_max_layer_id */
    rb_ue(&w, 0);                           /* vps_num_layer_sets_minus1 */
    rb_u(&w, 1, 0);                         /* vps_timing_info_present_flag */
    rb_u(&w, 1, 0);                         /* vps_extension_flag */
    rb_trailing(&w);
    uint8_t hdr[2], x = tp_u8(t); g265_hdr(hdr, 32);
    struct nalrec *r = es_nal(e, 32, sc_pick(x, true), hdr, 2, &w, tz_pick(x));
    if (!r) return;
    r->id = id; r->subl = subl;
    g->vps_valid[id] = true; g->vps_nal[id] = e->nnal - 1;
    /* remember the PTL choices so that the SPS repeats them */
    r->ref_id = a | (b << 8);
}

static void g265_sps(struct es *e, struct g265 *g, struct tape *t, int id, int vps_id)
{
    struct sps265 *s = &g->sps[id];
    uint8_t a = tp_u8(t), b = tp_u8(t), c = tp_u8(t);
    int subl = g->vps_subl[vps_id];
    int ptl = e->nal[g->vps_nal[vps_id]].ref_id;
    s->vui = s->frame_field = s->hrd = s->sub_pic = false;
    uint32_t xs = ext_seed(g->nsps++);
    uint32_t xo = xs ? ext_rnd(&xs) : 0;    /* bit 0: scaling_list_data, bits 1-2: VUI */
    struct rb w; rb_init(&w);
    rb_u(&w, 4, vps_id);
    rb_u(&w, 3, subl);
    rb_u(&w, 1, 1);                         /* sps_temporal_id_nesting_flag */
    g265_ptl(&w, subl, ptl & 0xff, ptl >> 8);
    rb_ue(&w, id);
    int chroma = a % 8 == 7 ? 3 : a % 8 == 6 ? 2 : a % 8 == 5 ? 0 : 1;
    rb_ue(&w, chroma);
    s->sep_plane = chroma == 3 && (a & 8);
    if (chroma == 3) rb_u(&w, 1, s->sep_plane);
    int width = 64 + 16 * (b % 100), height = 64 + 16 * (c % 60);
    rb_ue(&w, width); rb_ue(&w, height);
    bool conf = (a & 0x10) != 0;
    rb_u(&w, 1, conf);
    if (conf) { rb_ue(&w, 0); rb_ue(&w, 1); rb_ue(&w, 0); rb_ue(&w, 2); }
    rb_ue(&w, (a & 0x20) ? 2 : 0);          /* bit_depth_luma_minus8 */
    rb_ue(&w, (a & 0x20) ? 2 : 0);          /* bit_depth_chroma_minus8 */
    int log2_poc = 4 + b % 13;
    rb_ue(&w, log2_poc - 4);
    bool slo = (a & 0x40) != 0;
    rb_u(&w, 1, slo);                       /* sps_sub_layer_ordering_info_present_flag */
    for (int i = slo ? 0 : subl; i <= subl; i++) { rb_ue(&w, 4); rb_ue(&w, 2); rb_ue(&w, 0); }
    int ctb_diff = 1 + c % 3;
    rb_ue(&w, 0);                           /* log2_min_luma_coding_block_size_minus3 */
    rb_ue(&w, ctb_diff);                    /* log2_diff_max_min_luma_coding_block_size */
    rb_ue(&w, 0); rb_ue(&w, 2 + ctb_diff > 3 ? 3 : 2);  /* transform block sizes */
    rb_ue(&w, 1); rb_ue(&w, 1);             /* max_transform_hierarchy_depth_inter / intra */
    bool scl = (c & 0x40) != 0 || (xo & 1);
    rb_u(&w, 1, scl);                       /* scaling_list_enabled_flag */
    if (scl) rb_u(&w, 1, xo & 1);           /* sps_scaling_list_data_present_flag */
    if (xo & 1) { g265_scaling_list_data(&w, &xs); e->has_scaling = true; }
    rb_u(&w, 1, 1); rb_u(&w, 1, 1);         /* amp_enabled_flag, sample_adaptive_offset_enabled_flag */
    bool pcm = (c & 0x80) != 0;
    rb_u(&w, 1, pcm);
    if (pcm) { rb_u(&w, 4, 7); rb_u(&w, 4, 7); rb_ue(&w, 0); rb_ue(&w, 1); rb_u(&w, 1, 0); }
    int nrps = (a >> 6) % 3 == 0 ? 0 : 1 + (b >> 7) + ((a & 0x80) ? 1 : 0);
    rb_ue(&w, nrps);                        /* num_short_term_ref_pic_sets */
    for (int i = 0; i < nrps; i++) {
        bool inter = i > 0 && (i & 1);
        if (i > 0) rb_u(&w, 1, inter);      /* inter_ref_pic_set_prediction_flag */
        if (inter) {
            /* predicted from set i-1 = { -1 [, +1] }: delta_rps -1, keep everything */
            rb_u(&w, 1, 1);                 /* delta_rps_sign */
            rb_ue(&w, 0);                   /* abs_delta_rps_minus1 */
            int ndelta = i == 1 ? 1 : 2;    /* NumDeltaPocs of the reference set (set 0: 1, set 2: 2) */
            for (int j = 0; j <= ndelta; j++) rb_u(&w, 1, 1);   /* used_by_curr_pic_flag */
        } else if (g265_bad_counts) {
            /* streams that are going to be mutated anyway (nothing is expected of them but clean handling): counts that are
             * each within sps_max_dec_pic_buffering_minus1 (4) but whose sum may not be, with as many entries as announced */
            int nneg = 1 + (a >> 3) % 4, npos = (c >> 2) % 5;
            rb_ue(&w, nneg); rb_ue(&w, npos);
            for (int j = 0; j < nneg + npos; j++) { rb_ue(&w, j & 1); rb_u(&w, 1, 1); }
        } else {
            rb_ue(&w, 1);                   /* num_negative_pics */
            rb_ue(&w, i ? 1 : 0);           /* num_positive_pics */
            rb_ue(&w, 0); rb_u(&w, 1, 1);   /* delta_poc_s0_minus1, used_by_curr_pic_s0_flag */
            if (i) { rb_ue(&w, 0); rb_u(&w, 1, 1); }
        }
    }
    bool lt = (b & 0x40) != 0;
    rb_u(&w, 1, lt);                        /* long_term_ref_pics_present_flag */
    if (lt) { rb_ue(&w, 1); rb_u(&w, log2_poc, 3); rb_u(&w, 1, 1); }
    rb_u(&w, 1, 1); rb_u(&w, 1, 0);         /* sps_temporal_mvp_enabled_flag, strong_intra_smoothing_enabled_flag */
    s->vui = (xo & 6) != 0;
    rb_u(&w, 1, s->vui);                    /* vui_parameters_present_flag */
    if (s->vui) g265_vui(e, &w, &xs, s, subl);
    rb_u(&w, 1, 0);                         /* sps_extension_present_flag */
    rb_trailing(&w);
    uint8_t hdr[2], x = tp_u8(t); g265_hdr(hdr, 33);
    struct nalrec *r = es_nal(e, 33, sc_pick(x, true), hdr, 2, &w, tz_pick(x));
    if (!r) return;
    r->id = id; r->ref_id = vps_id; r->chroma = chroma; r->depth = (a & 0x20) ? 2 : 0; r->subl = subl;
    int ctb = 8 << ctb_diff;
    int nctb = ((width + ctb - 1) / ctb) * ((height + ctb - 1) / ctb);
    s->addr_bits = 0; while ((1 << s->addr_bits) < nctb) s->addr_bits++;
    s->vps_id = vps_id;
    s->valid = true; s->nal = e->nnal - 1;
}

static void g265_pps(struct es *e, struct g265 *g, struct tape *t, int id, int sps_id)
{
    struct pps265 *p = &g->pps[id];
    uint8_t a = tp_u8(t);
    p->sps_id = sps_id;
    p->dep_slices = a & 1; p->out_flag = (a >> 1) & 1; p->extra_bits = (a >> 2) % 4 == 3 ? 2 : (a >> 2) % 4 == 2 ? 1 : 0;
    struct rb w; rb_init(&w);
    rb_ue(&w, id); rb_ue(&w, sps_id);
    rb_u(&w, 1, p->dep_slices); rb_u(&w, 1, p->out_flag); rb_u(&w, 3, p->extra_bits);
    rb_u(&w, 1, 0); rb_u(&w, 1, 1);         /* sign_data_hiding_enabled_flag, cabac_init_present_flag */
    rb_ue(&w, 0); rb_ue(&w, 0);
    rb_se(&w, (int)(a >> 4) - 8);           /* init_qp_minus26 */
    rb_u(&w, 1, 0); rb_u(&w, 1, 0);         /* constrained_intra_pred_flag, transform_skip_enabled_flag */
    rb_u(&w, 1, 1); rb_ue(&w, 0);           /* cu_qp_delta_enabled_flag, diff_cu_qp_delta_depth */
    rb_se(&w, 0); rb_se(&w, 0);
    rb_u(&w, 1, 0); rb_u(&w, 1, 0); rb_u(&w, 1, 0); rb_u(&w, 1, 0);
    rb_u(&w, 1, 0); rb_u(&w, 1, 0);         /* tiles_enabled_flag, entropy_coding_sync_enabled_flag */
    rb_u(&w, 1, 1);                         /* pps_loop_filter_across_slices_enabled_flag */
    rb_u(&w, 1, 0);                         /* deblocking_filter_control_present_flag */
    rb_u(&w, 1, 0); rb_u(&w, 1, 0);         /* pps_scaling_list_data_present_flag, lists_modification_present_flag */
    rb_ue(&w, 0);                           /* log2_parallel_merge_level_minus2 */
    rb_u(&w, 1, 0); rb_u(&w, 1, 0);         /* slice_segment_header_extension_present_flag, pps_extension_present_flag */
    rb_trailing(&w);
    uint8_t hdr[2], x = tp_u8(t); g265_hdr(hdr, 34);
    struct nalrec *r = es_nal(e, 34, sc_pick(x, true), hdr, 2, &w, tz_pick(x));
    if (!r) return;
    r->id = id; r->ref_id = sps_id;
    p->valid = true; p->nal = e->nnal - 1;
}

static void g265_slice(struct es *e, struct g265 *g, struct tape *t, int type, int pps_id, bool first, int addr, int slice_type)
{
    const struct pps265 *p = &g->pps[pps_id];
    const struct sps265 *s = &g->sps[p->sps_id];
    uint8_t x = tp_u8(t);
    struct rb w; rb_init(&w);
    rb_u(&w, 1, first);
    if (type >= 16 && type <= 23) rb_u(&w, 1, x & 1);      /* no_output_of_prior_pics_flag */
    rb_ue(&w, pps_id);
    bool dependent = false;
    if (!first) {
        if (p->dep_slices) { dependent = (x & 2) != 0; rb_u(&w, 1, dependent); }
        rb_u(&w, s->addr_bits, addr & ((1 << s->addr_bits) - 1));
    }
    if (!dependent) {
        rb_u(&w, p->extra_bits, x >> 2);    /* slice_reserved_flag[] */
        rb_ue(&w, slice_type);
        if (p->out_flag) rb_u(&w, 1, 1);
        if (s->sep_plane) rb_u(&w, 2, addr % 3);
    }
    int fill = (x & 0xc0) == 0xc0 ? 150 + (x & 0x3f) * 4 : (x & 0x3f);
    for (int i = 0; i < fill; i++) {
        uint32_t r = g_rnd(&g->rnd);
        rb_u(&w, 8, (r & 0x300) ? (r & 0xff) : (r & 1));
    }
    rb_trailing(&w);
    uint8_t hdr[2], y = tp_u8(t); g265_hdr(hdr, type);
    struct nalrec *r = es_nal(e, type, sc_pick(y, false), hdr, 2, &w, tz_pick(y));
    if (!r) return;
    r->vcl = true;
    r->pic.first_slice = first; r->pic.pps_id = pps_id; r->pic.slice_type = slice_type;
}

static void g265_simple(struct es *e, struct tape *t, int type, const struct rb *w, bool first)
{
    uint8_t hdr[2], x = tp_u8(t); g265_hdr(hdr, type);
    es_nal(e, type, sc_pick(x, first), hdr, 2, w, tz_pick(x));
}

/* 7.4.2.4.4 over the NAL table */
static void h265_access_units(struct es *e)
{
    e->nau = 0;
    bool seen_vcl = false;
    for (int k = 0; k < e->nnal; k++) {
        struct nalrec *r = &e->nal[k];
        bool starts = k == 0;
        if (r->vcl) {
            if (seen_vcl && r->pic.first_slice) starts = true;
        } else if (r->type == 35 || r->type == 32 || r->type == 33 || r->type == 34 || r->type == 39 ||
                   (r->type >= 41 && r->type <= 44) || (r->type >= 48 && r->type <= 55)) {
            if (seen_vcl) starts = true;
        }
        if (starts) {
            if (e->nau >= ES_MAXAU) { e->overflow = true; return; }
            struct aurec *au = &e->au[e->nau++];
            memset(au, 0, sizeof(*au));
            au->nal0 = k; au->start = r->start;
            seen_vcl = false;
        }
        struct aurec *au = &e->au[e->nau - 1];
        au->nal1 = k + 1; au->end = r->end;
        if (r->vcl) {
            seen_vcl = true;
            if (!au->has_vcl) au->key = r->pic.slice_type == 2;     /* slice_type of the first slice segment */
            au->has_vcl = true;
        }
        if (r->type == 35) au->has_aud = true;
        if (r->type == 32) au->has_ps = true;
    }
}

static void g265_stream(struct es *e, struct tape *t)
{
    static struct g265 g;
    memset(&g, 0, sizeof(g));
    g.rnd = 4321 + tp_u8(t) * 131;
    uint8_t lead = tp_u8(t);
    if ((lead & 0xf) == 0xf) for (int i = 0; i < 1 + (lead >> 4) % 3; i++) e->b[e->len++] = 0;
    int nau = 1 + tp_u8(t) % 6;
    static const int vps_ids[] = { 0, 15, 3, 1 };
    static const int sps_ids[] = { 0, 15, 1, 7 };
    static const int pps_ids[] = { 0, 63, 1, 33 };
    int cur_vps = 0, cur_sps = 0, cur_pps = 0;
    bool force_irap = false;
    for (int a = 0; a < nau && !e->overflow; a++) {
        uint8_t fl = tp_u8(t), psel = tp_u8(t);
        bool changed = false;
        if (fl & 1) {
            struct rb w; rb_init(&w);
            rb_u(&w, 3, psel % 3); rb_trailing(&w);
            g265_simple(e, t, 35, &w, true);
        }
        if (a == 0 || (fl & 6) == 6) {
            uint8_t ids = tp_u8(t);
            int vid = a == 0 ? vps_ids[ids % 4] : ((ids & 0x40) ? vps_ids[ids % 4] : cur_vps);
            int sid = a == 0 ? sps_ids[ids / 4 % 4] : ((ids & 0x10) ? sps_ids[ids / 4 % 4] : cur_sps);
            int pid = a == 0 ? pps_ids[ids / 16 % 4] : ((ids & 0x20) ? pps_ids[ids / 16 % 4] : cur_pps);
            g265_vps(e, &g, t, vid);
            g265_sps(e, &g, t, sid, vid);
            g265_pps(e, &g, t, pid, sid);
            if ((ids & 0x80) && pps_ids[(ids / 16 + 1) % 4] != pid) g265_pps(e, &g, t, pps_ids[(ids / 16 + 1) % 4], sid);
            cur_vps = vid; cur_sps = sid; cur_pps = pid;
            changed = true;
        } else if ((fl & 6) == 2) {
            g265_pps(e, &g, t, cur_pps, cur_sps);
        }
        (void)cur_vps;
        int sei = (fl >> 3) & 3;
        if (sei) {
            struct rb w; rb_init(&w);
            if (sei == 1) {
                int n = 16 + tp_u8(t) % 24;
                rb_u(&w, 8, 5); rb_u(&w, 8, n);
                for (int i = 0; i < n; i++) { uint32_t r = g_rnd(&g.rnd); rb_u(&w, 8, (r & 0x100) ? r & 0xff : 0); }
            } else if (sei == 2 && g.sps[cur_sps].vui) {    /* pic_timing (D.2.3) as the VUI of the SPS shapes it */
                const struct sps265 *s = &g.sps[cur_sps];
                struct rb p; rb_init(&p);
                if (s->frame_field) { rb_u(&p, 4, psel % 13); rb_u(&p, 2, 1); rb_u(&p, 1, 0); }
                if (s->hrd) {
                    rb_u(&p, s->crd_len, g_rnd(&g.rnd)); rb_u(&p, s->dod_len, g_rnd(&g.rnd) % 5);
                    if (s->sub_pic) rb_u(&p, s->du_len, g_rnd(&g.rnd) % 5);    /* pic_dpb_output_du_delay */
                }
                if (p.bits % 8) rb_trailing(&p);
                rb_u(&w, 8, 1); rb_u(&w, 8, p.bits / 8);
                for (size_t i = 0; i < p.bits / 8; i++) rb_u(&w, 8, p.b[i]);
            } else if (sei == 2) {  /* pic_timing: pic_struct, source_scan_type, duplicate_flag (no HRD) */
                rb_u(&w, 8, 1); rb_u(&w, 8, 1);
                rb_u(&w, 4, psel % 13); rb_u(&w, 2, 1); rb_u(&w, 1, 0); rb_u(&w, 1, 1);
            } else {                /* recovery_point */
                struct rb p; rb_init(&p);
                rb_se(&p, (int)(psel % 9) - 4); rb_u(&p, 1, 1); rb_u(&p, 1, 0); rb_trailing(&p);
                rb_u(&w, 8, 6); rb_u(&w, 8, p.bits / 8);
                for (size_t i = 0; i < p.bits / 8; i++) rb_u(&w, 8, p.b[i]);
            }
            rb_trailing(&w);
            g265_simple(e, t, 39, &w, false);
        }
        /* the picture: 1-3 slice segments */
        static const int irap_types[] = { 19, 20, 21, 16, 17, 18 };
        static const int other_types[] = { 1, 0, 9, 2, 1, 8, 6, 4 };
        bool irap = a == 0 || changed || force_irap || psel % 4 == 0;
        int type = irap ? irap_types[psel / 4 % 6] : other_types[psel / 4 % 8];
        force_irap = false;
        if (!irap && !changed && (psel & 0x40)) {    /* switch to another PPS of the same SPS */
            for (int k = 1; k < 4; k++) { int c = pps_ids[(psel / 8 + k) % 4]; if (c != cur_pps && g.pps[c].valid && g.pps[c].sps_id == cur_sps) { cur_pps = c; break; } }
        }
        int nsl = 1 + (fl >> 5) % 3;
        uint8_t st = tp_u8(t);
        int slice_type = irap ? 2 : st % 3;
        for (int k = 0; k < nsl; k++)
            g265_slice(e, &g, t, type, cur_pps, k == 0, k * (1 + st % 7), k == 0 ? slice_type : (irap ? 2 : (st >> (2 * k)) % 3));
        if (fl & 0x80) {
            struct rb w; rb_init(&w);
            if ((psel & 0xc0) == 0x80) {            /* filler data */
                for (int i = 0; i < 1 + psel % 9; i++) rb_u(&w, 8, 0xff);
                rb_trailing(&w);
                g265_simple(e, t, 38, &w, false);
            } else if ((psel & 0xc0) == 0xc0) {     /* suffix SEI: user data */
                rb_u(&w, 8, 5); rb_u(&w, 8, 17);
                for (int i = 0; i < 17; i++) rb_u(&w, 8, g_rnd(&g.rnd) & 0xff);
                rb_trailing(&w);
                g265_simple(e, t, 40, &w, false);
            } else {                                /* end of sequence: the next picture is an IRAP */
                struct rb z; rb_init(&z);
                g265_simple(e, t, 36, &z, false);
                force_irap = true;
            }
        }
    }
    es_spans(e);
    h265_access_units(e);
}

#endif
